package c07

import (
	"bytes"
	"encoding/json"
	"fmt"
	"io"
	"math"
	"math/rand"
	"runtime"
	"strconv"
	"strings"
	"sync"
	"unicode/utf8"

	"github.com/invopop/gobl/c14n"

	"verifharness/internal/core"
)

// C07 has no entry in known_findings.json any more (the U+FFFD rejection was repaired in
// /repo): every failure below is reported with the empty classifier, i.e. as a VIOLATION.

// ccase is one content with its renderings (or, with Enc == "", a list of malformed texts).
type ccase struct {
	Stream   string   `json:"stream"`
	Enc      string   `json:"enc"`
	Texts    []string `json:"texts"`
	Hex      []string `json:"texts_hex,omitempty"` // the texts as bytes, when they are not valid UTF-8 (replay files are JSON)
	AllowDup bool     `json:"allow_dup,omitempty"`
	v        *JV
}

type goResult struct {
	out   string
	err   string
	panic string
	again string // "" or how a repeated MarshalJSON of the parsed value differs
}

// goCanon runs the real implementation.
func goCanon(text string) (r goResult) {
	r.panic = core.Protect(func() {
		b, err := c14n.CanonicalJSON(strings.NewReader(text))
		if err != nil {
			r.err = err.Error()
			return
		}
		r.out = string(b)
		// the canonical form is a function of the content: the object model read from the text gives
		// the same bytes however often it is asked, and those bytes are what CanonicalJSON gives
		if obj, err := c14n.UnmarshalJSON(strings.NewReader(text)); err == nil {
			for k := 1; k <= 3; k++ {
				m, merr := obj.MarshalJSON()
				if merr != nil || string(m) != r.out {
					r.again = fmt.Sprintf("MarshalJSON call %d on the value read from the text gives %q (%v), CanonicalJSON gives %q", k, short(string(m)), merr, short(r.out))
					break
				}
			}
		}
	})
	return
}

func short(s string) string {
	if len(s) > 300 {
		return s[:300] + "…"
	}
	return s
}

// rawTokens lists what json.Decoder.Token (UseNumber) yields for a text, in
// the line protocol's raw-token notation, and whether the stream ended with io.EOF.
func rawTokens(text string) (string, bool) {
	dec := json.NewDecoder(strings.NewReader(text))
	dec.UseNumber()
	var sb strings.Builder
	for {
		t, err := dec.Token()
		if err != nil {
			return sb.String(), err == io.EOF
		}
		sb.WriteByte(' ')
		switch x := t.(type) {
		case json.Delim:
			sb.WriteRune(rune(x))
		case string:
			sb.WriteString("s " + hexs(x))
		case json.Number:
			if i, err := strconv.ParseInt(string(x), 10, 64); err == nil {
				fmt.Fprintf(&sb, "i %d", i)
			} else if f, err := strconv.ParseFloat(string(x), 64); err == nil && !math.IsInf(f, 0) {
				(&JV{K: Flt, F: f}).Enc(&sb)
			} else {
				sb.WriteString("v")
			}
		case bool:
			if x {
				sb.WriteString("t")
			} else {
				sb.WriteString("f")
			}
		case nil:
			sb.WriteString("n")
		}
	}
}

type verdict struct {
	fails []func(c *core.Ctx)
}

func (v *verdict) add(f func(c *core.Ctx)) { v.fails = append(v.fails, f) }

// judge runs the oracle and the correspondence on a batch of contents.
func judge(c *core.Ctx, cases []*ccase) {
	reqs := make([]string, 0, len(cases))
	idx := make([]int, 0, len(cases))
	for i, cs := range cases {
		if cs.v != nil && !HasBig(cs.v) {
			reqs = append(reqs, "canon "+cs.Enc)
			idx = append(idx, i)
		}
	}
	resp, err := c.Model(reqs)
	if err != nil {
		c.TieBroken("drive:C07/model", err.Error(), nil)
		return
	}
	model := make([]string, len(cases))
	for k, i := range idx {
		model[i] = resp[k]
	}
	// read-tie requests: every malformed text, and a sample of the valid renderings
	type rt struct {
		ci, ti int
	}
	var rreqs []string
	var rref []rt
	for i, cs := range cases {
		for j, t := range cs.Texts {
			if cs.v == nil || HasBig(cs.v) || (i+j)%7 == 0 {
				toks, eof := rawTokens(t)
				e := "0"
				if eof {
					e = "1"
				}
				rreqs = append(rreqs, "read "+e+" "+hexs(t)+toks)
				rref = append(rref, rt{i, j})
			}
		}
	}
	rresp, err := c.Model(rreqs)
	if err != nil {
		c.TieBroken("drive:C07/model", err.Error(), nil)
		return
	}
	readOf := map[rt]string{}
	for k, r := range rref {
		readOf[r] = rresp[k]
	}

	// real code, in parallel
	results := make([][]goResult, len(cases))
	extra := make([][]string, len(cases)) // per case: idempotence output etc.
	var wg sync.WaitGroup
	nw := runtime.NumCPU()
	ch := make(chan int, 1024)
	for w := 0; w < nw; w++ {
		wg.Add(1)
		go func() {
			defer wg.Done()
			for i := range ch {
				cs := cases[i]
				rs := make([]goResult, len(cs.Texts))
				for j, t := range cs.Texts {
					rs[j] = goCanon(t)
				}
				results[i] = rs
				if len(rs) > 0 && rs[0].err == "" && rs[0].panic == "" {
					again := goCanon(rs[0].out)
					extra[i] = []string{again.out, again.err, again.panic}
				}
			}
		}()
	}
	for i := range cases {
		ch <- i
	}
	close(ch)
	wg.Wait()

	for i, cs := range cases {
		rs := results[i]
		if cs.v == nil {
			judgeMalformed(c, cs, rs, func(j int) string { return readOf[rt{i, j}] })
			continue
		}
		if HasBig(cs.v) {
			judgeUnrepresentable(c, cs, rs, func(j int) string { return readOf[rt{i, j}] })
			continue
		}
		const cls = "" // no known finding is left for C07
		replay := cs
		c.Count("stream:"+cs.Stream, 1)
		c.Count("renderings", int64(len(rs)))
		failed := false   // something was reported for this case
		reported := false // … and it was not a known finding
		fail := func(classifier, what string) {
			failed = true
			if _, known := c.KnownClassifier(classifier); !known || classifier == "" {
				reported = true
			}
			c.Fail(classifier, what, replay)
		}
		// (0) panics, rejections of valid input
		for j, r := range rs {
			if r.panic != "" {
				fail("", fmt.Sprintf("c14n.CanonicalJSON panicked on %q: %s", short(cs.Texts[j]), r.panic))
			} else if r.again != "" {
				fail("", fmt.Sprintf("the canonical form of %q depends on how often it is asked for: %s", short(cs.Texts[j]), r.again))
			}
		}
		anyErr := false
		for j, r := range rs {
			if r.err != "" && r.panic == "" {
				anyErr = true
				fail(cls, fmt.Sprintf("valid JSON text %q is rejected: %s", short(cs.Texts[j]), r.err))
				break
			}
		}
		want := Norm(cs.v)
		if !anyErr && !failed {
			// (1) all renderings agree
			for j := 1; j < len(rs); j++ {
				if rs[j].out != rs[0].out {
					fail(cls, fmt.Sprintf("two renderings of the same content canonicalise differently: %q -> %q but %q -> %q",
						short(cs.Texts[0]), short(rs[0].out), short(cs.Texts[j]), short(rs[j].out)))
					break
				}
			}
			out := rs[0].out
			// (2) the output is in canonical form and parses back to the content
			got, perr := StrictParse([]byte(out), cs.AllowDup)
			switch {
			case perr != nil:
				fail(cls, fmt.Sprintf("output %q of %q is not in the canonical form of the README: %v", short(out), short(cs.Texts[0]), perr))
			case !Equal(got, want):
				fail(cls, fmt.Sprintf("output %q of %q does not parse back to the input's content (minus null members)", short(out), short(cs.Texts[0])))
			}
			if !utf8.ValidString(out) || !json.Valid([]byte(out)) {
				fail(cls, fmt.Sprintf("output %q is not valid UTF-8 JSON", short(out)))
			}
			// (3) it canonicalises to itself
			if ex := extra[i]; ex != nil && (ex[0] != out || ex[1] != "" || ex[2] != "") {
				fail(cls, fmt.Sprintf("canonical form %q does not canonicalise to itself: %q %s%s", short(out), short(ex[0]), ex[1], ex[2]))
			}
		}
		nontrivial := false
		for j := range rs {
			if rs[j].out != cs.Texts[j] {
				nontrivial = true
			}
		}
		c.Eval(cs.Enc, nontrivial)
		// (4) specification and model
		if m := model[i]; strings.HasPrefix(m, "ok m ") {
			parts := strings.Fields(m) // ok m X s Y
			mh, sh := parts[2], parts[4]
			goh := "!"
			if !anyErr {
				goh = hexs(rs[0].out)
			}
			if sh != goh && !failed {
				fail(cls, fmt.Sprintf("c14n output differs from the README text of the content: input %q gives %q, specification gives %s",
					short(cs.Texts[0]), short(rs[0].out+rs[0].err), unhexShort(sh)))
			}
			if mh != goh && !reported {
				c.TieBroken("drive:C07/canon", fmt.Sprintf("model %s vs Go %q on %s", unhexShort(mh), short(rs[0].out+rs[0].err), short(cs.Texts[0])), replay)
			}
			if len(c.Samples) < 8 && i%997 == 3 {
				c.Sample(map[string]any{"content": short(cs.Enc), "renderings": cs.Texts, "go": rs[0].out, "model_hex": short(mh)})
			}
		} else {
			c.Count("skipped_outside_model", 1)
			if m != "undef" {
				c.TieBroken("drive:C07/protocol", "unexpected model response "+short(m)+" for "+short(cs.Enc), replay)
			}
		}
		// (5) reader tie on sampled renderings
		for j := range cs.Texts {
			if r, ok := readOf[rt{i, j}]; ok {
				checkRead(c, cs.Texts[j], rs[j], r, replay)
			}
		}
	}
}

func unhexShort(h string) string {
	if h == "!" {
		return "<rejected>"
	}
	s, err := unhex(h)
	if err != nil {
		return h
	}
	return fmt.Sprintf("%q", short(s))
}

// checkRead compares the model of CanonicalJSON (checkEncoding on the text, then the reader on
// the decoder's tokens) with the real code.
func checkRead(c *core.Ctx, text string, g goResult, resp string, replay any) {
	c.Count("reader_tie", 1)
	f := strings.Fields(resp)
	if len(f) < 5 || f[len(f)-4] != "dv" || f[len(f)-2] != "enc" {
		c.TieBroken("drive:C07/protocol", "unexpected model response "+short(resp), replay)
		return
	}
	dv, enc := f[len(f)-3], f[len(f)-1]
	if dv != "1" {
		c.TieBroken("drive:C07/decoder-automaton", fmt.Sprintf("json.Decoder emitted a token sequence the decoder model forbids on %q", short(text)), replay)
		return
	}
	// the model of checkEncoding against an independent reading of "valid encoding", on texts that
	// are JSON by syntax (elsewhere a backslash may stand outside a string literal, the two
	// scanners may then differ, and the text is rejected whatever the encoding check says)
	if want := encodingOK(text); json.Valid([]byte(text)) && (enc == "1") != want {
		c.TieBroken("drive:C07/checkEncoding", fmt.Sprintf("model checkEncoding says %s on %q, the harness's own scanner says %v", enc, short(text), want), replay)
		return
	}
	if enc == "0" {
		c.Count("reader_tie:encoding_rejected", 1)
	}
	switch f[0] {
	case "ok":
		if g.err != "" || g.panic != "" || hexs(g.out) != f[1] {
			c.TieBroken("drive:C07/reader", fmt.Sprintf("model reader accepts %q as %s, Go gives %q %s%s", short(text), unhexShort(f[1]), short(g.out), g.err, g.panic), replay)
		}
	case "err":
		if g.err == "" {
			c.TieBroken("drive:C07/reader", fmt.Sprintf("model reader rejects %q, Go gives %q %s", short(text), short(g.out), g.panic), replay)
		}
	default:
		c.TieBroken("drive:C07/reader", fmt.Sprintf("model reader yields a nil value on %q", short(text)), replay)
	}
}

// encodingOK is the harness's own reading of README rule 1 / 8.3 on a JSON text: the bytes are
// valid UTF-8 and, read with a string-aware scanner (escapes only count inside string literals),
// every \uXXXX escape of a UTF-16 surrogate is a high half followed at once by the escape of a low half.
func encodingOK(text string) bool {
	if !utf8.ValidString(text) {
		return false
	}
	unit := func(i int) int { // the code unit of the escape starting at text[i], or -1
		if i+6 > len(text) || text[i] != '\\' || text[i+1] != 'u' {
			return -1
		}
		v, err := strconv.ParseUint(text[i+2:i+6], 16, 16)
		if err != nil || strings.ContainsAny(text[i+2:i+6], "+-_") {
			return -1
		}
		return int(v)
	}
	inStr := false
	for i := 0; i < len(text); {
		switch {
		case !inStr:
			if text[i] == '"' {
				inStr = true
			}
			i++
		case text[i] == '"':
			inStr = false
			i++
		case text[i] != '\\':
			i++
		default:
			u := unit(i)
			switch {
			case u >= 0xD800 && u < 0xDC00:
				if lo := unit(i + 6); lo < 0xDC00 || lo >= 0xE000 {
					return false
				}
				i += 12
			case u >= 0xDC00 && u < 0xE000:
				return false
			case u >= 0:
				i += 6
			default:
				i += 2
			}
		}
	}
	return true
}

// judgeMalformed: every text of the case is not one complete JSON value and must be rejected.
func judgeMalformed(c *core.Ctx, cs *ccase, rs []goResult, read func(int) string) {
	for j, t := range cs.Texts {
		c.Count("stream:"+cs.Stream, 1)
		c.Eval("malformed:"+t, true)
		one := &ccase{Stream: cs.Stream, Texts: []string{t}}
		if !utf8.ValidString(t) {
			one.Hex = []string{hexs(t)}
		}
		r := rs[j]
		switch {
		case r.panic != "":
			c.Fail("", fmt.Sprintf("c14n.CanonicalJSON panicked on malformed input %q: %s", short(t), r.panic), one)
		case r.err == "" && cs.Stream == "invalid-utf8":
			c.Fail("", fmt.Sprintf("input %q is not valid UTF-8 (README rule 1: a document with invalid character encoding will be rejected) but is accepted as %q",
				short(t), short(r.out)), one)
		case r.err == "" && cs.Stream == "unpaired-surrogate-escape":
			c.Fail("", fmt.Sprintf("input %q has the escape of a UTF-16 surrogate without its other half (no character, no UTF-8 encoding: README rule 8.3) but is accepted as %q, which is also the canonical form of the different text %q",
				short(t), short(r.out), short(r.out)), one)
		case r.err == "":
			c.Fail("", fmt.Sprintf("input %q is not one complete JSON value but is accepted as %q", short(t), short(r.out)), one)
		default:
			c.Count("malformed_rejected", 1)
		}
		if rr := read(j); rr != "" {
			checkRead(c, t, r, rr, one)
		}
	}
}

// judgeUnrepresentable: the content has a number beyond float64.  c14n limits numbers to 64
// bits, so there is no canonical form for it: every rendering must be rejected (an error, not a
// panic) and never be canonicalised as some other content (it used to be read as null).
func judgeUnrepresentable(c *core.Ctx, cs *ccase, rs []goResult, read func(int) string) {
	c.Count("stream:"+cs.Stream, 1)
	c.Count("renderings", int64(len(rs)))
	for j, r := range rs {
		t := cs.Texts[j]
		bad := true
		switch {
		case r.panic != "":
			c.Fail("", fmt.Sprintf("c14n.CanonicalJSON panicked on %q (a number beyond float64): %s", short(t), r.panic), cs)
		case r.err == "":
			c.Fail("", fmt.Sprintf("input %q has a number beyond float64, which c14n cannot represent, but it is accepted and canonicalised as %q: read as different content instead of being rejected",
				short(t), short(r.out)), cs)
		default:
			bad = false
			c.Count("unrepresentable_rejected", 1)
		}
		if rr := read(j); rr != "" && !bad {
			checkRead(c, t, r, rr, cs)
		}
	}
	c.Eval(cs.Enc, true)
}

// withBig returns a copy of v in which one leaf (or, if there is none, the value itself) is
// replaced by a number beyond float64.
func withBig(v *JV, raw string, r *rand.Rand) *JV {
	var leaves int
	v.Walk(func(x *JV, _ bool, _ string) {
		if x.K != Arr && x.K != Obj {
			leaves++
		}
	})
	if leaves == 0 {
		return &JV{K: Arr, A: []*JV{v, {K: Big, Raw: raw}}}
	}
	pick, n := r.Intn(leaves), 0
	var cp func(x *JV) *JV
	cp = func(x *JV) *JV {
		switch x.K {
		case Arr:
			y := &JV{K: Arr}
			for _, e := range x.A {
				y.A = append(y.A, cp(e))
			}
			return y
		case Obj:
			y := &JV{K: Obj}
			for _, m := range x.M {
				y.M = append(y.M, Member{m.K, cp(m.V)})
			}
			return y
		}
		n++
		if n-1 == pick {
			return &JV{K: Big, Raw: raw}
		}
		c := *x
		return &c
	}
	return cp(v)
}

// renderings of one content
func renderAll(v *JV, r *rand.Rand, n int) []string {
	texts := make([]string, 0, n)
	dup := HasDupKeys(v)
	for k := 0; k < n; k++ {
		st := Style{WS: k % 3, Shuffle: k > 0 && !dup, Esc: k % 5, Num: k % 5, NegZero: k%2 == 1}
		if k >= 5 {
			st = Style{WS: r.Intn(3), Shuffle: !dup && r.Intn(2) == 0, Esc: r.Intn(5), Num: r.Intn(5), NegZero: r.Intn(2) == 0}
		}
		t, _ := Render(v, st, r)
		texts = append(texts, t)
	}
	return texts
}

func mk(stream string, v *JV, texts []string) *ccase {
	return &ccase{Stream: stream, Enc: v.EncString(), Texts: texts, v: v, AllowDup: HasDupKeys(v)}
}

func count(c *core.Ctx, v *JV) {
	c.Count(fmt.Sprintf("depth:%d", v.Depth()), 1)
	v.Walk(func(x *JV, isMember bool, key string) {
		switch x.K {
		case Null:
			if isMember {
				c.Count("null:member", 1)
			} else {
				c.Count("null:element_or_top", 1)
			}
		case Int:
			switch {
			case x.I == math.MinInt64 || x.I == math.MaxInt64:
				c.Count("int:int64_boundary", 1)
			case x.I < 0:
				c.Count("int:negative", 1)
			default:
				c.Count("int:nonnegative", 1)
			}
		case Flt:
			neg, ds, e := FloatDigits(x.F)
			switch {
			case ds == "0" && neg:
				c.Count("float:-0.0", 1)
			case ds == "0":
				c.Count("float:0.0", 1)
			case e < 0:
				c.Count("float:exp<0", 1)
			default:
				c.Count("float:exp>=0", 1)
			}
			if neg {
				c.Count("float:negative", 1)
			}
			if x.F == math.Trunc(x.F) {
				c.Count("float:integral_value", 1)
			}
		case Obj:
			c.Count(fmt.Sprintf("object_members:%d", min(len(x.M), 5)), 1)
			if len(x.M) > 0 {
				if x.M[0].V.K == Null {
					c.Count("null:first_member", 1)
				}
				if x.M[len(x.M)-1].V.K == Null {
					c.Count("null:last_member", 1)
				}
			}
		}
		if isMember {
			switch {
			case key == "":
				c.Count("key:empty", 1)
			case strings.ContainsAny(key, "\"\\\n\t\r\b\f") || hasCtl(key):
				c.Count("key:needs_escape", 1)
			case isASCII(key):
				c.Count("key:ascii", 1)
			default:
				c.Count("key:non_ascii", 1)
			}
		}
	})
}

func hasCtl(s string) bool {
	for _, r := range s {
		if r < 0x20 {
			return true
		}
	}
	return false
}

func isASCII(s string) bool {
	for i := 0; i < len(s); i++ {
		if s[i] >= 0x80 {
			return false
		}
	}
	return true
}

const mutAlphabet = "{}[],:\"\\ 01e.-tn"

var fixedTexts = []string{
	`{ "foo":"bar", "c": 123.4, "a": 56, "b": 0.0, "y":null}`,
	`{"a":null,"b":1}`, `{"b":1,"a":null}`, `{"a":null}`, `{"a":null,"b":null,"c":1,"d":null}`, `[null,{"a":null},null]`,
	`-1.5`, `-0.0`, `-0`, `0`, `1.0`, `1E2`, `100`, `[1,2]`, `{"a":1}`, "\"\u00e9\"", "\"\\u00e9\"", "\"\U0001f600\"", `"\/"`, `"\u007f"`,
	"{\"\uffff\":1,\"\U00010000\":2,\"\ue000\":3}", `{"a":{"b":{"c":{"d":{"e":{"f":[1.5,null]}}}}}}`,
	`"\ud83d\ude00"`, `{"\u0000":"\u001f","\"":"\\"}`,
}

// contentOf reads a JSON text into a JV with the harness's own reading of
// "content" (integer literal inside int64 → Int, other numbers → float64).
func contentOf(text string) (*JV, error) {
	dec := json.NewDecoder(strings.NewReader(text))
	dec.UseNumber()
	var x any
	if err := dec.Decode(&orderedAny{&x}); err != nil {
		return nil, err
	}
	return x.(*JV), nil
}

// orderedAny decodes JSON keeping member order and duplicates.
type orderedAny struct{ p *any }

func (o *orderedAny) UnmarshalJSON(b []byte) error {
	dec := json.NewDecoder(bytes.NewReader(b))
	dec.UseNumber()
	v, err := readValue(dec)
	if err != nil {
		return err
	}
	*o.p = v
	return nil
}

func readValue(dec *json.Decoder) (*JV, error) { return readValueK(dec, false) }

// readValueK: with keep, non-integer numbers remember their literal (Raw) so that a
// re-rendering writes them unchanged.
func readValueK(dec *json.Decoder, keep bool) (*JV, error) {
	t, err := dec.Token()
	if err != nil {
		return nil, err
	}
	switch x := t.(type) {
	case json.Delim:
		if x == '[' {
			v := &JV{K: Arr}
			for dec.More() {
				e, err := readValueK(dec, keep)
				if err != nil {
					return nil, err
				}
				v.A = append(v.A, e)
			}
			_, err := dec.Token()
			return v, err
		}
		v := &JV{K: Obj}
		for dec.More() {
			k, err := dec.Token()
			if err != nil {
				return nil, err
			}
			e, err := readValueK(dec, keep)
			if err != nil {
				return nil, err
			}
			v.M = append(v.M, Member{k.(string), e})
		}
		_, err := dec.Token()
		return v, err
	case string:
		return &JV{K: Str, S: x}, nil
	case json.Number:
		if i, err := strconv.ParseInt(string(x), 10, 64); err == nil {
			return &JV{K: Int, I: i}, nil
		}
		if f, err := strconv.ParseFloat(string(x), 64); err == nil && !math.IsInf(f, 0) {
			if keep {
				return &JV{K: Flt, F: f, Raw: string(x)}, nil
			}
			return &JV{K: Flt, F: f}, nil
		}
		return &JV{K: Big, Raw: string(x)}, nil
	case bool:
		return &JV{K: Bool, B: x}, nil
	}
	return &JV{K: Null}, nil
}

// ContentOf is exported for C08.
func ContentOf(text string) (*JV, error) { return contentOf(text) }

// ContentOfKeep is ContentOf that keeps the literals of non-integer numbers.
func ContentOfKeep(text string) (*JV, error) {
	dec := json.NewDecoder(strings.NewReader(text))
	dec.UseNumber()
	return readValueK(dec, true)
}

// Run is the C07 correspondence and oracle run.
func Run(c *core.Ctx) int {
	var rc ccase
	if c.ReplayCase(&rc) {
		for i, h := range rc.Hex {
			if t, err := unhex(h); err == nil && i < len(rc.Texts) {
				rc.Texts[i] = t
			}
		}
		if rc.Stream == "object-model-string" {
			objectModelStrings(c, rc.Texts)
			return c.Finish("replay", nil)
		}
		if rc.Stream == "size" || rc.Stream == "delivery" {
			sizeReplay(c, &rc)
			return c.Finish("replay", nil)
		}
		if rc.Enc != "" {
			v, _, err := Dec(strings.Fields(rc.Enc))
			if err != nil {
				// contents with a number beyond float64 have no encoding: take the first text
				v, err = contentOf(rc.Texts[0])
				if err != nil {
					fmt.Println("replay:", err)
					return 2
				}
			}
			rc.v = v
		}
		judge(c, []*ccase{&rc})
		return c.Finish("replay", nil)
	}
	r := c.Rng
	g := &gen{r: r}
	var cases []*ccase
	flush := func() {
		if len(cases) > 0 {
			judge(c, cases)
			cases = cases[:0]
		}
	}
	add := func(cs *ccase) {
		cases = append(cases, cs)
		if len(cases) >= 40000 {
			flush()
		}
	}

	// (A) fixed texts from the README and from reading the code
	for _, t := range fixedTexts {
		v, err := contentOf(t)
		if err != nil {
			panic(err)
		}
		count(c, v)
		add(mk("fixed", v, append([]string{t}, renderAll(v, r, 5)...)))
	}
	// (B) every null / non-null pattern in objects and arrays of up to four slots
	for _, v := range nullPatterns() {
		count(c, v)
		add(mk("null-patterns", v, renderAll(v, r, 4)))
	}
	// (C) random documents, depth ≤ 6
	nd := c.Pick(30000, 1000000)
	for i := 0; i < nd; i++ {
		v := g.value(r.Intn(7))
		count(c, v)
		add(mk("random", v, renderAll(v, r, 4)))
	}
	// (D) chains nested exactly 6 deep
	for i := 0; i < c.Pick(300, 5000); i++ {
		v := g.deep(6)
		count(c, v)
		add(mk("deep6", v, renderAll(v, r, 3)))
	}
	// (E) numbers: integers across int64, floats of every kind, each alone and in a pair
	for _, i := range intBoundaries {
		v := &JV{K: Int, I: i}
		add(mk("int-boundary", v, renderAll(v, r, 2)))
	}
	for _, t := range floatTexts {
		f, _ := strconv.ParseFloat(t, 64)
		v := &JV{K: Flt, F: f}
		add(mk("float-special", v, append([]string{t}, renderAll(v, r, 5)...)))
	}
	for i := 0; i < c.Pick(20000, 500000); i++ {
		var v *JV
		if i%3 == 0 {
			v = &JV{K: Int, I: g.int_()}
		} else {
			v = &JV{K: Flt, F: g.float_()}
		}
		count(c, v)
		add(mk("numbers", &JV{K: Arr, A: []*JV{v}}, renderAll(&JV{K: Arr, A: []*JV{v}}, r, 5)))
	}
	// (F) duplicate keys: outside the quantifier ("duplicate-free"); both members are kept, in input order
	for i := 0; i < c.Pick(300, 5000); i++ {
		v := g.withDupKeys()
		add(mk("duplicate-keys(outside quantifier)", v, renderAll(v, r, 3)))
	}
	// (G) U+FFFD inside a string or a key (a character like any other: the literal character, \ufffd and \uFFFD
	// are renderings of the same content), and as the key of a null member (dropped)
	for i := 0; i < c.Pick(200, 3000); i++ {
		s := g.str() + "\ufffd" + g.str()
		var v *JV
		switch i % 5 {
		case 0:
			v = &JV{K: Str, S: s}
		case 1:
			v = &JV{K: Obj, M: []Member{{"a", &JV{K: Int, I: 1}}, {s, &JV{K: Bool, B: true}}}}
		case 2:
			v = &JV{K: Arr, A: []*JV{{K: Null}, {K: Str, S: s}}}
		case 3:
			v = &JV{K: Obj, M: []Member{{s, &JV{K: Str, S: s}}, {"\ufffc", &JV{K: Int, I: 1}}, {"\ufffe", &JV{K: Int, I: 2}}, {"\U00010000", &JV{K: Int, I: 3}}}}
		default:
			v = &JV{K: Obj, M: []Member{{s, &JV{K: Null}}, {"b", &JV{K: Int, I: 2}}}} // key of a null member: dropped
		}
		count(c, v)
		add(mk("u+fffd", v, renderAll(v, r, 6)))
	}
	// (H) numbers beyond float64: not representable, every text that has one must be rejected
	bigs := []string{"1e999", "-1e999", "1E309", "2e308", "-1.8e308", "1" + strings.Repeat("0", 400), "1e400", "123456789e301", "1.7976931348623159e308", "-0.1e310"}
	for _, raw := range bigs {
		if f, err := strconv.ParseFloat(raw, 64); err == nil || !math.IsInf(f, 0) {
			panic("harness: " + raw + " is not beyond float64")
		}
		b := &JV{K: Big, Raw: raw}
		for _, v := range []*JV{b, {K: Arr, A: []*JV{b}}, {K: Obj, M: []Member{{"a", b}, {"b", &JV{K: Int, I: 1}}}},
			{K: Arr, A: []*JV{{K: Null}, b, {K: Null}}}, {K: Obj, M: []Member{{"a", &JV{K: Null}}, {"z", &JV{K: Arr, A: []*JV{{K: Obj, M: []Member{{"n", b}}}}}}}}} {
			texts := renderAll(v, r, 2)
			add(&ccase{Stream: "beyond-float64", Enc: "big:" + raw + ":" + v.EncString(), Texts: texts, v: v})
		}
	}
	for i := 0; i < c.Pick(300, 5000); i++ {
		raw := bigs[r.Intn(len(bigs))]
		v := withBig(g.value(r.Intn(5)), raw, r)
		add(&ccase{Stream: "beyond-float64", Enc: "big:" + raw + ":" + v.EncString(), Texts: renderAll(v, r, 2), v: v})
	}
	// (I) integer literals beyond int64 are read as float64 (outside the quantifier "integers across int64"; informational)
	var beyond []string
	for _, raw := range []string{"9223372036854775808", "9223372036854775809", "-9223372036854775809", "18446744073709551616", "123456789012345678901234567890", "1" + strings.Repeat("0", 25)} {
		f, _ := strconv.ParseFloat(raw, 64)
		v := &JV{K: Flt, F: f, Raw: raw}
		add(mk("int-literal-beyond-int64(outside quantifier)", v, []string{raw, " " + raw + "\n"}))
		beyond = append(beyond, raw+" -> "+goCanon(raw).out)
	}
	c.Note("integer literals beyond int64 are read as float64 (README: 'limiting numbers to 64 bits'; the property quantifies over integers across int64): %s", strings.Join(beyond, "; "))
	flush()

	// (J) every single-character string, as a value and (lower planes) as a key
	sweep := func(lo, hi rune, step int, keyToo bool) {
		for cp := lo; cp <= hi; cp += rune(step) {
			if cp >= 0xD800 && cp <= 0xDFFF {
				continue // not scalar values
			}
			s := string(cp)
			v := &JV{K: Str, S: s}
			texts := []string{`"` + EscapeRune(cp, 2, r) + `"`, `"` + EscapeRune(cp, 3, r) + `"`}
			if literalOK(cp) {
				texts = append(texts, `"`+s+`"`)
			}
			if e, ok := shortEsc[cp]; ok {
				texts = append(texts, `"`+e+`"`)
			}
			add(mk("single-char", v, texts))
			if keyToo {
				o := &JV{K: Obj, M: []Member{{"m", &JV{K: Int, I: 1}}, {s, &JV{K: Int, I: 2}}, {s + "a", &JV{K: Null}}}}
				add(mk("single-char-key", o, renderAll(o, r, 2)))
			}
		}
	}
	if c.Thorough() {
		sweep(0, 0x7FF, 1, true)
		sweep(0x800, 0x10FFFF, 1, false)
	} else {
		sweep(0, 0x7FF, 1, true)
		sweep(0x800, 0x10FFFF, 251, false)
		sweep(0xFFF0, 0x1000F, 1, true)
	}
	flush()

	// (K) malformed inputs: must be rejected
	mal := &ccase{Stream: "malformed"}
	mal.Texts = append(mal.Texts, "", " ", "\n\t \r", "]", "}", ",", ":", "[", "{", "[]]", "{}}", "[}", "{]", `{"a"}`, `{"a":}`, `{"a":1,}`, `[1,]`, `[,1]`, `{,}`,
		`{"a":`, `{"a"`, `{"a":1`, `[1,2`, `[1,`, `1 2`, `{"a":1} x`, `{"a":1}{"a":1}`, `[] []`, `null null`, `nul`, `tru`, `fals`, `"abc`, `"a\`, `"\u12"`, `"\x"`,
		"\"a\nb\"", "\"a\tb\"", "\"\x00\"", `01`, `00`, `-`, `+1`, `.5`, `1.`, `1e`, `1e+`, `0x10`, `1_000`, `NaN`, `Infinity`, `-Infinity`, `'a'`, `{a:1}`, `{"a" 1}`, `[1 2]`,
		`// c`+"\n1", `/* c */ 1`, "\ufeff1", `{"a":1}`+"\x00", `[1]]`, `{"a":[1,2}`, `{"a":{"b":1}`, `["a":1]`, `{"a":1,"b"}`, `{1:2}`, `{null:1}`, `{"a":1 "b":2}`)
	nm := c.Pick(400, 6000)
	for i := 0; i < nm; i++ {
		v := g.value(1 + r.Intn(4))
		if HasBig(v) {
			continue
		}
		st := Style{WS: r.Intn(3), Esc: r.Intn(5), Num: r.Intn(5)}
		t, bounds := Render(v, st, r)
		// truncated after every token but the last
		for _, b := range bounds[:len(bounds)-1] {
			mal.Texts = append(mal.Texts, t[:b])
			c.Count("malformed:truncated", 1)
		}
		// trailing data
		for _, tr := range []string{" 1", "x", "]", "}", ",", " null", " " + t, " {}", "\"\""} {
			mal.Texts = append(mal.Texts, t+tr)
			c.Count("malformed:trailing", 1)
		}
		// one byte deleted / replaced / inserted, judged by encoding/json's validity
		for k := 0; k < 6 && len(t) > 0; k++ {
			p := r.Intn(len(t))
			var m string
			switch k % 3 {
			case 0:
				m = t[:p] + t[p+1:]
			case 1:
				m = t[:p] + string(mutAlphabet[r.Intn(len(mutAlphabet))]) + t[p+1:]
			default:
				m = t[:p] + string(mutAlphabet[r.Intn(len(mutAlphabet))]) + t[p:]
			}
			if !json.Valid([]byte(m)) {
				mal.Texts = append(mal.Texts, m)
				c.Count("malformed:mutated", 1)
			}
		}
		if len(mal.Texts) > 30000 {
			judge(c, []*ccase{mal})
			mal = &ccase{Stream: "malformed"}
		}
	}
	judge(c, []*ccase{mal})
	// (K2) one complete value with white space that is not JSON whitespace (or an invisible character) around it
	for _, cs := range unicodeSpaceCases(c, g, r) {
		judge(c, []*ccase{cs})
	}

	// (L) invalid character encoding in the raw text: must be rejected (README rules 1 and 8.3), never read as U+FFFD
	bad := &ccase{Stream: "invalid-utf8"}
	invalidSeqs := []string{"\xff", "\xfe", "\x80", "\xbf", "\xc0\xaf", "\xc1\xbf", "\xc2", "\xe0\x80\x80", "\xe0\x9f\xbf", "\xed\xa0\x80", "\xed\xbf\xbf",
		"\xef\xbf", "\xe2\x82", "\xf0\x80\x80\x80", "\xf0\x8f\xbf\xbf", "\xf4\x90\x80\x80", "\xf5\x80\x80\x80", "\xf0\x9f\x98", "\xf8\x88\x80\x80\x80", "\xed\xa0\xbd\xed\xb8\x80"}
	for _, q := range invalidSeqs {
		bad.Texts = append(bad.Texts, `"`+q+`"`, `"a`+q+`b"`, `["`+q+`"]`, `{"`+q+`":1}`, `{"k":"`+q+`"}`, `{"`+q+`":null,"b":1}`, `{"a":1}`+q, q+`1`, `[1,`+q+`2]`,
			`"\ufffd`+q+`"`, "\"\ufffd"+q+"\"")
	}
	for i := 0; i < c.Pick(400, 6000); i++ {
		v := g.value(1 + r.Intn(4))
		if HasBig(v) {
			continue
		}
		t, _ := Render(v, Style{WS: r.Intn(3), Esc: r.Intn(5), Num: r.Intn(5)}, r)
		q := invalidSeqs[r.Intn(len(invalidSeqs))]
		p := r.Intn(len(t) + 1)
		var m string
		if r.Intn(2) == 0 || p == len(t) {
			m = t[:p] + q + t[p:]
		} else {
			m = t[:p] + q + t[p+1:]
		}
		if !utf8.ValidString(m) { // cutting a multi-byte character and pasting may, rarely, give valid text
			bad.Texts = append(bad.Texts, m)
			c.Count("invalid-utf8:mutated", 1)
		}
	}
	judge(c, []*ccase{bad})

	lone := &ccase{Stream: "unpaired-surrogate-escape"}
	hexForms := []string{"%04x", "%04X"}
	for i := 0; i < c.Pick(600, 10000); i++ {
		var sb strings.Builder
		esc := r.Intn(5)
		for _, ch := range g.str() {
			sb.WriteString(EscapeRune(ch, esc, r))
		}
		// one or two surrogate escapes that are no pair: a lone half, two high halves, low before high, halves apart
		u := func(x int) string { return "\\u" + fmt.Sprintf(hexForms[r.Intn(2)], x) }
		hi, lo := 0xD800+r.Intn(0x400), 0xDC00+r.Intn(0x400)
		switch i % 8 {
		case 0:
			sb.WriteString(u(hi))
		case 1:
			sb.WriteString(u(lo))
		case 2:
			sb.WriteString(u(lo) + u(hi))
		case 3:
			sb.WriteString(u(hi) + u(hi) + u(lo))
		case 4:
			sb.WriteString(u(hi) + "x" + u(lo))
		case 5:
			sb.WriteString(u(hi) + u(0x41+r.Intn(26)))
		case 6:
			sb.WriteString(u(hi) + u(lo) + u(lo))
		default:
			sb.WriteString("\\\\" + u(hi)) // an escaped backslash, then a lone half
		}
		if i%8 != 0 && i%8 != 3 && i%8 != 5 || r.Intn(2) == 0 { // after a high half the suffix must not begin with a low half: it never does (astral characters are written high first)
			for _, ch := range g.str() {
				sb.WriteString(EscapeRune(ch, esc, r))
			}
		}
		lit := `"` + sb.String() + `"`
		var t string
		switch r.Intn(6) {
		case 0:
			t = lit
		case 1:
			t = "[" + lit + "]"
		case 2:
			t = `{"k":` + lit + `}`
		case 3:
			t = "{" + lit + `:1}`
		case 4:
			t = "{" + lit + `:null,"b":[]}`
		default:
			t = `[{"a":[null,` + lit + `]}, 1.5]`
		}
		if !json.Valid([]byte(t)) || encodingOK(t) {
			panic("harness: " + t + " is not a JSON text with an unpaired surrogate escape")
		}
		lone.Texts = append(lone.Texts, t)
		c.Count(fmt.Sprintf("unpaired-surrogate:kind%d", i%8), 1)
	}
	judge(c, []*ccase{lone})

	// (M) the object model used directly: String.MarshalJSON on Go strings (README 8.3: a string with
	// invalid encoding is refused; every valid one, U+FFFD included, is encoded as CanonicalJSON encodes it)
	var oms []string
	for _, q := range invalidSeqs {
		oms = append(oms, q, "a"+q, q+"b", "\ufffd"+q)
	}
	for i := 0; i < c.Pick(300, 5000); i++ {
		s := g.str()
		if i%3 == 0 {
			s += "\ufffd" + g.str()
		}
		oms = append(oms, s)
	}
	objectModelStrings(c, oms)

	// (S) size and delivery independence (long.go): whitespace, strings and arrays of every length
	// around the powers of two up to 32 MiB; the same text through readers that deliver it in pieces
	sizeFamily(c, g, r)

	return c.Finish("contents generated type-directed (depth ≤ 6, null patterns, key classes, int64 boundaries, float64 of every kind, every scalar value as a one-character string), each rendered in 2–6 styles (member order, whitespace, escape style, number spelling); a text with a number beyond float64, with bytes that are not valid UTF-8 or with the escape of an unpaired UTF-16 surrogate must be rejected (U+FFFD itself is a character like any other); oracle on the Go output: all renderings agree, output parses with an independent strict canonical-form parser to the content minus null members, is valid UTF-8 JSON, canonicalises to itself, equals the README text computed by the Lean specification; then compared with the Lean model of the code (canon, and CanonicalJSON on the text's bytes — checkEncoding, also compared with the harness's own scanner — plus json.Decoder's tokens); c14n.String(s).MarshalJSON() directly on valid and invalid Go strings; malformed inputs must be rejected, among them one complete value preceded / followed (start, end, both; alone and mixed with JSON whitespace) or interrupted between two tokens by each Unicode white-space character that is not one of JSON's four (taken from the Unicode tables: White_Space, Z*, unicode.IsSpace) and by NUL, BOM, zero-width and other invisible characters; size independence: a value with 2^k-1, 2^k, 2^k+1 bytes (k = 9..25) of JSON whitespace before it, after it or inside it, strings and arrays of those lengths, and texts whose offending character comes that far after a complete value, are judged like the same text with one space; delivery independence: the same text read in one piece, byte by byte, in halves, with data+EOF and in fixed and random pieces gives the same result; non-trivial = canonicalisation changed the text of some rendering; distinct by content",
		map[string]any{"float_digits": "the harness sends the digits/exponent strconv.FormatFloat(f,'E',-1,64) produces for the float64 of each non-integer number (strconv trusted); the strict parser re-reads the output digits with strconv.ParseFloat and checks they are the shortest digits of that float64"})
}

// objectModelStrings: c14n.String(s).MarshalJSON() fails exactly for Go strings that are not valid
// UTF-8 and otherwise gives what CanonicalJSON gives for a JSON text of that string.
func objectModelStrings(c *core.Ctx, ss []string) {
	for _, s := range ss {
		c.Count("stream:object-model-string", 1)
		c.Eval("oms:"+s, true)
		replay := &ccase{Stream: "object-model-string", Texts: []string{s}}
		if !utf8.ValidString(s) {
			replay.Hex = []string{hexs(s)}
		}
		var out []byte
		var err error
		if p := core.Protect(func() { out, err = c14n.String(s).MarshalJSON() }); p != "" {
			c.Fail("", fmt.Sprintf("c14n.String(%q).MarshalJSON panicked: %s", short(s), p), replay)
			continue
		}
		switch {
		case !utf8.ValidString(s):
			c.Count("object-model-string:invalid", 1)
			if err == nil {
				c.Fail("", fmt.Sprintf("c14n.String(%q), a string with invalid encoding, is encoded as %q instead of being refused (README rule 8.3)", short(s), short(string(out))), replay)
			}
		case err != nil:
			c.Fail("", fmt.Sprintf("c14n.String(%q), a valid string, is refused: %v", short(s), err), replay)
		default:
			var sb strings.Builder
			sb.WriteByte('"')
			for _, ch := range s {
				sb.WriteString(EscapeRune(ch, 2, nil))
			}
			sb.WriteByte('"')
			if g := goCanon(sb.String()); g.err != "" || g.out != string(out) {
				c.Fail("", fmt.Sprintf("c14n.String(%q).MarshalJSON gives %q, CanonicalJSON of %s gives %q %s", short(s), short(string(out)), short(sb.String()), short(g.out), g.err), replay)
			}
		}
	}
}
