// Package c07 ties the Lean model of /repo/c14n and the README specification
// of canonical JSON to the real c14n.CanonicalJSON.
package c07

import (
	"fmt"
	"math"
	"sort"
	"strconv"
	"strings"
)

// Kind of a JSON value as the property distinguishes them.
type Kind int

// Kinds.
const (
	Null Kind = iota
	Bool
	Int // an integer literal inside int64
	Flt // any other number that float64 can hold: content is the float64
	Big // a number whose magnitude is beyond float64 (outside what c14n can represent)
	Str
	Arr
	Obj
)

// JV is a JSON value (content).
type JV struct {
	K   Kind
	B   bool
	I   int64
	F   float64 // Flt: the float64
	Raw string  // Big: the literal
	S   string
	A   []*JV
	M   []Member
}

// Member of an object.
type Member struct {
	K string
	V *JV
}

// FloatDigits returns what strconv makes of a finite float64: sign, shortest
// decimal digits and the decimal exponent of d0.d1… (strconv is trusted here).
func FloatDigits(f float64) (neg bool, digits string, exp int) {
	s := strconv.FormatFloat(f, 'E', -1, 64)
	if s[0] == '-' {
		neg = true
		s = s[1:]
	}
	i := strings.IndexByte(s, 'E')
	m, e := s[:i], s[i+1:]
	digits = strings.Replace(m, ".", "", 1)
	exp, _ = strconv.Atoi(e)
	return
}

// Enc writes the value in the prefix notation of the line protocol.
func (v *JV) Enc(sb *strings.Builder) {
	switch v.K {
	case Null:
		sb.WriteString("n")
	case Bool:
		if v.B {
			sb.WriteString("t")
		} else {
			sb.WriteString("f")
		}
	case Int:
		fmt.Fprintf(sb, "i %d", v.I)
	case Flt:
		neg, ds, e := FloatDigits(v.F)
		n := 0
		if neg {
			n = 1
		}
		fmt.Fprintf(sb, "d %d %s %d", n, ds, e)
	case Big:
		sb.WriteString("v") // only meaningful as a raw token
	case Str:
		sb.WriteString("s " + hexs(v.S))
	case Arr:
		fmt.Fprintf(sb, "a %d", len(v.A))
		for _, x := range v.A {
			sb.WriteByte(' ')
			x.Enc(sb)
		}
	case Obj:
		fmt.Fprintf(sb, "o %d", len(v.M))
		for _, m := range v.M {
			sb.WriteString(" " + hexs(m.K) + " ")
			m.V.Enc(sb)
		}
	}
}

// EncString is Enc into a string.
func (v *JV) EncString() string {
	var sb strings.Builder
	v.Enc(&sb)
	return sb.String()
}

func hexs(s string) string {
	if s == "" {
		return "-"
	}
	return fmt.Sprintf("%x", s)
}

func unhex(s string) (string, error) {
	if s == "-" {
		return "", nil
	}
	if len(s)%2 != 0 {
		return "", fmt.Errorf("odd hex")
	}
	b := make([]byte, len(s)/2)
	for i := range b {
		x, err := strconv.ParseUint(s[2*i:2*i+2], 16, 8)
		if err != nil {
			return "", err
		}
		b[i] = byte(x)
	}
	return string(b), nil
}

// Dec reads a value in prefix notation.
func Dec(toks []string) (*JV, []string, error) {
	if len(toks) == 0 {
		return nil, nil, fmt.Errorf("empty")
	}
	switch toks[0] {
	case "n":
		return &JV{K: Null}, toks[1:], nil
	case "t":
		return &JV{K: Bool, B: true}, toks[1:], nil
	case "f":
		return &JV{K: Bool}, toks[1:], nil
	case "i":
		i, err := strconv.ParseInt(toks[1], 10, 64)
		return &JV{K: Int, I: i}, toks[2:], err
	case "d":
		// rebuild the float64 from its shortest digits
		txt := toks[2][:1] + "." + toks[2][1:] + "0E" + toks[3]
		if toks[1] == "1" {
			txt = "-" + txt
		}
		f, err := strconv.ParseFloat(txt, 64)
		return &JV{K: Flt, F: f}, toks[4:], err
	case "s":
		s, err := unhex(toks[1])
		return &JV{K: Str, S: s}, toks[2:], err
	case "a":
		n, err := strconv.Atoi(toks[1])
		if err != nil {
			return nil, nil, err
		}
		v := &JV{K: Arr}
		r := toks[2:]
		for i := 0; i < n; i++ {
			var x *JV
			x, r, err = Dec(r)
			if err != nil {
				return nil, nil, err
			}
			v.A = append(v.A, x)
		}
		return v, r, nil
	case "o":
		n, err := strconv.Atoi(toks[1])
		if err != nil {
			return nil, nil, err
		}
		v := &JV{K: Obj}
		r := toks[2:]
		for i := 0; i < n; i++ {
			k, err := unhex(r[0])
			if err != nil {
				return nil, nil, err
			}
			var x *JV
			x, r, err = Dec(r[1:])
			if err != nil {
				return nil, nil, err
			}
			v.M = append(v.M, Member{k, x})
		}
		return v, r, nil
	}
	return nil, nil, fmt.Errorf("bad token %q", toks[0])
}

// Norm is the logical content: null members dropped at every depth, members
// sorted by key (bytes of the UTF-8 encoding; stable).  Written from the
// property statement, independent of c14n.
func Norm(v *JV) *JV {
	switch v.K {
	case Arr:
		o := &JV{K: Arr}
		for _, x := range v.A {
			o.A = append(o.A, Norm(x))
		}
		return o
	case Obj:
		o := &JV{K: Obj}
		for _, m := range v.M {
			if m.V.K == Null {
				continue
			}
			o.M = append(o.M, Member{m.K, Norm(m.V)})
		}
		sort.SliceStable(o.M, func(i, j int) bool { return o.M[i].K < o.M[j].K })
		return o
	}
	return v
}

// Equal compares two values structurally; floats by bit pattern.
func Equal(a, b *JV) bool {
	if a.K != b.K {
		return false
	}
	switch a.K {
	case Bool:
		return a.B == b.B
	case Int:
		return a.I == b.I
	case Flt:
		return math.Float64bits(a.F) == math.Float64bits(b.F)
	case Big:
		return a.Raw == b.Raw
	case Str:
		return a.S == b.S
	case Arr:
		if len(a.A) != len(b.A) {
			return false
		}
		for i := range a.A {
			if !Equal(a.A[i], b.A[i]) {
				return false
			}
		}
	case Obj:
		if len(a.M) != len(b.M) {
			return false
		}
		for i := range a.M {
			if a.M[i].K != b.M[i].K || !Equal(a.M[i].V, b.M[i].V) {
				return false
			}
		}
	}
	return true
}

// Walk calls f on every node.
func (v *JV) Walk(f func(*JV, bool, string)) { v.walk(f, false, "") }

func (v *JV) walk(f func(*JV, bool, string), isMember bool, key string) {
	f(v, isMember, key)
	for _, x := range v.A {
		x.walk(f, false, "")
	}
	for _, m := range v.M {
		m.V.walk(f, true, m.K)
	}
}

// Depth of nesting.
func (v *JV) Depth() int {
	d := 0
	for _, x := range v.A {
		if y := x.Depth(); y > d {
			d = y
		}
	}
	for _, m := range v.M {
		if y := m.V.Depth(); y > d {
			d = y
		}
	}
	if v.K == Arr || v.K == Obj {
		return d + 1
	}
	return 0
}

// --- input classifiers (named predicates over the input content) ---------

// HasBig: a number beyond float64 occurs.
func HasBig(v *JV) bool {
	r := false
	v.Walk(func(x *JV, _ bool, _ string) {
		if x.K == Big {
			r = true
		}
	})
	return r
}

// HasDupKeys: some object has two members with the same key.
func HasDupKeys(v *JV) bool {
	r := false
	v.Walk(func(x *JV, _ bool, _ string) {
		if x.K == Obj {
			seen := map[string]bool{}
			for _, m := range x.M {
				if seen[m.K] {
					r = true
				}
				seen[m.K] = true
			}
		}
	})
	return r
}
