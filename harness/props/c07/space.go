package c07

import (
	"encoding/json"
	"fmt"
	"math/rand"
	"strings"
	"unicode"

	"verifharness/internal/core"
)

// JSON has four whitespace characters (RFC 8259 section 2: space, tab, line feed, carriage
// return).  Everything else that some library calls "space" is not insignificant whitespace: a
// complete value with such a character before it, after it or between its tokens is not one
// complete JSON value and has to be rejected.  The characters are taken from the Unicode tables
// (property White_Space, and what unicode.IsSpace says, which is what bytes.TrimSpace /
// strings.TrimSpace / strings.Fields strip), not from a list written here, plus the invisible
// characters that are no whitespace at all but are commonly stripped together with it.

func jsonSpace(r rune) bool { return r == ' ' || r == '\t' || r == '\n' || r == '\r' }

// notJSONSpace lists every Unicode white-space character that is not JSON whitespace and the
// invisible look-alikes (each as the text to paste: a UTF-8 encoding, or a single Latin-1 byte).
func notJSONSpace() (out []string, names []string) {
	seen := map[string]bool{}
	add := func(s, name string) {
		if !seen[s] {
			seen[s] = true
			out = append(out, s)
			names = append(names, name)
		}
	}
	for r := rune(0); r <= unicode.MaxRune; r++ {
		if r >= 0xD800 && r <= 0xDFFF {
			continue
		}
		if (unicode.IsSpace(r) || unicode.Is(unicode.White_Space, r) || unicode.Is(unicode.Zs, r) || unicode.Is(unicode.Zl, r) || unicode.Is(unicode.Zp, r)) && !jsonSpace(r) {
			add(string(r), fmt.Sprintf("white-space:U+%04X", r))
		}
	}
	// no whitespace by any table, but invisible and stripped by many "trim" helpers: NUL, the other
	// ASCII separators and control characters, byte order mark, zero-width and joining characters,
	// the former space U+180E
	for _, r := range []rune{0x00, 0x08, 0x1C, 0x1D, 0x1E, 0x1F, 0x7F, 0xAD, 0x180E, 0x200B, 0x200C, 0x200D, 0x200E, 0x200F, 0x2060, 0x2800, 0x3164, 0xFEFF, 0xFFA0, 0xFFFE} {
		add(string(r), fmt.Sprintf("invisible:U+%04X", r))
	}
	// the Latin-1 bytes of NEL and NBSP (what a byte-wise isspace() of a C locale strips)
	add("\x85", "byte:85")
	add("\xa0", "byte:A0")
	return
}

// around pastes sp (not JSON whitespace) around the complete JSON text t: at the start, at the end
// or at both, alone or with genuine JSON whitespace on either side of it.
func around(t, sp string, where, mix int, r *rand.Rand) string {
	ws := func() string { return wsChars[r.Intn(len(wsChars))] }
	piece := sp
	switch mix {
	case 1:
		piece = ws() + sp
	case 2:
		piece = sp + ws()
	case 3:
		piece = ws() + sp + ws()
	}
	switch where {
	case 0:
		return piece + t
	case 1:
		return t + piece
	}
	return piece + t + piece
}

var spaceHosts = []string{`{}`, `[]`, `{"a":1}`, `[1,2]`, `0`, `-1.5E3`, `"x"`, `""`, `null`, `true`, `{"a":{"b":[null,"c"]}}`}

// unicodeSpaceCases: malformed texts made of one complete JSON value and characters that are not
// JSON whitespace, in batches ready for judge (Stream "not-json-space": all must be rejected).
func unicodeSpaceCases(c *core.Ctx, g *gen, r *rand.Rand) []*ccase {
	sps, names := notJSONSpace()
	c.Note("not-json-space characters (%d, from the Unicode tables and a list of invisible characters): %s", len(sps), strings.Join(names, " "))
	var out []*ccase
	cur := &ccase{Stream: "not-json-space"}
	push := func(m, name, pos string) {
		if json.Valid([]byte(m)) {
			panic(fmt.Sprintf("harness: %q is a complete JSON value", m))
		}
		cur.Texts = append(cur.Texts, m)
		c.Count("not-json-space:"+pos, 1)
		c.Count("not-json-space:class:"+name[:strings.IndexByte(name, ':')], 1)
		if len(cur.Texts) >= 20000 {
			out = append(out, cur)
			cur = &ccase{Stream: "not-json-space"}
		}
	}
	posName := []string{"start", "end", "both"}
	mixName := []string{"", "+ws-before", "+ws-after", "+ws-around"}
	// every character x every host x start/end/both x alone/mixed with JSON whitespace
	for i, sp := range sps {
		for _, h := range spaceHosts {
			for where := 0; where < 3; where++ {
				for mix := 0; mix < 4; mix++ {
					push(around(h, sp, where, mix, r), names[i], posName[where]+mixName[mix])
				}
			}
		}
		// the character alone and between JSON whitespace is no value either
		push(sp, names[i], "alone")
		push(" "+sp+"\n", names[i], "alone")
	}
	// random documents in random styles: around them, between two of their tokens, and two
	// different characters on the two sides
	n := c.Pick(600, 10000)
	for i := 0; i < n; i++ {
		v := g.value(1 + r.Intn(4))
		if HasBig(v) {
			continue
		}
		t, bounds := Render(v, Style{WS: r.Intn(3), Esc: r.Intn(5), Num: r.Intn(5)}, r)
		k := r.Intn(len(sps))
		push(around(t, sps[k], r.Intn(3), r.Intn(4), r), names[k], "random-document")
		k2 := r.Intn(len(sps))
		push(around(around(t, sps[k], 0, r.Intn(4), r), sps[k2], 1, r.Intn(4), r), names[k2], "random-document-two-chars")
		if len(bounds) > 1 {
			b := bounds[r.Intn(len(bounds)-1)]
			k3 := r.Intn(len(sps))
			push(t[:b]+sps[k3]+t[b:], names[k3], "between-tokens")
		}
	}
	if len(cur.Texts) > 0 {
		out = append(out, cur)
	}
	return out
}
