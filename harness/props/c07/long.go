package c07

import (
	"fmt"
	"io"
	"math/rand"
	"strconv"
	"strings"
	"testing/iotest"

	"github.com/invopop/gobl/c14n"

	"verifharness/internal/core"
)

// Size and delivery independence.  The canonical form is a function of the logical content of the
// text: it depends neither on how much insignificant whitespace the text carries (before the value,
// after it, between its tokens), nor on how long a string or an array is, nor on the pieces in which
// the reader hands the bytes over.  A text that is not one complete JSON value stays rejected
// however far from the value the offending character sits.  The texts of this family are built from
// a small host and a length, so a replay stores (host, shape, length) and not 32 MiB of spaces.

// sizeCase is one text of the family, described so that it can be rebuilt.
type sizeCase struct {
	host  string // a complete value, or a malformed text
	shape string
	n     int
}

func (s sizeCase) replay() *ccase {
	return &ccase{Stream: "size", Texts: []string{s.host, s.shape, strconv.Itoa(s.n)}}
}

// build gives the padded text and the small text it must be judged like.
func (s sizeCase) build() (text, like string) {
	pad := func(n int, unit string) string { return strings.Repeat(unit, n/len(unit)) }
	switch s.shape {
	case "lead-space":
		return pad(s.n, " ") + s.host, s.host
	case "lead-mixed":
		return pad(s.n, " \t\r\n") + s.host, s.host
	case "trail-space":
		return s.host + pad(s.n, " "), s.host
	case "trail-newlines":
		return s.host + pad(s.n, "\n"), s.host
	case "trail-space-then-garbage":
		return s.host + pad(s.n, " ") + "x", s.host + " x"
	case "trail-space-then-value":
		return s.host + pad(s.n, " ") + "1", s.host + " 1"
	case "trail-space-then-close":
		return s.host + pad(s.n, " ") + "]", s.host + " ]"
	case "inner-space":
		// whitespace after the first structural character of the host
		if len(s.host) > 1 && (s.host[0] == '[' || s.host[0] == '{') {
			return s.host[:1] + pad(s.n, " ") + s.host[1:], s.host
		}
		return pad(s.n, " ") + s.host, s.host
	case "open-then-space":
		// a value that never closes, the end far away
		return "[" + s.host + "," + pad(s.n, " "), "[" + s.host + ", "
	case "long-string":
		return `{"k":"` + pad(s.n, "a") + `","z":` + s.host + `}`, ""
	case "long-string-escaped-pair-at-end":
		return `["` + pad(s.n, "a") + "\\ud83d\\ude00" + `",` + s.host + `]`, ""
	case "long-string-pair-at-end":
		return `["` + pad(s.n, "a") + "\U0001F600" + `",` + s.host + `]`, ""
	case "long-array":
		return "[" + pad(s.n, "1,") + s.host + "]", ""
	}
	panic("harness: unknown size shape " + s.shape)
}

// expectSelf gives, for the shapes without a small twin, the canonical text computed directly.
func (s sizeCase) expectSelf(hostCanon string) string {
	pad := func(n int, unit string) string { return strings.Repeat(unit, n/len(unit)) }
	switch s.shape {
	case "long-string":
		return `{"k":"` + pad(s.n, "a") + `","z":` + hostCanon + `}`
	case "long-string-escaped-pair-at-end", "long-string-pair-at-end":
		return `["` + pad(s.n, "a") + "\U0001F600" + `",` + hostCanon + `]`
	case "long-array":
		return "[" + pad(s.n, "1,") + hostCanon + "]"
	}
	return ""
}

type chunkReader struct {
	s    string
	at   int
	size func() int
}

func (r *chunkReader) Read(p []byte) (int, error) {
	if r.at >= len(r.s) {
		return 0, io.EOF
	}
	n := r.size()
	if n > len(p) {
		n = len(p)
	}
	if n > len(r.s)-r.at {
		n = len(r.s) - r.at
	}
	copy(p, r.s[r.at:r.at+n])
	r.at += n
	return n, nil
}

func canonFrom(rd io.Reader) (out string, errs string, pnc string) {
	pnc = core.Protect(func() {
		b, err := c14n.CanonicalJSON(rd)
		if err != nil {
			errs = err.Error()
			return
		}
		out = string(b)
	})
	return
}

func verdictOf(out, errs, pnc string) string {
	switch {
	case pnc != "":
		return "panic: " + pnc
	case errs != "":
		return "rejected"
	}
	return "accepted as " + short(out)
}

func judgeSize(c *core.Ctx, s sizeCase) {
	text, like := s.build()
	out, errs, pnc := canonFrom(strings.NewReader(text))
	c.Count("size:shape:"+s.shape, 1)
	c.Count(fmt.Sprintf("size:log2:%d", bitlen(len(text))), 1)
	key := fmt.Sprintf("size:%s:%d:%s", s.shape, s.n, s.host)
	c.Eval(key, s.n > 0)
	if pnc != "" {
		c.Fail("", fmt.Sprintf("c14n.CanonicalJSON panicked on a text of %d bytes (%s of %q): %s", len(text), s.shape, s.host, pnc), s.replay())
		return
	}
	if like != "" {
		lo, le, lp := canonFrom(strings.NewReader(like))
		if (errs == "") != (le == "") || out != lo || lp != "" {
			c.Fail("", fmt.Sprintf("the canonical form depends on the amount of insignificant whitespace: %q is %s, the same text with %d bytes of JSON whitespace in place of one (%s, %d bytes in all) is %s",
				like, verdictOf(lo, le, lp), s.n, s.shape, len(text), verdictOf(out, errs, pnc)), s.replay())
		}
		return
	}
	hc, he, hp := canonFrom(strings.NewReader(s.host))
	if he != "" || hp != "" {
		return // hosts of the self shapes are valid values
	}
	want := s.expectSelf(hc)
	if errs != "" || out != want {
		got := verdictOf(out, errs, pnc)
		if errs != "" {
			got = "rejected (" + errs + ")"
		}
		c.Fail("", fmt.Sprintf("a valid text of %d bytes (%s, length %d, around %q) is %s; its canonical form has %d bytes", len(text), s.shape, s.n, s.host, got, len(want)), s.replay())
	}
}

func bitlen(n int) int {
	k := 0
	for n > 0 {
		k++
		n >>= 1
	}
	return k
}

// judgeDelivery: the same text through readers that hand it over in different pieces.
func judgeDelivery(c *core.Ctx, text string, r *rand.Rand) {
	o0, e0, p0 := canonFrom(strings.NewReader(text))
	type rd struct {
		name string
		mk   func() io.Reader
	}
	fixed := func(n int) func() int { return func() int { return n } }
	seed := r.Int63()
	rds := []rd{
		{"one byte at a time", func() io.Reader { return iotest.OneByteReader(strings.NewReader(text)) }},
		{"half of what is asked", func() io.Reader { return iotest.HalfReader(strings.NewReader(text)) }},
		{"data together with EOF", func() io.Reader { return iotest.DataErrReader(strings.NewReader(text)) }},
		{"3 bytes at a time", func() io.Reader { return &chunkReader{s: text, size: fixed(3)} }},
		{"7 bytes at a time", func() io.Reader { return &chunkReader{s: text, size: fixed(7)} }},
		{"random pieces", func() io.Reader {
			rr := rand.New(rand.NewSource(seed))
			return &chunkReader{s: text, size: func() int { return 1 + rr.Intn(13) }}
		}},
	}
	c.Eval("delivery:"+text, true)
	for _, x := range rds {
		o, e, p := canonFrom(x.mk())
		c.Count("delivery:"+x.name, 1)
		if o != o0 || (e == "") != (e0 == "") || (p == "") != (p0 == "") {
			c.Fail("", fmt.Sprintf("the canonical form depends on how the reader delivers the text: %q read in one piece is %s, read %s it is %s", short(text), verdictOf(o0, e0, p0), x.name, verdictOf(o, e, p)),
				&ccase{Stream: "delivery", Texts: []string{text}})
			return
		}
	}
}

var sizeHostsValid = []string{`{"b":1,"a":[null,"x"]}`, `[1,2]`, `"x"`, `0`, `null`, `{}`}
var sizeHostsBad = []string{`{"a":1`, `[1,2`, `"x`, `{"a":}`, `tru`}

func sizeFamily(c *core.Ctx, g *gen, r *rand.Rand) {
	// lengths: around every power of two from 2^9 (the decoder's first read) to 2^25, where buffers,
	// limits and chunked readers have their edges; the quick tier takes every fourth exponent up to
	// 2^20, then one length just above 2^24 and 2^25 for six of the shapes
	var ns []int
	for k := 9; k <= 25; k++ {
		switch {
		case c.Thorough():
			ns = append(ns, 1<<k-1, 1<<k, 1<<k+1)
		case k == 9 || k == 13 || k == 17 || k == 20:
			ns = append(ns, 1<<k-1, 1<<k, 1<<k+1)
		case k >= 24:
			ns = append(ns, 1<<k+1)
		}
	}
	pairs := []string{"lead-space", "lead-mixed", "trail-space", "trail-newlines", "trail-space-then-garbage", "trail-space-then-value",
		"trail-space-then-close", "inner-space", "open-then-space"}
	quickBig := map[string]bool{"lead-space": true, "trail-space": true, "trail-space-then-garbage": true, "inner-space": true, "long-string": true, "long-array": true}
	selfs := []string{"long-string", "long-string-escaped-pair-at-end", "long-string-pair-at-end", "long-array"}
	for _, n := range ns {
		big := n >= 1<<22
		for i, sh := range pairs {
			if big && !c.Thorough() && !quickBig[sh] {
				continue
			}
			hosts := sizeHostsValid
			if big {
				// one host per shape for the lengths that take a noticeable time
				hosts = []string{sizeHostsValid[(i+bitlen(n))%len(sizeHostsValid)]}
			}
			for _, h := range hosts {
				judgeSize(c, sizeCase{h, sh, n})
			}
			if !big && (sh == "lead-space" || sh == "trail-space" || sh == "inner-space") {
				for _, h := range sizeHostsBad {
					judgeSize(c, sizeCase{h, sh, n})
				}
			}
		}
		for i, sh := range selfs {
			if big && !c.Thorough() && !quickBig[sh] {
				continue
			}
			judgeSize(c, sizeCase{sizeHostsValid[(i+bitlen(n))%3], sh, n})
		}
	}
	// delivery: random documents in random styles (escaped pairs, multi-byte characters and escapes
	// fall on every piece boundary with one-byte pieces), valid and cut short
	m := c.Pick(400, 6000)
	for i := 0; i < m; i++ {
		v := g.value(1 + r.Intn(4))
		if HasBig(v) {
			continue
		}
		t, _ := Render(v, Style{WS: r.Intn(3), Esc: r.Intn(5), Num: r.Intn(5)}, r)
		if len(t) > 1<<16 {
			continue
		}
		judgeDelivery(c, t, r)
		if i%4 == 0 && len(t) > 2 {
			judgeDelivery(c, t[:1+r.Intn(len(t)-1)], r)
		}
		if i%8 == 0 {
			// an escaped surrogate pair just before and just after the decoder's first read of 512 bytes
			off := 490 + r.Intn(30)
			judgeDelivery(c, `["`+strings.Repeat("a", off)+"\\ud83d\\ude00"+`",`+t+`]`, r)
		}
	}
}

func sizeReplay(c *core.Ctx, rc *ccase) {
	if rc.Stream == "delivery" {
		judgeDelivery(c, rc.Texts[0], c.Rng)
		return
	}
	n, _ := strconv.Atoi(rc.Texts[2])
	judgeSize(c, sizeCase{rc.Texts[0], rc.Texts[1], n})
}
