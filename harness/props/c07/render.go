package c07

import (
	"fmt"
	"math/rand"
	"strconv"
	"strings"
)

// Style of one rendering of a content as JSON text.
type Style struct {
	WS      int  // 0 none, 1 sparse, 2 heavy whitespace between tokens
	Shuffle bool // permute members (only objects without duplicate keys)
	Esc     int  // 0 literal where possible, 1 short escapes, 2 \uxxxx lower, 3 \uXXXX upper, 4 random per character,
	// 5 "ensure_ascii": \uxxxx for every non-ASCII character, else as 0; 6 the same in upper case with short escapes (incl. \/)
	Num     int  // float spelling 0..4, see floatText
	NegZero bool // write the integer 0 as -0
}

type renderer struct {
	r      *rand.Rand
	st     Style
	sb     strings.Builder
	bounds []int // offsets just after each token
}

// Render writes v as JSON text in the given style; bounds are the offsets
// after each complete token (for the truncation stream).
func Render(v *JV, st Style, r *rand.Rand) (string, []int) {
	p := &renderer{r: r, st: st}
	p.ws()
	p.val(v)
	p.ws()
	return p.sb.String(), p.bounds
}

var wsChars = []string{" ", "\t", "\n", "\r", "  ", " \n\t", "\r\n"}

func (p *renderer) ws() {
	switch p.st.WS {
	case 1:
		if p.r.Intn(3) == 0 {
			p.sb.WriteString(wsChars[p.r.Intn(len(wsChars))])
		}
	case 2:
		for n := p.r.Intn(3); n > 0; n-- {
			p.sb.WriteString(wsChars[p.r.Intn(len(wsChars))])
		}
	}
}

func (p *renderer) tok(s string) {
	p.sb.WriteString(s)
	p.bounds = append(p.bounds, p.sb.Len())
}

func (p *renderer) val(v *JV) {
	switch v.K {
	case Null:
		p.tok("null")
	case Bool:
		if v.B {
			p.tok("true")
		} else {
			p.tok("false")
		}
	case Int:
		if v.I == 0 && p.st.NegZero {
			p.tok("-0")
		} else {
			p.tok(strconv.FormatInt(v.I, 10))
		}
	case Flt:
		if v.Raw != "" {
			p.tok(v.Raw)
		} else {
			p.tok(floatText(v.F, p.st.Num, p.r))
		}
	case Big:
		p.tok(v.Raw)
	case Str:
		p.tok(p.str(v.S))
	case Arr:
		p.tok("[")
		for i, x := range v.A {
			if i > 0 {
				p.ws()
				p.tok(",")
			}
			p.ws()
			p.val(x)
		}
		p.ws()
		p.tok("]")
	case Obj:
		ms := v.M
		if p.st.Shuffle && !HasDupKeysTop(v) {
			ms = append([]Member(nil), v.M...)
			p.r.Shuffle(len(ms), func(i, j int) { ms[i], ms[j] = ms[j], ms[i] })
		}
		p.tok("{")
		for i, m := range ms {
			if i > 0 {
				p.ws()
				p.tok(",")
			}
			p.ws()
			p.tok(p.str(m.K))
			p.ws()
			p.tok(":")
			p.ws()
			p.val(m.V)
		}
		p.ws()
		p.tok("}")
	}
}

// HasDupKeysTop: the object itself has two members with the same key.
func HasDupKeysTop(v *JV) bool {
	seen := map[string]bool{}
	for _, m := range v.M {
		if seen[m.K] {
			return true
		}
		seen[m.K] = true
	}
	return false
}

var shortEsc = map[rune]string{'"': `\"`, '\\': `\\`, '/': `\/`, '\b': `\b`, '\f': `\f`, '\n': `\n`, '\r': `\r`, '\t': `\t`}

func uEsc(c rune, upper bool) string {
	f := `\u%04x`
	if upper {
		f = `\u%04X`
	}
	if c >= 0x10000 {
		c -= 0x10000
		return fmt.Sprintf(f+f, 0xD800+(c>>10), 0xDC00+(c&0x3FF))
	}
	return fmt.Sprintf(f, c)
}

func literalOK(c rune) bool { return c >= 0x20 && c != '"' && c != '\\' }

// EscapeRune writes one character of a JSON string in the given mode.
func EscapeRune(c rune, mode int, r *rand.Rand) string {
	if mode == 4 {
		mode = r.Intn(4)
	}
	switch mode {
	case 5:
		if c >= 0x80 {
			return uEsc(c, false)
		}
		return EscapeRune(c, 0, r)
	case 6:
		if c >= 0x80 {
			return uEsc(c, true)
		}
		return EscapeRune(c, 1, r)
	case 0:
		if literalOK(c) {
			return string(c)
		}
		if s, ok := shortEsc[c]; ok {
			return s
		}
		return uEsc(c, false)
	case 1:
		if s, ok := shortEsc[c]; ok {
			return s
		}
		if literalOK(c) {
			return string(c)
		}
		return uEsc(c, true)
	case 2:
		return uEsc(c, false)
	default:
		return uEsc(c, true)
	}
}

func (p *renderer) str(s string) string {
	var sb strings.Builder
	sb.WriteByte('"')
	for _, c := range s {
		sb.WriteString(EscapeRune(c, p.st.Esc, p.r))
	}
	sb.WriteByte('"')
	return sb.String()
}

// floatText spells the float64 f in one of several ways that all denote the
// decimal number given by its shortest digits (so they parse back to f); the
// text always contains a '.' or an exponent, i.e. is never an integer literal.
func floatText(f float64, variant int, r *rand.Rand) string {
	neg, ds, e := FloatDigits(f)
	sign := ""
	if neg {
		sign = "-"
	}
	n := len(ds)
	zero := ds == "0"
	E := "E"
	if r.Intn(2) == 0 {
		E = "e"
	}
	plus := ""
	if r.Intn(2) == 0 {
		plus = "+"
	}
	expo := func(x int) string {
		if x < 0 {
			return strconv.Itoa(x)
		}
		return plus + strconv.Itoa(x)
	}
	sci := func() string {
		m := ds[:1]
		if n > 1 {
			m += "." + ds[1:]
		}
		return sign + m + E + expo(e)
	}
	switch variant {
	case 1: // plain decimal expansion
		if e > 40 || e < -40 {
			return sci()
		}
		if zero {
			return sign + "0.0"
		}
		switch {
		case e >= n-1:
			return sign + ds + strings.Repeat("0", e-n+1) + ".0"
		case e >= 0:
			return sign + ds[:e+1] + "." + ds[e+1:]
		default:
			return sign + "0." + strings.Repeat("0", -e-1) + ds
		}
	case 2: // all digits as an integer mantissa
		if zero {
			return sign + "0" + E + expo(r.Intn(7)-3)
		}
		return sign + ds + E + expo(e-n+1)
	case 3: // trailing zeros in the fraction, leading zeros in the exponent
		m := ds[:1] + "." + ds[1:] + strings.Repeat("0", 1+r.Intn(3))
		x := e
		s := "+"
		if x < 0 {
			s = "-"
			x = -x
		}
		return sign + m + E + s + fmt.Sprintf("%05d", x)
	case 4: // leading zeros after the point, exponent shifted
		if zero {
			return sign + "0.000" + E + expo(5)
		}
		k := 1 + r.Intn(3)
		return sign + "0." + strings.Repeat("0", k-1) + ds + E + expo(e+k)
	}
	return sci()
}
