package c07

import (
	"fmt"
	"math"
	"strconv"
	"unicode/utf8"
)

// StrictParse is an independent parser of the canonical form described in
// /repo/c14n/README.md ("JSON in canonical form …").  It accepts exactly one
// value in canonical form and nothing else:
//
//   - valid UTF-8, no byte outside a string that is not part of a token
//     (rule 1, 2: no whitespace at all);
//   - object members separated by `,`, key `:` value, keys in strictly
//     increasing byte order (rule 3; non-decreasing when allowDup), no member
//     with a null value (rule 4);
//   - integers `0` or `-?[1-9][0-9]*` within int64 (rule 6);
//   - floats `-?D.FE-?X`: one digit D (non-zero unless the number is zero,
//     written 0.0E0), F = `0` or digits not ending in 0, capital E, exponent
//     without plus and without leading zeros (rule 7);
//   - strings: the seven two-character escapes, \u00XX upper case for the
//     other control characters only, everything else literal (rule 8).
//
// It does not use encoding/json or c14n.
func StrictParse(b []byte, allowDup bool) (*JV, error) {
	if !utf8.Valid(b) {
		return nil, fmt.Errorf("not valid UTF-8")
	}
	p := &sp{b: b, allowDup: allowDup}
	v, err := p.value()
	if err != nil {
		return nil, fmt.Errorf("offset %d: %w", p.i, err)
	}
	if p.i != len(b) {
		return nil, fmt.Errorf("offset %d: trailing data", p.i)
	}
	return v, nil
}

type sp struct {
	b        []byte
	i        int
	allowDup bool
}

func (p *sp) peek() int {
	if p.i >= len(p.b) {
		return -1
	}
	return int(p.b[p.i])
}

func (p *sp) lit(s string) bool {
	if p.i+len(s) <= len(p.b) && string(p.b[p.i:p.i+len(s)]) == s {
		p.i += len(s)
		return true
	}
	return false
}

func (p *sp) value() (*JV, error) {
	switch c := p.peek(); {
	case c == '{':
		return p.object()
	case c == '[':
		return p.array()
	case c == '"':
		s, err := p.str()
		if err != nil {
			return nil, err
		}
		return &JV{K: Str, S: s}, nil
	case c == 'n':
		if p.lit("null") {
			return &JV{K: Null}, nil
		}
	case c == 't':
		if p.lit("true") {
			return &JV{K: Bool, B: true}, nil
		}
	case c == 'f':
		if p.lit("false") {
			return &JV{K: Bool}, nil
		}
	case c == '-' || (c >= '0' && c <= '9'):
		return p.number()
	}
	return nil, fmt.Errorf("unexpected byte")
}

func (p *sp) object() (*JV, error) {
	p.i++ // {
	v := &JV{K: Obj}
	if p.peek() == '}' {
		p.i++
		return v, nil
	}
	for {
		if p.peek() != '"' {
			return nil, fmt.Errorf("expected a key")
		}
		k, err := p.str()
		if err != nil {
			return nil, err
		}
		if n := len(v.M); n > 0 {
			prev := v.M[n-1].K
			if k < prev || (k == prev && !p.allowDup) {
				return nil, fmt.Errorf("members not in key order: %q after %q", k, prev)
			}
		}
		if p.peek() != ':' {
			return nil, fmt.Errorf("expected ':'")
		}
		p.i++
		x, err := p.value()
		if err != nil {
			return nil, err
		}
		if x.K == Null {
			return nil, fmt.Errorf("member %q has a null value", k)
		}
		v.M = append(v.M, Member{k, x})
		switch p.peek() {
		case ',':
			p.i++
		case '}':
			p.i++
			return v, nil
		default:
			return nil, fmt.Errorf("expected ',' or '}'")
		}
	}
}

func (p *sp) array() (*JV, error) {
	p.i++ // [
	v := &JV{K: Arr}
	if p.peek() == ']' {
		p.i++
		return v, nil
	}
	for {
		x, err := p.value()
		if err != nil {
			return nil, err
		}
		v.A = append(v.A, x)
		switch p.peek() {
		case ',':
			p.i++
		case ']':
			p.i++
			return v, nil
		default:
			return nil, fmt.Errorf("expected ',' or ']'")
		}
	}
}

func upHex(c byte) (int, bool) {
	switch {
	case c >= '0' && c <= '9':
		return int(c - '0'), true
	case c >= 'A' && c <= 'F':
		return int(c-'A') + 10, true
	}
	return 0, false
}

func (p *sp) str() (string, error) {
	p.i++ // "
	var out []byte
	for {
		c := p.peek()
		switch {
		case c < 0:
			return "", fmt.Errorf("unterminated string")
		case c == '"':
			p.i++
			return string(out), nil
		case c < 0x20:
			return "", fmt.Errorf("raw control character %#x in string", c)
		case c == '\\':
			if p.i+1 >= len(p.b) {
				return "", fmt.Errorf("dangling backslash")
			}
			e := p.b[p.i+1]
			switch e {
			case '"', '\\':
				out = append(out, e)
				p.i += 2
			case 'b':
				out = append(out, 8)
				p.i += 2
			case 't':
				out = append(out, 9)
				p.i += 2
			case 'n':
				out = append(out, 10)
				p.i += 2
			case 'f':
				out = append(out, 12)
				p.i += 2
			case 'r':
				out = append(out, 13)
				p.i += 2
			case 'u':
				if p.i+6 > len(p.b) || p.b[p.i+2] != '0' || p.b[p.i+3] != '0' {
					return "", fmt.Errorf("\\u escape that is not \\u00XX")
				}
				h, ok1 := upHex(p.b[p.i+4])
				l, ok2 := upHex(p.b[p.i+5])
				if !ok1 || !ok2 {
					return "", fmt.Errorf("\\u escape not in upper-case hex")
				}
				x := h*16 + l
				if x >= 0x20 {
					return "", fmt.Errorf("\\u escape of a character that needs none (%#x)", x)
				}
				switch x {
				case 8, 9, 10, 12, 13:
					return "", fmt.Errorf("\\u escape of a character that has a two-character escape (%#x)", x)
				}
				out = append(out, byte(x))
				p.i += 6
			default:
				return "", fmt.Errorf("escape \\%c is not canonical", e)
			}
		default:
			out = append(out, byte(c))
			p.i++
		}
	}
}

func (p *sp) digits() string {
	s := p.i
	for c := p.peek(); c >= '0' && c <= '9'; c = p.peek() {
		p.i++
	}
	return string(p.b[s:p.i])
}

// plainInt reads `0` or `-?[1-9][0-9]*`.
func (p *sp) plainInt() (string, error) {
	s := p.i
	neg := false
	if p.peek() == '-' {
		neg = true
		p.i++
	}
	d := p.digits()
	switch {
	case d == "":
		return "", fmt.Errorf("digits expected")
	case d == "0" && neg:
		return "", fmt.Errorf("minus sign on zero")
	case len(d) > 1 && d[0] == '0':
		return "", fmt.Errorf("leading zero")
	}
	return string(p.b[s:p.i]), nil
}

func (p *sp) number() (*JV, error) {
	start := p.i
	neg := false
	if p.peek() == '-' {
		neg = true
		p.i++
	}
	ip := p.digits()
	if ip == "" {
		return nil, fmt.Errorf("digits expected")
	}
	if p.peek() != '.' {
		// integer form
		if p.peek() == 'E' || p.peek() == 'e' {
			return nil, fmt.Errorf("exponent without fraction")
		}
		if (ip == "0" && neg) || (len(ip) > 1 && ip[0] == '0') {
			return nil, fmt.Errorf("integer not plain")
		}
		i, err := strconv.ParseInt(string(p.b[start:p.i]), 10, 64)
		if err != nil {
			return nil, fmt.Errorf("integer beyond 64 bits")
		}
		return &JV{K: Int, I: i}, nil
	}
	p.i++ // .
	if len(ip) != 1 {
		return nil, fmt.Errorf("more than one digit before the decimal point")
	}
	fp := p.digits()
	if fp == "" {
		return nil, fmt.Errorf("empty fraction")
	}
	if fp != "0" && fp[len(fp)-1] == '0' {
		return nil, fmt.Errorf("trailing zero in fraction")
	}
	if p.peek() != 'E' {
		return nil, fmt.Errorf("capital E expected")
	}
	p.i++
	es, err := p.plainInt()
	if err != nil {
		return nil, fmt.Errorf("exponent: %w", err)
	}
	if ip == "0" && !(fp == "0" && es == "0") {
		return nil, fmt.Errorf("zero before the decimal point of a non-zero number")
	}
	// value: exact decimal text, read by strconv (trusted: correctly rounded)
	f, err := strconv.ParseFloat(string(p.b[start:p.i]), 64)
	if err != nil || math.IsInf(f, 0) || math.IsNaN(f) {
		return nil, fmt.Errorf("float out of range")
	}
	// the digits written must be the digits of that float64 (shortest form)
	n2, ds, e := FloatDigits(f)
	want := ip
	if fp != "0" {
		want += fp
	}
	if n2 != neg || ds != want || strconv.Itoa(e) != es {
		return nil, fmt.Errorf("digits %s E %s are not the shortest digits of the float64 (%s E %d)", want, es, ds, e)
	}
	return &JV{K: Flt, F: f}, nil
}
