package c07

import (
	"math"
	"math/rand"
	"strconv"
)

var keyPool = []string{
	"", "a", "b", "c", "A", "B", "aa", "ab", "a b", " ", "0", "1", "10", "2", "_", "$schema", "~", "z",
	"\u00e9", "e\u0301", "\u00df", "\u20ac", "\u4e2d", "\u0080", "\u07ff", "\u0800", "\ud7ff", "\ue000", "\uffee", "\uffff",
	"\U00010000", "\U0001f600", "\U0010ffff", "\u2028", "\u2029", "\u007f",
	"\"", "\\", "/", "\n", "\t", "\r", "\b", "\f", "\u0000", "\u0001", "\u001f", "a\"b", "a\\b", "a\nb",
	"<", ">", "&", "null", "true", "\ufffd", "a\ufffd",
}

var runeClasses = [][2]rune{
	{0x20, 0x7e}, {0x20, 0x7e}, {0x00, 0x1f}, {0x7f, 0x9f}, {0xa0, 0x7ff}, {0x800, 0xd7ff}, {0xe000, 0xffff},
	{0x10000, 0x10ffff}, {0x2028, 0x2029}, {'"', '"'}, {'\\', '\\'}, {'/', '/'}, {0xfffd, 0xfffd},
}

type gen struct {
	r *rand.Rand
}

func (g *gen) rune_() rune {
	c := runeClasses[g.r.Intn(len(runeClasses))]
	return c[0] + rune(g.r.Intn(int(c[1]-c[0])+1)) // U+FFFD is a character like any other
}

func (g *gen) str() string {
	n := g.r.Intn(7)
	if g.r.Intn(10) == 0 {
		n = 20 + g.r.Intn(30)
	}
	rs := make([]rune, n)
	for i := range rs {
		rs[i] = g.rune_()
	}
	return string(rs)
}

func (g *gen) key() string {
	if g.r.Intn(4) == 0 {
		return g.str()
	}
	return keyPool[g.r.Intn(len(keyPool))]
}

var intBoundaries = []int64{0, 1, -1, 9, 10, -10, 99, 100, 255, 256, 65535, 1 << 31, -(1 << 31), 1<<32 - 1, 1 << 53, 1<<53 + 1, -(1 << 53) - 1,
	999999999999999999, 1000000000000000000, math.MaxInt64, math.MaxInt64 - 1, math.MinInt64, math.MinInt64 + 1}

func (g *gen) int_() int64 {
	switch g.r.Intn(4) {
	case 0:
		return int64(g.r.Intn(41) - 20)
	case 1:
		return intBoundaries[g.r.Intn(len(intBoundaries))]
	default:
		b := 1 + g.r.Intn(63)
		v := g.r.Int63() >> (63 - uint(b))
		if g.r.Intn(2) == 0 {
			v = -v
		}
		return v
	}
}

var floatTexts = []string{"0.0", "-0.0", "1.0", "-1.0", "1E2", "1.5", "-1.5", "0.1", "0.5", "2.5E-1", "123.4", "1e-7", "-1.5E-7", "1e21", "1e22", "1e23",
	"5e-324", "-5e-324", "2.2250738585072014e-308", "2.225073858507201e-308", "1.7976931348623157e308", "-1.7976931348623157e308",
	"9007199254740993.0", "9223372036854775808.0", "1e19", "1.0e15", "1.0e16", "123456789012345678.0", "0.3", "0.30000000000000004",
	"3.141592653589793", "1e-5", "1e-6", "1e-4", "100.0", "1e9", "1e10", "1e99", "1e100", "1e-99", "1e-100", "1.0e-10", "9.999999999999999e22",
	"4.35", "0.000001", "33.333", "19.99", "1e300", "1e-300", "1.23e-310"}

func (g *gen) float_() float64 {
	for {
		var f float64
		switch g.r.Intn(5) {
		case 0:
			f, _ = strconv.ParseFloat(floatTexts[g.r.Intn(len(floatTexts))], 64)
		case 1:
			f = math.Float64frombits(g.r.Uint64())
		case 2: // money-like decimals
			f = float64(g.r.Intn(2000000)-1000000) / math.Pow10(g.r.Intn(5))
			if f == math.Trunc(f) && g.r.Intn(2) == 0 {
				f += 0.5
			}
		default: // random digits and exponent
			n := 1 + g.r.Intn(17)
			ds := make([]byte, n)
			for i := range ds {
				ds[i] = byte('0' + g.r.Intn(10))
			}
			if ds[0] == '0' {
				ds[0] = '1'
			}
			e := g.r.Intn(640) - 330
			if g.r.Intn(3) == 0 {
				e = g.r.Intn(30) - 15
			}
			t := string(ds[:1]) + "." + string(ds[1:]) + "0e" + strconv.Itoa(e)
			if g.r.Intn(2) == 0 {
				t = "-" + t
			}
			f, _ = strconv.ParseFloat(t, 64)
		}
		if !math.IsInf(f, 0) && !math.IsNaN(f) {
			return f
		}
	}
}

func (g *gen) scalar() *JV {
	switch g.r.Intn(10) {
	case 0:
		return &JV{K: Null}
	case 1:
		return &JV{K: Bool, B: g.r.Intn(2) == 0}
	case 2, 3:
		return &JV{K: Int, I: g.int_()}
	case 4, 5, 6:
		return &JV{K: Flt, F: g.float_()}
	default:
		return &JV{K: Str, S: g.str()}
	}
}

// value builds a value of depth at most d; keys are distinct within an object.
func (g *gen) value(d int) *JV {
	if d == 0 || g.r.Intn(3) == 0 {
		return g.scalar()
	}
	if g.r.Intn(2) == 0 {
		v := &JV{K: Arr}
		for n := g.r.Intn(5); n > 0; n-- {
			if g.r.Intn(5) == 0 {
				v.A = append(v.A, &JV{K: Null})
			} else {
				v.A = append(v.A, g.value(d-1))
			}
		}
		return v
	}
	v := &JV{K: Obj}
	seen := map[string]bool{}
	for n := g.r.Intn(6); n > 0; n-- {
		k := g.key()
		if seen[k] {
			continue
		}
		seen[k] = true
		if g.r.Intn(4) == 0 {
			v.M = append(v.M, Member{k, &JV{K: Null}})
		} else {
			v.M = append(v.M, Member{k, g.value(d - 1)})
		}
	}
	return v
}

// deep builds a chain nested exactly d deep, alternating arrays and objects.
func (g *gen) deep(d int) *JV {
	if d == 0 {
		return g.scalar()
	}
	if g.r.Intn(2) == 0 {
		return &JV{K: Arr, A: []*JV{g.scalar(), g.deep(d - 1), {K: Null}}}
	}
	return &JV{K: Obj, M: []Member{{g.key() + "x", &JV{K: Null}}, {"k", g.deep(d - 1)}, {"", g.scalar()}}}
}

// nullPatterns: objects and arrays of n slots with every null / non-null pattern.
func nullPatterns() []*JV {
	var out []*JV
	keys := []string{"b", "a", "d", "c"}
	for n := 1; n <= 4; n++ {
		for mask := 0; mask < 1<<n; mask++ {
			o := &JV{K: Obj}
			a := &JV{K: Arr}
			for i := 0; i < n; i++ {
				var x *JV
				if mask&(1<<i) != 0 {
					x = &JV{K: Null}
				} else {
					x = &JV{K: Int, I: int64(i)}
				}
				o.M = append(o.M, Member{keys[i], x})
				a.A = append(a.A, x)
			}
			out = append(out, o, a, &JV{K: Arr, A: []*JV{o, a}}, &JV{K: Obj, M: []Member{{"o", o}, {"n", &JV{K: Null}}, {"a", a}}})
		}
	}
	return out
}

// withDupKeys builds an object with repeated keys (outside the property's quantifier; model vs code only).
func (g *gen) withDupKeys() *JV {
	v := &JV{K: Obj}
	ks := []string{"a", "b", "", "é", "a", "b"}
	for n := 2 + g.r.Intn(5); n > 0; n-- {
		v.M = append(v.M, Member{ks[g.r.Intn(len(ks))], g.value(1)})
	}
	if !HasDupKeysTop(v) {
		v.M = append(v.M, Member{v.M[0].K, g.scalar()})
	}
	return v
}
