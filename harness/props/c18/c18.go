// Package c18 checks that validated documents only reference defined codes,
// keys and rates.
//
// For every /repo/examples/**/out/*.json and every reference position of the
// document (regime, addon, tag, tax category, rate key, extension key,
// extension value, currency, country) every defined value of that kind and a
// family of undefined ones is substituted IN THE INPUT; the real code then
// calculates and validates.  When GOBL accepts, every reference of the
// VALIDATED OUTPUT document is looked up by the Lean driver (Spec/C18.lean over
// Generated/Defs.lean, i.e. over the published data files); a reference that
// does not resolve is a violation.  GOBL rejecting is never a disagreement.
package c18

import (
	"encoding/json"
	"fmt"
	"os"
	"path/filepath"
	"regexp"
	"sort"
	"strings"
	"sync"

	_ "github.com/invopop/gobl"
	"github.com/invopop/gobl/schema"

	"verifharness/internal/core"
)

// knownTagsOther is the classifier of the one known finding of this property
// (known_findings.json).  knownRegime and knownOrderTax label unresolved
// references that were known findings once and are repaired in /repo
// (known_findings.json -> fixed); they are no entries of the findings list any
// more, so core.Fail reports them as VIOLATIONs, as it does for an undefined
// `prices_include` category and for extensions of stored tax summaries.
const (
	knownRegime    = "undefined_regime_accepted"
	knownTagsOther = "tags_unchecked_outside_invoices"
	knownOrderTax  = "order_tax_object_unvalidated"
)

const rule = "one evaluation per substituted document; non-trivial = GOBL calculated and validated the document, so that its references were judged against the published definitions; distinct by (example, position, substituted value)"

// ---- published definitions, read independently of GOBL's types ---------------------------

type extDef struct {
	Codes   []string
	Pattern string
}

type pub struct {
	Regimes    []string // country and alternative codes
	Addons     []string
	Categories []string
	Rates      []string
	Tags       []string
	ExtKeys    []string
	Ext        map[string]extDef
	Currencies []string
	Countries  []string
	MeansKeys  []string // keys.go: key sets published by the schemas
	TermKeys   []string
	NoteKeys   []string
}

func uniq(xs []string) []string {
	seen := map[string]bool{}
	var out []string
	for _, x := range xs {
		if !seen[x] {
			seen[x] = true
			out = append(out, x)
		}
	}
	sort.Strings(out)
	return out
}

func loadPub(repo string) (*pub, error) {
	p := &pub{Ext: map[string]extDef{}}
	type ext struct {
		Key    string `json:"key"`
		Values []struct {
			Code string `json:"code"`
		} `json:"values"`
		Pattern string `json:"pattern"`
	}
	type tagset struct {
		List []struct {
			Key string `json:"key"`
		} `json:"list"`
	}
	addExt := func(es []ext) {
		for _, e := range es {
			d := extDef{Pattern: e.Pattern}
			for _, v := range e.Values {
				d.Codes = append(d.Codes, v.Code)
			}
			p.Ext[e.Key] = d
			p.ExtKeys = append(p.ExtKeys, e.Key)
		}
	}
	for _, dir := range []string{"regimes", "addons", "catalogues"} {
		files, _ := filepath.Glob(filepath.Join(repo, "data", dir, "*.json"))
		sort.Strings(files)
		for _, f := range files {
			b, err := os.ReadFile(f)
			if err != nil {
				return nil, err
			}
			var d struct {
				Key        string   `json:"key"`
				Country    string   `json:"country"`
				Alt        []string `json:"alt_country_codes"`
				Tags       []tagset `json:"tags"`
				Extensions []ext    `json:"extensions"`
				Categories []struct {
					Code  string `json:"code"`
					Rates []struct {
						Key string `json:"key"`
					} `json:"rates"`
				} `json:"categories"`
			}
			if err := json.Unmarshal(b, &d); err != nil {
				continue // a stale file in an older layout; C19 reports it
			}
			switch dir {
			case "regimes":
				p.Regimes = append(p.Regimes, d.Country)
				p.Regimes = append(p.Regimes, d.Alt...)
				for _, c := range d.Categories {
					p.Categories = append(p.Categories, c.Code)
					for _, r := range c.Rates {
						p.Rates = append(p.Rates, r.Key)
					}
				}
			case "addons":
				p.Addons = append(p.Addons, d.Key)
			}
			for _, ts := range d.Tags {
				for _, t := range ts.List {
					p.Tags = append(p.Tags, t.Key)
				}
			}
			addExt(d.Extensions)
		}
	}
	for _, f := range []string{"iso.json", "non-iso.json"} {
		b, err := os.ReadFile(filepath.Join(repo, "data", "currency", f))
		if err != nil {
			continue
		}
		var defs []struct {
			ISO string `json:"iso_code"`
		}
		_ = json.Unmarshal(b, &defs)
		for _, d := range defs {
			p.Currencies = append(p.Currencies, d.ISO)
		}
	}
	for _, f := range []string{"tax-country-code.json", "iso-country-code.json"} {
		b, err := os.ReadFile(filepath.Join(repo, "data", "schemas", "l10n", f))
		if err != nil {
			continue
		}
		var s struct {
			Defs map[string]struct {
				OneOf []struct {
					Const string `json:"const"`
				} `json:"oneOf"`
			} `json:"$defs"`
		}
		_ = json.Unmarshal(b, &s)
		for _, d := range s.Defs {
			for _, c := range d.OneOf {
				p.Countries = append(p.Countries, c.Const)
			}
		}
	}
	p.Regimes, p.Addons, p.Categories, p.Rates = uniq(p.Regimes), uniq(p.Addons), uniq(p.Categories), uniq(p.Rates)
	p.Tags, p.ExtKeys, p.Currencies, p.Countries = uniq(p.Tags), uniq(p.ExtKeys), uniq(p.Currencies), uniq(p.Countries)
	return p, nil
}

// ---- positions --------------------------------------------------------------------------------

// Position is a reference position of a document.
type Position struct {
	Kind string `json:"kind"` // regime addon addon+ tag tag+ category includes includes+ rate extkey extval currency country
	Path []any  `json:"path"` // keys (string) and indices (float64 after JSON)
	Key  string `json:"key,omitempty"`
}

func pathStr(p []any) string {
	var sb strings.Builder
	for _, e := range p {
		switch v := e.(type) {
		case string:
			sb.WriteString("." + v)
		case int:
			fmt.Fprintf(&sb, "[%d]", v)
		case float64:
			fmt.Fprintf(&sb, "[%d]", int(v))
		}
	}
	return sb.String()
}

func appendPath(p []any, e any) []any {
	out := make([]any, len(p)+1)
	copy(out, p)
	out[len(p)] = e
	return out
}

func findPositions(doc map[string]any) []Position {
	var out []Position
	if _, ok := doc["$regime"].(string); ok {
		out = append(out, Position{Kind: "regime", Path: []any{"$regime"}})
	}
	if l, ok := doc["$addons"].([]any); ok {
		for i := range l {
			out = append(out, Position{Kind: "addon", Path: []any{"$addons", i}})
		}
	}
	out = append(out, Position{Kind: "addon+", Path: []any{"$addons"}})
	if l, ok := doc["$tags"].([]any); ok {
		for i := range l {
			out = append(out, Position{Kind: "tag", Path: []any{"$tags", i}})
		}
	}
	out = append(out, Position{Kind: "tag+", Path: []any{"$tags"}})
	if t, ok := doc["tax"].(map[string]any); ok {
		if _, ok := t["prices_include"].(string); ok {
			out = append(out, Position{Kind: "includes", Path: []any{"tax", "prices_include"}})
		} else {
			out = append(out, Position{Kind: "includes+", Path: []any{"tax", "prices_include"}})
		}
	} else if strings.HasSuffix(fmt.Sprint(doc["$schema"]), "bill/invoice") {
		out = append(out, Position{Kind: "includes+", Path: []any{"tax", "prices_include"}})
	}
	var walk func(v any, path []any)
	walk = func(v any, path []any) {
		switch x := v.(type) {
		case map[string]any:
			keys := make([]string, 0, len(x))
			for k := range x {
				keys = append(keys, k)
			}
			sort.Strings(keys)
			for _, k := range keys {
				val := x[k]
				p := appendPath(path, k)
				switch {
				case k == "meta" || k == "complements" || (len(path) == 0 && k == "totals"):
					continue
				case k == "cat":
					if _, ok := val.(string); ok {
						out = append(out, Position{Kind: "category", Path: p})
					}
				case k == "rate":
					if _, ok := val.(string); ok {
						if _, isCombo := x["cat"]; isCombo {
							out = append(out, Position{Kind: "rate", Path: p})
						}
					}
				case k == "key":
					if _, ok := val.(string); ok {
						if kind := keyKind(pathStr(path)); kind != "" { // keys.go
							out = append(out, Position{Kind: kind, Path: p})
						}
					}
				case k == "currency":
					if _, ok := val.(string); ok {
						out = append(out, Position{Kind: "currency", Path: p})
					}
				case k == "country":
					if _, ok := val.(string); ok {
						out = append(out, Position{Kind: "country", Path: p})
					}
				case k == "ext":
					if m, ok := val.(map[string]any); ok {
						eks := make([]string, 0, len(m))
						for ek := range m {
							eks = append(eks, ek)
						}
						sort.Strings(eks)
						for _, ek := range eks {
							if _, ok := m[ek].(string); ok {
								out = append(out, Position{Kind: "extkey", Path: p, Key: ek}, Position{Kind: "extval", Path: p, Key: ek})
							}
						}
						continue
					}
				}
				walk(val, p)
			}
		case []any:
			for i, e := range x {
				walk(e, appendPath(path, i))
			}
		}
	}
	walk(doc, nil)
	return out
}

func deepCopy(v any) any {
	switch x := v.(type) {
	case map[string]any:
		m := make(map[string]any, len(x))
		for k, e := range x {
			m[k] = deepCopy(e)
		}
		return m
	case []any:
		l := make([]any, len(x))
		for i, e := range x {
			l[i] = deepCopy(e)
		}
		return l
	}
	return v
}

func idx(e any) int {
	switch v := e.(type) {
	case int:
		return v
	case float64:
		return int(v)
	}
	return -1
}

// substitute returns a copy of doc with the value at the position replaced.
func substitute(doc map[string]any, pos Position, val string) map[string]any {
	d := deepCopy(doc).(map[string]any)
	switch pos.Kind {
	case "addon+", "tag+":
		k := pos.Path[0].(string)
		l, _ := d[k].([]any)
		d[k] = append(l, val)
		return d
	case "includes+":
		t, _ := d["tax"].(map[string]any)
		if t == nil {
			t = map[string]any{}
			d["tax"] = t
		}
		t["prices_include"] = val
		return d
	}
	var cur any = d
	for i, e := range pos.Path {
		last := i == len(pos.Path)-1
		switch k := e.(type) {
		case string:
			m, ok := cur.(map[string]any)
			if !ok {
				return d
			}
			if last {
				switch pos.Kind {
				case "extkey":
					em, _ := m[k].(map[string]any)
					if em != nil {
						old := em[pos.Key]
						delete(em, pos.Key)
						em[val] = old
					}
				case "extval":
					em, _ := m[k].(map[string]any)
					if em != nil {
						em[pos.Key] = val
					}
				default:
					m[k] = val
				}
				return d
			}
			cur = m[k]
		default:
			l, ok := cur.([]any)
			j := idx(e)
			if !ok || j < 0 || j >= len(l) {
				return d
			}
			if last {
				l[j] = val
				return d
			}
			cur = l[j]
		}
	}
	return d
}

// ---- candidates --------------------------------------------------------------------------------

var undefinedFamily = map[string][]string{
	"regime":    {"ZZ", "XX", "es", "ESP", "E1"},
	"addon":     {"zz-undefined-v1", "es-facturae-v9", "ES-FACTURAE-V3"},
	"addon+":    {"zz-undefined-v1"},
	"tag":       {"zz-undefined", "undefined-tag", "Simplified"},
	"tag+":      {"zz-undefined"},
	"category":  {"ZZT", "XXX", "vat", "V"},
	"includes":  {"ZZT", "XXX", "vat"},
	"includes+": {"ZZT", "XXX"},
	"rate":      {"undefined-rate", "zz", "standard+zz", "zz+standard", "Standard"},
	"extkey":    {"zz-undefined-key", "xx-yy-zz", "ES-TBAI-REGION"},
	"extval":    {"ZZZ", "zz", "0", "undefined-code"},
	"currency":  {"ZZZ", "XXA", "eur", "EURO"},
	"country":   {"ZZ", "XX", "es", "ESP"},
}

func (p *pub) defined(pos Position) []string {
	switch pos.Kind {
	case "regime":
		return p.Regimes
	case "addon", "addon+":
		return p.Addons
	case "tag", "tag+":
		return p.Tags
	case "category", "includes", "includes+":
		return p.Categories
	case "rate":
		return append(append([]string{}, p.Rates...), "standard+eqs", "reduced+eqs", "standard+island")
	case "extkey":
		return p.ExtKeys
	case "extval":
		return p.Ext[pos.Key].Codes
	case "currency":
		return p.Currencies
	case "country":
		return p.Countries
	}
	return p.definedKeys(pos.Kind) // keys.go
}

// ---- cases -------------------------------------------------------------------------------------

// Case is one substituted document (also the replay format).
type Case struct {
	Example  string   `json:"example"`
	Position Position `json:"position"`
	Value    string   `json:"value"`
	Defined  bool     `json:"value_is_defined"`
}

func (c Case) key() string {
	return c.Example + "|" + c.Position.Kind + pathStr(c.Position.Path) + "|" + c.Position.Key + "|" + c.Value
}

type item struct {
	req   string // driver request
	what  string // human description
	path  string
	kind  string
	known string // classifier when the item does not resolve
}

type result struct {
	cs       Case
	accepted bool
	stage    string // parse | calculate | validate | ok | panic
	items    []item
}

func hx(s string) string { return core.Hex(s) }

func schemaShort(doc map[string]any) string {
	s, _ := doc["$schema"].(string)
	return strings.TrimPrefix(strings.TrimPrefix(s, schema.GOBL.String()), "/")
}

// extractItems lists every reference of a validated output document.
func extractItems(p *pub, doc map[string]any) []item {
	var out []item
	regime, hasRegime := doc["$regime"].(string)
	sch := schemaShort(doc)
	definedRegime := func(code string) bool {
		for _, r := range p.Regimes {
			if r == code {
				return true
			}
		}
		return false
	}
	if hasRegime {
		out = append(out, item{req: hx("regime") + " " + hx(regime), what: "$regime " + regime, path: ".$regime", kind: "regime", known: knownRegime})
	}
	var addons []string
	if l, ok := doc["$addons"].([]any); ok {
		for i, a := range l {
			if s, ok := a.(string); ok {
				addons = append(addons, s)
				out = append(out, item{req: hx("addon") + " " + hx(s), what: "$addons " + s, path: fmt.Sprintf(".$addons[%d]", i), kind: "addon"})
			}
		}
	}
	if l, ok := doc["$tags"].([]any); ok {
		for i, t := range l {
			if s, ok := t.(string); ok {
				req := hx("tag") + " " + hx(regime) + " " + hx(sch) + " " + hx(s) + " " + hx(fmt.Sprint(len(addons)))
				for _, a := range addons {
					req += " " + hx(a)
				}
				it := item{req: req, what: "$tags " + s + " (" + sch + ")", path: fmt.Sprintf(".$tags[%d]", i), kind: "tag"}
				switch {
				case sch != "bill/invoice":
					it.known = knownTagsOther
				case hasRegime && !definedRegime(regime):
					it.known = knownRegime
				}
				out = append(out, it)
			}
		}
	}
	comboItem := func(cat, country, rate, path, kind string) {
		it := item{req: hx("combo") + " " + hx(regime) + " " + hx(cat) + " " + hx(country) + " " + hx(rate),
			what: fmt.Sprintf("tax category %q rate %q (regime %q, country override %q)", cat, rate, regime, country), path: path, kind: kind}
		applies := regime
		if country != "" {
			applies = country
		}
		if !definedRegime(applies) {
			it.known = knownRegime
		}
		out = append(out, it)
	}
	// tax.prices_include: a category of the document's regime (bill.Tax validation)
	if t, ok := doc["tax"].(map[string]any); ok {
		if s, ok := t["prices_include"].(string); ok && s != "" {
			it := item{req: hx("includes") + " " + hx(regime) + " " + hx(s),
				what: fmt.Sprintf("tax.prices_include %q (regime %q)", s, regime), path: ".tax.prices_include", kind: "includes"}
			if !definedRegime(regime) {
				it.known = knownRegime
			}
			out = append(out, it)
		}
	}
	var walk func(v any, path string)
	walk = func(v any, path string) {
		switch x := v.(type) {
		case map[string]any:
			if cat, ok := x["cat"].(string); ok {
				country, _ := x["country"].(string)
				rate, _ := x["rate"].(string)
				comboItem(cat, country, rate, path, "combo")
			}
			// a tax.Total: categories[].code with rates[].key / country
			if cats, ok := x["categories"].([]any); ok {
				for i, ce := range cats {
					cm, ok := ce.(map[string]any)
					if !ok {
						continue
					}
					code, ok := cm["code"].(string)
					if !ok {
						continue
					}
					rates, _ := cm["rates"].([]any)
					if len(rates) == 0 {
						comboItem(code, "", "", fmt.Sprintf("%s.categories[%d]", path, i), "total")
					}
					for j, re := range rates {
						rm, _ := re.(map[string]any)
						key, _ := rm["key"].(string)
						country, _ := rm["country"].(string)
						comboItem(code, country, key, fmt.Sprintf("%s.categories[%d].rates[%d]", path, i, j), "total")
					}
				}
			}
			keys := make([]string, 0, len(x))
			for k := range x {
				keys = append(keys, k)
			}
			sort.Strings(keys)
			for _, k := range keys {
				val := x[k]
				pp := path + "." + k
				switch {
				case k == "meta" || k == "complements":
					// free-form maps / embedded objects of other (addon-specific) schemas
					continue
				case k == "currency" || ((k == "from" || k == "to") && strings.Contains(path, "exchange_rates")):
					if s, ok := val.(string); ok {
						out = append(out, item{req: hx("currency") + " " + hx(s), what: "currency " + s, path: pp, kind: "currency"})
					}
				case k == "country":
					if s, ok := val.(string); ok {
						out = append(out, item{req: hx("country") + " " + hx(s), what: "country " + s, path: pp, kind: "country"})
					}
				case k == "key":
					if s, ok := val.(string); ok && s != "" {
						if kind := keyKind(path); kind != "" { // keys.go
							out = append(out, keyItem(kind, s, pp))
						}
					}
				case k == "$regime" && path != "":
					// the `$regime` a party declares for itself
					if s, ok := val.(string); ok {
						out = append(out, item{req: hx("regime") + " " + hx(s), what: "$regime " + s + " (of a party)", path: pp, kind: "regime", known: knownRegime})
					}
				case k == "ext":
					if m, ok := val.(map[string]any); ok {
						for ek, ev := range m {
							s, ok := ev.(string)
							if !ok {
								continue
							}
							def := p.Ext[ek]
							matched := "0"
							if def.Pattern != "" {
								if re, err := regexp.Compile(def.Pattern); err == nil && re.MatchString(s) {
									matched = "1"
								}
							}
							it := item{req: hx("ext") + " " + hx(ek) + " " + hx(s) + " " + hx(def.Pattern) + " " + hx(matched),
								what: "extension " + ek + "=" + s, path: pp, kind: "ext"}
							if strings.Contains(pp, ".tax.categories[") && !strings.HasPrefix(pp, ".totals.") {
								it.kind = "ext-stored" // a stored tax summary: tax.RateTotal.Validate
							}
							if sch == "bill/order" && pp == ".tax.ext" {
								it.known = knownOrderTax
							}
							out = append(out, it)
						}
						continue
					}
				}
				walk(val, pp)
			}
		case []any:
			for i, e := range x {
				walk(e, fmt.Sprintf("%s[%d]", path, i))
			}
		}
	}
	walk(doc, "")
	return out
}

// runDoc calculates and validates one document with the real code.
func runDoc(p *pub, doc map[string]any) (stage string, out map[string]any) {
	b, _ := json.Marshal(doc)
	obj := new(schema.Object)
	stage = "ok"
	pan := core.Protect(func() {
		if err := json.Unmarshal(b, obj); err != nil {
			stage = "parse"
			return
		}
		if err := obj.Calculate(); err != nil {
			stage = "calculate"
			return
		}
		if err := obj.Validate(); err != nil {
			stage = "validate"
			return
		}
		ob, err := json.Marshal(obj)
		if err != nil {
			stage = "marshal"
			return
		}
		if err := json.Unmarshal(ob, &out); err != nil {
			stage = "marshal"
		}
	})
	if pan != "" {
		return "panic", nil
	}
	return stage, out
}

type example struct {
	name string
	doc  map[string]any
	pos  []Position
}

func loadExamples(repo string) ([]example, error) {
	var files []string
	root := filepath.Join(repo, "examples")
	err := filepath.Walk(root, func(p string, info os.FileInfo, err error) error {
		if err != nil {
			return err
		}
		if !info.IsDir() && strings.HasSuffix(p, ".json") && filepath.Base(filepath.Dir(p)) == "out" {
			files = append(files, p)
		}
		return nil
	})
	if err != nil {
		return nil, err
	}
	sort.Strings(files)
	var out []example
	for _, f := range files {
		b, err := os.ReadFile(f)
		if err != nil {
			return nil, err
		}
		var env map[string]any
		if err := json.Unmarshal(b, &env); err != nil {
			continue
		}
		doc, ok := env["doc"].(map[string]any)
		if !ok {
			doc = env
		}
		rel, _ := filepath.Rel(root, f)
		out = append(out, example{name: filepath.ToSlash(rel), doc: doc, pos: findPositions(doc)})
	}
	return out, nil
}

// Run is the C18 harness entry point.
func Run(c *core.Ctx) int {
	p, err := loadPub(c.Repo)
	if err != nil {
		c.TieBroken("drive:C18/defs", err.Error(), nil)
		return c.Finish(rule, nil)
	}
	p.loadKeySets(c.Repo) // keys.go
	exs, err := loadExamples(c.Repo)
	if err != nil || len(exs) == 0 {
		c.TieBroken("drive:C18/examples", fmt.Sprint("no examples: ", err), nil)
		return c.Finish(rule, nil)
	}
	byName := map[string]*example{}
	for i := range exs {
		byName[exs[i].name] = &exs[i]
	}
	c.Count("examples", int64(len(exs)))

	var cases []Case
	var one Case
	var hone HCase
	if c.ReplayFile != "" && c.ReplayCase(&hone) && hone.Family != "" {
		// a case of the in-place / party-regime families (history.go)
		runFamilies(c, p, exs, byName, &hone)
		return c.Finish(rule, nil)
	}
	if c.ReplayCase(&one) {
		cases = []Case{one}
	} else {
		// the unchanged examples themselves
		for _, ex := range exs {
			cases = append(cases, Case{Example: ex.name, Position: Position{Kind: "none"}, Defined: true})
		}
		var definedCases []Case
		for _, ex := range exs {
			for _, pos := range ex.pos {
				c.Count("positions:"+pos.Kind, 1)
				for _, v := range undefinedFamily[pos.Kind] {
					cases = append(cases, Case{Example: ex.name, Position: pos, Value: v})
				}
				for _, v := range undefinedKeys[pos.Kind] { // keys.go
					cases = append(cases, Case{Example: ex.name, Position: pos, Value: v})
				}
				// undefined values derived from the defined one in place: a defined
				// extension key with an extra sub-key component, doubled, or prefixed
				if pos.Kind == "extkey" && pos.Key != "" {
					for _, v := range []string{pos.Key + "+zz-not-defined", pos.Key + "+x+y", "zz-" + pos.Key} {
						cases = append(cases, Case{Example: ex.name, Position: pos, Value: v})
					}
				}
				for _, v := range p.defined(pos) {
					definedCases = append(definedCases, Case{Example: ex.name, Position: pos, Value: v, Defined: true})
				}
			}
		}
		c.Count("substitutions-possible", int64(len(cases)+len(definedCases)))
		if c.Thorough() {
			cases = append(cases, definedCases...)
		} else {
			// every undefined substitution, and a seeded sample of the defined ones
			n := c.Pick(9000, 0)
			c.Rng.Shuffle(len(definedCases), func(i, j int) { definedCases[i], definedCases[j] = definedCases[j], definedCases[i] })
			if n > len(definedCases) {
				n = len(definedCases)
			}
			cases = append(cases, definedCases[:n]...)
		}
	}

	// run the real code
	results := make([]result, len(cases))
	var wg sync.WaitGroup
	work := make(chan int, 256)
	for w := 0; w < 12; w++ {
		wg.Add(1)
		go func() {
			defer wg.Done()
			for i := range work {
				cs := cases[i]
				ex := byName[cs.Example]
				res := result{cs: cs}
				if ex == nil {
					res.stage = "no-example"
					results[i] = res
					continue
				}
				doc := ex.doc
				if cs.Position.Kind != "none" {
					doc = substitute(ex.doc, cs.Position, cs.Value)
				}
				stage, out := runDoc(p, doc)
				res.stage = stage
				if stage == "ok" {
					res.accepted = true
					res.items = extractItems(p, out)
				}
				results[i] = res
			}
		}()
	}
	for i := range cases {
		work <- i
	}
	close(work)
	wg.Wait()

	// judge the references of every accepted document
	uniqReq := map[string]int{}
	var reqs []string
	for _, r := range results {
		for _, it := range r.items {
			if _, ok := uniqReq[it.req]; !ok {
				uniqReq[it.req] = len(reqs)
				reqs = append(reqs, it.req)
			}
		}
	}
	resp, err := c.Model(reqs)
	if err != nil {
		c.TieBroken("drive:C18/model", err.Error(), nil)
		return c.Finish(rule, nil)
	}
	c.Count("distinct-references-judged", int64(len(reqs)))
	for _, r := range results {
		d := "undefined"
		if r.cs.Defined {
			d = "defined"
		}
		c.Eval(r.cs.key(), r.accepted)
		c.Count("outcome:"+r.stage+" ("+d+" value)", 1)
		c.Count("kind:"+r.cs.Position.Kind+":"+r.stage, 1)
		if r.stage == "panic" {
			c.Count("panics (C14's business)", 1)
		}
		if !r.accepted {
			if r.cs.Position.Kind == "none" {
				c.Note("example %s is not accepted unchanged (%s)", r.cs.Example, r.stage)
			}
			continue
		}
		c.Count("references-judged", int64(len(r.items)))
		for _, it := range r.items {
			ans := resp[uniqReq[it.req]]
			f := strings.Fields(ans)
			if len(f) != 3 || f[0] != "ok" {
				c.TieBroken("drive:C18/item", "driver answered "+ans+" for "+it.what, map[string]any{"case": r.cs, "item": it.what})
				continue
			}
			if f[1] == "1" {
				if f[2] == "0" && strings.HasSuffix(it.kind, "key") { // keys.go: accepted by the code, refused by the model of its rule
					c.TieBroken("drive:C18/"+it.kind, "the code accepted a key the model of its rule rejects: "+it.what, map[string]any{"case": r.cs})
				}
				continue
			}
			c.Count("unresolved:"+it.kind, 1)
			c.Count("unresolved-at:"+it.kind+" "+stripIdx(it.path)+" ["+it.known+"]", 1)
			what := fmt.Sprintf("%s with %s%s := %q is calculated and validated, yet %s (at %s) does not resolve in the published definitions (model of the code's rule: %s)",
				r.cs.Example, r.cs.Position.Kind, pathStr(r.cs.Position.Path)+keySuffix(r.cs.Position), r.cs.Value, it.what, it.path, map[string]string{"1": "accepts", "0": "rejects"}[f[2]])
			c.Fail(it.known, what, map[string]any{"case": r.cs, "unresolved": it.what, "at": it.path})
			if f[2] == "0" && it.known == "" {
				c.TieBroken("drive:C18/"+it.kind, "the code accepted a reference the model of its rule rejects: "+it.what, map[string]any{"case": r.cs})
			}
		}
		if len(c.Samples) < 6 && r.cs.Position.Kind != "none" && !r.cs.Defined {
			c.Sample(map[string]any{"case": r.cs, "references": len(r.items)})
		}
	}
	if c.ReplayFile == "" {
		// validation as a function of the content (in-place edits), party-level regimes (history.go)
		runFamilies(c, p, exs, byName, nil)
	}
	return c.Finish(rule, map[string]any{"exhaustive": c.Thorough()})
}

var idxRe = regexp.MustCompile(`\[\d+\]`)

func stripIdx(p string) string { return idxRe.ReplaceAllString(p, "[]") }

func keySuffix(p Position) string {
	if p.Key != "" {
		return "{" + p.Key + "}"
	}
	return ""
}
