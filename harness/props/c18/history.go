package c18

// Two families on top of the substitution sweep of c18.go.
//
// Family "inplace" — THE VERDICT OF VALIDATION IS A FUNCTION OF THE DOCUMENT'S
// CONTENT, NOT OF ITS HISTORY.  Every example is parsed, calculated and
// validated; then ONE reference of the very same Go object is edited in place
// (an addon or tag dropped / replaced / added, `$regime` changed, a party's
// `$regime`, a category, rate key, extension key or value, currency, country
// replaced) WITHOUT recalculating, by the three ways a user has: the setters the
// embedded structs offer (SetAddons, SetRegime, SetTags), json.Unmarshal of the
// edited text into the same struct, which leaves whatever the struct does not
// serialise untouched, and json.Unmarshal into a zeroed struct value (`*p = T{}`).
// The object is validated again.  Relation: that verdict equals the verdict of a
// freshly parsed copy of the object's own JSON; and whatever is accepted is
// judged by the reference oracle (every reference of the accepted document
// resolves in the published definitions).
//
// Family "party-regime" — a party (supplier, customer, buyer, seller, payee,
// receiver …: every *org.Party of the document, found by reflection) may carry
// a `$regime` of its own; none of the shipped examples has one.  For every
// example × party × published regime R other than the document's, the party's
// `$regime` is set to R TOGETHER WITH a value that R defines and the document's
// regime does not: a (category, rate key) pair in every tax combo, a category in
// `tax.prices_include`, a tag R offers for the document type.  The edited
// (calculated) document is parsed afresh and validated as it stands — Calculate
// would refuse the combo against the document's regime before validation sees it
// — and, for a sample, also calculated first.  What is accepted is judged by the
// same oracle: the regime that applies to a combo is the DOCUMENT's unless the
// combo names a country.

import (
	"encoding/json"
	"fmt"
	"os"
	"path/filepath"
	"reflect"
	"sort"
	"strings"
	"sync"

	"github.com/invopop/gobl/cbc"
	"github.com/invopop/gobl/l10n"
	"github.com/invopop/gobl/org"
	"github.com/invopop/gobl/schema"

	"verifharness/internal/core"
)

// HEdit is one edit of a calculated document.
type HEdit struct {
	Position Position `json:"position"`
	Value    string   `json:"value,omitempty"`
	Remove   bool     `json:"remove,omitempty"` // drop the member / array element at the position
}

// HCase is one case of the two families (also the replay format).
type HCase struct {
	Family  string  `json:"family"` // inplace | party-regime
	Example string  `json:"example"`
	Edits   []HEdit `json:"edits"`
	Via     string  `json:"via"` // inplace: unmarshal | unmarshal-zeroed | setter; party-regime: validate | calculate
	Defined bool    `json:"values_are_defined"`
}

func (h HCase) key() string {
	var sb strings.Builder
	sb.WriteString(h.Family + "|" + h.Example + "|" + h.Via)
	for _, e := range h.Edits {
		fmt.Fprintf(&sb, "|%s%s{%s}=%s/%v", e.Position.Kind, pathStr(e.Position.Path), e.Position.Key, e.Value, e.Remove)
	}
	return sb.String()
}

func (h HCase) describe() string {
	var parts []string
	for _, e := range h.Edits {
		at := e.Position.Kind + pathStr(e.Position.Path) + keySuffix(e.Position)
		if e.Remove {
			parts = append(parts, at+" removed")
		} else {
			parts = append(parts, fmt.Sprintf("%s := %q", at, e.Value))
		}
	}
	return strings.Join(parts, ", ")
}

// ---- per-regime tables of the published files ---------------------------------------------

type regimeTab struct {
	cats  []string            // category codes in file order
	rates map[string][]string // category → rate keys
	tags  map[string][]string // schema → tag keys
}

// loadRegimeTabs reads data/regimes/*.json once more, per regime.
func loadRegimeTabs(repo string) (map[string]*regimeTab, []string) {
	out := map[string]*regimeTab{}
	var codes []string
	files, _ := filepath.Glob(filepath.Join(repo, "data", "regimes", "*.json"))
	sort.Strings(files)
	for _, f := range files {
		b, err := os.ReadFile(f)
		if err != nil {
			continue
		}
		var d struct {
			Country string `json:"country"`
			Tags    []struct {
				Schema string `json:"schema"`
				List   []struct {
					Key string `json:"key"`
				} `json:"list"`
			} `json:"tags"`
			Categories []struct {
				Code  string `json:"code"`
				Rates []struct {
					Key string `json:"key"`
				} `json:"rates"`
			} `json:"categories"`
		}
		if json.Unmarshal(b, &d) != nil || d.Country == "" {
			continue
		}
		t := &regimeTab{rates: map[string][]string{}, tags: map[string][]string{}}
		for _, c := range d.Categories {
			t.cats = append(t.cats, c.Code)
			for _, r := range c.Rates {
				t.rates[c.Code] = append(t.rates[c.Code], r.Key)
			}
		}
		for _, ts := range d.Tags {
			for _, k := range ts.List {
				t.tags[ts.Schema] = append(t.tags[ts.Schema], k.Key)
			}
		}
		if _, dup := out[d.Country]; !dup {
			codes = append(codes, d.Country)
		}
		out[d.Country] = t
	}
	sort.Strings(codes)
	return out, codes
}

// keyHasAny: one of the `+`-separated parts of the key is one of the listed keys (cbc.Key.Has)
func keyHasAny(key string, keys []string) bool {
	for _, part := range strings.Split(key, "+") {
		if has(keys, part) {
			return true
		}
	}
	return false
}

func has(xs []string, x string) bool {
	for _, y := range xs {
		if y == x {
			return true
		}
	}
	return false
}

// ---- parties, by reflection over the real object -------------------------------------------

var partyType = reflect.TypeOf((*org.Party)(nil))

// findParties lists the JSON paths of every non-nil *org.Party of a document.
func findParties(v reflect.Value, path []any, depth int, out *[][]any) {
	if depth > 12 || !v.IsValid() {
		return
	}
	switch v.Kind() {
	case reflect.Ptr:
		if v.IsNil() {
			return
		}
		if v.Type() == partyType {
			*out = append(*out, path)
			return
		}
		findParties(v.Elem(), path, depth+1, out)
	case reflect.Interface:
		if !v.IsNil() {
			findParties(v.Elem(), path, depth+1, out)
		}
	case reflect.Struct:
		t := v.Type()
		for i := 0; i < t.NumField(); i++ {
			f := t.Field(i)
			if f.PkgPath != "" { // unexported
				continue
			}
			tag := f.Tag.Get("json")
			name := strings.Split(tag, ",")[0]
			if name == "-" {
				continue
			}
			if f.Anonymous && name == "" {
				findParties(v.Field(i), path, depth+1, out)
				continue
			}
			if name == "" {
				name = f.Name
			}
			findParties(v.Field(i), appendPath(path, name), depth+1, out)
		}
	case reflect.Slice, reflect.Array:
		for i := 0; i < v.Len(); i++ {
			findParties(v.Index(i), appendPath(path, i), depth+1, out)
		}
	}
}

// ---- editing a decoded document ---------------------------------------------------------------

// removeIn drops the member / array element the path names; an emptied array stays as `[]`
// and a dropped member is written as an explicit null, so that reading the text into a
// struct that already holds a value clears it.
func removeIn(v any, path []any) any {
	if len(path) == 0 {
		return v
	}
	switch k := path[0].(type) {
	case string:
		m, ok := v.(map[string]any)
		if !ok {
			return v
		}
		if len(path) == 1 {
			if _, has := m[k]; has {
				m[k] = nil
			}
			return m
		}
		m[k] = removeIn(m[k], path[1:])
		return m
	default:
		l, ok := v.([]any)
		j := idx(k)
		if !ok || j < 0 || j >= len(l) {
			return v
		}
		if len(path) == 1 {
			return append(append([]any{}, l[:j]...), l[j+1:]...)
		}
		l[j] = removeIn(l[j], path[1:])
		return l
	}
}

func applyEdits(doc map[string]any, edits []HEdit) map[string]any {
	d := deepCopy(doc).(map[string]any)
	for _, e := range edits {
		if e.Remove {
			d, _ = removeIn(d, e.Position.Path).(map[string]any)
			continue
		}
		d = substitute(d, e.Position, e.Value)
	}
	return d
}

// ---- running the real code -----------------------------------------------------------------------

type hres struct {
	hc        HCase
	stage     string // base-rejected | edit-failed | panic | judged
	inPlaceOK bool   // verdict on the edited object (inplace) / on the edited document (party-regime)
	freshOK   bool   // verdict on a freshly parsed copy of the object's JSON (inplace only)
	inPlace   string // error texts
	fresh     string
	items     []item
}

func parseDoc(b []byte) (*schema.Object, error) {
	obj := new(schema.Object)
	if err := json.Unmarshal(b, obj); err != nil {
		return nil, err
	}
	if obj.Instance() == nil {
		return nil, fmt.Errorf("no payload")
	}
	return obj, nil
}

func toMap(obj *schema.Object) (map[string]any, []byte, error) {
	b, err := json.Marshal(obj)
	if err != nil {
		return nil, nil, err
	}
	var m map[string]any
	if err := json.Unmarshal(b, &m); err != nil {
		return nil, nil, err
	}
	return m, b, nil
}

// calculatedBase parses, calculates and validates an example; nil when the present code
// does not accept it.
func calculatedBase(doc map[string]any) (*schema.Object, map[string]any) {
	b, _ := json.Marshal(doc)
	var obj *schema.Object
	var m map[string]any
	pan := core.Protect(func() {
		o, err := parseDoc(b)
		if err != nil || o.Calculate() != nil || o.Validate() != nil {
			return
		}
		mm, _, err := toMap(o)
		if err != nil {
			return
		}
		obj, m = o, mm
	})
	if pan != "" {
		return nil, nil
	}
	return obj, m
}

// setter applies a single top-level edit through the methods the embedded structs offer.
func setter(inst any, base map[string]any, e HEdit) bool {
	strs := func(k string) []cbc.Key {
		l, _ := base[k].([]any)
		var out []cbc.Key
		for _, x := range l {
			if s, ok := x.(string); ok {
				out = append(out, cbc.Key(s))
			}
		}
		return out
	}
	edit := func(cur []cbc.Key) []cbc.Key {
		switch {
		case strings.HasSuffix(e.Position.Kind, "+"):
			return append(cur, cbc.Key(e.Value))
		case len(e.Position.Path) == 2:
			j := idx(e.Position.Path[1])
			if j < 0 || j >= len(cur) {
				return cur
			}
			if e.Remove {
				return append(append([]cbc.Key{}, cur[:j]...), cur[j+1:]...)
			}
			out := append([]cbc.Key{}, cur...)
			out[j] = cbc.Key(e.Value)
			return out
		}
		return cur
	}
	switch e.Position.Kind {
	case "addon", "addon+":
		s, ok := inst.(interface{ SetAddons(...cbc.Key) })
		if !ok {
			return false
		}
		s.SetAddons(edit(strs("$addons"))...)
		return true
	case "tag", "tag+":
		s, ok := inst.(interface{ SetTags(...cbc.Key) })
		if !ok {
			return false
		}
		s.SetTags(edit(strs("$tags"))...)
		return true
	case "regime":
		s, ok := inst.(interface{ SetRegime(l10n.TaxCountryCode) })
		if !ok || e.Remove {
			return false
		}
		s.SetRegime(l10n.TaxCountryCode(e.Value))
		return true
	}
	return false
}

func errText(err error) string {
	if err == nil {
		return ""
	}
	return err.Error()
}

func runInPlace(p *pub, ex *example, hc HCase) hres {
	res := hres{hc: hc, stage: "judged"}
	pan := core.Protect(func() {
		obj, base := calculatedBase(ex.doc) // calculated AND validated once: the history
		if obj == nil {
			res.stage = "base-rejected"
			return
		}
		switch hc.Via {
		case "setter":
			if len(hc.Edits) != 1 || !setter(obj.Instance(), base, hc.Edits[0]) {
				res.stage = "edit-failed"
				return
			}
		default:
			eb, err := json.Marshal(applyEdits(base, hc.Edits))
			if err != nil {
				res.stage = "edit-failed"
				return
			}
			inst := obj.Instance()
			if hc.Via == "unmarshal-zeroed" {
				// `*p = T{}` before reading: every exported member starts from zero
				rv := reflect.ValueOf(inst)
				if rv.Kind() != reflect.Ptr || rv.IsNil() {
					res.stage = "edit-failed"
					return
				}
				zeroExported(rv.Elem())
			}
			if err := json.Unmarshal(eb, inst); err != nil {
				res.stage = "edit-failed"
				return
			}
		}
		errA := obj.Validate()
		m, b, err := toMap(obj)
		if err != nil {
			res.stage = "edit-failed"
			return
		}
		fresh, err := parseDoc(b)
		if err != nil {
			// the object writes a text it does not read back: C04's business
			res.stage = "edit-failed"
			return
		}
		if fb, err := json.Marshal(fresh); err != nil || string(fb) != string(b) {
			// reading the text changes it (a `$regime` derived from the supplier when there is
			// none …): the two objects would not have the same content; outside the relation
			res.stage = "parse-rewrites-content"
			return
		}
		errB := fresh.Validate()
		res.inPlaceOK, res.freshOK = errA == nil, errB == nil
		res.inPlace, res.fresh = errText(errA), errText(errB)
		if errA == nil {
			res.items = extractItems(p, m)
		}
	})
	if pan != "" {
		res.stage = "panic"
	}
	return res
}

// zeroExported sets every exported (settable) field of a struct to its zero value and leaves
// the rest alone: what a user does who clears the members one by one before re-using a value.
func zeroExported(v reflect.Value) {
	if v.Kind() != reflect.Struct {
		return
	}
	for i := 0; i < v.NumField(); i++ {
		f := v.Field(i)
		if !f.CanSet() {
			continue
		}
		if v.Type().Field(i).Anonymous && f.Kind() == reflect.Struct {
			zeroExported(f)
			continue
		}
		f.Set(reflect.Zero(f.Type()))
	}
}

func runPartyRegime(p *pub, base map[string]any, hc HCase) hres {
	res := hres{hc: hc, stage: "judged"}
	pan := core.Protect(func() {
		eb, err := json.Marshal(applyEdits(base, hc.Edits))
		if err != nil {
			res.stage = "edit-failed"
			return
		}
		obj, err := parseDoc(eb)
		if err != nil {
			res.stage = "edit-failed"
			return
		}
		if hc.Via == "calculate" {
			if err := obj.Calculate(); err != nil {
				res.inPlace = "calculate: " + err.Error()
				return
			}
		}
		errA := obj.Validate()
		res.inPlaceOK, res.inPlace = errA == nil, errText(errA)
		res.freshOK = res.inPlaceOK
		if errA == nil {
			m, _, err := toMap(obj)
			if err != nil {
				res.stage = "edit-failed"
				return
			}
			res.items = extractItems(p, m)
		}
	})
	if pan != "" {
		res.stage = "panic"
	}
	return res
}

// ---- the cases -------------------------------------------------------------------------------------

// comboPositions lists the tax combos of a document (objects with a `cat` member outside
// `totals`, meta and complements), by the positions findPositions reports.
func comboPositions(pos []Position) [][]any {
	var out [][]any
	for _, q := range pos {
		if q.Kind == "category" && len(q.Path) > 0 {
			out = append(out, q.Path[:len(q.Path)-1])
		}
	}
	return out
}

func inPlaceCases(c *core.Ctx, p *pub, exs []example, bases map[string]map[string]any, parties map[string][][]any) []HCase {
	var must, sample []HCase
	for _, ex := range exs {
		base := bases[ex.name]
		if base == nil {
			continue
		}
		pos := findPositions(base)
		for _, pp := range parties[ex.name] {
			pos = append(pos, Position{Kind: "regime", Path: appendPath(pp, "$regime")})
		}
		for _, q := range pos {
			top := len(q.Path) <= 2 && (q.Kind == "addon" || q.Kind == "addon+" || q.Kind == "tag" || q.Kind == "tag+" || (q.Kind == "regime" && len(q.Path) == 1))
			vias := []string{"unmarshal"}
			if top {
				vias = append(vias, "setter", "unmarshal-zeroed")
			}
			for _, via := range vias {
				if q.Kind == "addon" || q.Kind == "tag" {
					must = append(must, HCase{Family: "inplace", Example: ex.name, Via: via, Edits: []HEdit{{Position: q, Remove: true}}, Defined: true})
				}
				for _, v := range undefinedFamily[q.Kind] {
					hc := HCase{Family: "inplace", Example: ex.name, Via: via, Edits: []HEdit{{Position: q, Value: v}}}
					if top {
						must = append(must, hc)
					} else {
						sample = append(sample, hc)
					}
				}
				for _, v := range p.defined(q) {
					hc := HCase{Family: "inplace", Example: ex.name, Via: via, Edits: []HEdit{{Position: q, Value: v}}, Defined: true}
					if top && via != "unmarshal-zeroed" {
						must = append(must, hc)
					} else {
						sample = append(sample, hc)
					}
				}
			}
		}
	}
	c.Count("inplace:cases-possible", int64(len(must)+len(sample)))
	if c.Thorough() {
		return append(must, sample...)
	}
	c.Rng.Shuffle(len(sample), func(i, j int) { sample[i], sample[j] = sample[j], sample[i] })
	n := c.Pick(4000, 0)
	if n > len(sample) {
		n = len(sample)
	}
	return append(must, sample[:n]...)
}

func partyRegimeCases(c *core.Ctx, p *pub, tabs map[string]*regimeTab, codes []string, exs []example,
	bases map[string]map[string]any, parties map[string][][]any) []HCase {
	var strata [][]HCase // one list per (example, party, regime)
	for _, ex := range exs {
		base := bases[ex.name]
		if base == nil || len(parties[ex.name]) == 0 {
			continue
		}
		docRegime, _ := base["$regime"].(string)
		dt := tabs[docRegime]
		if dt == nil {
			continue
		}
		sch := schemaShort(base)
		pos := findPositions(base)
		combos := comboPositions(pos)
		for _, pp := range parties[ex.name] {
			preg := Position{Kind: "regime", Path: appendPath(pp, "$regime")}
			for _, r := range codes {
				if r == docRegime {
					continue
				}
				rt := tabs[r]
				var list []HCase
				add := func(edits ...HEdit) {
					for _, via := range []string{"validate", "calculate"} {
						list = append(list, HCase{Family: "party-regime", Example: ex.name, Via: via,
							Edits: append([]HEdit{{Position: preg, Value: r}}, edits...), Defined: true})
					}
				}
				// the party's regime alone
				add()
				for _, cp := range combos {
					catPos := Position{Kind: "category", Path: appendPath(cp, "cat")}
					ratePos := Position{Kind: "rate", Path: appendPath(cp, "rate")}
					for _, cat := range rt.cats {
						if !has(dt.cats, cat) {
							add(HEdit{Position: catPos, Value: cat}, HEdit{Position: ratePos, Remove: true})
						}
						for _, rk := range rt.rates[cat] {
							if has(dt.cats, cat) && keyHasAny(rk, dt.rates[cat]) {
								continue // a part of the key names a rate of the document's regime as well
							}
							add(HEdit{Position: catPos, Value: cat}, HEdit{Position: ratePos, Value: rk})
						}
					}
				}
				for _, cat := range rt.cats {
					if !has(dt.cats, cat) {
						for _, q := range pos {
							if q.Kind == "includes" || q.Kind == "includes+" {
								add(HEdit{Position: q, Value: cat})
							}
						}
					}
				}
				for _, tg := range rt.tags[sch] {
					if !has(dt.tags[sch], tg) {
						add(HEdit{Position: Position{Kind: "tag+", Path: []any{"$tags"}}, Value: tg})
					}
				}
				strata = append(strata, list)
			}
		}
	}
	total := 0
	for _, l := range strata {
		total += len(l)
	}
	c.Count("party-regime:cases-possible", int64(total))
	c.Count("party-regime:strata (example x party x regime)", int64(len(strata)))
	var out []HCase
	if c.Thorough() {
		for _, l := range strata {
			out = append(out, l...)
		}
		return out
	}
	// quick: two cases of every stratum (validate-only ones first), then a seeded sample of the rest
	var rest []HCase
	for _, l := range strata {
		var val, calc []HCase
		for _, h := range l {
			if h.Via == "validate" {
				val = append(val, h)
			} else {
				calc = append(calc, h)
			}
		}
		c.Rng.Shuffle(len(val), func(i, j int) { val[i], val[j] = val[j], val[i] })
		k := 2
		if k > len(val) {
			k = len(val)
		}
		out = append(out, val[:k]...)
		rest = append(rest, val[k:]...)
		rest = append(rest, calc...)
	}
	c.Rng.Shuffle(len(rest), func(i, j int) { rest[i], rest[j] = rest[j], rest[i] })
	n := c.Pick(8000, 0)
	if n > len(rest) {
		n = len(rest)
	}
	return append(out, rest[:n]...)
}

// ---- driver ------------------------------------------------------------------------------------------

func runFamilies(c *core.Ctx, p *pub, exs []example, byName map[string]*example, only *HCase) {
	tabs, codes := loadRegimeTabs(c.Repo)
	bases := map[string]map[string]any{}
	parties := map[string][][]any{}
	for i := range exs {
		ex := &exs[i]
		if only != nil && ex.name != only.Example {
			continue
		}
		obj, base := calculatedBase(ex.doc)
		if obj == nil {
			c.Count("families:example-not-accepted", 1)
			continue
		}
		bases[ex.name] = base
		var ps [][]any
		findParties(reflect.ValueOf(obj.Instance()), nil, 0, &ps)
		parties[ex.name] = ps
		c.Count("families:parties", int64(len(ps)))
	}
	var cases []HCase
	if only != nil {
		cases = []HCase{*only}
	} else {
		cases = append(cases, inPlaceCases(c, p, exs, bases, parties)...)
		cases = append(cases, partyRegimeCases(c, p, tabs, codes, exs, bases, parties)...)
	}
	results := make([]hres, len(cases))
	var wg sync.WaitGroup
	work := make(chan int, 256)
	for w := 0; w < 12; w++ {
		wg.Add(1)
		go func() {
			defer wg.Done()
			for i := range work {
				hc := cases[i]
				ex := byName[hc.Example]
				switch {
				case ex == nil || bases[hc.Example] == nil:
					results[i] = hres{hc: hc, stage: "base-rejected"}
				case hc.Family == "inplace":
					results[i] = runInPlace(p, ex, hc)
				default:
					results[i] = runPartyRegime(p, bases[hc.Example], hc)
				}
			}
		}()
	}
	for i := range cases {
		work <- i
	}
	close(work)
	wg.Wait()

	uniqReq := map[string]int{}
	var reqs []string
	for _, r := range results {
		for _, it := range r.items {
			if _, ok := uniqReq[it.req]; !ok {
				uniqReq[it.req] = len(reqs)
				reqs = append(reqs, it.req)
			}
		}
	}
	resp, err := c.Model(reqs)
	if err != nil {
		c.TieBroken("drive:C18/model", err.Error(), nil)
		return
	}
	c.Count("families:distinct-references-judged", int64(len(reqs)))
	for _, r := range results {
		fam := r.hc.Family
		c.Count(fam+":via:"+r.hc.Via, 1)
		if r.stage != "judged" {
			c.Count(fam+":"+r.stage, 1)
			c.Eval(r.hc.key(), false)
			continue
		}
		c.Eval(r.hc.key(), true)
		verdict := map[bool]string{true: "accepted", false: "rejected"}
		c.Count(fam+":"+r.hc.Via+":"+verdict[r.inPlaceOK], 1)
		if fam == "inplace" {
			for _, e := range r.hc.Edits {
				c.Count("inplace:kind:"+e.Position.Kind+map[bool]string{true: ":removed", false: ""}[e.Remove]+":"+verdict[r.inPlaceOK], 1)
			}
			switch {
			case r.inPlaceOK != r.freshOK:
				c.Count("inplace:verdict-depends-on-history", 1)
				why := r.inPlace
				if r.inPlaceOK {
					why = r.fresh
				}
				c.Fail("", fmt.Sprintf("%s: calculated and validated, then edited in place (%s; %s) without recalculating: Validate of the edited object says %s, Validate of a freshly parsed copy of the very same JSON says %s (%s) — the verdict depends on what was done with the object before, not on its content",
					r.hc.Example, r.hc.describe(), r.hc.Via, verdict[r.inPlaceOK], verdict[r.freshOK], why), r.hc)
			case r.inPlace != r.fresh:
				c.Count("inplace:same-verdict-other-error-text", 1)
			}
		}
		if !r.inPlaceOK {
			continue
		}
		c.Count(fam+":references-judged", int64(len(r.items)))
		for _, it := range r.items {
			ans := resp[uniqReq[it.req]]
			f := strings.Fields(ans)
			if len(f) != 3 || f[0] != "ok" {
				c.TieBroken("drive:C18/item", "driver answered "+ans+" for "+it.what, map[string]any{"case": r.hc, "item": it.what})
				continue
			}
			if f[1] == "1" {
				continue
			}
			c.Count(fam+":unresolved:"+it.kind+" "+stripIdx(it.path)+" ["+it.known+"]", 1)
			how := "edited in place after a first validation (" + r.hc.Via + ") and validated again without recalculating"
			if fam == "party-regime" {
				how = "parsed afresh and validated (" + r.hc.Via + ")"
			}
			what := fmt.Sprintf("%s with %s, %s, is accepted, yet %s (at %s) does not resolve in the published definitions (model of the code's rule: %s)",
				r.hc.Example, r.hc.describe(), how, it.what, it.path, map[string]string{"1": "accepts", "0": "rejects"}[f[2]])
			c.Fail(it.known, what, map[string]any{"case": r.hc, "unresolved": it.what, "at": it.path})
		}
		if fam == "party-regime" && len(r.hc.Edits) > 1 {
			c.Count("party-regime:accepted-with-a-foreign-value", 1)
		}
	}
}
