package c18

// Key positions (C18, second round): payment means keys (`payment.instructions.key`,
// `payment.advances[*].key`), payment terms keys (`payment.terms.key`) and note keys
// (`notes[*].key`, also inside lines) against the key sets the SCHEMAS publish
// (data/schemas/pay/instructions.json, advance.json, terms.json, org/note.json: the
// `const`s of the `key` property).  Defined and undefined values are substituted at those
// positions like at every other one; when GOBL accepts the document, the key found in the
// validated OUTPUT is judged by the driver (`meanskey`, `termskey`, `notekey`): it must
// resolve (means keys by their base, the part before the first `+`), and the model of the
// code's rule (`validateMeansKey`, `validateTermsKey`, `validateNoteKey` of Model/Refs.lean)
// must accept it too.

import (
	"encoding/json"
	"os"
	"path/filepath"
	"regexp"
	"strings"
)

var (
	reAdvance = regexp.MustCompile(`\.advances\[\d+\]$`)
	reNote    = regexp.MustCompile(`\.notes\[\d+\]$`)
)

// keyKind classifies the member `key` of the object at `path` (".payment.instructions", …).
func keyKind(path string) string {
	switch {
	case strings.HasSuffix(path, ".payment.instructions"):
		return "meanskey"
	case reAdvance.MatchString(path) && strings.Contains(path, ".payment."):
		return "meanskey-adv"
	case strings.HasSuffix(path, ".payment.terms"):
		return "termskey"
	case reNote.MatchString(path):
		return "notekey"
	}
	return ""
}

func schemaConsts(repo, file, def string) []string {
	b, err := os.ReadFile(filepath.Join(repo, "data", "schemas", filepath.FromSlash(file)))
	if err != nil {
		return nil
	}
	var sch struct {
		Defs map[string]struct {
			Properties map[string]struct {
				OneOf []struct {
					Const *string `json:"const"`
				} `json:"oneOf"`
				AnyOf []struct {
					Const *string `json:"const"`
				} `json:"anyOf"`
			} `json:"properties"`
		} `json:"$defs"`
	}
	if json.Unmarshal(b, &sch) != nil {
		return nil
	}
	var out []string
	pr := sch.Defs[def].Properties["key"]
	for _, c := range pr.OneOf {
		if c.Const != nil {
			out = append(out, *c.Const)
		}
	}
	for _, c := range pr.AnyOf {
		if c.Const != nil {
			out = append(out, *c.Const)
		}
	}
	return out
}

// loadKeySets reads the published key sets.
func (p *pub) loadKeySets(repo string) {
	p.MeansKeys = schemaConsts(repo, "pay/instructions.json", "Instructions")
	p.TermKeys = schemaConsts(repo, "pay/terms.json", "Terms")
	p.NoteKeys = schemaConsts(repo, "org/note.json", "Note")
}

var undefinedKeys = map[string][]string{
	"meanskey":     {"zz-undefined", "cardx", "zz+card", "car", "credit", "transfer", "sepa", "Card"},
	"meanskey-adv": {"zz-undefined", "cardx", "zz+card", "sepa"},
	"termskey":     {"zz-undefined", "due-date+x", "due", "Instant"},
	"notekey":      {"zz-undefined", "general+x", "gen", "General"},
}

// definedKeys: the published keys, and for the means keys a published base with sub-keys.
func (p *pub) definedKeys(kind string) []string {
	switch kind {
	case "meanskey", "meanskey-adv":
		out := append([]string{}, p.MeansKeys...)
		return append(out, "card+zz-sub", "online+loan", "other+x+y")
	case "termskey":
		return p.TermKeys
	case "notekey":
		return p.NoteKeys
	}
	return nil
}

// keyItem is the driver request for a key found in a validated output document.
func keyItem(kind, key, path string) item {
	switch kind {
	case "meanskey":
		return item{req: hx("meanskey") + " " + hx("1") + " " + hx(key), what: "payment means key " + key, path: path, kind: "meanskey"}
	case "meanskey-adv":
		return item{req: hx("meanskey") + " " + hx("0") + " " + hx(key), what: "payment means key (advance) " + key, path: path, kind: "meanskey"}
	case "termskey":
		return item{req: hx("termskey") + " " + hx(key), what: "payment terms key " + key, path: path, kind: "termskey"}
	}
	return item{req: hx("notekey") + " " + hx(key), what: "note key " + key, path: path, kind: "notekey"}
}
