// Package c05 ties the Lean model of /repo/num (faithful float layer) and the
// rational specification of C05 to the real num.Amount / num.Percentage code.
package c05

import (
	"fmt"
	"math/rand"
	"strings"

	"github.com/invopop/gobl/num"

	"verifharness/internal/core"
)

type tcase struct {
	Op     string
	V1     int64
	E1     uint32
	V2     int64
	E2     uint32
	N      int64
	Stream string
}

func (t tcase) req() string {
	if t.Op == "threshold" && t.N == 4 {
		// num.NotZero has a fixed zero threshold
		t.V1, t.E1 = 0, 0
	}
	return fmt.Sprintf("%s %d %d %d %d %d", t.Op, t.V1, t.E1, t.V2, t.E2, t.N)
}

var binOps = []string{"add", "sub", "mul", "div", "compare", "equals", "matchPrecision", "remove", "pctOf", "pctFrom"}
var unOpsN = []string{"rescale", "rescaleUp", "rescaleDown", "upscale", "downscale", "pctRescale"}
var unOps = []string{"negate", "abs", "pctFactor", "pctFromAmount", "pctAmount"}

func fmtA(a num.Amount) string { return fmt.Sprintf("%d %d", a.Value(), a.Exp()) }

// goEval runs the real implementation.
func goEval(t tcase) (res string, panicked string) {
	a := num.MakeAmount(t.V1, t.E1)
	b := num.MakeAmount(t.V2, t.E2)
	p := num.MakePercentage(t.V2, t.E2)
	panicked = core.Protect(func() {
		switch t.Op {
		case "add":
			res = fmtA(a.Add(b))
		case "sub":
			res = fmtA(a.Subtract(b))
		case "mul":
			res = fmtA(a.Multiply(b))
		case "div":
			res = fmtA(a.Divide(b))
		case "rescale":
			res = fmtA(a.Rescale(uint32(t.N)))
		case "rescaleUp":
			res = fmtA(a.RescaleUp(uint32(t.N)))
		case "rescaleDown":
			res = fmtA(a.RescaleDown(uint32(t.N)))
		case "rescaleRange":
			res = fmtA(a.RescaleRange(t.E2, uint32(t.N)))
		case "matchPrecision":
			res = fmtA(a.MatchPrecision(b))
		case "upscale":
			res = fmtA(a.Upscale(uint32(t.N)))
		case "downscale":
			res = fmtA(a.Downscale(uint32(t.N)))
		case "compare":
			res = fmt.Sprint(a.Compare(b))
		case "equals":
			if a.Equals(b) {
				res = "1"
			} else {
				res = "0"
			}
		case "split":
			x, y := a.Split(int(t.N))
			res = fmtA(x) + " " + fmtA(y)
		case "negate":
			res = fmtA(a.Negate())
		case "abs":
			res = fmtA(a.Abs())
		case "remove":
			res = fmtA(a.Remove(p))
		case "pctOf":
			res = fmtA(p.Of(a))
		case "pctFrom":
			res = fmtA(p.From(a))
		case "pctFactor":
			res = fmtA(p.Factor())
		case "pctFromAmount":
			res = fmtA(num.PercentageFromAmount(a).Base())
		case "pctAmount":
			res = fmtA(num.MakePercentage(t.V1, t.E1).Amount())
		case "pctRescale":
			res = fmtA(num.MakePercentage(t.V1, t.E1).Rescale(uint32(t.N)).Base())
		case "threshold":
			var r num.ThresholdRule
			switch t.N {
			case 0:
				r = num.Min(a).Exclusive()
			case 1:
				r = num.Min(a)
			case 2:
				r = num.Max(a).Exclusive()
			case 3:
				r = num.Max(a)
			default:
				r = num.NotZero
			}
			// Validate skips "empty" (zero) values; wrap in a pointer-free call
			// and treat the zero amount explicitly like the rule's compare does.
			if r.Validate(b) == nil {
				res = "1"
			} else {
				res = "0"
			}
		default:
			panic("unknown op " + t.Op)
		}
	})
	return
}

func parseResp(r string) (ok bool, m, s string, d bool) {
	if !strings.HasPrefix(r, "ok m ") {
		return false, "", "", false
	}
	r = r[5:]
	i := strings.Index(r, " s ")
	j := strings.LastIndex(r, " d ")
	if i < 0 || j < 0 {
		return false, "", "", false
	}
	return true, r[:i], r[i+3 : j], r[j+3:] == "1"
}

func pow10(e uint32) int64 {
	o := int64(1)
	for ; e > 0; e-- {
		o *= 10
	}
	return o
}

// tie builds operands whose exact result sits at, or one unit from, a rounding tie.
func tie(r *rand.Rand, op string) tcase {
	e1 := uint32(r.Intn(5))
	e2 := uint32(1 + r.Intn(4))
	sign := int64(1)
	if r.Intn(2) == 0 {
		sign = -1
	}
	k := int64(r.Intn(2000))
	delta := int64(r.Intn(3) - 1)
	switch op {
	case "mul", "pctOf":
		// a.value * b.value = (2k+1) * 10^e2 / 2 + delta
		half := pow10(e2) / 2
		target := (2*k+1)*half + delta
		// factor target as v1*v2 with v2 small
		for _, v2 := range []int64{5, 25, 2, 4, 10, 1} {
			if target%v2 == 0 {
				return tcase{Op: op, V1: sign * (target / v2), E1: e1, V2: v2, E2: e2, Stream: "tie"}
			}
		}
		return tcase{Op: op, V1: sign * target, E1: e1, V2: 1, E2: e2, Stream: "tie"}
	case "div", "remove", "pctFrom":
		// a.value * 10^e2 / b.value = k + 1/2  with b.value even
		d := int64(2 * (1 + r.Intn(50)))
		n := (2*k+1)*(d/2) + delta // n/d = k + 1/2 (+delta/d)
		if op == "div" {
			return tcase{Op: op, V1: sign * n, E1: e1, V2: d, E2: 0, Stream: "tie"}
		}
		// factor = 1 + p must equal d at exponent e2 → p.value = d - 10^e2 ; a.value*10^e2/d
		return tcase{Op: op, V1: sign * n, E1: e1, V2: d*pow10(e2) - pow10(e2), E2: e2, Stream: "tie"}
	default: // rescale family, add/sub with finer operand
		drop := uint32(1 + r.Intn(3))
		v := (2*k+1)*(pow10(drop)/2) + delta
		if op == "add" || op == "sub" {
			return tcase{Op: op, V1: k, E1: e1, V2: sign * v, E2: e1 + drop, Stream: "tie"}
		}
		return tcase{Op: op, V1: sign * v, E1: e1 + drop, N: int64(e1), Stream: "tie"}
	}
}

// tieBig is tie at the far end of the domain: divisors, factors and dropped
// decimals as large as the 2^52 bound allows, the exact result one numerator
// unit away from the tie (k + 1/2 -+ 1/(2d) for a division by an odd d of up
// to 40 bits: the closest a quotient that is not a tie gets to one), where a
// rounding that is only almost half away from zero shows.
func tieBig(r *rand.Rand, op string) tcase {
	e1 := uint32(r.Intn(5))
	sign := int64(1)
	if r.Intn(2) == 0 {
		sign = -1
	}
	pm := int64(1 - 2*r.Intn(2))
	switch op {
	case "div", "remove", "pctFrom":
		db := 20 + r.Intn(21)
		d := (r.Int63()>>(63-uint(db)))|1 | 1<<uint(db-1) // odd, db bits
		maxK := (int64(1)<<51)/d - 1
		if maxK < 1 {
			maxK = 1
		}
		k := r.Int63n(maxK)
		n := ((2*k+1)*d + pm) / 2 // n/d = k + 1/2 +- 1/(2d)
		if op == "div" {
			return tcase{Op: op, V1: sign * n, E1: e1, V2: d, E2: 0, Stream: "tie-big"}
		}
		// factor 1 + p = d at exponent 0
		return tcase{Op: op, V1: sign * n, E1: e1, V2: d - 1, E2: 0, Stream: "tie-big"}
	case "mul", "pctOf":
		e2 := uint32(1 + r.Intn(9))
		half := pow10(e2) / 2
		maxK := (int64(1)<<51)/pow10(e2) - 1
		if maxK < 1 {
			maxK = 1
		}
		k := r.Int63n(maxK)
		target := (2*k+1)*half + pm*int64(r.Intn(2))
		for _, v2 := range []int64{1, 3, 7, 5, 2} {
			if target%v2 == 0 {
				return tcase{Op: op, V1: sign * (target / v2), E1: e1, V2: v2, E2: e2, Stream: "tie-big"}
			}
		}
		return tcase{Op: op, V1: sign * target, E1: e1, V2: 1, E2: e2, Stream: "tie-big"}
	default:
		drop := uint32(1 + r.Intn(9))
		maxK := (int64(1)<<51)/pow10(drop) - 1
		if maxK < 1 {
			maxK = 1
		}
		k := r.Int63n(maxK)
		v := (2*k+1)*(pow10(drop)/2) + pm*int64(r.Intn(2))
		if op == "add" || op == "sub" {
			return tcase{Op: op, V1: k % 1000, E1: e1, V2: sign * v, E2: e1 + drop, Stream: "tie-big"}
		}
		return tcase{Op: op, V1: sign * v, E1: e1 + drop, N: int64(e1), Stream: "tie-big"}
	}
}

func randVal(r *rand.Rand, bits int) int64 {
	b := 1 + r.Intn(bits)
	v := r.Int63() >> (63 - uint(b))
	if r.Intn(2) == 0 {
		v = -v
	}
	return v
}

// Run is the C05 correspondence and oracle run.
func Run(c *core.Ctx) int {
	var cases []tcase
	var rc tcase
	if c.ReplayCase(&rc) {
		return runCases(c, []tcase{rc})
	}
	// (i) exhaustive grid
	V, E := int64(12), uint32(3)
	if c.Thorough() {
		V, E = 60, 6
	}
	step := int64(1)
	for _, op := range binOps {
		for e1 := uint32(0); e1 <= E; e1++ {
			for e2 := uint32(0); e2 <= E; e2++ {
				for v1 := -V; v1 <= V; v1 += step {
					for v2 := -V; v2 <= V; v2 += step {
						cases = append(cases, tcase{Op: op, V1: v1, E1: e1, V2: v2, E2: e2, Stream: "grid"})
					}
				}
			}
		}
	}
	VU := int64(300)
	if c.Thorough() {
		VU = 3000
	}
	for _, op := range unOpsN {
		for e1 := uint32(0); e1 <= 9; e1++ {
			for n := int64(0); n <= 9; n++ {
				for v1 := -VU; v1 <= VU; v1++ {
					cases = append(cases, tcase{Op: op, V1: v1, E1: e1, N: n, Stream: "grid"})
				}
			}
		}
	}
	for _, op := range unOps {
		for e1 := uint32(0); e1 <= 9; e1++ {
			for v1 := -VU; v1 <= VU; v1++ {
				cases = append(cases, tcase{Op: op, V1: v1, E1: e1, V2: v1, E2: e1, Stream: "grid"})
			}
		}
	}
	for e1 := uint32(0); e1 <= 4; e1++ {
		for n := int64(1); n <= 12; n++ {
			for v1 := -VU; v1 <= VU; v1++ {
				cases = append(cases, tcase{Op: "split", V1: v1, E1: e1, N: n, Stream: "grid"})
			}
		}
	}
	for opn := int64(0); opn <= 4; opn++ {
		for e1 := uint32(0); e1 <= 3; e1++ {
			for e2 := uint32(0); e2 <= 3; e2++ {
				for v1 := int64(-12); v1 <= 12; v1++ {
					for v2 := int64(-12); v2 <= 12; v2++ {
						if v2 == 0 && e2 == 0 {
							continue // ThresholdRule.Validate skips the empty (zero-valued) struct
						}
						cases = append(cases, tcase{Op: "threshold", V1: v1, E1: e1, V2: v2, E2: e2, N: opn, Stream: "grid"})
					}
				}
			}
		}
	}
	for e1 := uint32(0); e1 <= 5; e1++ {
		for mn := uint32(0); mn <= 6; mn++ {
			for mx := int64(0); mx <= 6; mx++ {
				for v1 := int64(-150); v1 <= 150; v1++ {
					cases = append(cases, tcase{Op: "rescaleRange", V1: v1, E1: e1, E2: mn, N: mx, Stream: "grid"})
				}
			}
		}
	}
	// (ii) tie-forcing stream and random in-domain stream
	r := c.Rng
	nt := c.Pick(40000, 1500000)
	tieOps := []string{"mul", "div", "rescale", "rescaleDown", "downscale", "add", "sub", "pctOf", "remove", "pctFrom", "pctRescale"}
	for i := 0; i < nt; i++ {
		op := tieOps[r.Intn(len(tieOps))]
		t := tie(r, op)
		if r.Intn(2) == 0 {
			t = tieBig(r, op)
		}
		if op == "downscale" {
			t.N = int64(t.E1) - t.N
		}
		cases = append(cases, t)
	}
	nr := c.Pick(60000, 2000000)
	allOps := append(append(append([]string{}, binOps...), unOpsN...), unOps...)
	allOps = append(allOps, "split", "rescaleRange", "threshold")
	for i := 0; i < nr; i++ {
		op := allOps[r.Intn(len(allOps))]
		t := tcase{Op: op, V1: randVal(r, 30), E1: uint32(r.Intn(10)), V2: randVal(r, 22), E2: uint32(r.Intn(10)), N: int64(r.Intn(10)), Stream: "random"}
		if op == "split" {
			t.N = int64(1 + r.Intn(1000))
		}
		if op == "threshold" {
			t.N = int64(r.Intn(5))
			if t.V2 == 0 && t.E2 == 0 {
				t.V2 = 1
			}
		}
		cases = append(cases, t)
	}
	// (iii) outside the magnitude domain: faithful float model only (informational)
	no := c.Pick(20000, 500000)
	for i := 0; i < no; i++ {
		op := []string{"mul", "div", "rescale", "add", "pctOf", "remove"}[r.Intn(6)]
		t := tcase{Op: op, V1: randVal(r, 62), E1: uint32(r.Intn(10)), V2: randVal(r, 40), E2: uint32(r.Intn(10)), N: int64(r.Intn(10)), Stream: "outside"}
		cases = append(cases, t)
	}
	// (iv) the two conversions between amounts and percentages only move the decimal
	// point: exact over the whole int64 range (judged, not informational)
	nw := c.Pick(10000, 200000)
	for i := 0; i < nw; i++ {
		op := []string{"pctFromAmount", "pctAmount"}[r.Intn(2)]
		v := randVal(r, 63)
		e := uint32(r.Intn(19))
		cases = append(cases, tcase{Op: op, V1: v, E1: e, V2: v, E2: e, Stream: "pct-wide"})
	}

	return runCases(c, cases)
}

func runCases(c *core.Ctx, cases []tcase) int {
	reqs := make([]string, len(cases))
	for i, t := range cases {
		reqs[i] = t.req()
	}
	resp, err := c.Model(reqs)
	if err != nil {
		c.TieBroken("drive:C05/model", err.Error(), nil)
		return c.Finish("", nil)
	}
	var outsideDisagree int64
	for i, t := range cases {
		ok, m, s, d := parseResp(resp[i])
		if !ok {
			if resp[i] != "undef" {
				c.TieBroken("drive:C05/protocol", "unexpected model response "+resp[i], t)
			}
			c.Count("skipped_outside_model", 1)
			continue
		}
		g, pan := goEval(t)
		if pan != "" {
			c.Fail("", fmt.Sprintf("num.%s panicked on %s: %s", t.Op, t.req(), pan), t)
			continue
		}
		c.Count("stream:"+t.Stream, 1)
		c.Count("op:"+t.Op, 1)
		if d {
			c.Count("in_domain", 1)
			nontrivial := m != fmt.Sprintf("%d %d", t.V1, t.E1)
			c.Eval(t.req(), nontrivial)
			if i%40009 == 0 {
				c.Sample(map[string]any{"request": t.req(), "go": g, "model": m, "spec": s})
			}
			if g != s {
				c.Fail("", fmt.Sprintf("num %s: Go gives %s, exact rational arithmetic rounded half away from zero gives %s (model %s)", t.req(), g, s, m),
					map[string]any{"case": t, "go": g, "spec": s, "model": m})
				continue
			}
			if g != m {
				c.TieBroken("drive:C05/"+t.Op, fmt.Sprintf("model %s vs Go %s on %s", m, g, t.req()), t)
			}
		} else {
			c.Count("outside_domain", 1)
			c.Eval(t.req(), false)
			if g != m {
				outsideDisagree++
			}
		}
	}
	if outsideDisagree > 0 {
		c.Note("%d cases outside the 2^52 domain where the float model and Go differ (informational; the property does not speak there)", outsideDisagree)
	}
	return c.Finish("exhaustive grid of small values x exponent pairs x ops, tie-forcing stream (exact result at k+1/2 or one unit off, both signs), random in-domain stream, the amount/percentage conversions over the whole int64 range, and an informational out-of-domain stream; non-trivial = in-domain case whose result differs from the first operand; distinct by request text",
		map[string]any{"outside_domain_disagreements": outsideDisagree})
}
