package c14

import (
	"encoding/json"
	"fmt"
	"strconv"
	"strings"

	"verifharness/internal/core"
)

// Two families of leaf values that the syntax families (num-text, to-string,
// huge-number …) do not reach.  Both are justified by the statement alone — "any
// parsed envelope or document subsequently calculated, validated, … never
// panics" and "errors … serialise to JSON" — and neither names a function or a
// member of the library.
//
//   arith:<i> / arith+incl:<i>
//       every amount / quantity / percentage / rate leaf of every base gets the
//       values at which ARITHMETIC degenerates: a factor (1 + p) that vanishes
//       (-100 % in every spelling) or changes sign (-200 %), p = 0 in every
//       spelling (0 %, -0 %, 0.000 %), ±1e-16 next to those, 100 %, figures at the
//       64-bit limit, and for amounts 0, -0, ±1 unit of the last decimal, -1.  A
//       percentage inside a tax combo is injected so that it is the one applied:
//       the members the combo's percentage is derived from (rate, key) are removed.
//       The `+incl` variant also makes the prices of the document include the
//       category of that combo (tax.prices_include), the setting under which the
//       library divides by the factor instead of multiplying with it.
//   meta:<i>
//       every string leaf of every base gets text that means something to a
//       formatter or template engine (`{{`, `{{-0`, `{{.x}}`, `%s`, `%!`, `%n`,
//       `${`, a NUL), short and longer than any length limit: validation messages
//       quote document text, and an error that cannot be printed is a crash.
//       For that, every returned error is RENDERED (Error(), json.Marshal) under
//       recover (checkErr).
//
// Both are complete over (document type × place) in every tier: one base per
// place in the quick tier, eight bases per place in the thorough tier; the cases run the
// light pipeline (no signing or verifying: the values do not reach it).

var arithPercents = []string{
	"-100%", "-100.0%", "-100.00%", "-100.000000%", "-1", "-1.00", // 1 + p = 0
	"-99.9999999999999999%", "-100.0000000000000001%", // next to it
	"-200%", "100%", "100.0%", "0%", "-0%", "0.000%", "-0.0%", "0", "-0.00",
	"0.0000000000000001%", "-0.0000000000000001%",
	"92233720368547758.07%", "-92233720368547758.08%", "1000000000000%",
}

var arithAmounts = []string{
	"0", "-0", "0.00", "-0.00", "0.000000", "1", "-1", "-1.00", "0.01", "-0.01",
	"0.000000000000000001", "-0.000000000000000001", "100", "-100", "-100.00",
	"92233720368547758.07", "-92233720368547758.08", "9223372036854775807", "999999999999.999999",
}

var metaTexts = []string{
	"{{", "{{-0", "%s", "%!", "${x}", "a\x00b", "{{.x}}", "%n%d%v",
	"SKU-{{-0123456789-0123456789-0123456789", // longer than a code may be
	"KEY-%!s(MISSING)-%d-%v-%s-%s-%s-%s-%s-0123456789",
	"{{.min}}-{{.max}}-{{template \"x\"}}-{{/*-0123456789-0123456789",
	"${jndi:x}-$(x)-`x`-\\u0000-0123456789-0123456789-0123456789",
	strings.Repeat("{{", 40), strings.Repeat("A", 300) + "{{", strings.Repeat("%s", 200),
}

// genericPath drops the indices of a path.
func genericPath(p path) string {
	var b strings.Builder
	for _, e := range p {
		switch x := e.(type) {
		case string:
			b.WriteString("." + x)
		case int:
			b.WriteString("[]")
		}
	}
	return b.String()
}

// docOf gives the document object of a base (the envelope's doc, or the base itself).
func docOf(root any) (map[string]any, path) {
	m, ok := root.(map[string]any)
	if !ok {
		return nil, nil
	}
	if d, ok := m["doc"].(map[string]any); ok {
		if _, isEnv := m["head"]; isEnv {
			return d, path{"doc"}
		}
	}
	return m, nil
}

func firstCat(v any) string {
	switch x := v.(type) {
	case map[string]any:
		if c, ok := x["cat"].(string); ok && c != "" {
			return c
		}
		keys := make([]string, 0, len(x))
		for k := range x {
			keys = append(keys, k)
		}
		sortStrings(keys)
		for _, k := range keys {
			if c := firstCat(x[k]); c != "" {
				return c
			}
		}
	case []any:
		for _, e := range x {
			if c := firstCat(e); c != "" {
				return c
			}
		}
	}
	return ""
}

func sortStrings(s []string) {
	for i := 1; i < len(s); i++ {
		for j := i; j > 0 && s[j] < s[j-1]; j-- {
			s[j], s[j-1] = s[j-1], s[j]
		}
	}
}

func arithTextsFor(val string) []string {
	if strings.HasSuffix(val, "%") {
		return arithPercents
	}
	return arithAmounts
}

// applyEdge performs an arith / arith+incl / meta edit (nil: not applicable).
func applyEdge(data []byte, p path, kind string) []byte {
	root, err := parseAny(data)
	if err != nil {
		return nil
	}
	val, ok := get(root, p).(string)
	if !ok {
		return nil
	}
	name, num, _ := strings.Cut(kind, ":")
	i, err := strconv.Atoi(num)
	if err != nil {
		return nil
	}
	switch name {
	case "meta":
		if i >= len(metaTexts) {
			return nil
		}
		root = setAt(root, p, metaTexts[i])
	case "arith", "arith+incl":
		texts := arithTextsFor(val)
		if i >= len(texts) {
			return nil
		}
		root = setAt(root, p, texts[i])
		cat := ""
		if len(p) >= 2 {
			if parent, ok := get(root, p[:len(p)-1]).(map[string]any); ok {
				if c, ok := parent["cat"].(string); ok {
					cat = c
					// the injected percentage has to be the one applied: drop what it is derived from
					if last, _ := p[len(p)-1].(string); last == "percent" || last == "surcharge" {
						delete(parent, "rate")
						delete(parent, "key")
					}
				}
			}
		}
		if name == "arith+incl" {
			doc, _ := docOf(root)
			if doc == nil {
				return nil
			}
			if cat == "" {
				cat = firstCat(doc)
			}
			if cat == "" {
				return nil
			}
			tx, _ := doc["tax"].(map[string]any)
			if tx == nil {
				tx = map[string]any{}
			}
			tx["prices_include"] = cat
			doc["tax"] = tx
		}
	default:
		return nil
	}
	out, err := json.Marshal(root)
	if err != nil {
		return nil
	}
	return out
}

// edgeCases builds the cases of the two families.
func edgeCases(c *core.Ctx, exs []example) []tcase {
	var cases []tcase
	perPlace := 1
	if c.Thorough() {
		perPlace = 8 // every base would cost 4.5 minutes of the 16 workers (measured: 862 000 cases)
	}
	seenNum, seenStr := map[string]int{}, map[string]int{}
	order := c.Rng.Perm(len(exs)) // which base represents a place changes with the seed
	for _, ei := range order {
		ex := exs[ei]
		root, err := parseAny(ex.data)
		if err != nil {
			continue
		}
		doc, _ := docOf(root)
		schemaID, _ := doc["$schema"].(string)
		var ps []path
		paths(root, nil, &ps)
		for _, p := range ps {
			sv, ok := get(root, p).(string)
			if !ok {
				continue
			}
			place := schemaID + "|" + genericPath(p)
			add := func(kind string) {
				p, kind, ei := p, kind, ei
				cases = append(cases, tcase{Stream: "edge", Name: exs[ei].name, Path: p.String(), Kind: kind,
					gen: func() []byte { return applyEdge(exs[ei].data, p, kind) }})
			}
			if reNumText.MatchString(sv) {
				k := place
				if strings.HasSuffix(sv, "%") {
					k += "%"
				}
				if seenNum[k] < perPlace {
					seenNum[k]++
					for i := range arithTextsFor(sv) {
						add(fmt.Sprintf("arith:%d", i))
						add(fmt.Sprintf("arith+incl:%d", i))
					}
				}
			}
			if seenStr[place] < perPlace {
				seenStr[place]++
				for i := range metaTexts {
					add(fmt.Sprintf("meta:%d", i))
				}
			}
		}
	}
	c.Count("edge.places.numeric", int64(len(seenNum)))
	c.Count("edge.places.string", int64(len(seenStr)))
	return cases
}
