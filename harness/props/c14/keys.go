package c14

import (
	"encoding/json"
	"os"
	"path/filepath"

	"github.com/invopop/gobl/dsig"
)

// The keys of the harness are FIXED test keys (they protect nothing): a
// signed input written into a replay file has to verify again when the file
// is replayed in another process, and the key files handed to the gobl
// binary ($KEY / $PUB) have to be the keys the signed bases were signed with.

const harnessKeyJSON = `{"use":"sig","kty":"EC","kid":"229202cb-2487-48d1-ad29-bd70649259d9","crv":"P-256","alg":"ES256","x":"aCJo9YSA1uCM08dFzW-sPqeoukkSFGrGQmi9V7cjSQE","y":"91GUNi_xwfKNi68-kXFNdd-RgGiQ4TbMIdk_vvMZumI","d":"20oIq-6ifdQvUE7ILdMvTzLhqc5JrHLqZcO3E3-S0-8"}`

const harnessKey2JSON = `{"use":"sig","kty":"EC","kid":"a11c1391-1293-4aca-934f-28dccfa52704","crv":"P-256","alg":"ES256","x":"sVDaQTbegVQQhsBjjux0HypFoizoiwjQ87z9HNZYVEU","y":"uqi1LRXzA1S23hr6l553vyqkvaVwMMXJ7894fqKHbLY","d":"hATEhoYLICJBUb3u61M_zXDyqE13Y2ms30n1OfQUdpQ"}`

func mustKey(text string) *dsig.PrivateKey {
	k := new(dsig.PrivateKey)
	if err := json.Unmarshal([]byte(text), k); err != nil {
		panic("c14: harness key: " + err.Error())
	}
	if err := k.Validate(); err != nil {
		panic("c14: harness key: " + err.Error())
	}
	return k
}

// key2 is a second signer (multi-signature bases; a key the verifier is not given).
var key2 = mustKey(harnessKey2JSON)

func publicJSON(k *dsig.PrivateKey) []byte {
	b, _ := json.Marshal(k.Public())
	return b
}

// installHarnessKey replaces the key pair `gobl keygen` wrote into the scratch
// home directory by the harness key, so that `verify -k $PUB`, `sign -k $KEY`
// and the server's default key agree with the signatures of the signed bases.
func installHarnessKey(home string) error {
	if err := os.WriteFile(filepath.Join(home, "key.jwk"), []byte(harnessKeyJSON), 0o600); err != nil {
		return err
	}
	return os.WriteFile(filepath.Join(home, "key.pub.jwk"), publicJSON(key), 0o644)
}
