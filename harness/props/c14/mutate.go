package c14

import (
	"bytes"
	"encoding/json"
	"fmt"
	"regexp"
	"sort"
	"strconv"
	"strings"
)

// A mutation is (path, kind): a deterministic single edit of a JSON document.
// The space of single mutations of every example is enumerated completely in
// the thorough tier and sampled in the quick tier.

type path []any // string keys / int indices

func (p path) String() string {
	var sb strings.Builder
	for _, e := range p {
		switch x := e.(type) {
		case string:
			sb.WriteString("." + x)
		case int:
			fmt.Fprintf(&sb, "[%d]", x)
		}
	}
	return sb.String()
}

func parseAny(data []byte) (any, error) {
	dec := json.NewDecoder(bytes.NewReader(data))
	dec.UseNumber()
	var v any
	if err := dec.Decode(&v); err != nil {
		return nil, err
	}
	return v, nil
}

// paths lists every member / element path of v (not the root).
func paths(v any, pre path, out *[]path) {
	switch x := v.(type) {
	case map[string]any:
		keys := make([]string, 0, len(x))
		for k := range x {
			keys = append(keys, k)
		}
		sort.Strings(keys)
		for _, k := range keys {
			p := append(append(path{}, pre...), k)
			*out = append(*out, p)
			paths(x[k], p, out)
		}
	case []any:
		for i := range x {
			p := append(append(path{}, pre...), i)
			*out = append(*out, p)
			paths(x[i], p, out)
		}
	}
}

func get(v any, p path) any {
	for _, e := range p {
		switch k := e.(type) {
		case string:
			m, ok := v.(map[string]any)
			if !ok {
				return nil
			}
			v = m[k]
		case int:
			a, ok := v.([]any)
			if !ok || k >= len(a) {
				return nil
			}
			v = a[k]
		}
	}
	return v
}

// edit applies f to the container holding the last path element.
func edit(root any, p path, f func(parent any, last any) any) any {
	if len(p) == 0 {
		return root
	}
	if len(p) == 1 {
		return f(root, p[0])
	}
	switch k := p[0].(type) {
	case string:
		if m, ok := root.(map[string]any); ok {
			m[k] = edit(m[k], p[1:], f)
		}
	case int:
		if a, ok := root.([]any); ok && k < len(a) {
			a[k] = edit(a[k], p[1:], f)
		}
	}
	return root
}

func setAt(root any, p path, val any) any {
	return edit(root, p, func(parent, last any) any {
		switch k := last.(type) {
		case string:
			if m, ok := parent.(map[string]any); ok {
				m[k] = val
			}
		case int:
			if a, ok := parent.([]any); ok && k < len(a) {
				a[k] = val
			}
		}
		return parent
	})
}

func deleteAt(root any, p path) any {
	return edit(root, p, func(parent, last any) any {
		switch k := last.(type) {
		case string:
			if m, ok := parent.(map[string]any); ok {
				delete(m, k)
			}
		case int:
			if a, ok := parent.([]any); ok && k < len(a) {
				return append(append([]any{}, a[:k]...), a[k+1:]...)
			}
		}
		return parent
	})
}

func dupElem(root any, p path) any {
	return edit(root, p, func(parent, last any) any {
		if k, ok := last.(int); ok {
			if a, ok := parent.([]any); ok && k < len(a) {
				out := append([]any{}, a[:k+1]...)
				out = append(out, a[k])
				return append(out, a[k+1:]...)
			}
		}
		return parent
	})
}

func deep(n int, array bool) any {
	var v any = "x"
	for i := 0; i < n; i++ {
		if array {
			v = []any{v}
		} else {
			v = map[string]any{"a": v}
		}
	}
	return v
}

// kinds applicable to the value at a path.
var baseKinds = []string{"delete", "null", "to-string", "to-number", "to-array", "to-object", "to-bool", "empty-string", "huge-number", "neg-number", "tiny-number", "exp-number"}

func kindsFor(p path, val any) []string {
	ks := append([]string{}, baseKinds...)
	last := p[len(p)-1]
	if _, ok := last.(int); ok {
		ks = append(ks, "dup-element")
	} else {
		ks = append(ks, "dup-member-null", "dup-member-retyped")
	}
	if k, ok := last.(string); ok {
		switch k {
		case "currency":
			ks = append(ks, "code:ZZZ", "code:eur", "code:")
		case "country":
			ks = append(ks, "code:ZZ", "code:XX1", "code:")
		case "$regime", "regime":
			ks = append(ks, "code:ZZ", "code:es")
		case "$addons":
			ks = append(ks, "addons-unknown", "addons-all-null", "addons-dup")
		case "$schema":
			ks = append(ks, "schema-unknown", "schema-other")
		case "sigs":
			ks = append(ks, "sigs-empty-string", "sigs-null", "sigs-garbage", "sigs-dots")
		case "head":
			ks = append(ks, "add-sigs-empty-string", "add-sigs-null", "add-sigs-garbage")
		case "lines", "doc", "totals", "supplier", "customer", "payment", "ext", "meta", "notes":
			ks = append(ks, "deep-array-10k", "deep-object-10k", "deep-array-200")
		}
	}
	if sv, ok := val.(string); ok && reNumText.MatchString(sv) {
		// amounts and percentages are parsed by hand: texts at and beyond every bound of that parser
		for i := range numTexts {
			ks = append(ks, fmt.Sprintf("num-text:%d", i))
		}
	}
	switch v := val.(type) {
	case []any:
		ks = append(ks, "array-append-null", "array-all-null", "array-empty")
		// a copy of the first element with one of its (nested) members removed,
		// appended: rows that differ in which optional members they carry
		if len(v) > 0 {
			if m, ok := v[0].(map[string]any); ok {
				for _, sp := range stripPaths(m, 2) {
					ks = append(ks, "dup-strip:"+sp)
				}
			}
		}
	case map[string]any:
		ks = append(ks, "object-empty", "object-extra-member")
		// member names that only the custom UnmarshalJSON methods know about
		// (legacy / migrated members), with edge values
		for _, n := range LegacyMembers {
			if _, has := v[n]; !has {
				ks = append(ks, "legacy:"+n+":[]", "legacy:"+n+":null", "legacy:"+n+":\"\"", "legacy:"+n+":{}")
			}
		}
	}
	return ks
}

var reNumText = regexp.MustCompile(`^-?[0-9]+(\.[0-9]+)?%?$`)

// numTexts: number-like texts around the limits of the hand-written amount / percentage parser
// (18 decimals, 64-bit values, 10^n wrapping to 0 at n = 64) and its syntax.
var numTexts = func() []string {
	z := func(n int) string { return strings.Repeat("0", n) }
	out := []string{}
	for _, n := range []int{18, 19, 20, 40, 63, 64, 65, 128, 1000} {
		out = append(out, "1."+z(n), "0."+z(n)+"%", "-0."+z(n-1)+"1", "1"+z(n))
	}
	out = append(out, ".5", "1.", "-", "--1", "-.5", "1..2", "1.2.3", "+1", "1e5", "1E-5", " 1", "1 ", "0x10", "NaN", "Inf", "-Inf",
		"٣", "１２", "1,5", "1_000", "%", "1%%", "-%", "9223372036854775807", "9223372036854775808", "-9223372036854775808",
		"-9223372036854775809", "92233720368547758.07", "92233720368547758.08", "0.9223372036854775807", "18446744073709551616")
	return out
}()

// LegacyMembers is filled by the harness from the repository sources: the
// JSON member names declared in auxiliary structs inside UnmarshalJSON methods.
var LegacyMembers []string

// stripPaths lists member paths (dot separated) inside an object up to a depth.
func stripPaths(m map[string]any, depth int) []string {
	var out []string
	keys := make([]string, 0, len(m))
	for k := range m {
		keys = append(keys, k)
	}
	sort.Strings(keys)
	for _, k := range keys {
		out = append(out, k)
		if sub, ok := m[k].(map[string]any); ok && depth > 1 {
			for _, sp := range stripPaths(sub, depth-1) {
				out = append(out, k+"."+sp)
			}
		}
	}
	return out
}

// apply returns the mutated document as JSON text ("" when not applicable).
func apply(data []byte, p path, kind string) []byte {
	root, err := parseAny(data)
	if err != nil {
		return nil
	}
	val := get(root, p)
	switch {
	case kind == "delete":
		root = deleteAt(root, p)
	case kind == "null":
		root = setAt(root, p, nil)
	case kind == "to-string":
		if _, ok := val.(string); ok {
			root = setAt(root, p, "☃ not what you expected")
		} else {
			root = setAt(root, p, "str")
		}
	case kind == "to-number":
		root = setAt(root, p, json.Number("7"))
	case kind == "to-array":
		if _, ok := val.([]any); ok {
			root = setAt(root, p, []any{[]any{}})
		} else {
			root = setAt(root, p, []any{val})
		}
	case kind == "to-object":
		if _, ok := val.(map[string]any); ok {
			root = setAt(root, p, map[string]any{"": map[string]any{}})
		} else {
			root = setAt(root, p, map[string]any{"x": val})
		}
	case kind == "to-bool":
		root = setAt(root, p, true)
	case kind == "empty-string":
		root = setAt(root, p, "")
	case strings.HasPrefix(kind, "num-text:"):
		i, _ := strconv.Atoi(kind[len("num-text:"):])
		root = setAt(root, p, numTexts[i])
	case kind == "huge-number":
		if _, ok := val.(string); ok {
			root = setAt(root, p, "99999999999999999999999999.99")
		} else {
			root = setAt(root, p, json.Number("99999999999999999999999999"))
		}
	case kind == "neg-number":
		if _, ok := val.(string); ok {
			root = setAt(root, p, "-9223372036854775808")
		} else {
			root = setAt(root, p, json.Number("-1"))
		}
	case kind == "tiny-number":
		root = setAt(root, p, "0.000000000000000001")
	case kind == "exp-number":
		if _, ok := val.(string); ok {
			root = setAt(root, p, "1e400%")
		} else {
			root = setAt(root, p, json.Number("1e400"))
		}
	case kind == "dup-element":
		root = dupElem(root, p)
	case kind == "dup-member-null", kind == "dup-member-retyped":
		return dupMember(root, p, kind == "dup-member-null")
	case strings.HasPrefix(kind, "code:"):
		root = setAt(root, p, strings.TrimPrefix(kind, "code:"))
	case kind == "addons-unknown":
		root = setAt(root, p, []any{"zz-unknown-v1"})
	case kind == "addons-all-null":
		root = setAt(root, p, []any{nil, nil})
	case kind == "addons-dup":
		if a, ok := val.([]any); ok {
			root = setAt(root, p, append(append([]any{}, a...), a...))
		}
	case kind == "schema-unknown":
		root = setAt(root, p, "https://gobl.org/draft-0/no/such")
	case kind == "schema-other":
		root = setAt(root, p, "https://gobl.org/draft-0/org/party")
	case kind == "sigs-empty-string":
		root = setAt(root, p, []any{""})
	case kind == "sigs-null":
		root = setAt(root, p, []any{nil})
	case kind == "sigs-garbage":
		root = setAt(root, p, []any{"garbage"})
	case kind == "sigs-dots":
		root = setAt(root, p, []any{"a.b.c", "..", "eyJhbGciOiJFUzI1NiJ9.e30."})
	case strings.HasPrefix(kind, "add-sigs-"):
		top, ok := root.(map[string]any)
		if !ok {
			return nil
		}
		switch strings.TrimPrefix(kind, "add-sigs-") {
		case "empty-string":
			top["sigs"] = []any{""}
		case "null":
			top["sigs"] = []any{nil}
		default:
			top["sigs"] = []any{"eyJhbGciOiJFUzI1NiJ9.e30.AAAA"}
		}
	case kind == "deep-array-10k":
		root = setAt(root, p, deep(10000, true))
	case kind == "deep-object-10k":
		root = setAt(root, p, deep(10000, false))
	case kind == "deep-array-200":
		root = setAt(root, p, deep(200, true))
	case kind == "array-append-null":
		root = setAt(root, p, append(append([]any{}, val.([]any)...), nil))
	case kind == "array-all-null":
		a := val.([]any)
		n := make([]any, len(a)+1)
		root = setAt(root, p, n)
	case kind == "array-empty":
		root = setAt(root, p, []any{})
	case kind == "object-empty":
		root = setAt(root, p, map[string]any{})
	case strings.HasPrefix(kind, "legacy:"):
		parts := strings.SplitN(kind, ":", 3)
		m := val.(map[string]any)
		var x any
		_ = json.Unmarshal([]byte(parts[2]), &x)
		m[parts[1]] = x
	case strings.HasPrefix(kind, "dup-strip:"):
		a := val.([]any)
		b, _ := json.Marshal(a[0])
		var cp any
		_ = json.Unmarshal(b, &cp)
		cur := cp.(map[string]any)
		segs := strings.Split(strings.TrimPrefix(kind, "dup-strip:"), ".")
		for i, sg := range segs {
			if i == len(segs)-1 {
				delete(cur, sg)
			} else if nx, ok := cur[sg].(map[string]any); ok {
				cur = nx
			} else {
				break
			}
		}
		root = setAt(root, p, append(append([]any{}, a...), cp))
	case kind == "object-extra-member":
		m := val.(map[string]any)
		m["unexpected-member"] = map[string]any{"a": []any{nil}}
	default:
		return nil
	}
	b, err := json.Marshal(root)
	if err != nil {
		return nil
	}
	return b
}

// dupMember renders the document with the member at p present twice (the
// second occurrence null or retyped): valid JSON text that a map cannot hold.
func dupMember(root any, p path, null bool) []byte {
	var sb bytes.Buffer
	var enc func(v any, at path)
	samePath := func(a, b path) bool {
		if len(a) != len(b) {
			return false
		}
		for i := range a {
			if a[i] != b[i] {
				return false
			}
		}
		return true
	}
	enc = func(v any, at path) {
		switch x := v.(type) {
		case map[string]any:
			keys := make([]string, 0, len(x))
			for k := range x {
				keys = append(keys, k)
			}
			sort.Strings(keys)
			sb.WriteByte('{')
			first := true
			for _, k := range keys {
				if !first {
					sb.WriteByte(',')
				}
				first = false
				kp := append(append(path{}, at...), k)
				kb, _ := json.Marshal(k)
				sb.Write(kb)
				sb.WriteByte(':')
				enc(x[k], kp)
				if samePath(kp, p) {
					sb.WriteByte(',')
					sb.Write(kb)
					sb.WriteByte(':')
					if null {
						sb.WriteString("null")
					} else if _, isStr := x[k].(string); isStr {
						sb.WriteString("[1]")
					} else {
						sb.WriteString(`"dup"`)
					}
				}
			}
			sb.WriteByte('}')
		case []any:
			sb.WriteByte('[')
			for i, e := range x {
				if i > 0 {
					sb.WriteByte(',')
				}
				enc(e, append(append(path{}, at...), i))
			}
			sb.WriteByte(']')
		default:
			b, _ := json.Marshal(x)
			sb.Write(b)
		}
	}
	enc(root, nil)
	return sb.Bytes()
}
