package c14

import (
	"encoding/json"
	"fmt"
	"os"
	"path/filepath"
	"sort"
	"strings"
)

// The published JSON schemas (data/schemas/**) read as data: enough of JSON
// Schema to follow a document and its schema side by side ($ref to a file's
// $id, local "#/$defs/X" references, properties, patternProperties, items,
// the "$schema" member that switches to another published schema) and to say
// which declared properties an object LACKS.  The schema-add family of
// families.go is built on it.

type schemaSet struct {
	files map[string]map[string]any // $id -> schema file
}

// snode is a position inside a schema file.
type snode struct {
	file string // $id of the file the node belongs to (local references are relative to it)
	name string // file + pointer of the last reference followed: identifies the definition
	m    map[string]any
}

func loadSchemas(repo string) (*schemaSet, error) {
	s := &schemaSet{files: map[string]map[string]any{}}
	root := filepath.Join(repo, "data", "schemas")
	err := filepath.Walk(root, func(p string, info os.FileInfo, e error) error {
		if e != nil || info.IsDir() || !strings.HasSuffix(p, ".json") {
			return e
		}
		b, e := os.ReadFile(p)
		if e != nil {
			return e
		}
		var m map[string]any
		if json.Unmarshal(b, &m) != nil {
			return nil
		}
		if id, ok := m["$id"].(string); ok && id != "" {
			s.files[id] = m
		}
		return nil
	})
	if err != nil {
		return nil, err
	}
	if len(s.files) < 20 {
		return nil, fmt.Errorf("only %d schema files with an $id under %s", len(s.files), root)
	}
	return s, nil
}

func (s *schemaSet) byID(id string) (snode, bool) {
	m, ok := s.files[id]
	if !ok {
		return snode{}, false
	}
	return s.resolve(snode{file: id, name: id, m: m}), true
}

func pointer(root map[string]any, ptr string) (map[string]any, bool) {
	cur := any(root)
	for _, seg := range strings.Split(strings.TrimPrefix(ptr, "#/"), "/") {
		if seg == "" {
			continue
		}
		seg = strings.ReplaceAll(strings.ReplaceAll(seg, "~1", "/"), "~0", "~")
		m, ok := cur.(map[string]any)
		if !ok {
			return nil, false
		}
		cur = m[seg]
	}
	m, ok := cur.(map[string]any)
	return m, ok
}

// resolve follows the $ref chain of a node (members beside a $ref - title,
// description - carry no structure in these files).
func (s *schemaSet) resolve(n snode) snode {
	for i := 0; i < 12 && n.m != nil; i++ {
		r, ok := n.m["$ref"].(string)
		if !ok {
			return n
		}
		switch {
		case strings.HasPrefix(r, "#"):
			m, ok := pointer(s.files[n.file], r)
			if !ok {
				return snode{file: n.file, name: n.file + r}
			}
			n = snode{file: n.file, name: n.file + r, m: m}
		default:
			id, frag := r, ""
			if j := strings.Index(r, "#"); j >= 0 {
				id, frag = r[:j], r[j:]
			}
			f, ok := s.files[id]
			if !ok {
				return snode{file: id, name: r}
			}
			n = snode{file: id, name: id, m: f}
			if frag != "" && frag != "#" {
				m, ok := pointer(f, frag)
				if !ok {
					return snode{file: id, name: r}
				}
				n = snode{file: id, name: r, m: m}
			}
		}
	}
	return n
}

func (n snode) child(m any) snode {
	mm, _ := m.(map[string]any)
	return snode{file: n.file, name: n.name, m: mm}
}

// props lists the declared properties of a resolved object schema (sorted).
func (n snode) props() []string {
	pm, _ := n.m["properties"].(map[string]any)
	out := make([]string, 0, len(pm))
	for k := range pm {
		out = append(out, k)
	}
	sort.Strings(out)
	return out
}

func (s *schemaSet) prop(n snode, k string) (snode, bool) {
	if pm, ok := n.m["properties"].(map[string]any); ok {
		if c, ok := pm[k]; ok {
			return s.resolve(n.child(c)), true
		}
	}
	if pp, ok := n.m["patternProperties"].(map[string]any); ok {
		for _, c := range pp { // one pattern per map type in these files
			return s.resolve(n.child(c)), true
		}
	}
	return snode{}, false
}

func (s *schemaSet) mapValue(n snode) (snode, bool) {
	if pp, ok := n.m["patternProperties"].(map[string]any); ok {
		for _, c := range pp {
			return s.resolve(n.child(c)), true
		}
	}
	return snode{}, false
}

func (s *schemaSet) items(n snode) (snode, bool) {
	if it, ok := n.m["items"]; ok {
		return s.resolve(n.child(it)), true
	}
	return snode{}, false
}

// consts lists the constants of a oneOf / anyOf / enum enumeration.
func (n snode) consts() []string {
	var out []string
	for _, kw := range []string{"oneOf", "anyOf"} {
		if l, ok := n.m[kw].([]any); ok {
			for _, e := range l {
				if em, ok := e.(map[string]any); ok {
					if c, ok := em["const"].(string); ok {
						out = append(out, c)
					}
				}
			}
		}
	}
	if l, ok := n.m["enum"].([]any); ok {
		for _, e := range l {
			if c, ok := e.(string); ok {
				out = append(out, c)
			}
		}
	}
	return out
}

func (n snode) typ() string {
	if n.m == nil {
		return ""
	}
	if t, ok := n.m["type"].(string); ok {
		return t
	}
	if len(n.consts()) > 0 {
		return "string"
	}
	if _, ok := n.m["properties"]; ok {
		return "object"
	}
	return ""
}

// walkTyped visits every value of a document together with its schema
// position (ok=false where the schemas say nothing about it).
func (s *schemaSet) walkTyped(v any, sch snode, ok bool, p path, visit func(p path, v any, sch snode, ok bool)) {
	if m, isObj := v.(map[string]any); isObj {
		// an object that names its own published schema is read by that schema
		if id, has := m["$schema"].(string); has {
			if n, found := s.byID(id); found {
				sch, ok = n, true
			}
		}
	}
	visit(p, v, sch, ok)
	switch x := v.(type) {
	case map[string]any:
		keys := make([]string, 0, len(x))
		for k := range x {
			keys = append(keys, k)
		}
		sort.Strings(keys)
		for _, k := range keys {
			var cs snode
			cok := false
			if ok {
				cs, cok = s.prop(sch, k)
			}
			s.walkTyped(x[k], cs, cok, append(append(path{}, p...), k), visit)
		}
	case []any:
		var is snode
		iok := false
		if ok {
			is, iok = s.items(sch)
		}
		for i := range x {
			s.walkTyped(x[i], is, iok, append(append(path{}, p...), i), visit)
		}
	}
}

// rootSchema: the schema a whole input is read by (its "$schema" member).
func (s *schemaSet) rootSchema(v any) (snode, bool) {
	m, ok := v.(map[string]any)
	if !ok {
		return snode{}, false
	}
	id, _ := m["$schema"].(string)
	return s.byID(id)
}

/* ---------- instances: copied from the examples, or made from the schema ---------- */

// instancePool keeps, per definition, the smallest instance any example holds
// and (under the name + richSuffix) the largest one of at most richLimit bytes:
// the smallest is often a degenerate one (a tax total of one exempt rate).
type instancePool map[string]json.RawMessage

const (
	richSuffix = "\x00rich"
	richLimit  = 6000
)

func (ip instancePool) offer(name string, v any) {
	switch x := v.(type) {
	case map[string]any:
		if len(x) == 0 {
			return
		}
	case []any:
		if len(x) == 0 {
			return
		}
	default:
		return
	}
	b, err := json.Marshal(v)
	if err != nil {
		return
	}
	if old, ok := ip[name]; !ok || len(b) < len(old) || (len(b) == len(old) && string(b) < string(old)) {
		ip[name] = b
	}
	if len(b) <= richLimit {
		if old, ok := ip[name+richSuffix]; !ok || len(b) > len(old) || (len(b) == len(old) && string(b) < string(old)) {
			ip[name+richSuffix] = b
		}
	}
}

const (
	synthUUID = "018a0000-0000-7000-8000-000000000000"
)

func has(name, part string) bool { return strings.Contains(name, part) }

// synth makes a small plausible instance of a schema position: required
// members only, values by format / definition name / first constant.
func (s *schemaSet) synth(n snode, depth int) any {
	if n.m == nil || depth > 5 {
		return map[string]any{}
	}
	switch n.typ() {
	case "string":
		return synthString(n)
	case "integer", "number":
		return json.Number("1")
	case "boolean":
		return true
	case "array":
		return []any{}
	case "object":
		out := map[string]any{}
		req, _ := n.m["required"].([]any)
		for _, r := range req {
			k, _ := r.(string)
			if c, ok := s.prop(n, k); ok {
				out[k] = s.synth(c, depth+1)
			}
		}
		return out
	}
	return map[string]any{}
}

func synthString(n snode) string {
	if cs := n.consts(); len(cs) > 0 {
		return cs[0]
	}
	f, _ := n.m["format"].(string)
	switch f {
	case "uuid":
		return synthUUID
	case "date":
		return "2024-01-01"
	case "date-time":
		return "2024-01-01T00:00:00Z"
	case "time":
		return "12:00:00"
	case "uri", "url", "iri":
		return "https://example.com/a"
	case "email":
		return "a@example.com"
	}
	switch {
	case has(n.name, "num/amount"):
		return "1.00"
	case has(n.name, "num/percentage"):
		return "10%"
	case has(n.name, "cal/date-time"):
		return "2024-01-01T00:00:00"
	case has(n.name, "cal/date"):
		return "2024-01-01"
	case has(n.name, "cal/time"):
		return "12:00:00"
	case has(n.name, "currency/code"):
		return "EUR"
	case has(n.name, "l10n/"):
		return "ES"
	case has(n.name, "cbc/code"):
		return "X1"
	case has(n.name, "cbc/key"):
		return "x"
	case has(n.name, "uuid/"):
		return synthUUID
	case has(n.name, "i18n/"):
		return "en"
	}
	return "x"
}

/* ---------- candidate values of a property an object lacks ---------- */

// cand is one value to add, with a short label; good marks the value meant
// to be acceptable (a copied or synthesised instance, a known code).
type cand struct {
	label string
	val   any
	good  bool
}

func short(v any) string {
	b, _ := json.Marshal(v)
	if len(b) > 40 {
		return fmt.Sprintf("%s...(%d bytes)", b[:37], len(b))
	}
	return string(b)
}

func raw(b json.RawMessage) any {
	v, err := parseAny(b)
	if err != nil {
		return nil
	}
	return v
}

// candidates: the values tried for a missing property, by declared type /
// format / reference.
func (s *schemaSet) candidates(n snode, pool instancePool) []cand {
	var out []cand
	seen := map[string]bool{}
	add := func(v any, good bool) {
		l := short(v)
		if seen[l] {
			return
		}
		seen[l] = true
		out = append(out, cand{l, v, good})
	}
	switch n.typ() {
	case "string":
		cs := n.consts()
		switch {
		case has(n.name, "num/amount"):
			add("1.00", true)
			add("0", false)
			add("-1", false)
			add("1e3", false)
			add("", false)
		case has(n.name, "num/percentage"):
			add("10%", true)
			add("0%", false)
			add("-1%", false)
			add("1e3", false)
			add("", false)
		case len(cs) > 0 || has(n.name, "currency/code") || has(n.name, "l10n/") || has(n.name, "cbc/code") || has(n.name, "cbc/key"):
			// a code: one the library knows, one it does not
			add(synthString(n), true)
			add("QQQ", false)
			add("qqq", false)
			add("", false)
		default:
			add(synthString(n), true)
			add("x", false)
			add("QQQ", false)
			add("", false)
		}
	case "integer", "number":
		add(json.Number("1"), true)
		add(json.Number("0"), false)
		add(json.Number("-1"), false)
		add(json.Number("1e3"), false)
	case "boolean":
		add(true, true)
		add(false, false)
	case "array":
		add([]any{}, false)
		add([]any{nil}, false)
		if it, ok := s.items(n); ok {
			if inst, ok := pool[it.name]; ok && (it.typ() == "object" || it.typ() == "array") {
				if rich, ok := pool[it.name+richSuffix]; ok {
					add([]any{raw(rich)}, true)
				}
				add([]any{raw(inst)}, true)
			} else {
				add([]any{s.synth(it, 0)}, true)
			}
			if it.typ() == "object" {
				add([]any{map[string]any{}}, false)
			}
		}
	case "object":
		add(map[string]any{}, false)
		if inst, ok := pool[n.name]; ok {
			if rich, ok := pool[n.name+richSuffix]; ok {
				add(raw(rich), true) // first: the one the pairs use
			}
			add(raw(inst), true)
		} else if mv, ok := s.mapValue(n); ok {
			add(map[string]any{"zz-added": s.synth(mv, 0)}, true)
		} else {
			add(s.synth(n, 0), true)
		}
		if mv, ok := s.mapValue(n); ok && mv.typ() == "string" {
			add(map[string]any{"zz-added": "QQQ"}, false)
			add(map[string]any{"zz-added": ""}, false)
		}
	default:
		// schema/object and other untyped positions
		add(map[string]any{}, false)
		add(map[string]any{"$schema": "https://gobl.org/draft-0/no/such"}, false)
		add(map[string]any{"$schema": "https://gobl.org/draft-0/note/message", "content": "x"}, true)
	}
	return out
}
