package c14

import (
	"encoding/json"
	"sort"

	"github.com/invopop/gobl"
	"github.com/invopop/gobl/bill"
	"github.com/invopop/gobl/dsig"
	"github.com/invopop/gobl/head"
	"github.com/invopop/gobl/schema"

	"verifharness/internal/core"
)

// nil / zero arguments: every entry of the envelope API (packages gobl, dsig,
// head; the correction options of bill) that takes a pointer, a key, an
// option or an interface value is called with nil / the zero value in that
// position, on a parsed base (unsigned and signed).  The outcome has to be a
// result or an error; errors of the gobl package have to be structured.
//
// One case = (base, entry); stream "nilarg", Kind = the entry's name.

type nilEntry struct {
	name       string
	structured bool // the error comes from package gobl's envelope API: keyed
	f          func(env *gobl.Envelope, sig *dsig.Signature) error
}

// outsideQuantifier: entries in which the CALLING PROGRAM hands a nil pointer
// in as the document or as the argument / receiver of a helper.  C14 speaks
// of byte strings given to the parser and of parsed envelopes and documents
// then operated on (with keys and options that exist); such a call is not an
// input of that kind.  They are still exercised; a panic is counted under
// "outside-quantifier:nil-argument:<site>" and is no violation.
var outsideQuantifier = map[string]bool{
	"Envelope.Insert((*schema.Object)(nil))":   true,
	"Envelope.Insert((*bill.Invoice)(nil))":    true,
	"gobl.Envelop((*bill.Invoice)(nil))":       true,
	"schema.NewObject(nil)":                    true,
	"dsig.NewSignature(key, head, nil option)": true,
	"Digest.Equals(nil)":                       true,
	"(*Digest)(nil).Equals":                    true,
	"Header.Contains(nil)":                     true,
	"Header.AddStamp(nil)":                     true,
	"Header.AddLink(nil)":                      true,
	"(*PrivateKey)(nil).Sign":                  true,
	"(*PrivateKey)(nil).Validate":              true,
	"(*Signature)(nil).UnsafePayload":          true,
	"(*Signature)(nil).VerifyPayload":          true,
	"PublicKey.Verify(nil sig, h)":             true,
	"Signature.VerifyPayload(key, nil)":        true,
	"Signature.UnsafePayload(nil)":             true,
}

const outsideStage = "outside-quantifier:nil-argument"

func firstSig(env *gobl.Envelope) *dsig.Signature {
	if env != nil && len(env.Signatures) > 0 {
		return env.Signatures[0]
	}
	s, _ := key.Sign(map[string]any{"uuid": synthUUID})
	return s
}

var nilEntries = []nilEntry{
	// keys
	{"Envelope.Sign(nil)", true, func(e *gobl.Envelope, _ *dsig.Signature) error { return e.Sign(nil) }},
	{"Envelope.Sign(zero key)", true, func(e *gobl.Envelope, _ *dsig.Signature) error { return e.Sign(new(dsig.PrivateKey)) }},
	{"Envelope.Verify(nil)", true, func(e *gobl.Envelope, _ *dsig.Signature) error { return e.Verify(nil) }},
	{"Envelope.Verify(nil, key)", true, func(e *gobl.Envelope, _ *dsig.Signature) error { return e.Verify(nil, key.Public()) }},
	{"Envelope.Verify(key, nil)", true, func(e *gobl.Envelope, _ *dsig.Signature) error { return e.Verify(key2.Public(), nil) }},
	{"Envelope.Verify(zero key)", true, func(e *gobl.Envelope, _ *dsig.Signature) error { return e.Verify(new(dsig.PublicKey)) }},
	{"Envelope.VerifySignature(nil)", true, func(e *gobl.Envelope, _ *dsig.Signature) error { return e.VerifySignature(nil) }},
	{"Envelope.VerifySignature(nil, key)", true, func(e *gobl.Envelope, _ *dsig.Signature) error { return e.VerifySignature(nil, key.Public()) }},
	{"Envelope.VerifySignature(sig, nil)", true, func(e *gobl.Envelope, s *dsig.Signature) error { return e.VerifySignature(s, nil) }},
	{"Envelope.VerifySignature(sig, zero key)", true, func(e *gobl.Envelope, s *dsig.Signature) error {
		return e.VerifySignature(s, new(dsig.PublicKey))
	}},
	{"Envelope.VerifySignature(zero sig)", true, func(e *gobl.Envelope, _ *dsig.Signature) error { return e.VerifySignature(new(dsig.Signature)) }},
	{"Envelope.VerifySignature(zero sig, key)", true, func(e *gobl.Envelope, _ *dsig.Signature) error {
		return e.VerifySignature(new(dsig.Signature), key.Public())
	}},
	// signature entries of the envelope
	{"Envelope.Signatures=[nil]; Verify", true, func(e *gobl.Envelope, _ *dsig.Signature) error {
		e.Signatures = []*dsig.Signature{nil}
		return e.Verify()
	}},
	{"Envelope.Signatures=[nil]; Verify(key)", true, func(e *gobl.Envelope, _ *dsig.Signature) error {
		e.Signatures = []*dsig.Signature{nil}
		return e.Verify(key.Public())
	}},
	{"Envelope.Signatures=[zero]; Verify", true, func(e *gobl.Envelope, _ *dsig.Signature) error {
		e.Signatures = []*dsig.Signature{new(dsig.Signature)}
		return e.Verify()
	}},
	{"Envelope.Signatures=[nil]; Validate", true, func(e *gobl.Envelope, _ *dsig.Signature) error {
		e.Signatures = []*dsig.Signature{nil}
		return e.Validate()
	}},
	{"Envelope.Signatures=[zero]; Marshal", false, func(e *gobl.Envelope, _ *dsig.Signature) error {
		e.Signatures = []*dsig.Signature{new(dsig.Signature), nil}
		_, _ = json.Marshal(e)
		return nil
	}},
	// missing parts of the envelope
	{"Envelope.Head=nil; Sign", true, func(e *gobl.Envelope, _ *dsig.Signature) error { e.Head = nil; return e.Sign(key) }},
	{"Envelope.Head=nil; Verify", true, func(e *gobl.Envelope, _ *dsig.Signature) error { e.Head = nil; return e.Verify() }},
	{"Envelope.Head=nil; Verify(key)", true, func(e *gobl.Envelope, _ *dsig.Signature) error { e.Head = nil; return e.Verify(key.Public()) }},
	{"Envelope.Head=nil; Validate", true, func(e *gobl.Envelope, _ *dsig.Signature) error { e.Head = nil; return e.Validate() }},
	{"Envelope.Head=nil; Calculate", true, func(e *gobl.Envelope, _ *dsig.Signature) error { e.Head = nil; return e.Calculate() }},
	{"Envelope.Head=nil; Correct", true, func(e *gobl.Envelope, _ *dsig.Signature) error {
		e.Head = nil
		_, err := e.Correct(bill.Credit)
		return err
	}},
	{"Envelope.Head=nil; Insert", true, func(e *gobl.Envelope, _ *dsig.Signature) error {
		d := e.Document
		e.Head = nil
		return e.Insert(d)
	}},
	{"Envelope.Head.Digest=nil; Validate", true, func(e *gobl.Envelope, _ *dsig.Signature) error {
		if e.Head != nil {
			e.Head.Digest = nil
		}
		return e.Validate()
	}},
	{"Envelope.Head.Digest=zero; Validate", true, func(e *gobl.Envelope, _ *dsig.Signature) error {
		if e.Head != nil {
			e.Head.Digest = new(dsig.Digest)
		}
		return e.Validate()
	}},
	{"Envelope.Document=nil; Validate", true, func(e *gobl.Envelope, _ *dsig.Signature) error { e.Document = nil; return e.Validate() }},
	{"Envelope.Document=nil; Calculate", true, func(e *gobl.Envelope, _ *dsig.Signature) error { e.Document = nil; return e.Calculate() }},
	{"Envelope.Document=nil; Digest", true, func(e *gobl.Envelope, _ *dsig.Signature) error { e.Document = nil; _, err := e.Digest(); return err }},
	{"Envelope.Document=nil; Sign", true, func(e *gobl.Envelope, _ *dsig.Signature) error { e.Document = nil; return e.Sign(key) }},
	{"Envelope.Document=nil; Correct", true, func(e *gobl.Envelope, _ *dsig.Signature) error {
		e.Document = nil
		_, err := e.Correct(bill.Credit)
		return err
	}},
	{"Envelope.Document=nil; Replicate", true, func(e *gobl.Envelope, _ *dsig.Signature) error {
		e.Document = nil
		_, err := e.Replicate()
		return err
	}},
	{"Envelope.Document=nil; Extract", false, func(e *gobl.Envelope, _ *dsig.Signature) error { e.Document = nil; _ = e.Extract(); return nil }},
	{"Envelope.Document=nil; CorrectionOptionsSchema", true, func(e *gobl.Envelope, _ *dsig.Signature) error {
		e.Document = nil
		_, err := e.CorrectionOptionsSchema()
		return err
	}},
	{"Envelope.Document=zero; Calculate", true, func(e *gobl.Envelope, _ *dsig.Signature) error {
		e.Document = new(schema.Object)
		return e.Calculate()
	}},
	{"Envelope.Document=zero; Validate", true, func(e *gobl.Envelope, _ *dsig.Signature) error {
		e.Document = new(schema.Object)
		return e.Validate()
	}},
	{"Envelope.Document=zero; Correct", true, func(e *gobl.Envelope, _ *dsig.Signature) error {
		e.Document = new(schema.Object)
		_, err := e.Correct(bill.Credit)
		return err
	}},
	{"Envelope.Document=zero; Replicate", true, func(e *gobl.Envelope, _ *dsig.Signature) error {
		e.Document = new(schema.Object)
		_, err := e.Replicate()
		return err
	}},
	{"Envelope.Document=zero; Marshal", false, func(e *gobl.Envelope, _ *dsig.Signature) error {
		e.Document = new(schema.Object)
		_, _ = json.Marshal(e)
		return nil
	}},
	// the zero envelope through the API
	{"zero Envelope: Validate", true, func(_ *gobl.Envelope, _ *dsig.Signature) error { return new(gobl.Envelope).Validate() }},
	{"zero Envelope: Verify", true, func(_ *gobl.Envelope, _ *dsig.Signature) error { return new(gobl.Envelope).Verify() }},
	{"zero Envelope: Calculate", true, func(_ *gobl.Envelope, _ *dsig.Signature) error { return new(gobl.Envelope).Calculate() }},
	{"zero Envelope: Digest", true, func(_ *gobl.Envelope, _ *dsig.Signature) error { _, err := new(gobl.Envelope).Digest(); return err }},
	{"zero Envelope: Sign", true, func(_ *gobl.Envelope, _ *dsig.Signature) error { return new(gobl.Envelope).Sign(key) }},
	{"zero Envelope: Correct", true, func(_ *gobl.Envelope, _ *dsig.Signature) error {
		_, err := new(gobl.Envelope).Correct(bill.Credit)
		return err
	}},
	{"zero Envelope: Replicate", true, func(_ *gobl.Envelope, _ *dsig.Signature) error { _, err := new(gobl.Envelope).Replicate(); return err }},
	{"zero Envelope: Extract", false, func(_ *gobl.Envelope, _ *dsig.Signature) error { _ = new(gobl.Envelope).Extract(); return nil }},
	{"zero Envelope: Insert(doc)", true, func(e *gobl.Envelope, _ *dsig.Signature) error { return new(gobl.Envelope).Insert(e.Document) }},
	{"zero Envelope: Marshal", false, func(_ *gobl.Envelope, _ *dsig.Signature) error { _, _ = json.Marshal(new(gobl.Envelope)); return nil }},
	{"zero Envelope: VerifySignature(sig)", true, func(_ *gobl.Envelope, s *dsig.Signature) error { return new(gobl.Envelope).VerifySignature(s) }},
	{"zero Envelope: VerifySignature(sig, key)", true, func(_ *gobl.Envelope, s *dsig.Signature) error {
		return new(gobl.Envelope).VerifySignature(s, key.Public())
	}},
	// documents
	{"Envelope.Insert(nil)", true, func(e *gobl.Envelope, _ *dsig.Signature) error { return e.Insert(nil) }},
	{"Envelope.Insert((*schema.Object)(nil))", true, func(e *gobl.Envelope, _ *dsig.Signature) error { return e.Insert((*schema.Object)(nil)) }},
	{"Envelope.Insert((*bill.Invoice)(nil))", true, func(e *gobl.Envelope, _ *dsig.Signature) error { return e.Insert((*bill.Invoice)(nil)) }},
	{"Envelope.Insert(zero Object)", true, func(e *gobl.Envelope, _ *dsig.Signature) error { return e.Insert(new(schema.Object)) }},
	{"Envelope.Insert(zero Invoice)", true, func(e *gobl.Envelope, _ *dsig.Signature) error { return e.Insert(new(bill.Invoice)) }},
	{"Envelope.Insert(unregistered)", true, func(e *gobl.Envelope, _ *dsig.Signature) error { return e.Insert(struct{ A int }{1}) }},
	{"gobl.Envelop(nil)", true, func(_ *gobl.Envelope, _ *dsig.Signature) error { _, err := gobl.Envelop(nil); return err }},
	{"gobl.Envelop((*bill.Invoice)(nil))", true, func(_ *gobl.Envelope, _ *dsig.Signature) error {
		_, err := gobl.Envelop((*bill.Invoice)(nil))
		return err
	}},
	{"gobl.Envelop(zero Invoice)", true, func(_ *gobl.Envelope, _ *dsig.Signature) error { _, err := gobl.Envelop(new(bill.Invoice)); return err }},
	{"gobl.Parse(nil)", true, func(_ *gobl.Envelope, _ *dsig.Signature) error { _, err := gobl.Parse(nil); return err }},
	{"schema.NewObject(nil)", false, func(_ *gobl.Envelope, _ *dsig.Signature) error { _, err := schema.NewObject(nil); return err }},
	// correction options
	{"Envelope.Correct()", true, func(e *gobl.Envelope, _ *dsig.Signature) error { _, err := e.Correct(); return err }},
	{"Envelope.Correct(nil)", true, func(e *gobl.Envelope, _ *dsig.Signature) error { _, err := e.Correct(nil); return err }},
	{"Envelope.Correct(Credit, nil)", true, func(e *gobl.Envelope, _ *dsig.Signature) error { _, err := e.Correct(bill.Credit, nil); return err }},
	{"Envelope.Correct(WithOptions(nil))", true, func(e *gobl.Envelope, _ *dsig.Signature) error {
		_, err := e.Correct(bill.WithOptions(nil))
		return err
	}},
	{"Envelope.Correct(WithOptions(zero))", true, func(e *gobl.Envelope, _ *dsig.Signature) error {
		_, err := e.Correct(bill.WithOptions(new(bill.CorrectionOptions)))
		return err
	}},
	{"Envelope.Correct(WithData(nil))", true, func(e *gobl.Envelope, _ *dsig.Signature) error {
		_, err := e.Correct(bill.WithData(nil))
		return err
	}},
	{"Envelope.Correct(WithData(null))", true, func(e *gobl.Envelope, _ *dsig.Signature) error {
		_, err := e.Correct(bill.WithData(json.RawMessage("null")))
		return err
	}},
	{"Envelope.Correct(Credit, WithStamps([nil]))", true, func(e *gobl.Envelope, _ *dsig.Signature) error {
		_, err := e.Correct(bill.Credit, bill.WithStamps([]*head.Stamp{nil}))
		return err
	}},
	{"Envelope.Correct(Credit, WithHead(nil))", true, func(e *gobl.Envelope, _ *dsig.Signature) error {
		_, err := e.Correct(bill.Credit, head.WithHead(nil))
		return err
	}},
	// dsig
	{"dsig.NewSignature(nil, head)", false, func(e *gobl.Envelope, _ *dsig.Signature) error { _, err := dsig.NewSignature(nil, e.Head); return err }},
	{"dsig.NewSignature(zero key, head)", false, func(e *gobl.Envelope, _ *dsig.Signature) error {
		_, err := dsig.NewSignature(new(dsig.PrivateKey), e.Head)
		return err
	}},
	{"dsig.NewSignature(key, nil)", false, func(_ *gobl.Envelope, _ *dsig.Signature) error { _, err := dsig.NewSignature(key, nil); return err }},
	{"dsig.NewSignature(key, head, nil option)", false, func(e *gobl.Envelope, _ *dsig.Signature) error {
		_, err := dsig.NewSignature(key, e.Head, nil)
		return err
	}},
	{"PrivateKey.Sign(nil)", false, func(_ *gobl.Envelope, _ *dsig.Signature) error { _, err := key.Sign(nil); return err }},
	{"(*PrivateKey)(nil).Sign", false, func(e *gobl.Envelope, _ *dsig.Signature) error { _, err := (*dsig.PrivateKey)(nil).Sign(e.Head); return err }},
	{"(*PrivateKey)(nil).Validate", false, func(_ *gobl.Envelope, _ *dsig.Signature) error { return (*dsig.PrivateKey)(nil).Validate() }},
	{"zero PrivateKey.Validate", false, func(_ *gobl.Envelope, _ *dsig.Signature) error { return new(dsig.PrivateKey).Validate() }},
	{"zero PublicKey.Validate", false, func(_ *gobl.Envelope, _ *dsig.Signature) error { return new(dsig.PublicKey).Validate() }},
	{"Signature.Verify(nil)", false, func(_ *gobl.Envelope, s *dsig.Signature) error { _, err := s.Verify(nil); return err }},
	{"Signature.Verify(zero key)", false, func(_ *gobl.Envelope, s *dsig.Signature) error { _, err := s.Verify(new(dsig.PublicKey)); return err }},
	{"Signature.VerifyPayload(nil, h)", false, func(_ *gobl.Envelope, s *dsig.Signature) error { return s.VerifyPayload(nil, new(head.Header)) }},
	{"Signature.VerifyPayload(key, nil)", false, func(_ *gobl.Envelope, s *dsig.Signature) error { return s.VerifyPayload(key.Public(), nil) }},
	{"Signature.UnsafePayload(nil)", false, func(_ *gobl.Envelope, s *dsig.Signature) error { return s.UnsafePayload(nil) }},
	{"(*Signature)(nil).UnsafePayload", false, func(_ *gobl.Envelope, _ *dsig.Signature) error {
		return (*dsig.Signature)(nil).UnsafePayload(new(head.Header))
	}},
	{"(*Signature)(nil).VerifyPayload", false, func(_ *gobl.Envelope, _ *dsig.Signature) error {
		return (*dsig.Signature)(nil).VerifyPayload(key.Public(), new(head.Header))
	}},
	{"zero Signature: String/KeyID/JKU/Marshal", false, func(_ *gobl.Envelope, _ *dsig.Signature) error {
		z := new(dsig.Signature)
		_, _, _ = z.String(), z.KeyID(), z.JKU()
		_, _ = json.Marshal(z)
		return nil
	}},
	{"PublicKey.Verify(nil sig, h)", false, func(_ *gobl.Envelope, _ *dsig.Signature) error { return key.Public().Verify(nil, new(head.Header)) }},
	{"dsig.ParseSignature(\"\")", false, func(_ *gobl.Envelope, _ *dsig.Signature) error { _, err := dsig.ParseSignature(""); return err }},
	{"Digest.Equals(nil)", false, func(e *gobl.Envelope, _ *dsig.Signature) error {
		if e.Head == nil || e.Head.Digest == nil {
			return nil
		}
		return e.Head.Digest.Equals(nil)
	}},
	{"(*Digest)(nil).Equals", false, func(e *gobl.Envelope, _ *dsig.Signature) error {
		d, err := e.Digest()
		if err != nil {
			return err
		}
		return (*dsig.Digest)(nil).Equals(d)
	}},
	// head
	{"Header.Contains(nil)", false, func(e *gobl.Envelope, _ *dsig.Signature) error {
		if e.Head != nil {
			_ = e.Head.Contains(nil)
		}
		return nil
	}},
	{"Header.Contains(zero)", false, func(e *gobl.Envelope, _ *dsig.Signature) error {
		if e.Head != nil {
			_ = e.Head.Contains(new(head.Header))
		}
		return nil
	}},
	{"zero Header.Contains(head)", false, func(e *gobl.Envelope, _ *dsig.Signature) error {
		if e.Head != nil {
			_ = new(head.Header).Contains(e.Head)
		}
		return nil
	}},
	{"Header.AddStamp(nil)", false, func(e *gobl.Envelope, _ *dsig.Signature) error {
		if e.Head != nil {
			e.Head.AddStamp(nil)
			return e.Validate()
		}
		return nil
	}},
	{"Header.AddLink(nil)", false, func(e *gobl.Envelope, _ *dsig.Signature) error {
		if e.Head != nil {
			e.Head.AddLink(nil)
			return e.Validate()
		}
		return nil
	}},
	{"Header.Links=[nil]; AddLink", false, func(e *gobl.Envelope, _ *dsig.Signature) error {
		if e.Head == nil {
			return nil
		}
		e.Head.Links = append([]*head.Link{nil}, e.Head.Links...)
		e.Head.AddLink(&head.Link{Key: "k", URL: "https://example.com"})
		_ = head.AppendLink(e.Head.Links, &head.Link{Key: "k2", URL: "https://example.com/2"})
		return e.Validate()
	}},
	{"Header.Stamps=[nil]; AddStamp", false, func(e *gobl.Envelope, _ *dsig.Signature) error {
		if e.Head == nil {
			return nil
		}
		e.Head.Stamps = append([]*head.Stamp{nil}, e.Head.Stamps...)
		e.Head.AddStamp(&head.Stamp{Provider: "p", Value: "v"})
		_ = head.AddStamp(e.Head.Stamps, &head.Stamp{Provider: "p2", Value: "v"})
		_ = head.GetStamp(e.Head.Stamps, "p3")
		_ = head.NormalizeStamps(e.Head.Stamps)
		return e.Validate()
	}},
	{"Header.Stamps=[nil]; Validate/Verify/Marshal", false, func(e *gobl.Envelope, _ *dsig.Signature) error {
		if e.Head == nil {
			return nil
		}
		e.Head.Stamps = []*head.Stamp{nil}
		_ = e.Validate()
		_ = e.Verify()
		_ = e.Verify(key.Public())
		_, _ = json.Marshal(e)
		return nil
	}},
	{"Header.Links=[nil]; Validate/Verify/Marshal", false, func(e *gobl.Envelope, _ *dsig.Signature) error {
		if e.Head == nil {
			return nil
		}
		e.Head.Links = []*head.Link{nil}
		_ = e.Validate()
		_ = e.Verify()
		_ = e.Verify(key.Public())
		_, _ = json.Marshal(e)
		return nil
	}},
}

// runNilArg parses the base afresh and calls the named entry.
func runNilArg(t tcase) (panics []panicRec, issues []errIssue, reached string) {
	var ent *nilEntry
	for i := range nilEntries {
		if nilEntries[i].name == t.Kind {
			ent = &nilEntries[i]
		}
	}
	if ent == nil {
		return nil, nil, "nilarg-unknown-entry"
	}
	env := parseEnvelope([]byte(t.Doc))
	if env == nil {
		return nil, nil, "parse-error"
	}
	sig := firstSig(env)
	var err error
	stage := "nil-arg"
	site, msg, _ := core.ProtectSite(func() { err = ent.f(env, sig) })
	if site != "" {
		if outsideQuantifier[ent.name] {
			return []panicRec{{outsideStage, site, ent.name + ": " + msg}}, nil, "nilarg-outside-quantifier-panic"
		}
		return []panicRec{{stage, site, ent.name + ": " + msg}}, nil, "nilarg-panic"
	}
	if ent.structured {
		checkErr(stage+":"+ent.name, err, &issues)
	}
	if err != nil {
		return nil, issues, "nilarg-error"
	}
	return nil, issues, "nilarg-ok"
}

// nilArgCases: every entry on a sample of bases (the examples as they are and the signed bases).
func nilArgCases(c *core.Ctx, exs, bases []example) []tcase {
	var envs []example
	for _, ex := range exs {
		if _, ok := envelopeLike(ex.data); ok {
			envs = append(envs, ex)
		}
	}
	sort.Slice(envs, func(i, j int) bool { return envs[i].name < envs[j].name })
	pick := func(l []example, n int) []example {
		var out []example
		for _, i := range sampleIdx(c, len(l), n) {
			out = append(out, l[i])
		}
		return out
	}
	chosen := append(pick(envs, c.Pick(4, 40)), pick(bases, c.Pick(6, 60))...)
	var out []tcase
	for _, b := range chosen {
		for _, e := range nilEntries {
			out = append(out, tcase{Stream: "nilarg", Name: b.name, Kind: e.name, Doc: string(b.data)})
		}
	}
	return out
}
