package c14

import (
	"bytes"
	"encoding/json"
	"fmt"
	"io"
	"net/http"
	"os"
	"strings"
	"time"

	"verifharness/internal/clibin"
	"verifharness/internal/core"
)

// Request-level families of the bulk endpoint and of the command line
// (a panic there kills the process; a stream that never ends is a hang):
//
//   bulk-request   a well-formed request of every action (build, sign, verify,
//                  validate, correct, replicate, keygen, ping, schemas, schema,
//                  regime) over an unsigned and a signed base, then the
//                  existing structural mutations applied to THE REQUEST: each
//                  member of the request and of its payload (and of the keys
//                  inside it) deleted / nulled / retyped / duplicated in turn;
//   bulk-stream    request streams cut off at every offset inside a request,
//                  or ending in garbage, after zero or more complete requests;
//   cli-args       command lines lacking a flag, with an empty flag value, and
//                  with key files that are empty / null / lack a member.
//
// Every stream has to END, with exactly one final response, which is the last
// one; requests read completely are answered; errors are structured.

const (
	bulkReadLimit = 1 << 20
	bulkDeadline  = 20 * time.Second
)

// bulkLimited posts a stream and reads at most bulkReadLimit bytes of the
// answer within the deadline: an endless answer must not be collected.
func bulkLimited(srv *clibin.Server, body []byte) (raw []byte, ended bool, err error) {
	req, err := http.NewRequest("POST", srv.URL+"/bulk", bytes.NewReader(body))
	if err != nil {
		return nil, false, err
	}
	req.Close = true
	cl := &http.Client{Timeout: bulkDeadline, Transport: &http.Transport{DisableKeepAlives: true}}
	resp, err := cl.Do(req)
	if err != nil {
		return nil, false, err
	}
	defer resp.Body.Close() //nolint:errcheck
	raw, err = io.ReadAll(io.LimitReader(resp.Body, bulkReadLimit))
	if err != nil {
		return raw, false, err
	}
	if len(raw) >= bulkReadLimit {
		return raw, false, nil
	}
	return raw, true, nil
}

type bulkResp struct {
	ReqID string          `json:"req_id"`
	SeqID int64           `json:"seq_id"`
	Error *cliErr         `json:"error"`
	Final bool            `json:"is_final"`
	Pl    json.RawMessage `json:"payload"`
}

// judgeStream checks one answered stream; complete = requests the stream
// holds completely (-1: unknown, only an upper bound maxResp applies).
func judgeStream(c *core.Ctx, t tcase, raw []byte, ended bool, err error, complete, maxResp int) (serverGone bool) {
	if !ended && err == nil {
		failX(c, "c14.bulk:endless-stream", fmt.Sprintf("bulk: the answer to a stream of %d bytes does not end: more than %d bytes of responses (%s): %.200q ...", len(t.Doc), bulkReadLimit, t.Kind, raw), t)
		return true // the handler is still producing: start afresh
	}
	if err != nil {
		if strings.Contains(err.Error(), "Client.Timeout") || strings.Contains(err.Error(), "deadline") {
			failX(c, "c14.bulk:hang", fmt.Sprintf("bulk: no end of the answer within %s (%s): %v; so far %d bytes", bulkDeadline, t.Kind, err, len(raw)), t)
			return true
		}
		return true // connection broken: the caller looks at the server's log
	}
	var rs []bulkResp
	dec := json.NewDecoder(bytes.NewReader(raw))
	for {
		var o bulkResp
		e := dec.Decode(&o)
		if e == io.EOF {
			break
		}
		if e != nil {
			return true // cut off in the middle of a response: the server went away
		}
		rs = append(rs, o)
	}
	finals := 0
	for _, o := range rs {
		if o.Final {
			finals++
		}
	}
	if finals == 0 {
		return true
	}
	if finals != 1 || !rs[len(rs)-1].Final {
		failX(c, "c14.bulk:final", fmt.Sprintf("bulk: %d final responses among %d, the last one final=%v (%s)", finals, len(rs), rs[len(rs)-1].Final, t.Kind), t)
		return false
	}
	n := len(rs) - 1
	if complete >= 0 && n != complete {
		failX(c, "c14.bulk:answers", fmt.Sprintf("bulk: %d responses before the final one for a stream with %d complete requests (%s)", n, complete, t.Kind), t)
		return false
	}
	if n > maxResp {
		failX(c, "c14.bulk:answers", fmt.Sprintf("bulk: %d responses before the final one for a stream with at most %d requests (%s)", n, maxResp, t.Kind), t)
		return false
	}
	for _, o := range rs {
		if o.Error == nil {
			continue
		}
		if o.Error.Code == 0 || (o.Error.Key == "" && o.Error.Message == "" && len(o.Error.Fields) == 0) {
			failCLI(c, "c14.clierr:empty", "bulk error without code/key/message ("+t.Kind+")", t)
		}
		if o.Error.Key != "" && !documentedKeys[o.Error.Key] {
			failCLI(c, "c14.clierr:undocumented-key", "bulk: undocumented error key "+o.Error.Key, t)
		}
	}
	return false
}

// bulkBaseRequests: one well-formed request per action.
func bulkBaseRequests(doc, signed []byte) []map[string]any {
	priv := json.RawMessage(harnessKeyJSON)
	pub := json.RawMessage(publicJSON(key))
	inner := doc
	if top, ok := envelopeLike(doc); ok {
		if d, err := json.Marshal(top["doc"]); err == nil {
			inner = d
		}
	}
	return []map[string]any{
		{"action": "build", "req_id": "b", "indent": true, "payload": map[string]any{"template": []byte(`{}`), "data": inner, "type": "bill.Invoice", "envelop": true}},
		{"action": "build", "req_id": "b", "payload": map[string]any{"data": doc}},
		{"action": "sign", "req_id": "b", "payload": map[string]any{"template": []byte(`{}`), "data": doc, "privatekey": priv, "type": "", "envelop": true}},
		{"action": "sign", "req_id": "b", "payload": map[string]any{"data": doc}},
		{"action": "verify", "req_id": "b", "payload": map[string]any{"data": signed, "publickey": pub}},
		{"action": "validate", "req_id": "b", "payload": map[string]any{"data": doc}},
		{"action": "validate", "req_id": "b", "payload": map[string]any{"data": signed}},
		{"action": "correct", "req_id": "b", "payload": map[string]any{"data": doc, "options": []byte(`{"type":"credit-note","reason":"r"}`), "schema": false}},
		{"action": "correct", "req_id": "b", "payload": map[string]any{"data": signed, "schema": true}},
		{"action": "replicate", "req_id": "b", "payload": map[string]any{"data": signed}},
		{"action": "keygen", "req_id": "b", "payload": map[string]any{}},
		{"action": "ping", "req_id": "b", "payload": map[string]any{}},
		{"action": "schemas", "req_id": "b", "payload": map[string]any{}},
		{"action": "schema", "req_id": "b", "payload": map[string]any{"path": "bill/invoice"}},
		{"action": "regime", "req_id": "b", "payload": map[string]any{"code": "ES"}},
	}
}

type reqMut struct {
	action string
	text   []byte // the request
	p      path
	kind   string
}

func enumerateRequests(doc, signed []byte) []reqMut {
	var out []reqMut
	for _, r := range bulkBaseRequests(doc, signed) {
		b, err := json.Marshal(r)
		if err != nil {
			continue
		}
		act, _ := r["action"].(string)
		out = append(out, reqMut{action: act, text: b, kind: "as-it-is"})
		root, err := parseAny(b)
		if err != nil {
			continue
		}
		var ps []path
		paths(root, nil, &ps)
		for _, p := range ps {
			for _, k := range kindsFor(p, get(root, p)) {
				if strings.HasPrefix(k, "deep-") || strings.HasPrefix(k, "legacy:") || strings.HasPrefix(k, "num-text:") || strings.HasPrefix(k, "dup-strip:") {
					continue
				}
				out = append(out, reqMut{action: act, text: b, p: p, kind: k})
			}
		}
	}
	return out
}

func pingReq(id string) string { return `{"action":"ping","req_id":"` + id + `"}` }

// truncatedStreams: k complete requests followed by a request cut off at an
// offset, or by something that is not a request.
func truncatedStreams(c *core.Ctx, doc []byte) (streams []string, complete []int, kinds []string) {
	small := pingReq("z")
	bb, _ := json.Marshal(map[string]any{"action": "validate", "req_id": "v", "payload": map[string]any{"data": doc}})
	big := string(bb)
	add := func(k int, tail, kind string) {
		var sb strings.Builder
		for i := 0; i < k; i++ {
			sb.WriteString(pingReq(fmt.Sprint(i)))
			sb.WriteString([]string{"\n", " ", ""}[i%3])
		}
		sb.WriteString(tail)
		streams = append(streams, sb.String())
		complete = append(complete, k)
		kinds = append(kinds, fmt.Sprintf("%d complete requests + %s", k, kind))
	}
	for _, k := range []int{0, 2} {
		for j := 1; j < len(small); j++ {
			add(k, small[:j], fmt.Sprintf("a request cut off after %d of %d bytes", j, len(small)))
		}
		for i := 0; i < c.Pick(12, 120); i++ {
			j := 1 + c.Rng.Intn(len(big)-1)
			add(k, big[:j], fmt.Sprintf("a request with a payload cut off after %d of %d bytes", j, len(big)))
		}
		for _, g := range []string{"", " ", "\n\n", "x", "[", "]", "}", "\"", "\"abc", "nul", "tru", "1e", "-", "{\"action\":\"ping\",\"req_id\":\"\\ud8", "\x00", "\xff\xfe", "[1,2", "{\"a\":{\"b\":[{\"c\":"} {
			add(k, g, fmt.Sprintf("the text %q", g))
		}
	}
	return
}

// cliKeyFiles: key files that are not a key.
func cliKeyFiles() []string {
	out := []string{"", "null", "{}", "[]", `"x"`, "7", `{"kty":"EC"}`, `{"kty":"RSA"}`, `{"kty":null}`, harnessKeyJSON, string(publicJSON(key)), harnessKey2JSON}
	var m map[string]any
	_ = json.Unmarshal([]byte(harnessKeyJSON), &m)
	for k := range m {
		cp := map[string]any{}
		for k2, v := range m {
			if k2 != k {
				cp[k2] = v
			}
		}
		b, _ := json.Marshal(cp)
		out = append(out, string(b))
		cp[k] = nil
		b, _ = json.Marshal(cp)
		out = append(out, string(b))
		cp[k] = ""
		b, _ = json.Marshal(cp)
		out = append(out, string(b))
	}
	return out
}

// failX: c.Fail, and a replay file even when the five recorded violations are used up.
func failX(c *core.Ctx, cls, what string, t tcase) {
	c.Count("request-level-issue:"+cls, 1)
	failXSeen[cls]++
	if failXSeen[cls] > 1 {
		return // one witness per kind of defect (every occurrence is counted above)
	}
	furtherWitness(c, cls, what, t, false)
	c.Fail(cls, what, t)
}

var failXSeen = map[string]int{}

type argJob struct {
	t    tcase
	args []string
}

func cliArgJobs(doc, signed []byte) []argJob {
	var out []argJob
	nFile := 0
	add := func(stdin []byte, args ...string) {
		label := make([]string, len(args))
		for i, a := range args {
			label[i] = a
			if strings.HasPrefix(a, "$FILE:") {
				nFile++
				label[i] = fmt.Sprintf("$FILE#%d", nFile)
			}
		}
		out = append(out, argJob{tcase{Stream: "cli-args", Doc: string(stdin), Via: "cli:" + strings.Join(label, " "), Kind: "flags"}, args})
	}
	// flags lacking or empty
	add(doc, "sign")
	add(signed, "verify")
	add(doc, "sign", "-k", "")
	add(signed, "verify", "-k", "")
	add(doc, "correct")
	add(doc, "correct", "-d", "")
	add(doc, "correct", "-d", "null")
	add(doc, "correct", "-d", "[]")
	add(doc, "correct", "--credit", "--debit")
	add(doc, "build", "-t", "")
	add(doc, "build", "-T", "")
	add(doc, "build", "--set", "x")
	add(doc, "build", "--set", "=")
	add(doc, "build", "--set", "doc=null")
	add(doc, "build", "--set", "head=null")
	add(doc, "build", "--set", "sigs=[null]")
	add(doc, "build", "--set-string", "=")
	add(doc, "build", "--set-file", "a=/no/such/file")
	add(doc, "build", "--set-file", "=")
	add(signed, "build", "--set", "head=null")
	add(signed, "validate", "--set", "x")
	add(nil, "build")
	add(nil, "sign", "-k", "$KEY")
	add(nil, "verify", "-k", "$PUB")
	add(nil, "validate")
	add(nil, "correct", "--credit")
	add(nil, "replicate")
	add(doc, "serve", "-k", "/no/such/key")
	add(doc, "keygen", "-")
	add(doc, "version")
	for _, kf := range cliKeyFiles() {
		add(doc, "sign", "-k", "$FILE:"+kf)
		add(signed, "verify", "-k", "$FILE:"+kf)
	}
	return out
}

// externalExtra runs the request-level families.
func externalExtra(c *core.Ctx, goblBin string, exs, bases []example) {
	if len(bases) == 0 {
		return
	}
	home, err := cliHome(goblBin)
	if err != nil {
		c.TieBroken("cli", err.Error(), nil)
		return
	}
	defer os.RemoveAll(home) //nolint:errcheck
	// a signed base and the example it was made of
	var pairs [][2][]byte
	byName := map[string][]byte{}
	for _, ex := range exs {
		byName[ex.name] = ex.data
	}
	for _, b := range bases {
		if strings.HasPrefix(b.name, "signed/") {
			if src, ok := byName[strings.TrimPrefix(b.name, "signed/")]; ok && len(b.data) < 20000 {
				pairs = append(pairs, [2][]byte{src, b.data})
			}
		}
	}
	if len(pairs) == 0 {
		return
	}
	var chosen [][2][]byte
	for _, i := range sampleIdx(c, len(pairs), c.Pick(1, 3)) {
		chosen = append(chosen, pairs[i])
	}

	// command lines
	var runs []cliRun
	for _, j := range cliArgJobs(chosen[0][0], chosen[0][1]) {
		r := clibin.Run(goblBin, home, []byte(j.t.Doc), 30*time.Second, cliArgs(home, j.args)...)
		j.t.Args = j.args
		c.Eval("cli-args|"+j.t.Via, true)
		runs = append(runs, cliRun{j.t, r, nil})
	}
	judgeCLI(c, runs)

	// the bulk endpoint
	srv, err := clibin.Serve(goblBin, home, 4)
	if err != nil {
		c.TieBroken("bulk", err.Error(), nil)
		return
	}
	defer func() { srv.Stop() }()
	restart := func() bool {
		srv.Stop()
		srv, err = clibin.Serve(goblBin, home, 4)
		if err != nil {
			c.TieBroken("bulk", err.Error(), nil)
			return false
		}
		return true
	}
	post := func(t tcase, complete, maxResp int) bool {
		raw, ended, err := bulkLimited(srv, []byte(t.Doc))
		c.Eval("bulk|"+t.Stream+"|"+t.Kind+"|"+t.Path+"|"+fmt.Sprint(len(t.Doc)), true)
		c.Count("via."+t.Stream, 1)
		if gone := judgeStream(c, t, raw, ended, err, complete, maxResp); gone {
			time.Sleep(50 * time.Millisecond)
			logTxt := srv.Log.String()
			if strings.Contains(logTxt, "goroutine ") {
				site := core.PanicSite([]byte(logTxt))
				if site == "" {
					site = "(no gobl frame)"
				}
				c.Count("via."+t.Stream+".server-aborted", 1)
				failX(c, classifier(t.Stream, site), fmt.Sprintf("gobl serve (bulk) aborted by a panic at %s (%s): %s", site, t.Kind, tail(logTxt, 400)), t)
			} else if ended && err == nil {
				failX(c, "c14.bulk:final", fmt.Sprintf("bulk: the answer ends without a final response (%s): %s", t.Kind, tail(string(raw), 300)), t)
			}
			return restart()
		}
		return true
	}
	for _, pr := range chosen {
		reqs := enumerateRequests(pr[0], pr[1])
		c.Count("bulk-request-space.size", int64(len(reqs)))
		for _, i := range sampleIdx(c, len(reqs), c.Pick(500, len(reqs))) {
			m := reqs[i]
			x := m.text
			if m.kind != "as-it-is" {
				x = apply(m.text, m.p, m.kind)
			}
			if x == nil {
				continue
			}
			stream := pingReq("a") + "\n" + string(x) + "\n" + pingReq("c") + "\n"
			t := tcase{Stream: "bulk-request", Via: "bulk-stream", Name: m.action, Path: m.p.String(), Kind: m.action + ": " + m.kind, Doc: stream}
			if !post(t, -1, 3) {
				return
			}
		}
	}
	streams, complete, kinds := truncatedStreams(c, chosen[0][0])
	for i, s := range streams {
		t := tcase{Stream: "bulk-stream", Via: "bulk-stream", Kind: kinds[i], Doc: s}
		if !post(t, complete[i], complete[i]) {
			return
		}
	}
	// request options against payload shapes, through bulk, HTTP and the command line (reqopts.go)
	requestOptionFamily(c, goblBin, home, func() *clibin.Server { return srv }, post, chosen[0][0], chosen[0][1])
}

// replayBulkStream posts a recorded stream again.
func replayBulkStream(c *core.Ctx, t tcase, goblBin string) {
	home, err := cliHome(goblBin)
	if err != nil {
		c.TieBroken("cli", err.Error(), nil)
		return
	}
	defer os.RemoveAll(home) //nolint:errcheck
	srv, err := clibin.Serve(goblBin, home, 4)
	if err != nil {
		c.TieBroken("bulk", err.Error(), nil)
		return
	}
	defer srv.Stop()
	raw, ended, err := bulkLimited(srv, []byte(t.Doc))
	c.Eval("replay-bulk", true)
	fmt.Fprintf(os.Stderr, "replay: bulk stream of %d bytes: ended=%v err=%v, %d bytes of responses: %.400q\n", len(t.Doc), ended, err, len(raw), raw)
	complete := -1
	if t.Stream == "bulk-stream" {
		var k int
		if _, e := fmt.Sscanf(t.Kind, "%d complete requests", &k); e == nil {
			complete = k
		}
	}
	maxResp := 3
	if complete >= 0 {
		maxResp = complete
	}
	if gone := judgeStream(c, t, raw, ended, err, complete, maxResp); gone {
		time.Sleep(50 * time.Millisecond)
		logTxt := srv.Log.String()
		if strings.Contains(logTxt, "goroutine ") {
			site := core.PanicSite([]byte(logTxt))
			failX(c, classifier(t.Stream, site), "gobl serve (bulk) aborted by a panic at "+site+": "+tail(logTxt, 400), t)
		} else if ended && err == nil {
			failX(c, "c14.bulk:final", "bulk: the answer ends without a final response", t)
		}
	}
}
