package c14

import (
	"bytes"
	"encoding/json"
	"fmt"
	"go/ast"
	"go/parser"
	"go/token"
	"io"
	"net/http"
	"os"
	"path/filepath"
	"reflect"
	"regexp"
	"sort"
	"strings"
	"sync"
	"time"

	"verifharness/internal/clibin"
	"verifharness/internal/core"
)

// Request options against the shape of the payload.
//
// C14: "for any byte string given to the parser … the operation returns either a result or an
// error; it never panics, hangs or aborts the process", through the envelope API and the command
// line.  A request of the bulk endpoint, of the HTTP routes and of the command line is more than
// its document: it has OPTION members of its own (a document type, "envelop", a template, keys,
// correction options, …) and the code that applies an option to the data reads the data's shape
// before the parser has judged it.  The request-level mutations of bulkreq.go vary a well-formed
// request member by member; this family is the other axis: every option member the request
// types declare (read from the declarations of internal/cli: every struct whose name ends in
// "Request", its json members and their Go types) takes every value of its type — alone, and in
// pairs for the scalar ones — over every DEGENERATE SHAPE of the data (payloadShapes: an envelope
// without a document, with a document that is null / a string / a list / a number / a boolean /
// an empty object / has no schema / is an envelope itself, a bare document, the empty object, a
// schema and nothing else, the JSON scalars, no bytes at all), through
//
//   bulk   one request between two pings: both pings are answered, one final response ends the
//          stream, the process is alive afterwards (judgeStream + the server's log);
//   http   POST /<action> for every request type that has a route: an answer arrives (a panic
//          in a handler closes the connection without one) and is JSON;
//   cli    every flag `gobl <command> --help` lists, with every value of its type (for string
//          flags also the path of a file holding a shape, and the key files), the shape on
//          standard input: judged like every other command line (judgeCLI).
//
// Nothing here knows which option touches which member of the data.

type reqMember struct {
	name string // json name
	typ  string // Go type as written
}

type reqType struct {
	action  string
	members []reqMember
}

var reJSONTag = regexp.MustCompile(`json:"([^",]+)`)

// requestTypes reads the request structs of internal/cli from the source tree under test.
func requestTypes(repo string) ([]reqType, error) {
	fset := token.NewFileSet()
	pkgs, err := parser.ParseDir(fset, filepath.Join(repo, "internal", "cli"), nil, 0)
	if err != nil {
		return nil, err
	}
	var out []reqType
	for _, p := range pkgs {
		for fn, f := range p.Files {
			if strings.HasSuffix(fn, "_test.go") {
				continue
			}
			ast.Inspect(f, func(n ast.Node) bool {
				ts, ok := n.(*ast.TypeSpec)
				if !ok || !strings.HasSuffix(ts.Name.Name, "Request") {
					return true
				}
				st, ok := ts.Type.(*ast.StructType)
				if !ok {
					return true
				}
				rt := reqType{action: strings.ToLower(strings.TrimSuffix(ts.Name.Name, "Request"))}
				for _, fl := range st.Fields.List {
					if fl.Tag == nil {
						continue
					}
					m := reJSONTag.FindStringSubmatch(fl.Tag.Value)
					if m == nil || m[1] == "-" {
						continue
					}
					var tb bytes.Buffer
					writeExpr(&tb, fl.Type)
					rt.members = append(rt.members, reqMember{m[1], tb.String()})
				}
				out = append(out, rt)
				return true
			})
		}
	}
	sort.Slice(out, func(i, j int) bool { return out[i].action < out[j].action })
	return out, nil
}

func writeExpr(b *bytes.Buffer, e ast.Expr) {
	switch x := e.(type) {
	case *ast.Ident:
		b.WriteString(x.Name)
	case *ast.StarExpr:
		b.WriteString("*")
		writeExpr(b, x.X)
	case *ast.SelectorExpr:
		writeExpr(b, x.X)
		b.WriteString(".")
		b.WriteString(x.Sel.Name)
	case *ast.ArrayType:
		b.WriteString("[]")
		writeExpr(b, x.Elt)
	default:
		b.WriteString(reflect.TypeOf(e).String())
	}
}

type shape struct {
	name string
	data []byte
}

// payloadShapes: the degenerate shapes of a payload, made of one example and its signed envelope.
func payloadShapes(doc, signed []byte) []shape {
	var inner any
	var head any
	envSchema := "https://gobl.org/draft-0/envelope"
	if top, ok := envelopeLike(signed); ok {
		inner, head = top["doc"], top["head"]
		envSchema, _ = top["$schema"].(string)
	}
	if top, ok := envelopeLike(doc); ok {
		inner = top["doc"]
	} else if json.Unmarshal(doc, &inner) != nil {
		inner = map[string]any{}
	}
	js := func(v any) []byte { b, _ := json.Marshal(v); return b }
	env := func(withDoc bool, d any) []byte {
		m := map[string]any{"$schema": envSchema, "head": head}
		if withDoc {
			m["doc"] = d
		}
		return js(m)
	}
	noSchema := map[string]any{}
	docSchema := ""
	if m, ok := inner.(map[string]any); ok {
		for k, v := range m {
			if k != "$schema" {
				noSchema[k] = v
			}
		}
		docSchema, _ = m["$schema"].(string)
	}
	return []shape{
		{"bare-document", js(inner)},
		{"envelope", env(true, inner)},
		{"signed-envelope", signed},
		{"envelope-without-doc", env(false, nil)},
		{"envelope-doc-null", env(true, nil)},
		{"envelope-doc-string", env(true, "x")},
		{"envelope-doc-list", env(true, []any{inner})},
		{"envelope-doc-empty-list", env(true, []any{})},
		{"envelope-doc-number", env(true, 7)},
		{"envelope-doc-bool", env(true, true)},
		{"envelope-doc-empty-object", env(true, map[string]any{})},
		{"envelope-doc-without-schema", env(true, noSchema)},
		{"envelope-doc-schema-only", env(true, map[string]any{"$schema": docSchema})},
		{"envelope-doc-schema-null", env(true, map[string]any{"$schema": nil})},
		{"envelope-schema-only", js(map[string]any{"$schema": envSchema})},
		{"envelope-head-null", js(map[string]any{"$schema": envSchema, "head": nil, "doc": inner})},
		{"nested-envelope", env(true, json.RawMessage(env(true, inner)))},
		{"document-without-schema", js(noSchema)},
		{"schema-only", js(map[string]any{"$schema": docSchema})},
		{"schema-not-a-string", js(map[string]any{"$schema": 7, "doc": inner})},
		{"empty-object", []byte(`{}`)},
		{"null", []byte(`null`)},
		{"list", []byte(`[]`)},
		{"list-of-document", js([]any{inner})},
		{"string", []byte(`"x"`)},
		{"number", []byte(`7`)},
		{"bool", []byte(`true`)},
		{"no-bytes", []byte{}},
		{"yaml-envelope-without-doc", []byte("$schema: " + envSchema + "\nhead: null\n")},
	}
}

var optionStrings = []string{"", "bill.Invoice", "note.Message", "org.Party", "no.such.type", "https://gobl.org/draft-0/envelope", "https://gobl.org/draft-0/bill/invoice", "bill/invoice", "ES"}

type optValue struct {
	label string
	v     any
}

// memberValues: the values of a member by its declared type.
func memberValues(m reqMember, shapes []shape, doc []byte) []optValue {
	switch m.typ {
	case "bool":
		return []optValue{{"true", true}, {"false", false}}
	case "string":
		var out []optValue
		for _, s := range optionStrings {
			out = append(out, optValue{fmt.Sprintf("%q", s), s})
		}
		return out
	case "[]byte":
		out := []optValue{{"null", nil}}
		for _, s := range shapes {
			out = append(out, optValue{s.name, s.data})
		}
		if m.name == "options" {
			out = append(out, optValue{"credit-note", []byte(`{"type":"credit-note","reason":"r"}`)})
		}
		return out
	case "*dsig.PrivateKey":
		return []optValue{{"null", nil}, {"key", json.RawMessage(harnessKeyJSON)}, {"key2", json.RawMessage(harnessKey2JSON)}, {"public-only", json.RawMessage(publicJSON(key))}, {"empty-object", json.RawMessage(`{}`)}}
	case "*dsig.PublicKey":
		return []optValue{{"null", nil}, {"public", json.RawMessage(publicJSON(key))}, {"public2", json.RawMessage(publicJSON(key2))}, {"private", json.RawMessage(harnessKeyJSON)}, {"empty-object", json.RawMessage(`{}`)}}
	}
	return []optValue{{"null", nil}}
}

type optReq struct {
	action string
	kind   string
	body   map[string]any // the request type's members
}

// optionRequests: for every request type with a `data` member, every shape as the data, with
// no other member / each member at each value / each pair of scalar members at each pair of values.
func optionRequests(types []reqType, shapes []shape, doc []byte) []optReq {
	var out []optReq
	for _, rt := range types {
		hasData := false
		for _, m := range rt.members {
			if m.name == "data" && m.typ == "[]byte" {
				hasData = true
			}
		}
		if !hasData {
			continue
		}
		var others []reqMember
		for _, m := range rt.members {
			if m.name != "data" {
				others = append(others, m)
			}
		}
		for _, sh := range shapes {
			out = append(out, optReq{rt.action, "data=" + sh.name, map[string]any{"data": sh.data}})
			for i, m := range others {
				vs := memberValues(m, shapes, doc)
				for _, v := range vs {
					out = append(out, optReq{rt.action, fmt.Sprintf("data=%s %s=%s", sh.name, m.name, v.label), map[string]any{"data": sh.data, m.name: v.v}})
				}
				if m.typ == "[]byte" {
					continue
				}
				for _, m2 := range others[i+1:] {
					if m2.typ == "[]byte" {
						continue
					}
					for _, v := range vs {
						for _, v2 := range memberValues(m2, shapes, doc) {
							out = append(out, optReq{rt.action, fmt.Sprintf("data=%s %s=%s %s=%s", sh.name, m.name, v.label, m2.name, v2.label),
								map[string]any{"data": sh.data, m.name: v.v, m2.name: v2.v}})
						}
					}
				}
			}
		}
	}
	return out
}

type cliFlag struct {
	name string
	typ  string // "" = boolean
}

var reFlagLine = regexp.MustCompile(`^\s+(?:-\w, )?--([\w-]+)(?: (\w+))?\s{2,}`)

// cliCommandFlags: the commands `gobl --help` lists and the flags `gobl <command> --help` lists.
func cliCommandFlags(goblBin, home string) map[string][]cliFlag {
	out := map[string][]cliFlag{}
	r := clibin.Run(goblBin, home, nil, 30*time.Second, "--help")
	in := false
	var cmds []string
	for _, ln := range strings.Split(r.Out+r.Err, "\n") {
		switch {
		case strings.HasPrefix(ln, "Available Commands:"):
			in = true
		case in && strings.TrimSpace(ln) == "":
			in = false
		case in:
			if f := strings.Fields(ln); len(f) > 0 {
				cmds = append(cmds, f[0])
			}
		}
	}
	for _, cmd := range cmds {
		switch cmd {
		case "help", "completion", "serve", "keygen", "version", "mcp":
			continue // no document on standard input / a server
		}
		h := clibin.Run(goblBin, home, nil, 30*time.Second, cmd, "--help")
		for _, ln := range strings.Split(h.Out+h.Err, "\n") {
			m := reFlagLine.FindStringSubmatch(ln)
			if m == nil {
				continue
			}
			switch m[1] {
			case "help", "force", "in-place":
				continue // not about the input: usage text, output files
			}
			out[cmd] = append(out[cmd], cliFlag{m[1], m[2]})
		}
		if _, ok := out[cmd]; !ok {
			out[cmd] = nil
		}
	}
	return out
}

func cliOptionJobs(flags map[string][]cliFlag, shapes []shape) []argJob {
	var out []argJob
	var cmds []string
	for k := range flags {
		cmds = append(cmds, k)
	}
	sort.Strings(cmds)
	byName := map[string][]byte{}
	for _, s := range shapes {
		byName[s.name] = s.data
	}
	for _, cmd := range cmds {
		for _, sh := range shapes {
			add := func(label []string, args []string) {
				out = append(out, argJob{tcase{Stream: "cli-args", Name: sh.name, Doc: string(sh.data), Via: "cli:" + strings.Join(label, " "), Kind: "option flags over " + sh.name}, args})
			}
			add([]string{cmd}, []string{cmd})
			for _, f := range flags[cmd] {
				fl := "--" + f.name
				switch f.typ {
				case "":
					add([]string{cmd, fl}, []string{cmd, fl})
				case "string":
					for _, s := range optionStrings[:5] {
						add([]string{cmd, fl, s}, []string{cmd, fl, s})
					}
					add([]string{cmd, fl, "$KEY"}, []string{cmd, fl, "$KEY"})
					add([]string{cmd, fl, "$PUB"}, []string{cmd, fl, "$PUB"})
					for _, fs := range []string{"empty-object", "envelope-without-doc", "envelope-doc-null", "bare-document", "null"} {
						add([]string{cmd, fl, "$FILE<" + fs + ">"}, []string{cmd, fl, "$FILE:" + string(byName[fs])})
					}
				case "stringToString":
					for _, s := range []string{"doc=null", "head=null", "doc.$schema=x", "$schema=x", "x"} {
						add([]string{cmd, fl, s}, []string{cmd, fl, s})
					}
				}
			}
		}
	}
	return out
}

// requestOptionFamily runs the three paths; post is externalExtra's judge of one bulk stream.
func requestOptionFamily(c *core.Ctx, goblBin, home string, srv func() *clibin.Server, post func(t tcase, complete, maxResp int) bool, doc, signed []byte) {
	t0 := time.Now()
	defer func() { c.Note("request-options family: %.1fs", time.Since(t0).Seconds()) }()
	types, err := requestTypes(c.Repo)
	if err != nil || len(types) == 0 {
		c.Note("request-options family: the request types of internal/cli could not be read (%v): family not run", err)
		c.Count("request-options.skipped:no-request-types", 1)
		return
	}
	for _, rt := range types {
		var ms []string
		for _, m := range rt.members {
			ms = append(ms, m.name+":"+m.typ)
		}
		c.Count("request-options.type:"+rt.action+"{"+strings.Join(ms, ",")+"}", 1)
	}
	shapes := payloadShapes(doc, signed)
	reqs := optionRequests(types, shapes, doc)
	c.Count("request-options.space", int64(len(reqs)))

	// bulk: every request between two pings
	restarts := 0
	for _, i := range sampleIdx(c, len(reqs), c.Pick(len(reqs), len(reqs))) {
		q := reqs[i]
		for _, indent := range []bool{false, true}[:1+i%2] {
			top := map[string]any{"action": q.action, "req_id": "o", "payload": q.body}
			if indent {
				top["indent"] = true
			}
			b, err := json.Marshal(top)
			if err != nil {
				continue
			}
			stream := pingReq("a") + "\n" + string(b) + "\n" + pingReq("c") + "\n"
			t := tcase{Stream: "bulk-request", Via: "bulk-stream", Name: q.action, Kind: fmt.Sprintf("%s: request options over payload shapes: %s indent=%v", q.action, q.kind, indent), Doc: stream}
			c.Count("request-options.bulk:"+q.action, 1)
			before := srv()
			if !post(t, 3, 3) {
				return
			}
			if srv() != before {
				restarts++
			}
		}
		if restarts >= 20 {
			c.Note("request-options family: the server had to be started again %d times; bulk part ended early", restarts)
			break
		}
	}

	// http: the routes named like an action
	routes := map[string]bool{}
	for _, rt := range types {
		code, _, err := httpPost(srv(), "/"+rt.action, []byte(`{}`))
		if err == nil && code != http.StatusNotFound && code != http.StatusMethodNotAllowed {
			routes[rt.action] = true
		}
	}
	for _, q := range reqs {
		if !routes[q.action] {
			continue
		}
		body, err := json.Marshal(q.body)
		if err != nil {
			continue
		}
		for _, query := range []string{"", "?indent=true"} {
			t := tcase{Stream: "http-request", Via: "http:/" + q.action + query, Name: q.action, Kind: "request options over payload shapes: " + q.kind, Doc: string(body)}
			c.Count("request-options.http:/"+q.action, 1)
			c.Eval("http|"+t.Via+"|"+t.Kind, true)
			if !judgeHTTP(c, srv(), t) {
				return
			}
		}
	}

	// command line
	flags := cliCommandFlags(goblBin, home)
	for cmd, fs := range flags {
		var ns []string
		for _, f := range fs {
			ns = append(ns, f.name+":"+f.typ)
		}
		sort.Strings(ns)
		c.Count("request-options.cli-flags:"+cmd+"{"+strings.Join(ns, ",")+"}", 1)
	}
	jobs := cliOptionJobs(flags, shapes)
	c.Count("request-options.cli-space", int64(len(jobs)))
	idx := sampleIdx(c, len(jobs), c.Pick(600, len(jobs)))
	runs := make([]cliRun, len(idx))
	var wg sync.WaitGroup
	sem := make(chan struct{}, 4)
	for k, i := range idx {
		wg.Add(1)
		sem <- struct{}{}
		go func(k int, j argJob) {
			defer wg.Done()
			defer func() { <-sem }()
			r := clibin.Run(goblBin, home, []byte(j.t.Doc), 30*time.Second, cliArgsAt(home, k, j.args)...)
			j.t.Args = j.args
			runs[k] = cliRun{j.t, r, nil}
		}(k, jobs[i])
	}
	wg.Wait()
	for _, r := range runs {
		c.Eval("cli-options|"+r.t.Via+"|"+r.t.Name, true)
	}
	judgeCLI(c, runs)
}

// cliArgsAt is cliArgs with file names of its own for job k (jobs run side by side).
func cliArgsAt(home string, k int, args []string) []string {
	out := cliArgs(home, args)
	for i, a := range args {
		if strings.HasPrefix(a, "$FILE:") {
			f := filepath.Join(home, fmt.Sprintf("opt%d-arg%d.file", k, i))
			_ = os.WriteFile(f, []byte(strings.TrimPrefix(a, "$FILE:")), 0o644)
			out[i] = f
		}
	}
	return out
}

func httpPost(srv *clibin.Server, route string, body []byte) (int, []byte, error) {
	req, err := http.NewRequest("POST", srv.URL+route, bytes.NewReader(body))
	if err != nil {
		return 0, nil, err
	}
	req.Header.Set("Content-Type", "application/json")
	req.Close = true
	cl := &http.Client{Timeout: bulkDeadline, Transport: &http.Transport{DisableKeepAlives: true}}
	resp, err := cl.Do(req)
	if err != nil {
		return 0, nil, err
	}
	defer resp.Body.Close() //nolint:errcheck
	raw, err := io.ReadAll(io.LimitReader(resp.Body, bulkReadLimit))
	return resp.StatusCode, raw, err
}

// judgeHTTP posts one request to a route; false = the server is gone and could not be judged further.
func judgeHTTP(c *core.Ctx, srv *clibin.Server, t tcase) bool {
	route := strings.TrimPrefix(t.Via, "http:")
	before := srv.Log.Len()
	code, raw, err := httpPost(srv, route, []byte(t.Doc))
	if err != nil {
		time.Sleep(30 * time.Millisecond)
		logTxt := srv.Log.String()
		if before <= len(logTxt) {
			logTxt = logTxt[before:]
		}
		if strings.Contains(err.Error(), "Client.Timeout") || strings.Contains(err.Error(), "deadline") {
			failX(c, "c14.http:hang", fmt.Sprintf("POST %s: no answer within %s (%s)", route, bulkDeadline, t.Kind), t)
			return true
		}
		if strings.Contains(logTxt, "goroutine ") || strings.Contains(logTxt, "panic") {
			site := core.PanicSite([]byte(logTxt))
			if site == "" {
				site = "(no gobl frame)"
			}
			failX(c, classifier("http-request", site), fmt.Sprintf("POST %s: the connection was closed without an answer (%v); the handler panicked at %s (%s): %s", route, err, site, t.Kind, tail(logTxt, 400)), t)
			_, _, e2 := httpPost(srv, "/ping-no-such-route", nil)
			return e2 == nil
		}
		failX(c, "c14.http:no-answer", fmt.Sprintf("POST %s: no answer (%v) (%s)", route, err, t.Kind), t)
		return false
	}
	c.Count(fmt.Sprintf("via.http:%s.status=%d", strings.SplitN(route, "?", 2)[0], code), 1)
	if len(bytes.TrimSpace(raw)) > 0 && !json.Valid(raw) {
		failX(c, "c14.http:not-json", fmt.Sprintf("POST %s: status %d, the answer is not JSON: %.200q (%s)", route, code, raw, t.Kind), t)
	}
	return true
}

// replayHTTP posts a recorded HTTP request again.
func replayHTTP(c *core.Ctx, t tcase, goblBin string) {
	home, err := cliHome(goblBin)
	if err != nil {
		c.TieBroken("cli", err.Error(), nil)
		return
	}
	defer os.RemoveAll(home) //nolint:errcheck
	srv, err := clibin.Serve(goblBin, home, 4)
	if err != nil {
		c.TieBroken("http", err.Error(), nil)
		return
	}
	defer srv.Stop()
	c.Eval("replay-http", true)
	judgeHTTP(c, srv, t)
}
