package c14

import (
	"bufio"
	"bytes"
	"encoding/json"
	"fmt"
	"os"
	"os/exec"
	"path/filepath"
	"strings"
	"sync"
	"time"
)

// Cases whose code starts goroutines of its own (cli.Bulk answers every
// request in one) cannot be protected by recover: a panic there kills the
// process.  They are run in batches by child processes of this program
// (C14_BATCH=<cases file>, C14_BATCH_OUT=<results file>): when a child dies,
// the case it was on is the culprit - reported like any other panic, by
// (stage, innermost gobl function of the dying goroutine) - and a new child
// goes on with the rest, so one such defect does not end the search.

type isoPanic struct {
	Stage, Site, Msg string
}

type isoIssue struct {
	Stage, What string
}

type isoLine struct {
	Idx     int        `json:"idx"`
	Start   bool       `json:"start,omitempty"` // written before the case is run
	Hung    bool       `json:"hung,omitempty"`
	Panics  []isoPanic `json:"panics,omitempty"`
	Issues  []isoIssue `json:"issues,omitempty"`
	Reached string     `json:"reached,omitempty"`
}

// runBatch is the child side: the cases of the file, one after the other.
func runBatch(file, out string) int {
	b, err := os.ReadFile(file)
	if err != nil {
		fmt.Fprintln(os.Stderr, "c14 batch:", err)
		return 2
	}
	var cases []tcase
	if err := json.Unmarshal(b, &cases); err != nil {
		fmt.Fprintln(os.Stderr, "c14 batch:", err)
		return 2
	}
	f, err := os.OpenFile(out, os.O_CREATE|os.O_WRONLY|os.O_APPEND, 0o644)
	if err != nil {
		fmt.Fprintln(os.Stderr, "c14 batch:", err)
		return 2
	}
	defer f.Close() //nolint:errcheck
	write := func(l isoLine) {
		lb, _ := json.Marshal(l)
		_, _ = f.Write(append(lb, '\n'))
	}
	for i, t := range cases {
		write(isoLine{Idx: i, Start: true})
		done := make(chan isoLine, 1)
		go func() {
			ps, is, reached := runCase(t)
			l := isoLine{Idx: i, Reached: reached}
			for _, p := range ps {
				l.Panics = append(l.Panics, isoPanic{p.stage, p.site, p.msg})
			}
			for _, x := range is {
				l.Issues = append(l.Issues, isoIssue{x.stage, x.what})
			}
			done <- l
		}()
		select {
		case l := <-done:
			write(l)
		case <-time.After(caseTimeout):
			write(isoLine{Idx: i, Hung: true})
			return 3 // the stuck goroutine cannot be stopped: the parent starts a new child
		}
	}
	return 0
}

// runIsolated is the parent side.
func runIsolated(cases []tcase, each func(result)) {
	if len(cases) == 0 {
		return
	}
	self, err := os.Executable()
	if err != nil {
		return
	}
	dir, err := os.MkdirTemp("", "c14-batch-")
	if err != nil {
		return
	}
	defer os.RemoveAll(dir) //nolint:errcheck
	for i := range cases {
		cases[i].materialise()
	}
	const nw = 16
	var mu sync.Mutex
	var wg sync.WaitGroup
	for w := 0; w < nw; w++ {
		var mine []tcase
		for i := w; i < len(cases); i += nw {
			mine = append(mine, cases[i])
		}
		if len(mine) == 0 {
			continue
		}
		wg.Add(1)
		go func(w int, rest []tcase) {
			defer wg.Done()
			for round := 0; len(rest) > 0 && round < 200; round++ {
				in := filepath.Join(dir, fmt.Sprintf("w%02d-%d.json", w, round))
				out := filepath.Join(dir, fmt.Sprintf("w%02d-%d.out", w, round))
				b, _ := json.Marshal(rest)
				if os.WriteFile(in, b, 0o644) != nil {
					return
				}
				cmd := exec.Command(self, os.Args[1:]...)
				cmd.Env = append(os.Environ(), "C14_CHILD=1", "C14_BATCH="+in, "C14_BATCH_OUT="+out)
				var se bytes.Buffer
				cmd.Stderr = &tailWriter{buf: &se, max: 1 << 18}
				runErr := cmd.Run()
				started, finished := -1, -1
				if fo, err := os.Open(out); err == nil {
					sc := bufio.NewScanner(fo)
					sc.Buffer(make([]byte, 1<<20), 1<<26)
					for sc.Scan() {
						var l isoLine
						if json.Unmarshal(sc.Bytes(), &l) != nil || l.Idx < 0 || l.Idx >= len(rest) {
							continue
						}
						if l.Start {
							started = l.Idx
							continue
						}
						finished = l.Idx
						r := result{t: rest[l.Idx], reached: l.Reached, hung: l.Hung}
						for _, p := range l.Panics {
							r.panics = append(r.panics, panicRec{p.Stage, p.Site, p.Msg})
						}
						for _, x := range l.Issues {
							r.issues = append(r.issues, errIssue{x.Stage, x.What})
						}
						mu.Lock()
						each(r)
						mu.Unlock()
					}
					_ = fo.Close()
				}
				if runErr == nil {
					return
				}
				if started > finished {
					// the child died on this case
					site := fatalSite(se.String())
					first := strings.SplitN(strings.TrimSpace(se.String()), "\n", 3)
					msg := "the process is killed (a panic in a goroutine the library started cannot be recovered): " + strings.Join(first[:min(2, len(first))], " | ")
					mu.Lock()
					each(result{t: rest[started], panics: []panicRec{{rest[started].Stream, site, msg}}, reached: "process-killed"})
					mu.Unlock()
					finished = started
				}
				if finished < 0 {
					return // the child did not even start a case: give up on this share
				}
				rest = rest[finished+1:]
			}
		}(w, mine)
	}
	wg.Wait()
}
