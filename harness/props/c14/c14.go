// Package c14 searches for inputs on which the library panics, hangs or
// returns an unstructured error: arbitrary bytes, arbitrary JSON, and
// structure-aware single mutations of every example document (complete
// enumeration in the thorough tier, a sample in the quick tier), through
// parse → validate → verify → calculate → validate → digest → marshal → sign
// → verify → correct → replicate → remove-included-taxes → invert in-process
// (recover + per-case timeout), and a sample through the gobl CLI and the
// bulk endpoint, where a panic kills the process.
//
// A panic is identified by its CALL SITE = (entry stage, innermost function
// of the gobl module on the panicking stack), never by line number.  Sites
// listed in known_findings.json (classifier "c14.site:<stage>:<pkg.func>")
// are printed as KNOWN-FINDING; a panic at any other site is a VIOLATION.
//
// Every error object the gobl binary prints (exit 1) is judged by
// Spec/C14.lean through the Lean driver; usage errors and failures to encode
// the result are also compared with the model of cli.WrapError
// (Panics.cliPresent).  See judgeCLI.
package c14

import (
	"bytes"
	"encoding/json"
	"fmt"
	"io"
	"math/rand"
	"os"
	"os/exec"
	"path/filepath"
	"regexp"
	"sort"
	"strings"
	"sync"
	"sync/atomic"
	"time"

	"github.com/invopop/gobl"
	"github.com/invopop/gobl/bill"
	"github.com/invopop/gobl/head"
	"github.com/invopop/gobl/schema"
	"github.com/invopop/yaml"

	"verifharness/internal/clibin"
	"verifharness/internal/conc"
	"verifharness/internal/core"
)

type tcase struct {
	Stream string `json:"stream"` // bytes | json | mutation | yaml-lines
	Name   string `json:"name,omitempty"`
	Path   string `json:"path,omitempty"`
	Kind   string `json:"kind,omitempty"`
	Doc    string `json:"doc"`           // the input text
	Via    string `json:"via,omitempty"` // "" (in-process) | cli:<cmd> | bulk:<action>
	Stage  string `json:"stage,omitempty"`
	// command line of a CLI case ($KEY / $PUB stand for the key files of the run) and, for a
	// usage case, what the error is expected to be (plain | structured) and to mention
	Args    []string `json:"args,omitempty"`
	Expect  string   `json:"expect,omitempty"`
	Mention string   `json:"mention,omitempty"`
	// "" = gobl.Parse; "unmarshal" = json.Unmarshal into a new(gobl.Envelope) (families.go)
	Entry string `json:"entry,omitempty"`

	gen func() []byte // lazy input (the text is produced in the worker and kept only when reported)
}

// materialise fills Doc from the lazy generator.
func (t *tcase) materialise() {
	if t.Doc == "" && t.gen != nil {
		t.Doc = string(t.gen())
		t.gen = nil
	}
}

// panicRec is one recovered panic.
type panicRec struct {
	stage, site, msg string
}

var key = mustKey(harnessKeyJSON) // a fixed test key: signed inputs verify again on replay (keys.go)

const caseTimeout = 20 * time.Second

// errIssue is a returned error that is not structured as documented.
type errIssue struct {
	stage, what string
}

var documentedKeys map[string]bool

func loadDocumentedKeys(repo string) error {
	b, err := os.ReadFile(filepath.Join(repo, "errors.go"))
	if err != nil {
		return err
	}
	documentedKeys = map[string]bool{}
	for _, m := range regexp.MustCompile(`NewError\("([^"]+)"\)`).FindAllStringSubmatch(string(b), -1) {
		documentedKeys[m[1]] = true
	}
	if len(documentedKeys) < 5 {
		return fmt.Errorf("only %d documented error keys found in errors.go", len(documentedKeys))
	}
	return nil
}

// checkErr: errors surfaced through the envelope API carry one of the
// documented keys and serialise to JSON.
func checkErr(stage string, err error, issues *[]errIssue) {
	if err == nil {
		return
	}
	// an error is there to be printed: rendering it must not panic
	if p := core.Protect(func() { _ = err.Error() }); p != "" {
		*issues = append(*issues, errIssue{stage, "Error() of the returned error panicked"})
		return
	}
	ge, ok := err.(*gobl.Error)
	if !ok {
		*issues = append(*issues, errIssue{stage, fmt.Sprintf("plain %T without a key", err)})
		return
	}
	if !documentedKeys[ge.Key().String()] {
		*issues = append(*issues, errIssue{stage, "undocumented key " + ge.Key().String()})
	}
	var b []byte
	var merr error
	if p := core.Protect(func() { b, merr = json.Marshal(err) }); p != "" {
		*issues = append(*issues, errIssue{stage, "json.Marshal(error) panicked"})
		return
	}
	if merr != nil {
		*issues = append(*issues, errIssue{stage, "json.Marshal(error) failed"})
		return
	}
	var back struct {
		Key string `json:"key"`
	}
	if json.Unmarshal(b, &back) != nil || back.Key != ge.Key().String() {
		*issues = append(*issues, errIssue{stage, "error JSON does not carry the key"})
	}
}

// selfSchemaID is the registered schema ID of schema.Object itself.  A
// document that names it as its own $schema makes Object.UnmarshalJSON call
// itself on the same bytes for ever: a stack overflow, which is a FATAL error
// (recover cannot catch it, the process dies).  Such inputs are therefore not
// run in-process; they are sent through the CLI, where the abort is observed
// (listed finding c14.fatal:schema.(*Object).UnmarshalJSON).
var selfSchemaID = schema.Lookup(&schema.Object{}).String()

func namesSelfSchema(data []byte) bool {
	if os.Getenv("C14_NOFILTER") != "" { // testing hook for the supervisor
		return false
	}
	return selfSchemaID != "" && bytes.Contains(data, []byte(`"`+selfSchemaID+`"`))
}

const fatalSelfSchema = "c14.fatal:schema.(*Object).UnmarshalJSON"

// pipeline runs every stage on one input; every stage is protected on its own.
func pipeline(data []byte) (panics []panicRec, issues []errIssue, reached string) {
	return pipelineEntry(data, "")
}

// pipelineEntry: entry "" reads the input with gobl.Parse, "unmarshal" with
// json.Unmarshal into a new(gobl.Envelope) (envelope inputs only).
func pipelineEntry(data []byte, entry string) (panics []panicRec, issues []errIssue, reached string) {
	return pipelineOpts(data, entry, false)
}

// pipelineOpts: light leaves out the stages a leaf value of the document does not reach (digest,
// sign, verify, the second correction).
func pipelineOpts(data []byte, entry string, light bool) (panics []panicRec, issues []errIssue, reached string) {
	run := func(stage string, f func() error) {
		var err error
		site, msg, _ := core.ProtectSite(func() { err = f() })
		if site != "" {
			panics = append(panics, panicRec{stage, site, msg})
			return
		}
		checkErr(stage, err, &issues)
	}
	var obj any
	if namesSelfSchema(data) {
		return nil, nil, "skipped-fatal-self-schema"
	}
	reached = "parse-error"
	run("parse", func() error {
		var err error
		if entry == "unmarshal" {
			env := new(gobl.Envelope)
			if err = json.Unmarshal(data, env); err != nil {
				return nil // an ordinary encoding/json error
			}
			obj = env
			return nil
		}
		obj, err = gobl.Parse(data)
		return err
	})
	if obj == nil {
		return
	}
	reached = "parsed"
	var env *gobl.Envelope
	switch x := obj.(type) {
	case *gobl.Envelope:
		env = x
		// a parsed envelope used as it is
		run("validate", func() error { return env.Validate() })
		run("verify", func() error { return env.Verify(key.Public()) })
		calcOK := false
		run("calculate", func() error {
			err := env.Calculate()
			calcOK = err == nil
			return err
		})
		if calcOK {
			reached = "calculated"
		}
	default:
		run("calculate", func() error {
			var err error
			env, err = gobl.Envelop(obj)
			return err
		})
		if env == nil {
			return
		}
		reached = "calculated"
	}
	valid := false
	run("validate", func() error {
		err := env.Validate()
		valid = err == nil
		return err
	})
	if valid {
		reached = "valid"
	}
	if !light {
		run("digest", func() error { _, err := env.Digest(); return err })
	}
	run("marshal", func() error {
		_, err := json.Marshal(env)
		if err != nil {
			return nil // a marshal error is an ordinary encoding/json error
		}
		return nil
	})
	if !light {
		run("sign", func() error { return env.Sign(key) })
		run("verify", func() error { return env.Verify(key.Public()) })
		run("verify", func() error { return env.Verify() })
	}
	run("correct", func() error {
		_, err := env.Correct(bill.Credit, bill.WithReason("r"))
		return err
	})
	if !light {
		run("correct", func() error {
			_, err := env.Correct(bill.WithData([]byte(`{"type":"corrective","stamps":[null],"ext":{"x":""}}`)))
			return err
		})
	}
	run("replicate", func() error { _, err := env.Replicate(); return err })
	if inv, ok := env.Extract().(*bill.Invoice); ok && inv != nil {
		// bill-level operations return plain errors by design (not the envelope API)
		var dummy []errIssue
		runPlain := func(stage string, f func() error) {
			site, msg, _ := core.ProtectSite(func() { _ = f() })
			if site != "" {
				panics = append(panics, panicRec{stage, site, msg})
			}
			_ = dummy
		}
		runPlain("remove-included-taxes", func() error { return inv.RemoveIncludedTaxes() })
		runPlain("invert", func() error { return inv.Invert() })
		runPlain("calculate", func() error { return inv.Calculate() })
	}
	asParsed(data, entry, &panics)
	return
}

// asParsed: the same operations on a second, fresh parse of the input that has NOT been calculated
// first — a parsed envelope or document is "subsequently calculated, validated, digested, signed,
// verified, corrected or replicated" in any order, so whatever the text carries (stored totals with
// nothing behind them, a header without its document, figures that no calculation would produce) is
// what each operation meets.  Only panics are recorded here (the error keys are judged on the
// calculated path above).
func asParsed(data []byte, entry string, panics *[]panicRec) {
	parse := func() *gobl.Envelope {
		var env *gobl.Envelope
		_, _, _ = core.ProtectSite(func() {
			if entry == "unmarshal" {
				e := new(gobl.Envelope)
				if json.Unmarshal(data, e) == nil {
					env = e
				}
				return
			}
			obj, err := gobl.Parse(data)
			if err != nil || obj == nil {
				return
			}
			if e, ok := obj.(*gobl.Envelope); ok {
				env = e
				return
			}
			// a bare document: hold it in an envelope without calculating it
			if so, err := schema.NewObject(obj); err == nil {
				env = &gobl.Envelope{Head: head.NewHeader(), Document: so}
			}
		})
		return env
	}
	ops := []struct {
		stage string
		f     func(env *gobl.Envelope)
	}{
		{"as-parsed:invert", func(env *gobl.Envelope) {
			if inv, ok := env.Extract().(*bill.Invoice); ok && inv != nil {
				_ = inv.Invert()
			}
		}},
		{"as-parsed:remove-included-taxes", func(env *gobl.Envelope) {
			if inv, ok := env.Extract().(*bill.Invoice); ok && inv != nil {
				_ = inv.RemoveIncludedTaxes()
			}
		}},
		{"as-parsed:correct", func(env *gobl.Envelope) { _, _ = env.Correct(bill.Credit, bill.WithReason("r")) }},
		{"as-parsed:replicate", func(env *gobl.Envelope) { _, _ = env.Replicate() }},
		{"as-parsed:sign-verify", func(env *gobl.Envelope) { _ = env.Sign(key); _ = env.Verify(key.Public()); _ = env.Verify() }},
		{"as-parsed:digest-marshal", func(env *gobl.Envelope) { _, _ = env.Digest(); _, _ = json.Marshal(env) }},
		{"as-parsed:convert", func(env *gobl.Envelope) {
			if inv, ok := env.Extract().(*bill.Invoice); ok && inv != nil {
				_, _ = inv.ConvertInto("USD")
				_, _ = inv.ConvertInto("EUR")
			}
		}},
	}
	for _, op := range ops {
		env := parse()
		if env == nil || env.Document == nil {
			return
		}
		site, msg, _ := core.ProtectSite(func() { op.f(env) })
		if site != "" {
			*panics = append(*panics, panicRec{op.stage, site, msg})
		}
	}
}

/* ---------- generators ---------- */

func randBytes(r *rand.Rand) []byte {
	n := r.Intn(200)
	b := make([]byte, n)
	switch r.Intn(4) {
	case 0:
		r.Read(b)
	case 1:
		const cs = `{}[]":,0123456789.-+eE tfnulasr\$/` + "\n"
		for i := range b {
			b[i] = cs[r.Intn(len(cs))]
		}
	case 2:
		// a JSON prefix
		s := `{"$schema":"https://gobl.org/draft-0/envelope","head":{"uuid":"018a0000-0000-7000-8000-000000000000","dig":{"alg":"sha256","val":"00"}},"doc":{"$schema":"https://gobl.org/draft-0/bill/invoice","lines":[{"quantity":"1","item":{"name":"x","price":"1.00"}}]},"sigs":[""]}`
		b = []byte(s[:r.Intn(len(s)+1)])
	default:
		for i := range b {
			b[i] = byte(0x20 + r.Intn(0x5f))
		}
	}
	return b
}

func randJSONValue(r *rand.Rand, depth int) any {
	k := r.Intn(8)
	if depth <= 0 && k >= 6 {
		k = r.Intn(6)
	}
	switch k {
	case 0:
		return nil
	case 1:
		return r.Intn(2) == 0
	case 2:
		return json.Number([]string{"0", "-1", "1e400", "12.50", "99999999999999999999", "-0.0"}[r.Intn(6)])
	case 3:
		return []string{"", "x", "10.00", "20%", "EUR", "ES", "2024-02-30", "standard", "018a0000-0000-7000-8000-000000000000", "\u0000", "☃"}[r.Intn(11)]
	case 4, 5:
		return []string{"1", "1.5", "abc"}[r.Intn(3)]
	case 6:
		n := r.Intn(4)
		a := make([]any, n)
		for i := range a {
			a[i] = randJSONValue(r, depth-1)
		}
		return a
	default:
		return randObject(r, depth-1, "")
	}
}

var memberNames = []string{"$schema", "$regime", "$addons", "$tags", "uuid", "type", "code", "series", "issue_date", "currency", "supplier", "customer", "lines", "quantity", "item", "name", "price", "taxes", "cat", "rate", "percent", "discounts", "charges", "payment", "advances", "terms", "due_dates", "amount", "totals", "tax_id", "country", "head", "doc", "sigs", "dig", "alg", "val", "stamps", "prv", "preceding", "ext", "notes", "key", "text", "i", "sum", "ordering", "delivery", "identities", "exchange_rates", "from", "to", "breakdown", "tax", "prices_include", "rounding", "meta"}

func randObject(r *rand.Rand, depth int, schemaID string) map[string]any {
	m := map[string]any{}
	if schemaID != "" {
		m["$schema"] = schemaID
	}
	n := r.Intn(7)
	for i := 0; i < n; i++ {
		m[memberNames[r.Intn(len(memberNames))]] = randJSONValue(r, depth)
	}
	return m
}

func randJSONDoc(r *rand.Rand, ids []string) []byte {
	id := ids[r.Intn(len(ids))]
	var v any
	switch r.Intn(3) {
	case 0:
		v = randObject(r, 4, id)
	case 1:
		v = map[string]any{"$schema": "https://gobl.org/draft-0/envelope", "head": randJSONValue(r, 2), "doc": randObject(r, 4, id), "sigs": randJSONValue(r, 1)}
	default:
		v = randJSONValue(r, 4)
	}
	b, _ := json.Marshal(v)
	return b
}

type example struct {
	name string
	data []byte
	yaml []byte // original YAML text when the example is YAML
}

func loadExamples(repo string) ([]example, error) {
	inputs, outputs, err := conc.LoadExamples(repo)
	if err != nil {
		return nil, err
	}
	var out []example
	for _, d := range append(outputs, inputs...) {
		ex := example{name: d.Name, data: d.Data}
		if strings.HasSuffix(d.Name, ".yaml") {
			if b, err := os.ReadFile(filepath.Join(repo, "examples", d.Name)); err == nil {
				ex.yaml = b
			}
		}
		out = append(out, ex)
	}
	out = append(out, publishedDefinitions(repo)...)
	return out, nil
}

// publishedDefinitions: the definition files GOBL publishes under data/ are GOBL documents too
// (tax/regime-def, tax/addon-def, cbc/catalogue-def ...: registered schemas that the parser, the
// validator and the envelope accept like any other payload).  The smaller ones join the examples
// as bases of the mutation space, so that the Validate methods of the definition types see
// documents with members deleted, nulled, retyped and duplicated as well.
func publishedDefinitions(repo string) []example {
	var out []example
	for _, dir := range []struct {
		name string
		max  int64
		n    int
	}{{"regimes", 6000, 16}, {"addons", 2500, 4}, {"catalogues", 1500, 2}} {
		root := filepath.Join(repo, "data", dir.name)
		ents, err := os.ReadDir(root)
		if err != nil {
			continue
		}
		k := 0
		for _, e := range ents { // ReadDir sorts by name
			info, err := e.Info()
			if err != nil || e.IsDir() || filepath.Ext(e.Name()) != ".json" || info.Size() > dir.max || k >= dir.n {
				continue
			}
			b, err := os.ReadFile(filepath.Join(root, e.Name()))
			if err != nil || !json.Valid(b) {
				continue
			}
			var buf bytes.Buffer
			if json.Compact(&buf, b) != nil {
				continue
			}
			out = append(out, example{name: "data/" + dir.name + "/" + e.Name(), data: buf.Bytes()})
			k++
		}
	}
	return out
}

type mutSpec struct {
	ex   int
	p    path
	kind string
}

// enumerate lists the complete single-mutation space of the examples.
func enumerate(exs []example) []mutSpec {
	var out []mutSpec
	for i, ex := range exs {
		root, err := parseAny(ex.data)
		if err != nil {
			continue
		}
		var ps []path
		paths(root, nil, &ps)
		for _, p := range ps {
			for _, k := range kindsFor(p, get(root, p)) {
				out = append(out, mutSpec{i, p, k})
			}
		}
	}
	return out
}

/* ---------- the run ---------- */

type result struct {
	t       tcase
	panics  []panicRec
	issues  []errIssue
	reached string
	hung    bool
}

// runAll executes cases on a pool of workers with hang detection.
func runAll(cases []tcase, each func(result)) {
	type slot struct {
		start atomic.Int64
		idx   atomic.Int64
	}
	nw := 16
	slots := make([]*slot, nw)
	next := make(chan int, 256)
	var mu sync.Mutex
	var wg sync.WaitGroup
	hungIdx := map[int]bool{}
	worker := func(w int, s *slot) {
		defer wg.Done()
		for i := range next {
			s.idx.Store(int64(i))
			t := cases[i]
			t.materialise()
			if t.Doc == "" && t.Stream != "bytes" && t.Stream != "bulk-inproc" && t.Stream != "cli-inproc" {
				continue // mutation not applicable
			}
			s.start.Store(time.Now().UnixNano())
			recordInflight(w, t)
			p, is, reached := runCase(t)
			s.start.Store(0)
			mu.Lock()
			if !hungIdx[i] {
				each(result{t, p, is, reached, false})
			}
			mu.Unlock()
		}
	}
	for w := 0; w < nw; w++ {
		slots[w] = &slot{}
		wg.Add(1)
		go worker(w, slots[w])
	}
	stop := make(chan struct{})
	go func() {
		for {
			select {
			case <-stop:
				return
			case <-time.After(500 * time.Millisecond):
			}
			for w, s := range slots {
				st := s.start.Load()
				if st != 0 && time.Since(time.Unix(0, st)) > caseTimeout {
					i := int(s.idx.Load())
					mu.Lock()
					if !hungIdx[i] {
						hungIdx[i] = true
						ht := cases[i]
						ht.materialise()
						each(result{t: ht, hung: true})
						// the stuck goroutine cannot be killed: replace the worker
						slots[w] = &slot{}
						wg.Add(1)
						go worker(w, slots[w])
					}
					mu.Unlock()
				}
			}
		}
	}()
	for i := range cases {
		next <- i
	}
	close(next)
	done := make(chan struct{})
	go func() { wg.Wait(); close(done) }()
	select {
	case <-done:
	case <-time.After(caseTimeout + 10*time.Minute):
	}
	close(stop)
}

func classifier(stage, site string) string { return "c14.site:" + stage + ":" + site }

/* ---------- supervision: a FATAL runtime error (stack overflow, out of
   memory, concurrent map write) cannot be recovered; the work is therefore
   done in a child process that notes the input each worker is on, and the
   parent turns a dead child into a violation with the culprit as replay ---- */

var inflightDir = os.Getenv("C14_INFLIGHT")

func recordInflight(w int, t tcase) {
	if inflightDir == "" {
		return
	}
	b, _ := json.Marshal(t)
	_ = os.WriteFile(filepath.Join(inflightDir, fmt.Sprintf("w%02d.json", w)), b, 0o644)
}

// fatalSite: first gobl function on the stack of the goroutine that died.
func fatalSite(stderr string) string {
	i := strings.Index(stderr, "\ngoroutine ")
	if i < 0 {
		return "(no gobl frame)"
	}
	for _, l := range strings.Split(stderr[i:], "\n") {
		if strings.HasPrefix(l, "github.com/invopop/gobl/") {
			fn := strings.TrimPrefix(l, "github.com/invopop/gobl/")
			if j := strings.LastIndex(fn, "("); j > 0 {
				fn = fn[:j]
			}
			return fn
		}
	}
	return "(no gobl frame)"
}

// supervise runs this very program again as a child; ok=false means the
// caller should do the work itself (we are the child, or supervision is off).
func supervise(c *core.Ctx) (code int, ok bool) {
	if os.Getenv("C14_CHILD") != "" || c.ReplayFile != "" {
		return 0, false
	}
	if one := os.Getenv("C14_ONE"); one != "" {
		return 0, false
	}
	dir, err := os.MkdirTemp("", "c14-inflight-")
	if err != nil {
		return 0, false
	}
	defer os.RemoveAll(dir) //nolint:errcheck
	self, err := os.Executable()
	if err != nil {
		return 0, false
	}
	cmd := exec.Command(self, os.Args[1:]...)
	cmd.Env = append(os.Environ(), "C14_CHILD=1", "C14_INFLIGHT="+dir)
	cmd.Stdout = os.Stdout
	var se bytes.Buffer
	cmd.Stderr = io.MultiWriter(os.Stderr, &tailWriter{buf: &se, max: 1 << 20})
	err = cmd.Run()
	if err == nil {
		return 0, true
	}
	if ee, isExit := err.(*exec.ExitError); isExit && ee.ExitCode() == 1 && !strings.Contains(se.String(), "fatal error:") {
		return 1, true
	}
	// the child died: find the culprit among the in-flight inputs
	files, _ := filepath.Glob(filepath.Join(dir, "w*.json"))
	sort.Strings(files)
	reported := false
	for _, f := range files {
		one := exec.Command(self, os.Args[1:]...)
		one.Env = append(os.Environ(), "C14_CHILD=1", "C14_ONE="+f)
		var oe bytes.Buffer
		one.Stderr = &oe
		if e := one.Run(); e == nil {
			continue
		}
		var t tcase
		b, _ := os.ReadFile(f)
		_ = json.Unmarshal(b, &t)
		site := fatalSite(oe.String())
		first := strings.SplitN(strings.TrimSpace(oe.String()), "\n", 4)
		c.Fail("c14.fatal:"+site, fmt.Sprintf("the process is killed (unrecoverable) at %s: %s (input: %s %s %s)", site, strings.Join(first[:min(3, len(first))], " | "), t.Name, t.Path, t.Kind), t)
		reported = true
	}
	if !reported {
		c.TieBroken("c14/child", "the worker process died and none of the in-flight inputs reproduces it alone: "+tail(se.String(), 1500), nil)
	}
	return c.Finish("supervisor: worker process died", nil), true
}

type tailWriter struct {
	buf *bytes.Buffer
	max int
}

func (w *tailWriter) Write(p []byte) (int, error) {
	w.buf.Write(p)
	if w.buf.Len() > 2*w.max {
		b := w.buf.Bytes()
		w.buf = bytes.NewBuffer(append([]byte{}, b[len(b)-w.max:]...))
	}
	return len(p), nil
}

// Run is the harness entry.
func Run(c *core.Ctx) int {
	if err := loadDocumentedKeys(c.Repo); err != nil {
		fmt.Fprintln(os.Stderr, "c14:", err)
		return 2
	}
	if bf := os.Getenv("C14_BATCH"); bf != "" {
		return runBatch(bf, os.Getenv("C14_BATCH_OUT")) // a batch of cases that recover cannot protect (isolate.go)
	}
	loadLegacyMembers(c.Repo)
	c.Note("legacy members found in UnmarshalJSON methods: %v", LegacyMembers)
	goblBin, err := clibin.Build(c)
	if err != nil {
		fmt.Fprintln(os.Stderr, "c14:", err)
		return 2
	}
	if one := os.Getenv("C14_ONE"); one != "" {
		// isolated run of one in-flight input (see supervise)
		var t tcase
		b, _ := os.ReadFile(one)
		_ = json.Unmarshal(b, &t)
		runCase(t)
		return 0
	}
	if code, ok := supervise(c); ok {
		return code
	}
	t0 := time.Now()
	var rc tcase
	if c.ReplayCase(&rc) {
		replay(c, rc, goblBin)
		return c.Finish("replay", nil)
	}
	exs, err := loadExamples(c.Repo)
	if err != nil || len(exs) == 0 {
		fmt.Fprintln(os.Stderr, "c14: examples:", err)
		return 2
	}
	var ids []string
	for _, id := range schema.List() {
		ids = append(ids, id.String())
	}
	sort.Strings(ids)

	var cases []tcase
	// (a) arbitrary bytes, (b) arbitrary JSON
	for i := 0; i < c.Pick(4000, 60000); i++ {
		cases = append(cases, tcase{Stream: "bytes", Doc: string(randBytes(c.Rng))})
	}
	for i := 0; i < c.Pick(6000, 100000); i++ {
		cases = append(cases, tcase{Stream: "json", Doc: string(randJSONDoc(c.Rng, ids))})
	}
	// the unchanged examples themselves
	for _, ex := range exs {
		cases = append(cases, tcase{Stream: "example", Name: ex.name, Doc: string(ex.data)})
	}
	// (c) structure-aware single mutations: complete in the thorough tier
	space := enumerate(exs)
	c.Count("mutation-space.size", int64(len(space)))
	chosen := space
	exhaustive := c.Thorough()
	if !exhaustive {
		n := c.Pick(30000, 0)
		idx := c.Rng.Perm(len(space))
		if n > len(idx) {
			n = len(idx)
		}
		chosen = make([]mutSpec, 0, n)
		for i := 0; i < n; i++ {
			chosen = append(chosen, space[idx[i]])
		}
		// the row-shape family is small and reaches code no single deletion does: always complete
		for _, m := range space {
			if strings.HasPrefix(m.kind, "dup-strip:") {
				chosen = append(chosen, m)
			}
		}
	}
	for _, m := range chosen {
		m := m
		cases = append(cases, tcase{Stream: "mutation", Name: exs[m.ex].name, Path: m.p.String(), Kind: m.kind,
			gen: func() []byte { return apply(exs[m.ex].data, m.p, m.kind) }})
	}
	// double mutations (thorough only): exploration beyond the enumerated space
	if c.Thorough() {
		for i := 0; i < 60000; i++ {
			m1 := space[c.Rng.Intn(len(space))]
			seed := c.Rng.Int63()
			cases = append(cases, tcase{Stream: "mutation2", Name: exs[m1.ex].name, Path: m1.p.String(), Kind: m1.kind + " + random second mutation",
				gen: func() []byte {
					r := rand.New(rand.NewSource(seed))
					doc := apply(exs[m1.ex].data, m1.p, m1.kind)
					if doc == nil {
						return nil
					}
					root, err := parseAny(doc)
					if err != nil {
						return nil
					}
					var ps []path
					paths(root, nil, &ps)
					if len(ps) == 0 {
						return nil
					}
					p2 := ps[r.Intn(len(ps))]
					ks := kindsFor(p2, get(root, p2))
					k2 := ks[r.Intn(len(ks))]
					if strings.HasPrefix(k2, "deep-") {
						return nil
					}
					return apply(doc, p2, k2)
				}})
		}
	}

	// signed bases, sigpayload, schema-add, far duplicates, envelope-level mutations through
	// json.Unmarshal (families.go); nil / zero arguments (nilargs.go); the CLI layer in-process (clihook.go)
	newCases, bases, _ := newFamilyCases(c, exs)
	cases = append(cases, newCases...)
	cases = append(cases, nilArgCases(c, exs, bases)...)
	cases = append(cases, cliInprocCases(c, exs, bases)...)
	cases = append(cases, edgeCases(c, exs)...) // arithmetic edge values and formatter / template text on every leaf (edges.go)

	c.Note("cases built after %.1fs: %d", time.Since(t0).Seconds(), len(cases))
	// in-process
	seenSite := map[string]bool{}
	seenIssue := map[string]bool{}
	siteExamples := map[string]any{} // one input per call site, for the evidence
	var panicking []tcase            // inputs that panic in-process: a few also go through CLI / bulk
	var quiet []tcase
	var fatalInputs []tcase
	nEx := 0
	seenCause := map[string]bool{}
	causes := map[string]int{}
	each := func(r result) {
		nontrivial := r.reached == "calculated" || r.reached == "valid" || len(r.panics) > 0 || apiLevel(r.t)
		c.Eval(r.t.Stream+"|"+r.t.Name+"|"+r.t.Path+"|"+r.t.Kind+"|"+r.t.Entry+"|"+fmt.Sprint(len(r.t.Doc)), nontrivial)
		c.Count("stream."+r.t.Stream, 1)
		c.Count("reached."+r.reached, 1)
		if r.t.Kind != "" {
			c.Count("mutation."+strings.SplitN(r.t.Kind, ":", 2)[0], 1)
		}
		if r.reached == "skipped-fatal-self-schema" {
			if len(fatalInputs) < 50 {
				fatalInputs = append(fatalInputs, r.t)
			}
			return
		}
		if r.hung {
			c.Fail("", fmt.Sprintf("hang: no result within %s (%s %s %s)", caseTimeout, r.t.Name, r.t.Path, r.t.Kind), r.t)
			return
		}
		if len(c.Samples) < 3 && r.t.Stream == "mutation" {
			c.Sample(map[string]any{"example": r.t.Name, "path": r.t.Path, "kind": r.t.Kind, "reached": r.reached, "panics": len(r.panics)})
		}
		for _, p := range r.panics {
			if p.stage == outsideStage {
				// a nil pointer handed in by the calling program as the document / a helper's argument:
				// outside the property's quantifier (nilargs.go) - counted, not a violation
				c.Count(outsideStage+":"+p.site, 1)
				continue
			}
			cl := classifier(p.stage, p.site)
			c.Count("panic-site:"+p.stage+":"+p.site, 1)
			t := r.t
			t.Stage = p.stage
			if _, ok := siteExamples[cl]; !ok {
				siteExamples[cl] = map[string]string{"example": r.t.Name, "path": r.t.Path, "mutation": r.t.Kind, "stream": r.t.Stream, "panic": p.msg}
			}
			if _, known := c.KnownClassifier(cl); known {
				c.Fail(cl, "", t) // counted as a known finding
				continue
			}
			if !seenSite[cl] {
				seenSite[cl] = true
				seenCause[cl+"|"+causeKey(r.t)] = true
				what := fmt.Sprintf("panic in stage %s at %s: %s (input: %s %s %s)", p.stage, p.site, p.msg, r.t.Name, r.t.Path, r.t.Kind)
				furtherWitness(c, cl, what, t, false) // beyond the five violations core records: a replay file all the same
				c.Fail(cl, what, t)
			} else if ck := cl + "|" + causeKey(r.t); !seenCause[ck] && causes[cl] < 12 {
				// the same site reached by another family / kind of mutation / place: possibly another
				// defect behind the same function - a replay file, not a further violation
				seenCause[ck] = true
				causes[cl]++
				furtherWitness(c, cl, fmt.Sprintf("panic in stage %s at %s again, by another kind of input: %s (input: %s %s %s)", p.stage, p.site, p.msg, r.t.Name, r.t.Path, r.t.Kind), t, true)
			}
		}
		for _, is := range r.issues {
			cl := "c14.errkey:" + is.stage + ":" + is.what
			c.Count("error-issue:"+is.stage+":"+is.what, 1)
			if _, ok := siteExamples[cl]; !ok {
				siteExamples[cl] = map[string]string{"example": r.t.Name, "path": r.t.Path, "mutation": r.t.Kind, "stream": r.t.Stream}
			}
			if _, known := c.KnownClassifier(cl); known {
				c.Fail(cl, "", r.t)
				continue
			}
			if !seenIssue[cl] {
				seenIssue[cl] = true
				t := r.t
				t.Stage = is.stage
				what := fmt.Sprintf("error returned by stage %s is not structured as documented: %s (input: %s %s %s)", is.stage, is.what, r.t.Name, r.t.Path, r.t.Kind)
				furtherWitness(c, cl, what, t, false)
				c.Fail(cl, what, t)
			}
		}
		if apiLevel(r.t) {
			// not a document: nothing to hand to the command line below
		} else if len(r.panics) > 0 && len(panicking) < 4000 {
			panicking = append(panicking, r.t)
		} else if len(r.panics) == 0 && r.t.Stream != "bytes" && len(quiet) < 4000 {
			quiet = append(quiet, r.t)
		}
		if r.t.Stream == "example" {
			nEx++
		}
	}
	onlyRequestLevel := os.Getenv("C14_ONLY") == "request-level" // testing hook: only the families of bulkreq.go / reqopts.go
	if onlyRequestLevel {
		cases = nil
	}
	var inproc, isolated []tcase
	for _, t := range cases {
		if t.Stream == "bulk-inproc" {
			isolated = append(isolated, t)
		} else {
			inproc = append(inproc, t)
		}
	}
	runAll(inproc, each)
	c.Note("recoverable in-process cases done after %.1fs", time.Since(t0).Seconds())
	runIsolated(isolated, each) // cli.Bulk starts goroutines: run in child processes (isolate.go)

	c.Note("in-process run done after %.1fs", time.Since(t0).Seconds())
	noteStreamTimes(c)
	// the smallest such input, always
	fatalInputs = append(fatalInputs, tcase{Stream: "json", Doc: `{"$schema":"` + selfSchemaID + `"}`})
	if !onlyRequestLevel {
		external(c, goblBin, exs, ids, panicking, quiet, fatalInputs)
	}
	c.Note("command line and bulk sample done after %.1fs", time.Since(t0).Seconds())
	externalExtra(c, goblBin, exs, bases) // request-level families of the bulk endpoint and the command line (bulkreq.go)
	c.Note("request-level families done after %.1fs", time.Since(t0).Seconds())

	extra := map[string]any{"exhaustive": false, "mutation_space": len(space), "documented_error_keys": len(documentedKeys), "call_sites_hit": siteExamples}
	if exhaustive {
		extra["exhaustive_single_mutations"] = true
	}
	return c.Finish("one evaluation = one input through all thirteen in-process stages (or one CLI / bulk run); inputs: random bytes, random JSON over GOBL member names and schemas, every example, single structure-aware mutations of every example (path x kind; complete enumeration in the thorough tier, sample in the quick tier), double mutations (thorough); signed bases (every example envelope signed with the harness key, some by two keys, some with a header carrying every member of its schema) under the same mutation space; sigpayload: the header a signature signs mutated and signed again; schema-add / schema-add2: every property the published schema declares and an object lacks added with candidate values by type, singly and in pairs; copies of array elements at the other end of the array; every mutation outside doc also through json.Unmarshal into an Envelope and through internal/cli in-process; nil / zero arguments of the envelope API (a panic on a nil pointer handed in by the calling program as the document or a helper's argument or receiver is OUTSIDE the property's quantifier: counted under outside-quantifier:nil-argument:<site>, no violation); internal/cli in-process (package verifhook) with nil / zero / foreign keys and zero options; cli.Bulk in-process (in child processes) and POST /bulk over request-level mutations of every action and over request streams cut off at every offset (the answer has to end, with exactly one final response, the last one); command lines lacking flags and with key files that are no key; non-trivial = distinct input that reaches calculation or panics, or a call of the API",
		extra)
}

/* ---------- CLI and bulk: a panic kills the process ---------- */

type cliErr struct {
	Code    int             `json:"code"`
	Key     string          `json:"key"`
	Message string          `json:"message"`
	Fields  json.RawMessage `json:"fields"`
}

// cliRun is one finished run of the gobl binary.
type cliRun struct {
	t      tcase
	r      clibin.Res
	inproc []panicRec
}

// shown is the error object a CLI run printed, as observed from outside.
type shown struct {
	ce        cliErr
	members   []string // in the order code, key, fields, message, then anything else (sorted)
	hasFields bool
}

func parseShown(text string) (shown, bool) {
	var sh shown
	var m map[string]json.RawMessage
	if err := json.Unmarshal([]byte(text), &m); err != nil || m == nil {
		return sh, false
	}
	_ = json.Unmarshal([]byte(text), &sh.ce) // a member of the wrong type leaves the zero value: judged as absent
	for _, k := range []string{"code", "key", "fields", "message"} {
		if _, ok := m[k]; ok {
			sh.members = append(sh.members, k)
			delete(m, k)
		}
	}
	var rest []string
	for k := range m {
		rest = append(rest, k)
	}
	sort.Strings(rest)
	sh.members = append(sh.members, rest...)
	f := strings.TrimSpace(string(sh.ce.Fields))
	sh.hasFields = f != "" && f != "null" && f != "{}"
	return sh, true
}

func bit(b bool) string {
	if b {
		return "1"
	}
	return "0"
}

// isEncodingFailure recognises, by its text, the error with which
// encoding/json refuses to encode a value (what cli.isEncodingError
// recognises by type).
func isEncodingFailure(msg string) bool {
	return strings.HasPrefix(msg, "json: error calling Marshal") || strings.HasPrefix(msg, "json: unsupported type") || strings.HasPrefix(msg, "json: unsupported value")
}

// judgeCLI classifies the outcomes of the CLI runs.  An error object
// (exit 1) is judged by the specification (Spec/C14 through the driver) and,
// where the kind of error is known from outside (usage errors, encoding
// failures), compared with the model of cli.WrapError.
func judgeCLI(c *core.Ctx, runs []cliRun) {
	type pending struct {
		run  cliRun
		sh   shown
		kind string // plain | encoding | structured
	}
	var pend []pending
	var reqs []string
	for _, x := range runs {
		t, r := x.t, x.r
		c.Count("via."+t.Via+fmt.Sprintf(".exit=%d", r.Code), 1)
		switch {
		case r.TimedOut:
			c.Fail("", "gobl "+t.Via+" hung", t)
		case r.Code == 0:
			if strings.TrimSpace(r.Out) != "" && !json.Valid([]byte(r.Out)) {
				c.Fail("", "gobl "+t.Via+" exit 0 but output is not JSON", t)
			}
			if t.Stream == "usage" {
				c.Fail("c14.clierr:usage-accepted", "gobl "+t.Via+": a command line that cannot be carried out ended with exit status 0", t)
			}
		case r.Code == 1 && !strings.Contains(r.Err, "goroutine "):
			sh, ok := parseShown(r.Err)
			if !ok {
				failCLI(c, "c14.clierr:not-json", fmt.Sprintf("gobl %s: error output is not a JSON object: %q", t.Via, tail(r.Err, 300)), t)
				continue
			}
			kind := "structured"
			switch {
			case t.Stream == "usage" && t.Expect == "plain":
				kind = "plain"
			case isEncodingFailure(sh.ce.Message):
				kind = "encoding"
			}
			c.Count("cli-error-kind."+kind, 1)
			pend = append(pend, pending{x, sh, kind})
			obs := fmt.Sprintf("%d %s %s %s", max(sh.ce.Code, 0), core.Hex(sh.ce.Key), bit(sh.hasFields), core.Hex(sh.ce.Message))
			reqs = append(reqs, "judge "+obs)
			switch kind {
			case "structured":
				reqs = append(reqs, "present structured "+obs)
			default:
				reqs = append(reqs, "present "+kind+" "+core.Hex(sh.ce.Message))
			}
		default:
			judgeAborted(c, t, r, x.inproc)
		}
	}
	if len(pend) == 0 {
		return
	}
	resp, err := c.Model(append(reqs, "members"))
	if err != nil || len(resp) != len(reqs)+1 || !strings.HasPrefix(resp[len(reqs)], "ok ") {
		c.TieBroken("c14/cli-present", fmt.Sprintf("the model driver did not answer (%v)", err), nil)
		return
	}
	allowed := map[string]bool{}
	for _, m := range strings.Split(strings.TrimPrefix(resp[len(reqs)], "ok "), ",") {
		allowed[m] = true
	}
	for i, p := range pend {
		t, sh := p.run.t, p.sh
		j := strings.Fields(resp[2*i])
		m := strings.Fields(resp[2*i+1])
		if len(j) != 4 || j[0] != "ok" || len(m) != 9 || m[0] != "ok" {
			c.TieBroken("c14/cli-present", "bad answer of the model driver: "+resp[2*i]+" / "+resp[2*i+1], t)
			continue
		}
		// (1) the property, judged on what was printed
		bad := false
		for _, mem := range sh.members {
			if !allowed[mem] {
				bad = true
				failCLI(c, "c14.clierr:empty", fmt.Sprintf("gobl %s: the error object has a member %q that is none of code/key/fields/message (the Go error value itself was encoded?): %q", t.Via, mem, tail(p.run.r.Err, 200)), t)
				break
			}
		}
		if !bad && j[1] != "1" {
			bad = true
			if sh.ce.Key != "" && !documentedKeys[sh.ce.Key] {
				failCLI(c, "c14.clierr:undocumented-key", "gobl "+t.Via+": undocumented error key "+sh.ce.Key, t)
			} else {
				failCLI(c, "c14.clierr:empty", fmt.Sprintf("gobl %s: error without code/key/message: %q", t.Via, tail(p.run.r.Err, 200)), t)
			}
		}
		if !bad && p.kind == "encoding" && j[3] != "1" {
			bad = true
			failCLI(c, "c14.clierr:encoding-failure-unkeyed", fmt.Sprintf("gobl %s: the result could not be encoded and the error does not say so with the documented key (want code 422, key marshal): %q", t.Via, tail(p.run.r.Err, 300)), t)
		}
		if !bad && t.Stream == "usage" && t.Mention != "" && !strings.Contains(sh.ce.Message, t.Mention) {
			bad = true
			failCLI(c, "c14.clierr:usage-message", fmt.Sprintf("gobl %s: the error does not name what was wrong (%q): %q", t.Via, t.Mention, tail(p.run.r.Err, 200)), t)
		}
		if bad {
			continue
		}
		// (2) the model of cli.WrapError, where the kind of error is known from outside
		want := fmt.Sprintf("%s %s %s %s", m[1], m[2], m[3], m[5])
		got := fmt.Sprintf("%d %s %s %s", sh.ce.Code, core.Hex(sh.ce.Key), bit(sh.hasFields), strings.Join(sh.members, ","))
		if want != got {
			c.TieBroken("c14/cli-present", fmt.Sprintf("gobl %s: a %s error is presented as (code key fields members) %s, the model of cli.WrapError says %s: %q", t.Via, p.kind, got, want, tail(p.run.r.Err, 200)), t)
		}
	}
}

// judgeAborted: the process was aborted (exit 2 = Go panic or fatal error)
func judgeAborted(c *core.Ctx, t tcase, r clibin.Res, inproc []panicRec) {
	if strings.Contains(r.Err, "fatal error: stack overflow") && strings.Contains(r.Err, "schema.(*Object).UnmarshalJSON") && namesSelfSchema([]byte(t.Doc)) {
		c.Fail(fatalSelfSchema, "gobl "+t.Via+" killed by a stack overflow: schema.(*Object).UnmarshalJSON calls itself for ever on a document whose $schema is the schema of schema.Object", t)
		return
	}
	site := core.PanicSite([]byte(r.Err))
	if site == "" {
		site = "(no gobl frame)"
	}
	c.Count("via."+t.Via+".process-aborted", 1)
	// same defect as seen in-process on the same input?
	for _, p := range inproc {
		if p.site == site {
			c.Fail(classifier(p.stage, p.site), fmt.Sprintf("gobl %s aborted by a panic at %s", t.Via, site), t)
			return
		}
	}
	c.Fail(classifier(t.Via, site), fmt.Sprintf("gobl %s aborted (exit %d) by a panic at %s that the in-process run of the same input does not show: %s", t.Via, r.Code, site, tail(r.Err, 400)), t)
}

// envelopeDocWithoutSchema: the input is an envelope whose `doc` is an object that names no schema
// (no `$schema`, or one that is null or empty): json.Unmarshal reads it into a schema.Object
// without payload, which cannot be written again.
func envelopeDocWithoutSchema(data []byte) bool {
	top, ok := envelopeLike(data)
	if !ok {
		return false
	}
	d, ok := top["doc"].(map[string]any)
	if !ok {
		return false
	}
	s, _ := d["$schema"].(string)
	return s == ""
}

// failCLI reports a command-line error that is not structured as documented;
// the classifier names the kind of defect and the kind of invocation.
func failCLI(c *core.Ctx, cls, what string, t tcase) {
	if t.Stream == "usage" {
		cls += ":usage"
	}
	if cls == "c14.clierr:encoding-failure-unkeyed" && envelopeDocWithoutSchema([]byte(t.Doc)) {
		cls = "c14.clierr:schemaless-doc-unencodable" // predicate over the input (known finding)
	}
	c.Count("cli-issue:"+cls, 1)
	if !cliNoted[cls+t.Via] && len(cliNoted) < 40 {
		cliNoted[cls+t.Via] = true
		c.Note("%s via %s: %s; input %s %s %s: %.300q", cls, t.Via, what, t.Name, t.Path, t.Kind, t.Doc)
	}
	// one witness per kind of defect (every occurrence is counted above)
	if cliFailed[cls] {
		return
	}
	cliFailed[cls] = true
	c.Fail(cls, what, t)
}

var cliFailed = map[string]bool{}

var cliNoted = map[string]bool{}

func tail(s string, n int) string {
	if len(s) > n {
		return s[len(s)-n:]
	}
	return s
}

func yamlLineMutants(r *rand.Rand, y []byte, n int) [][]byte {
	lines := strings.Split(string(y), "\n")
	var out [][]byte
	for i := 0; i < n && len(lines) > 2; i++ {
		l := append([]string{}, lines...)
		k := r.Intn(len(l))
		switch r.Intn(6) {
		case 0:
			l = append(l[:k], l[k+1:]...)
		case 1:
			l = append(l[:k+1], l[k:]...)
		case 2:
			l[k] = "  " + l[k]
		case 3:
			l[k] = strings.TrimLeft(l[k], " ")
		case 4:
			if j := strings.Index(l[k], ":"); j > 0 {
				l[k] = l[k][:j+1] + []string{" null", " []", " {}", " ~", " 1e999", " !!binary AAAA", " &a [*a]", " \"\""}[r.Intn(8)]
			}
		default:
			if strings.Contains(l[k], "- ") {
				l[k] = strings.Replace(l[k], "- ", "- null #", 1)
			}
		}
		out = append(out, []byte(strings.Join(l, "\n")))
	}
	return out
}

// cliHome makes a scratch home directory with a fresh key pair in it.
func cliHome(goblBin string) (home string, err error) {
	home, err = os.MkdirTemp("", "c14-home-")
	if err != nil {
		return "", err
	}
	if r := clibin.Run(goblBin, home, nil, 30*time.Second, "keygen", filepath.Join(home, "key.jwk")); r.Code != 0 {
		_ = os.RemoveAll(home)
		return "", fmt.Errorf("keygen: %s", r.Err)
	}
	if err := installHarnessKey(home); err != nil { // $KEY / $PUB are the key the signed bases were signed with
		_ = os.RemoveAll(home)
		return "", err
	}
	return home, nil
}

// cliArgs replaces the key-file placeholders of a recorded command line.
func cliArgs(home string, args []string) []string {
	out := make([]string, len(args))
	for i, a := range args {
		switch a {
		case "$KEY":
			a = filepath.Join(home, "key.jwk")
		case "$PUB":
			a = filepath.Join(home, "key.pub.jwk")
		}
		if strings.HasPrefix(a, "$FILE:") { // a file of the scratch home directory with this content
			f := filepath.Join(home, fmt.Sprintf("arg%d.file", i))
			_ = os.WriteFile(f, []byte(strings.TrimPrefix(a, "$FILE:")), 0o644)
			a = f
		}
		out[i] = a
	}
	return out
}

// usageCases: command lines that cannot be carried out whatever the input is,
// what kind of error ends them (a plain Go error of cobra / os, or one that
// internal/cli structured already) and what the message has to name.
var usageCases = []struct {
	args    []string
	expect  string
	mention string
}{
	{[]string{"nonsense"}, "plain", "nonsense"},
	{[]string{"--no-such-flag"}, "plain", "--no-such-flag"},
	{[]string{"build", "--no-such-flag"}, "plain", "--no-such-flag"},
	{[]string{"correct", "--no-such-flag"}, "plain", "--no-such-flag"},
	{[]string{"build", "--set"}, "plain", "--set"},
	{[]string{"build", "a", "b", "c"}, "plain", "arg"},
	{[]string{"build", "-w"}, "plain", "STDIN"},
	{[]string{"build", "/no/such/file"}, "plain", "/no/such/file"},
	{[]string{"validate", "/no/such/file"}, "plain", "/no/such/file"},
	{[]string{"replicate", "/no/such/file"}, "plain", "/no/such/file"},
	{[]string{"build", "-T", "/no/such/template"}, "plain", "/no/such/template"},
	{[]string{"verify", "-k", "/no/such/key"}, "plain", "/no/such/key"},
	{[]string{"sign", "-k", "/no/such/key"}, "plain", "/no/such/key"},
	{[]string{"keygen", "/no/such/dir/key"}, "plain", "/no/such/dir"},
	{[]string{"build", "-t", "no.such.type"}, "structured", "no.such.type"},
}

func external(c *core.Ctx, goblBin string, exs []example, ids []string, panicking, quiet, fatal []tcase) {
	home, err := cliHome(goblBin)
	if err != nil {
		c.TieBroken("cli", err.Error(), nil)
		return
	}
	defer os.RemoveAll(home) //nolint:errcheck
	type job struct {
		t    tcase
		args []string
	}
	var jobs []job
	cmds := [][]string{{"build"}, {"build", "-e"}, {"validate"}, {"sign", "-k", "$KEY"}, {"verify", "-k", "$PUB"}, {"correct", "--credit"}, {"correct", "-d", `{"type":"corrective","stamps":[null]}`}, {"replicate"}, {"correct", "--options"}}
	pick := func(ts []tcase, n int) []tcase {
		idx := c.Rng.Perm(len(ts))
		var out []tcase
		for i := 0; i < n && i < len(idx); i++ {
			out = append(out, ts[idx[i]])
		}
		return out
	}
	sort.Slice(panicking, func(i, j int) bool { return panicking[i].Doc < panicking[j].Doc })
	sort.Slice(quiet, func(i, j int) bool { return quiet[i].Doc < quiet[j].Doc })
	for _, t := range pick(quiet, c.Pick(90, 900)) {
		cm := cmds[c.Rng.Intn(len(cmds))]
		t.Via = "cli:" + cm[0]
		jobs = append(jobs, job{t, cm})
	}
	for _, t := range pick(panicking, c.Pick(30, 300)) {
		cm := cmds[c.Rng.Intn(4)]
		t.Via = "cli:" + cm[0]
		jobs = append(jobs, job{t, cm})
	}
	for i := 0; i < c.Pick(20, 200); i++ {
		cm := cmds[c.Rng.Intn(len(cmds))]
		jobs = append(jobs, job{tcase{Stream: "bytes", Doc: string(randBytes(c.Rng)), Via: "cli:" + cm[0]}, cm})
	}
	for _, ex := range exs {
		if ex.yaml == nil || c.Rng.Intn(4) != 0 {
			continue
		}
		for _, y := range yamlLineMutants(c.Rng, ex.yaml, c.Pick(2, 12)) {
			cm := cmds[c.Rng.Intn(3)]
			jobs = append(jobs, job{tcase{Stream: "yaml-lines", Name: ex.name, Doc: string(y), Via: "cli:" + cm[0]}, cm})
		}
	}
	for i, t := range fatal {
		if i >= 6 {
			break
		}
		t.Via = "cli:build"
		jobs = append(jobs, job{t, []string{"build"}})
	}
	// usage errors: also "errors surfaced through the command line"
	for _, u := range usageCases {
		jobs = append(jobs, job{tcase{Stream: "usage", Doc: "{}", Via: "cli:" + strings.Join(u.args, " "), Expect: u.expect, Mention: u.mention}, u.args})
	}
	// a document that is nothing but its $schema, for every registered schema:
	// read, processed, and for the types whose empty value has no members of
	// its own the result cannot be encoded (schema.Object.MarshalJSON fails) -
	// the one refusal that comes from the output side of a command
	for _, id := range ids {
		for _, cm := range [][]string{{"replicate"}, {"build"}} {
			jobs = append(jobs, job{tcase{Stream: "schema-only", Name: id, Doc: `{"$schema":"` + id + `"}`, Via: "cli:" + cm[0]}, cm})
		}
	}
	var runs []cliRun
	var wg sync.WaitGroup
	var mu sync.Mutex
	sem := make(chan struct{}, 12)
	for _, j := range jobs {
		wg.Add(1)
		sem <- struct{}{}
		go func(j job) {
			defer wg.Done()
			defer func() { <-sem }()
			var inproc []panicRec
			if j.t.Stream != "yaml-lines" && j.t.Stream != "usage" {
				inproc, _, _ = pipeline([]byte(j.t.Doc))
			} else if jb, err := yaml.YAMLToJSON([]byte(j.t.Doc)); err == nil {
				inproc, _, _ = pipeline(jb)
			}
			r := clibin.Run(goblBin, home, []byte(j.t.Doc), 60*time.Second, cliArgs(home, j.args)...)
			j.t.Args = j.args
			mu.Lock()
			c.Eval("cli|"+j.t.Via+"|"+j.t.Name+"|"+j.t.Path+"|"+j.t.Kind+"|"+fmt.Sprint(len(j.t.Doc)), true)
			runs = append(runs, cliRun{j.t, r, inproc})
			mu.Unlock()
		}(j)
	}
	wg.Wait()
	// judged in a fixed order, whatever order the processes finished in
	sort.SliceStable(runs, func(i, k int) bool {
		if runs[i].t.Via != runs[k].t.Via {
			return runs[i].t.Via < runs[k].t.Via
		}
		return runs[i].t.Doc < runs[k].t.Doc
	})
	judgeCLI(c, runs)

	// bulk: [ping, <action on the input>, ping]; a panic takes the whole server down
	srv, err := clibin.Serve(goblBin, home, 4)
	if err != nil {
		c.TieBroken("bulk", err.Error(), nil)
		return
	}
	defer func() { srv.Stop() }()
	actions := []string{"build", "validate", "sign", "correct", "replicate", "verify"}
	bulkCases := append(pick(quiet, c.Pick(60, 600)), pick(panicking, c.Pick(8, 60))...)
	for i := 0; i < c.Pick(10, 100); i++ {
		bulkCases = append(bulkCases, tcase{Stream: "bytes", Doc: string(randBytes(c.Rng))})
	}
	for _, t := range bulkCases {
		act := actions[c.Rng.Intn(len(actions))]
		t.Via = "bulk:" + act
		payload := map[string]any{"data": []byte(t.Doc)}
		if act == "correct" {
			payload["options"] = []byte(`{"type":"credit-note","reason":"r"}`)
		}
		var sb bytes.Buffer
		sb.WriteString(`{"action":"ping","req_id":"a"}` + "\n")
		b, _ := json.Marshal(map[string]any{"action": act, "req_id": "b", "payload": payload})
		sb.Write(b)
		sb.WriteString("\n" + `{"action":"ping","req_id":"c"}` + "\n")
		raw, err := srv.Bulk(sb.Bytes(), 60*time.Second)
		c.Eval("bulk|"+act+"|"+t.Name+"|"+t.Path+"|"+t.Kind+"|"+fmt.Sprint(len(t.Doc)), true)
		c.Count("via.bulk."+act, 1)
		finals := strings.Count(string(raw), `"is_final":true`)
		if err == nil && finals == 1 {
			// the reply to b must carry a payload or a structured error
			dec := json.NewDecoder(bytes.NewReader(raw))
			for {
				var o struct {
					ReqID string          `json:"req_id"`
					Error *cliErr         `json:"error"`
					Final bool            `json:"is_final"`
					Pl    json.RawMessage `json:"payload"`
				}
				if dec.Decode(&o) != nil {
					break
				}
				if o.ReqID == "b" && !o.Final && o.Error != nil {
					if o.Error.Code == 0 || (o.Error.Key == "" && o.Error.Message == "" && len(o.Error.Fields) == 0) {
						failCLI(c, "c14.clierr:empty", "bulk error without code/key/message", t)
					}
					if o.Error.Key != "" && !documentedKeys[o.Error.Key] {
						failCLI(c, "c14.clierr:undocumented-key", "bulk: undocumented error key "+o.Error.Key, t)
					}
				}
			}
			continue
		}
		// incomplete stream: the server died?
		time.Sleep(50 * time.Millisecond)
		logTxt := srv.Log.String()
		inproc, _, _ := pipeline([]byte(t.Doc))
		site := core.PanicSite([]byte(logTxt))
		c.Count("via.bulk.server-aborted", 1)
		reported := false
		if strings.Contains(logTxt, "goroutine ") {
			for _, p := range inproc {
				if p.site == site {
					c.Fail(classifier(p.stage, p.site), "gobl serve (bulk) aborted by a panic at "+site+": every concurrent request is lost", t)
					reported = true
					break
				}
			}
			if !reported {
				c.Fail(classifier(t.Via, site), fmt.Sprintf("gobl serve (bulk %s) aborted by a panic at %s not seen in-process: %s", act, site, tail(logTxt, 400)), t)
			}
		} else {
			c.Fail("", fmt.Sprintf("bulk stream incomplete without a panic (err=%v, finals=%d): %s", err, finals, tail(string(raw), 300)), t)
		}
		srv.Stop()
		srv, err = clibin.Serve(goblBin, home, 4)
		if err != nil {
			c.TieBroken("bulk", err.Error(), nil)
			return
		}
	}
}

func replay(c *core.Ctx, t tcase, goblBin string) {
	if t.Via == "bulk-stream" {
		replayBulkStream(c, t, goblBin)
		return
	}
	if strings.HasPrefix(t.Via, "http:") {
		replayHTTP(c, t, goblBin)
		return
	}
	if t.Via == "" {
		var ps []panicRec
		var is []errIssue
		var reached string
		if t.Stream == "bulk-inproc" {
			// recover cannot protect this one: in a child process (isolate.go)
			runIsolated([]tcase{t}, func(r result) { ps, is, reached = r.panics, r.issues, r.reached })
		} else {
			ps, is, reached = runCase(t)
		}
		c.Eval("replay", true)
		fmt.Fprintf(os.Stderr, "replay: reached %s, %d panics, %d error issues\n", reached, len(ps), len(is))
		for _, p := range ps {
			fmt.Fprintf(os.Stderr, "  panic stage=%s site=%s: %s\n", p.stage, p.site, p.msg)
			if p.stage == outsideStage {
				continue // outside the property's quantifier (nilargs.go)
			}
			c.Fail(classifier(p.stage, p.site), fmt.Sprintf("panic in stage %s at %s: %s", p.stage, p.site, p.msg), t)
		}
		for _, i := range is {
			c.Fail("c14.errkey:"+i.stage+":"+i.what, "error of stage "+i.stage+" not structured: "+i.what, t)
		}
		return
	}
	if strings.HasPrefix(t.Via, "cli:") && len(t.Args) > 0 {
		// the same command line on the same input
		home, err := cliHome(goblBin)
		if err != nil {
			c.TieBroken("cli", err.Error(), nil)
			return
		}
		defer os.RemoveAll(home) //nolint:errcheck
		var inproc []panicRec
		if t.Stream != "yaml-lines" && t.Stream != "usage" {
			inproc, _, _ = pipeline([]byte(t.Doc))
		}
		r := clibin.Run(goblBin, home, []byte(t.Doc), 60*time.Second, cliArgs(home, t.Args)...)
		c.Eval("replay-cli", true)
		fmt.Fprintf(os.Stderr, "replay: gobl %s: exit %d, stderr %q\n", strings.Join(t.Args, " "), r.Code, tail(r.Err, 400))
		judgeCLI(c, []cliRun{{t, r, inproc}})
		return
	}
	fmt.Fprintln(os.Stderr, "replay of bulk cases: run the in-process pipeline on the same input")
	t.Via = ""
	replay(c, t, goblBin)
}
