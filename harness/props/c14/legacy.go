package c14

import (
	"go/ast"
	"go/parser"
	"go/token"
	"os"
	"path/filepath"
	"reflect"
	"sort"
	"strings"
)

// loadLegacyMembers scans the repository sources for UnmarshalJSON methods and
// collects the JSON member names of the auxiliary struct types declared inside
// them: members the documents' published shape no longer has but the parsers
// still read (migrations).  They become the "legacy:" mutation family.
func loadLegacyMembers(repo string) {
	seen := map[string]bool{}
	fset := token.NewFileSet()
	_ = filepath.Walk(repo, func(p string, info os.FileInfo, err error) error {
		if err != nil {
			return nil
		}
		if info.IsDir() {
			n := info.Name()
			if n == ".git" || n == "examples" || n == "data" || n == "wasm" {
				return filepath.SkipDir
			}
			return nil
		}
		if !strings.HasSuffix(p, ".go") || strings.HasSuffix(p, "_test.go") {
			return nil
		}
		f, err := parser.ParseFile(fset, p, nil, 0)
		if err != nil {
			return nil
		}
		for _, d := range f.Decls {
			fd, ok := d.(*ast.FuncDecl)
			if !ok || fd.Name.Name != "UnmarshalJSON" || fd.Body == nil {
				continue
			}
			ast.Inspect(fd.Body, func(n ast.Node) bool {
				st, ok := n.(*ast.StructType)
				if !ok || st.Fields == nil {
					return true
				}
				for _, fld := range st.Fields.List {
					if fld.Tag == nil {
						continue
					}
					tag := reflect.StructTag(strings.Trim(fld.Tag.Value, "`")).Get("json")
					name := strings.Split(tag, ",")[0]
					if name != "" && name != "-" {
						seen[name] = true
					}
				}
				return true
			})
		}
		return nil
	})
	LegacyMembers = LegacyMembers[:0]
	for k := range seen {
		LegacyMembers = append(LegacyMembers, k)
	}
	sort.Strings(LegacyMembers)
}
