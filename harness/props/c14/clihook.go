//go:build verif

package c14

import (
	"bytes"
	"context"
	"encoding/json"
	"fmt"
	"io"
	"strings"
	"time"

	"github.com/invopop/gobl/dsig"
	"github.com/invopop/gobl/verifhook"

	"verifharness/internal/core"
)

// The command line layer (internal/cli, reached through the aliases of
// package verifhook under the build tag "verif") called IN-PROCESS:
//
//   cli-inproc    Build / Validate / Sign / Verify / Correct / Replicate on a
//                 base, with each key nil / zero / foreign in turn, each
//                 option left at its zero value in turn, and with no input;
//   bulk-inproc   cli.Bulk over request streams: the request-level mutations
//                 and the cut-off streams of bulkreq.go, with and WITHOUT a
//                 default private key (the built binary always has one).
//
// cli.Bulk answers every request in a goroutine of its own: a panic there
// cannot be recovered, it kills this (supervised) process and the supervisor
// of c14.go reports the input that was in flight as "c14.fatal:<site>".

type cliEntry struct {
	name string
	f    func(ctx context.Context, doc []byte) error
}

func po(doc []byte) *verifhook.ParseOptions {
	return &verifhook.ParseOptions{Input: bytes.NewReader(doc)}
}

var cliEntries = []cliEntry{
	{"cli.Build", func(ctx context.Context, d []byte) error {
		_, err := verifhook.Build(ctx, &verifhook.BuildOptions{ParseOptions: po(d)})
		return err
	}},
	{"cli.Build(envelop)", func(ctx context.Context, d []byte) error {
		p := po(d)
		p.Envelop = true
		_, err := verifhook.Build(ctx, &verifhook.BuildOptions{ParseOptions: p})
		return err
	}},
	{"cli.Build(type)", func(ctx context.Context, d []byte) error {
		p := po(d)
		p.DocType = "bill.Invoice"
		_, err := verifhook.Build(ctx, &verifhook.BuildOptions{ParseOptions: p})
		return err
	}},
	{"cli.Build(template=doc, input={})", func(ctx context.Context, d []byte) error {
		p := po([]byte("{}"))
		p.Template = bytes.NewReader(d)
		_, err := verifhook.Build(ctx, &verifhook.BuildOptions{ParseOptions: p})
		return err
	}},
	{"cli.Build(set)", func(ctx context.Context, d []byte) error {
		p := po(d)
		p.SetYAML = map[string]string{"head": "null", "sigs": "[null]", "": "x"}
		p.SetString = map[string]string{"doc.currency": "QQQ"}
		_, err := verifhook.Build(ctx, &verifhook.BuildOptions{ParseOptions: p})
		return err
	}},
	{"cli.Validate", func(ctx context.Context, d []byte) error { return verifhook.Validate(ctx, bytes.NewReader(d)) }},
	{"cli.Sign(key)", func(ctx context.Context, d []byte) error {
		_, err := verifhook.Sign(ctx, &verifhook.SignOptions{ParseOptions: po(d), PrivateKey: key})
		return err
	}},
	{"cli.Sign(key=nil)", func(ctx context.Context, d []byte) error {
		_, err := verifhook.Sign(ctx, &verifhook.SignOptions{ParseOptions: po(d)})
		return err
	}},
	{"cli.Sign(zero key)", func(ctx context.Context, d []byte) error {
		_, err := verifhook.Sign(ctx, &verifhook.SignOptions{ParseOptions: po(d), PrivateKey: new(dsig.PrivateKey)})
		return err
	}},
	{"cli.Verify(key)", func(ctx context.Context, d []byte) error { return verifhook.Verify(ctx, bytes.NewReader(d), key.Public()) }},
	{"cli.Verify(other key)", func(ctx context.Context, d []byte) error {
		return verifhook.Verify(ctx, bytes.NewReader(d), key2.Public())
	}},
	{"cli.Verify(key=nil)", func(ctx context.Context, d []byte) error { return verifhook.Verify(ctx, bytes.NewReader(d), nil) }},
	{"cli.Verify(zero key)", func(ctx context.Context, d []byte) error {
		return verifhook.Verify(ctx, bytes.NewReader(d), new(dsig.PublicKey))
	}},
	{"cli.Correct(credit)", func(ctx context.Context, d []byte) error {
		_, err := verifhook.Correct(ctx, &verifhook.CorrectOptions{ParseOptions: po(d), Credit: true})
		return err
	}},
	{"cli.Correct(no option)", func(ctx context.Context, d []byte) error {
		_, err := verifhook.Correct(ctx, &verifhook.CorrectOptions{ParseOptions: po(d)})
		return err
	}},
	{"cli.Correct(credit+debit)", func(ctx context.Context, d []byte) error {
		_, err := verifhook.Correct(ctx, &verifhook.CorrectOptions{ParseOptions: po(d), Credit: true, Debit: true})
		return err
	}},
	{"cli.Correct(data=null)", func(ctx context.Context, d []byte) error {
		_, err := verifhook.Correct(ctx, &verifhook.CorrectOptions{ParseOptions: po(d), Data: []byte("null")})
		return err
	}},
	{"cli.Correct(data={stamps:[null]})", func(ctx context.Context, d []byte) error {
		_, err := verifhook.Correct(ctx, &verifhook.CorrectOptions{ParseOptions: po(d), Data: []byte(`{"type":"credit-note","stamps":[null],"ext":null}`)})
		return err
	}},
	{"cli.Correct(schema)", func(ctx context.Context, d []byte) error {
		_, err := verifhook.Correct(ctx, &verifhook.CorrectOptions{ParseOptions: po(d), OptionsSchema: true})
		return err
	}},
	{"cli.Replicate", func(ctx context.Context, d []byte) error {
		_, err := verifhook.Replicate(ctx, &verifhook.ReplicateOptions{ParseOptions: po(d)})
		return err
	}},
}

// cliMutantEntries: the entries also run on the envelope-level mutants of the signed bases.
var cliMutantEntries = []string{"cli.Verify(key)", "cli.Validate", "cli.Sign(key)", "cli.Verify(key)", "cli.Correct(credit)", "cli.Replicate"}

// checkCliErr: an error of the command line layer is a *cli.Error with a
// code and something that says what went wrong.
func checkCliErr(stage string, err error, issues *[]errIssue) {
	if err == nil {
		return
	}
	we := verifhook.WrapError(err)
	if we == nil {
		*issues = append(*issues, errIssue{stage, "WrapError of a non-nil error is nil"})
		return
	}
	if we.Code == 0 || (we.Key == "" && we.Message == "" && we.Fields == nil) {
		*issues = append(*issues, errIssue{stage, "command line error without code / key / message"})
	}
	if we.Key != "" && !documentedKeys[string(we.Key)] {
		*issues = append(*issues, errIssue{stage, "undocumented key " + string(we.Key)})
	}
	if p := core.Protect(func() { _, _ = json.Marshal(we) }); p != "" {
		*issues = append(*issues, errIssue{stage, "json.Marshal(error) panicked"})
	}
}

func runCliInproc(t tcase) (panics []panicRec, issues []errIssue, reached string) {
	name, input := t.Kind, []byte(t.Doc)
	if strings.HasSuffix(name, " [no input]") {
		name, input = strings.TrimSuffix(name, " [no input]"), nil
	}
	var ent *cliEntry
	for i := range cliEntries {
		if cliEntries[i].name == name {
			ent = &cliEntries[i]
		}
	}
	if ent == nil {
		return nil, nil, "cli-inproc-unknown-entry"
	}
	if namesSelfSchema(input) {
		return nil, nil, "skipped-fatal-self-schema"
	}
	ctx, cancel := context.WithTimeout(context.Background(), caseTimeout)
	defer cancel()
	var err error
	site, msg, _ := core.ProtectSite(func() { err = ent.f(ctx, input) })
	if site != "" {
		return []panicRec{{"cli-inproc", site, t.Kind + ": " + msg}}, nil, "cli-inproc-panic"
	}
	checkCliErr("cli-inproc:"+name, err, &issues)
	if err != nil {
		return nil, issues, "cli-inproc-error"
	}
	return nil, issues, "cli-inproc-ok"
}

// runBulkInproc feeds a request stream to cli.Bulk and judges the responses
// like judgeStream does for the built server.
func runBulkInproc(t tcase) (panics []panicRec, issues []errIssue, reached string) {
	if namesSelfSchema([]byte(t.Doc)) {
		return nil, nil, "skipped-fatal-self-schema"
	}
	opts := &verifhook.BulkOptions{In: strings.NewReader(t.Doc)}
	if !strings.HasSuffix(t.Name, "[no default key]") {
		opts.DefaultPrivateKey = key
	}
	complete, maxResp := -1, 3
	var k int
	if _, e := fmt.Sscanf(t.Kind, "%d complete requests", &k); e == nil {
		complete, maxResp = k, k
	}
	ctx, cancel := context.WithCancel(context.Background())
	defer cancel()
	var rs []*verifhook.BulkResponse
	ended := false
	site, msg, _ := core.ProtectSite(func() {
		ch := verifhook.Bulk(ctx, opts)
		deadline := time.After(10 * time.Second)
		for {
			select {
			case r, ok := <-ch:
				if !ok {
					ended = true
					return
				}
				rs = append(rs, r)
				if len(rs) > maxResp+50 {
					return
				}
			case <-deadline:
				return
			}
		}
	})
	stage := "bulk-inproc"
	if site != "" {
		return []panicRec{{stage, site, msg}}, nil, "bulk-inproc-panic"
	}
	if !ended {
		if len(rs) > maxResp+50 {
			issues = append(issues, errIssue{stage, "the stream of responses does not end (more than 50 responses beyond the number of requests)"})
		} else {
			issues = append(issues, errIssue{stage, "the stream of responses is still open after 10s"})
		}
		return nil, issues, "bulk-inproc-endless"
	}
	finals := 0
	for _, r := range rs {
		if r != nil && r.IsFinal {
			finals++
		}
	}
	switch {
	case len(rs) == 0 || finals != 1 || rs[len(rs)-1] == nil || !rs[len(rs)-1].IsFinal:
		issues = append(issues, errIssue{stage, "not exactly one final response, the last one"})
	case complete >= 0 && len(rs)-1 != complete:
		issues = append(issues, errIssue{stage, "requests read completely and responses before the final one differ in number"})
	case len(rs)-1 > maxResp:
		issues = append(issues, errIssue{stage, "more responses than requests"})
	}
	for _, r := range rs {
		if r == nil || r.Error == nil {
			continue
		}
		if r.Error.Code == 0 || (r.Error.Key == "" && r.Error.Message == "" && r.Error.Fields == nil) {
			issues = append(issues, errIssue{stage, "bulk error without code / key / message"})
		}
		if r.Error.Key != "" && !documentedKeys[string(r.Error.Key)] {
			issues = append(issues, errIssue{stage, "undocumented key " + string(r.Error.Key)})
		}
	}
	_ = io.Discard
	return nil, issues, "bulk-inproc-ok"
}

// cliInprocCases: the entries over a sample of bases; the request-level
// mutations and cut-off streams over one pair of bases.
func cliInprocCases(c *core.Ctx, exs, bases []example) []tcase {
	var out []tcase
	byName := map[string][]byte{}
	for _, ex := range exs {
		byName[ex.name] = ex.data
	}
	var pairs [][2]example
	for _, b := range bases {
		if strings.HasPrefix(b.name, "signed/") {
			if src, ok := byName[strings.TrimPrefix(b.name, "signed/")]; ok {
				pairs = append(pairs, [2]example{{name: strings.TrimPrefix(b.name, "signed/"), data: src}, b})
			}
		}
	}
	if len(pairs) == 0 {
		return nil
	}
	var docs []example
	for _, i := range sampleIdx(c, len(pairs), c.Pick(8, 80)) {
		docs = append(docs, pairs[i][0], pairs[i][1])
	}
	for _, i := range sampleIdx(c, len(bases), c.Pick(6, 40)) {
		docs = append(docs, bases[i])
	}
	for _, d := range docs {
		for _, e := range cliEntries {
			out = append(out, tcase{Stream: "cli-inproc", Name: d.name, Kind: e.name, Doc: string(d.data)})
		}
	}
	for _, e := range cliEntries {
		out = append(out, tcase{Stream: "cli-inproc", Kind: e.name + " [no input]"})
	}
	// bulk, in-process
	var small [][2]example
	for _, p := range pairs {
		if len(p[1].data) < 20000 {
			small = append(small, p)
		}
	}
	if len(small) == 0 {
		small = pairs
	}
	for n, i := range sampleIdx(c, len(small), c.Pick(1, 3)) {
		pr := small[i]
		reqs := enumerateRequests(pr[0].data, pr[1].data)
		for _, j := range sampleIdx(c, len(reqs), c.Pick(700, len(reqs))) {
			m := reqs[j]
			names := []string{"[no default key]"}
			if m.action == "sign" {
				names = append(names, "[default key]")
			}
			for _, nm := range names {
				out = append(out, tcase{Stream: "bulk-inproc", Name: m.action + " " + nm, Path: m.p.String(), Kind: m.action + ": " + m.kind,
					gen: func() []byte {
						x := m.text
						if m.kind != "as-it-is" {
							x = apply(m.text, m.p, m.kind)
						}
						if x == nil {
							return nil
						}
						return []byte(pingReq("a") + "\n" + string(x) + "\n" + pingReq("c") + "\n")
					}})
			}
		}
		if n == 0 {
			streams, _, kinds := truncatedStreams(c, pr[0].data)
			for k, s := range streams {
				out = append(out, tcase{Stream: "bulk-inproc", Name: "stream [no default key]", Kind: kinds[k], Doc: s})
			}
		}
	}
	return out
}
