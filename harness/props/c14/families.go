package c14

import (
	"encoding/base64"
	"encoding/json"
	"fmt"
	"os"
	"path/filepath"
	"regexp"
	"sort"
	"strings"
	"sync"
	"time"

	"github.com/invopop/gobl"
	"github.com/invopop/gobl/dsig"

	"verifharness/internal/core"
)

// Families added to the search (all generic: none names a function of the
// library or a member it was written for):
//
//   signed bases   every example envelope signed with the harness key (one
//                  signature; for a part of them two signatures by two keys;
//                  for a part of them a header that carries every member its
//                  schema declares - stamps, links, tags, meta, notes - signed
//                  likewise).  They are bases of the WHOLE existing mutation
//                  space: before, every mutant of every example was unsigned
//                  and Verify returned at its first line.
//   sigpayload:    the JSON a signature signs (the JWS payload: a header) is
//                  taken out of a signed base, mutated by the existing
//                  structural mutations (and by the schema-add candidates of
//                  the header schema), signed again with the harness key and
//                  put back: a VALID signature over a hostile payload.
//   schema-add:    every object of every example is compared with its
//                  published schema; every property the schema declares and
//                  the object lacks is added, with candidate values by
//                  declared type / format / reference (schemawalk.go);
//   schema-add2:   two such additions inside one object.
//   dup-to-end / dup-to-front:  a copy of an array element placed at the other
//                  end of its array (the existing dup-element puts it next to
//                  the original).
//   entry "unmarshal":  the same stages entered through
//                  json.Unmarshal(data, new(gobl.Envelope)) - what NewEnvelope's
//                  documentation recommends and internal/cli.Verify does -
//                  instead of gobl.Parse; used for every mutation outside "doc".
//
// nil / zero arguments and the request-level families of the bulk endpoint
// and the command line are in nilargs.go and bulkreq.go.

/* ---------- signed bases ---------- */

type baseInfo struct {
	signed bool // carries signatures
	rich   bool // generated: header with every declared member
	nsigs  int
}

// rawSign appends a signature of the envelope's header by k without the
// validation Envelope.Sign performs: a base has to exist for the examples
// that are not valid in the signed context as well.
func rawSign(env *gobl.Envelope, k *dsig.PrivateKey) bool {
	if env.Head == nil {
		return false
	}
	sig, err := k.Sign(env.Head)
	if err != nil {
		return false
	}
	env.Signatures = append(env.Signatures, sig)
	return true
}

func parseEnvelope(data []byte) *gobl.Envelope {
	var env *gobl.Envelope
	_ = core.Protect(func() {
		obj, err := gobl.Parse(data)
		if err != nil {
			return
		}
		env, _ = obj.(*gobl.Envelope)
	})
	return env
}

// vary: a second array element that differs from the first in its first string member.
func vary(v any) any {
	b, _ := json.Marshal(v)
	cp, err := parseAny(b)
	if err != nil {
		return v
	}
	if m, ok := cp.(map[string]any); ok {
		keys := make([]string, 0, len(m))
		for k := range m {
			keys = append(keys, k)
		}
		sort.Strings(keys)
		for _, k := range keys {
			if s, ok := m[k].(string); ok && !strings.Contains(s, "://") {
				m[k] = s + "2"
				break
			}
		}
	}
	if s, ok := cp.(string); ok {
		return s + "2"
	}
	return cp
}

// richHeader fills every property the header schema declares and the header
// lacks with an acceptable value (arrays: two elements).
func richHeader(ss *schemaSet, pool instancePool, data []byte) []byte {
	root, err := parseAny(data)
	if err != nil {
		return nil
	}
	top, ok := root.(map[string]any)
	if !ok {
		return nil
	}
	hd, ok := top["head"].(map[string]any)
	if !ok {
		return nil
	}
	rs, ok := ss.rootSchema(root)
	if !ok {
		return nil
	}
	hs, ok := ss.prop(rs, "head")
	if !ok {
		return nil
	}
	for _, k := range hs.props() {
		if _, present := hd[k]; present {
			continue
		}
		ps, _ := ss.prop(hs, k)
		for _, cd := range ss.candidates(ps, pool) {
			if !cd.good {
				continue
			}
			v := cd.val
			if a, ok := v.([]any); ok && len(a) == 1 {
				v = []any{a[0], vary(a[0])}
			}
			hd[k] = v
			break
		}
	}
	b, err := json.Marshal(root)
	if err != nil {
		return nil
	}
	return b
}

// signedBases makes the signed (and generated) bases out of the example envelopes.
func signedBases(c *core.Ctx, exs []example, ss *schemaSet, pool instancePool) (out []example, info map[string]baseInfo) {
	info = map[string]baseInfo{}
	n := 0
	for _, ex := range exs {
		env := parseEnvelope(ex.data)
		if env == nil || len(env.Signatures) > 0 {
			continue
		}
		add := func(name string, src []byte, keys []*dsig.PrivateKey, bi baseInfo) {
			e := parseEnvelope(src)
			if e == nil {
				return
			}
			for _, k := range keys {
				if !rawSign(e, k) {
					return
				}
			}
			b, err := json.Marshal(e)
			if err != nil {
				return
			}
			bi.signed, bi.nsigs = true, len(keys)
			out = append(out, example{name: name, data: b})
			info[name] = bi
			c.Count("base."+strings.SplitN(name, "/", 2)[0], 1)
		}
		add("signed/"+ex.name, ex.data, []*dsig.PrivateKey{key}, baseInfo{})
		if n%6 == 0 {
			// two signers (the verifier knows one of them); and the same signer twice
			add("signed2/"+ex.name, ex.data, []*dsig.PrivateKey{key, key2}, baseInfo{})
			add("signed2same/"+ex.name, ex.data, []*dsig.PrivateKey{key, key}, baseInfo{})
		}
		if n%4 == 0 {
			if rh := richHeader(ss, pool, ex.data); rh != nil {
				add("signedrich/"+ex.name, rh, []*dsig.PrivateKey{key}, baseInfo{rich: true})
			}
		}
		n++
	}
	return out, info
}

/* ---------- sigpayload: mutate what a signature signs, sign it again ---------- */

// payloadOf returns the JSON text signed by the i-th signature of an envelope text.
func payloadOf(data []byte, i int) []byte {
	var top struct {
		Sigs []string `json:"sigs"`
	}
	if json.Unmarshal(data, &top) != nil || i >= len(top.Sigs) {
		return nil
	}
	parts := strings.Split(top.Sigs[i], ".")
	if len(parts) != 3 {
		return nil
	}
	b, err := base64.RawURLEncoding.DecodeString(parts[1])
	if err != nil {
		return nil
	}
	return b
}

// resign signs payload text (any JSON value) with k and puts the signature at sigs[i].
func resign(data []byte, i int, payload []byte, k *dsig.PrivateKey) []byte {
	if !json.Valid(payload) {
		return nil
	}
	sig, err := dsig.NewSignature(k, json.RawMessage(payload))
	if err != nil {
		return nil
	}
	root, err := parseAny(data)
	if err != nil {
		return nil
	}
	top, ok := root.(map[string]any)
	if !ok {
		return nil
	}
	sigs, ok := top["sigs"].([]any)
	if !ok || i >= len(sigs) {
		return nil
	}
	sigs[i] = sig.String()
	b, err := json.Marshal(root)
	if err != nil {
		return nil
	}
	return b
}

type payloadMut struct {
	ex   int
	sig  int
	p    path
	kind string // a kind of mutate.go, "root:<json>", or "schema-add:<prop>=<label>" with val
	prop string
	val  any
}

var payloadRoots = []string{`null`, `[]`, `{}`, `"x"`, `7`, `true`, `[null]`, `{"uuid":null}`, `{"stamps":[null],"links":[null],"tags":[null]}`}

func enumeratePayload(exs []example, info map[string]baseInfo, ss *schemaSet, pool instancePool) []payloadMut {
	var out []payloadMut
	hs, haveHS := ss.byID("https://gobl.org/draft-0/head/header")
	for i, ex := range exs {
		bi := info[ex.name]
		if !bi.signed {
			continue
		}
		for s := 0; s < bi.nsigs; s++ {
			pl := payloadOf(ex.data, s)
			if pl == nil {
				continue
			}
			root, err := parseAny(pl)
			if err != nil {
				continue
			}
			var ps []path
			paths(root, nil, &ps)
			for _, p := range ps {
				for _, k := range kindsFor(p, get(root, p)) {
					out = append(out, payloadMut{ex: i, sig: s, p: p, kind: k})
				}
			}
			for _, r := range payloadRoots {
				out = append(out, payloadMut{ex: i, sig: s, kind: "root:" + r})
			}
			if m, ok := root.(map[string]any); ok && haveHS {
				for _, k := range hs.props() {
					if _, present := m[k]; present {
						continue
					}
					pc, _ := ss.prop(hs, k)
					for _, cd := range ss.candidates(pc, pool) {
						out = append(out, payloadMut{ex: i, sig: s, kind: "schema-add:" + k + "=" + cd.label, prop: k, val: cd.val})
					}
				}
			}
		}
	}
	return out
}

func (m payloadMut) apply(exs []example) []byte {
	data := exs[m.ex].data
	pl := payloadOf(data, m.sig)
	if pl == nil {
		return nil
	}
	var mutated []byte
	switch {
	case strings.HasPrefix(m.kind, "root:"):
		mutated = []byte(strings.TrimPrefix(m.kind, "root:"))
	case m.prop != "":
		root, err := parseAny(pl)
		if err != nil {
			return nil
		}
		mm, ok := root.(map[string]any)
		if !ok {
			return nil
		}
		mm[m.prop] = m.val
		mutated, _ = json.Marshal(root)
	default:
		mutated = apply(pl, m.p, m.kind)
	}
	if mutated == nil {
		return nil
	}
	// the signer of that position signs again (a valid signature over the mutated payload)
	k := key
	if m.sig == 1 && strings.HasPrefix(exs[m.ex].name, "signed2/") {
		k = key2
	}
	return resign(data, m.sig, mutated, k)
}

/* ---------- schema-add ---------- */

type addSpec struct {
	ex    int
	p     path // the object that receives the members
	props []string
	vals  []any
	label string
}

func (a addSpec) apply(exs []example) []byte {
	root, err := parseAny(exs[a.ex].data)
	if err != nil {
		return nil
	}
	var obj any = root
	if len(a.p) > 0 {
		obj = get(root, a.p)
	}
	m, ok := obj.(map[string]any)
	if !ok {
		return nil
	}
	for i, k := range a.props {
		m[k] = a.vals[i]
	}
	b, err := json.Marshal(root)
	if err != nil {
		return nil
	}
	return b
}

// buildPool collects the smallest instance of every definition over all examples.
func buildPool(ss *schemaSet, exs []example) instancePool {
	pool := instancePool{}
	for _, ex := range exs {
		root, err := parseAny(ex.data)
		if err != nil {
			continue
		}
		rs, ok := ss.rootSchema(root)
		ss.walkTyped(root, rs, ok, nil, func(_ path, v any, sch snode, ok bool) {
			if ok && sch.m != nil {
				pool.offer(sch.name, v)
			}
		})
	}
	return pool
}

// enumerateAdds lists, for every object of every base, every declared
// property it lacks x every candidate value (singles), and pairs of
// additions inside one object (pairs; per definition and set of present
// members at most pairNodes objects of the whole corpus are expanded).
// only restricts the objects looked at (nil: all).
func enumerateAdds(ss *schemaSet, pool instancePool, exs []example, only func(ex int, p path) bool, pairNodes int) (singles, pairs []addSpec) {
	candCache := map[string][]cand{}
	cands := func(obj snode, k string) []cand {
		id := obj.name + "|" + k
		if cs, ok := candCache[id]; ok {
			return cs
		}
		ps, _ := ss.prop(obj, k)
		cs := ss.candidates(ps, pool)
		candCache[id] = cs
		return cs
	}
	seenSig := map[string]int{}
	for i, ex := range exs {
		root, err := parseAny(ex.data)
		if err != nil {
			continue
		}
		rs, ok := ss.rootSchema(root)
		ss.walkTyped(root, rs, ok, nil, func(p path, v any, sch snode, ok bool) {
			m, isObj := v.(map[string]any)
			if !ok || !isObj || sch.m == nil {
				return
			}
			if only != nil && !only(i, p) {
				return
			}
			var missing []string
			for _, k := range sch.props() {
				if _, present := m[k]; !present {
					missing = append(missing, k)
				}
			}
			if _, isMap := ss.mapValue(sch); isMap && len(sch.props()) == 0 {
				if _, present := m["zz-added"]; !present {
					missing = append(missing, "zz-added")
				}
			}
			for _, k := range missing {
				for _, cd := range cands(sch, k) {
					singles = append(singles, addSpec{ex: i, p: p, props: []string{k}, vals: []any{cd.val}, label: "schema-add:" + k + "=" + cd.label})
				}
			}
			if len(missing) < 2 || pairNodes <= 0 {
				return
			}
			present := make([]string, 0, len(m))
			for k := range m {
				present = append(present, k)
			}
			sort.Strings(present)
			sig := sch.name + "|" + strings.Join(present, ",")
			if seenSig[sig] >= pairNodes {
				return
			}
			seenSig[sig]++
			// of each property: the value meant to be accepted and the first hostile one
			pick := func(k string) (good, bad *cand) {
				cs := cands(sch, k)
				for j := range cs {
					if cs[j].good && good == nil {
						good = &cs[j]
					}
					if !cs[j].good && bad == nil && !isEmptyish(cs[j].val) {
						bad = &cs[j]
					}
				}
				if bad == nil {
					for j := range cs {
						if !cs[j].good {
							bad = &cs[j]
							break
						}
					}
				}
				return
			}
			for a := 0; a < len(missing); a++ {
				ga, ba := pick(missing[a])
				for b := a + 1; b < len(missing); b++ {
					gb, bb := pick(missing[b])
					for _, pr := range [][2]*cand{{ba, gb}, {ga, bb}, {ba, bb}, {ga, gb}} {
						if pr[0] == nil || pr[1] == nil {
							continue
						}
						pairs = append(pairs, addSpec{ex: i, p: p, props: []string{missing[a], missing[b]}, vals: []any{pr[0].val, pr[1].val},
							label: "schema-add2:" + missing[a] + "=" + pr[0].label + "," + missing[b] + "=" + pr[1].label})
					}
				}
			}
		})
	}
	return
}

func isEmptyish(v any) bool {
	switch x := v.(type) {
	case string:
		return x == ""
	case map[string]any:
		return len(x) == 0
	case []any:
		return len(x) == 0
	}
	return false
}

// mixedPair: one hostile code-like value beside one accepted structured value
// (the stratum the quick tier prefers among the pairs).
func (a addSpec) mixedPair() bool {
	if len(a.vals) != 2 {
		return false
	}
	code := func(v any) bool { s, ok := v.(string); return ok && (s == "QQQ" || s == "qqq") }
	structured := func(v any) bool {
		switch x := v.(type) {
		case map[string]any:
			return len(x) > 0
		case []any:
			return len(x) > 0 && x[0] != nil
		}
		return false
	}
	return (code(a.vals[0]) && structured(a.vals[1])) || (code(a.vals[1]) && structured(a.vals[0]))
}

/* ---------- copies of an array element at the other end of the array ---------- */

type farDup struct {
	ex    int
	p     path // the element
	front bool
}

func enumerateFarDups(exs []example) []farDup {
	var out []farDup
	for i, ex := range exs {
		root, err := parseAny(ex.data)
		if err != nil {
			continue
		}
		var ps []path
		paths(root, nil, &ps)
		for _, p := range ps {
			if _, ok := p[len(p)-1].(int); !ok {
				continue
			}
			out = append(out, farDup{i, p, false}, farDup{i, p, true})
		}
	}
	return out
}

func (d farDup) apply(exs []example) []byte {
	root, err := parseAny(exs[d.ex].data)
	if err != nil {
		return nil
	}
	el := get(root, d.p)
	b, _ := json.Marshal(el)
	cp, _ := parseAny(b)
	root = edit(root, d.p, func(parent, _ any) any {
		a, ok := parent.([]any)
		if !ok {
			return parent
		}
		if d.front {
			return append([]any{cp}, a...)
		}
		return append(append([]any{}, a...), cp)
	})
	out, err := json.Marshal(root)
	if err != nil {
		return nil
	}
	return out
}

/* ---------- putting the new cases together ---------- */

func sampleIdx(c *core.Ctx, n, want int) []int {
	if want >= n {
		out := make([]int, n)
		for i := range out {
			out[i] = i
		}
		return out
	}
	return c.Rng.Perm(n)[:want]
}

func outsideDoc(p path) bool {
	if len(p) == 0 {
		return true
	}
	k, _ := p[0].(string)
	return k != "doc"
}

// newFamilyCases builds the cases of the families of this file.  exs are the
// examples of the existing run; the signed bases are made here.
func newFamilyCases(c *core.Ctx, exs []example) (cases []tcase, bases []example, info map[string]baseInfo) {
	ss, err := loadSchemas(c.Repo)
	if err != nil {
		c.TieBroken("c14/schemas", "the published schemas could not be read: "+err.Error(), nil)
		return nil, nil, nil
	}
	pool := buildPool(ss, exs)
	c.Count("schema.files", int64(len(ss.files)))
	c.Count("schema.instance-pool", int64(len(pool)))
	bases, info = signedBases(c, exs, ss, pool)
	thorough := c.Thorough()

	// (a) the signed bases themselves and the existing mutation space over them
	for _, b := range bases {
		cases = append(cases, tcase{Stream: "signed-base", Name: b.name, Doc: string(b.data)})
		cases = append(cases, tcase{Stream: "signed-base", Name: b.name, Doc: string(b.data), Entry: "unmarshal"})
	}
	space := enumerate(bases)
	c.Count("signed-mutation-space.size", int64(len(space)))
	for _, i := range sampleIdx(c, len(space), c.Pick(6000, len(space))) {
		m := space[i]
		cases = append(cases, tcase{Stream: "signed-mutation", Name: bases[m.ex].name, Path: m.p.String(), Kind: m.kind,
			gen: func() []byte { return apply(bases[m.ex].data, m.p, m.kind) }})
	}
	// every mutation outside "doc" also through json.Unmarshal into an Envelope
	// (old examples and signed bases): complete, the space is small
	all := append(append([]example{}, exs...), bases...)
	var envLevel []mutSpec
	for _, m := range enumerate(all) {
		if outsideDoc(m.p) && !strings.HasPrefix(m.kind, "deep-") && !strings.HasPrefix(m.kind, "legacy:") && !strings.HasPrefix(m.kind, "num-text:") {
			if _, isEnv := envelopeLike(all[m.ex].data); isEnv {
				envLevel = append(envLevel, m)
			}
		}
	}
	c.Count("envelope-level-space.size", int64(len(envLevel)))
	for n, i := range sampleIdx(c, len(envLevel), c.Pick(3000, len(envLevel))) {
		m := envLevel[i]
		gen := func() []byte { return apply(all[m.ex].data, m.p, m.kind) }
		cases = append(cases, tcase{Stream: "envelope-level", Name: all[m.ex].name, Path: m.p.String(), Kind: m.kind, Entry: "unmarshal", gen: gen})
		// and through the command line layer, which reads an envelope in its own way
		if hook := cliMutantEntries; len(hook) > 0 && info[all[m.ex].name].signed {
			cases = append(cases, tcase{Stream: "cli-inproc", Name: all[m.ex].name, Path: m.p.String(), Kind: hook[n%len(hook)], gen: gen})
		}
	}

	// (b) sigpayload
	pms := enumeratePayload(bases, info, ss, pool)
	c.Count("sigpayload-space.size", int64(len(pms)))
	richSeen := 0
	richFull := map[int]bool{}
	for i, b := range bases {
		if info[b.name].rich && richSeen < 3 {
			richFull[i] = true
			richSeen++
		}
	}
	chosen := map[int]bool{}
	for i, m := range pms {
		if thorough || richFull[m.ex] {
			chosen[i] = true
		}
	}
	if !thorough {
		for _, i := range sampleIdx(c, len(pms), c.Pick(1500, 0)) {
			chosen[i] = true
		}
	}
	idx := make([]int, 0, len(chosen))
	for i := range chosen {
		idx = append(idx, i)
	}
	sort.Ints(idx)
	for _, i := range idx {
		m := pms[i]
		entries := []string{"", "unmarshal"}
		if !thorough && !richFull[m.ex] {
			entries = entries[i%2 : i%2+1]
		}
		for _, entry := range entries {
			cases = append(cases, tcase{Stream: "sigpayload", Name: bases[m.ex].name, Path: fmt.Sprintf("sigs[%d]:%s", m.sig, m.p.String()), Kind: "sigpayload:" + m.kind, Entry: entry,
				gen: func() []byte { return m.apply(bases) }})
		}
	}

	// (c) schema-add over the examples (all objects) and the signed bases (objects outside "doc")
	pairNodes := 1
	if thorough {
		pairNodes = 2
	}
	nOld := len(exs)
	singles, pairs := enumerateAdds(ss, pool, all, func(ex int, p path) bool { return ex < nOld || outsideDoc(p) }, pairNodes)
	c.Count("schema-add-space.singles", int64(len(singles)))
	c.Count("schema-add-space.pairs", int64(len(pairs)))
	for _, i := range sampleIdx(c, len(singles), c.Pick(6000, len(singles))) {
		a := singles[i]
		cases = append(cases, tcase{Stream: "schema-add", Name: all[a.ex].name, Path: a.p.String(), Kind: a.label,
			gen: func() []byte { return a.apply(all) }})
	}
	var mixed, rest []addSpec
	for _, a := range pairs {
		if a.mixedPair() {
			mixed = append(mixed, a)
		} else {
			rest = append(rest, a)
		}
	}
	c.Count("schema-add-space.pairs-mixed", int64(len(mixed)))
	for _, part := range []struct {
		l []addSpec
		n int
	}{{mixed, len(mixed)}, {rest, c.Pick(1000, len(rest))}} {
		for _, i := range sampleIdx(c, len(part.l), part.n) {
			a := part.l[i]
			cases = append(cases, tcase{Stream: "schema-add2", Name: all[a.ex].name, Path: a.p.String(), Kind: a.label,
				gen: func() []byte { return a.apply(all) }})
		}
	}

	// (e) far duplicates: complete over the examples (small)
	fds := enumerateFarDups(exs)
	c.Count("far-dup-space.size", int64(len(fds)))
	for _, i := range sampleIdx(c, len(fds), c.Pick(4000, len(fds))) {
		d := fds[i]
		k := "dup-to-end"
		if d.front {
			k = "dup-to-front"
		}
		cases = append(cases, tcase{Stream: "mutation", Name: exs[d.ex].name, Path: d.p.String(), Kind: k,
			gen: func() []byte { return d.apply(exs) }})
	}
	return cases, bases, info
}

func envelopeLike(data []byte) (map[string]any, bool) {
	var top map[string]any
	if json.Unmarshal(data, &top) != nil {
		return nil, false
	}
	s, _ := top["$schema"].(string)
	return top, strings.HasSuffix(s, "/envelope")
}

// apiLevel: cases that are calls of the API rather than documents.
func apiLevel(t tcase) bool {
	return t.Stream == "nilarg" || t.Stream == "cli-inproc" || t.Stream == "bulk-inproc"
}

var (
	streamTimeMu sync.Mutex
	streamTime   = map[string]time.Duration{}
)

// runCase runs one in-process case by its stream (and keeps the time spent per stream).
func runCase(t tcase) ([]panicRec, []errIssue, string) {
	t0 := time.Now()
	defer func() {
		d := time.Since(t0)
		streamTimeMu.Lock()
		streamTime[t.Stream] += d
		streamTimeMu.Unlock()
	}()
	switch t.Stream {
	case "nilarg":
		return runNilArg(t)
	case "cli-inproc":
		return runCliInproc(t)
	case "bulk-inproc":
		return runBulkInproc(t)
	}
	if t.Stream == "edge" {
		return pipelineOpts([]byte(t.Doc), t.Entry, true)
	}
	return pipelineEntry([]byte(t.Doc), t.Entry)
}

var furtherN int

// furtherWitness: core keeps the first five violations of a run; a defect
// found after that still gets a replay file (same format, `--replay` works)
// and a line on standard error, so that one run reports everything it found.
func furtherWitness(c *core.Ctx, cls, what string, t tcase, always bool) {
	if _, known := c.KnownClassifier(cls); known {
		return
	}
	if len(c.Violations) < 5 && !always {
		return
	}
	furtherN++
	dir := filepath.Join(c.Root, "replays")
	_ = os.MkdirAll(dir, 0o755)
	p := filepath.Join(dir, fmt.Sprintf("%s-%d-further-%d.json", c.Prop, c.Seed, furtherN))
	b, _ := json.MarshalIndent(map[string]any{"property": c.Prop, "kind": "witness", "classifier": cls, "what": what, "case": t, "seed": c.Seed, "tier": c.Tier}, "", " ")
	_ = os.WriteFile(p, b, 0o644)
	fmt.Fprintf(os.Stderr, "  further witness: %s replay=%s\n", what, p)
	c.Note("further witness: %s replay=%s", what, p)
}

// noteStreamTimes writes the worker time spent per stream into the evidence.
func noteStreamTimes(c *core.Ctx) {
	streamTimeMu.Lock()
	defer streamTimeMu.Unlock()
	keys := make([]string, 0, len(streamTime))
	for k := range streamTime {
		keys = append(keys, k)
	}
	sort.Strings(keys)
	var sb strings.Builder
	for _, k := range keys {
		fmt.Fprintf(&sb, " %s=%.1fs", k, streamTime[k].Seconds())
	}
	c.Note("worker time per stream (16 workers):%s", sb.String())
}

var reIdx = regexp.MustCompile(`\[[0-9]+\]`)

// causeKey: family, kind of mutation and place (indices dropped) of a case.
func causeKey(t tcase) string {
	k := t.Kind
	if t.Stream == "nilarg" || t.Stream == "cli-inproc" {
		return t.Stream + "|" + k
	}
	if j := strings.Index(k, "="); j > 0 {
		k = k[:j]
	}
	if strings.HasPrefix(k, "num-text:") || strings.HasPrefix(k, "legacy:") || strings.HasPrefix(k, "dup-strip:") || strings.HasPrefix(k, "arith") || strings.HasPrefix(k, "meta:") {
		k = k[:strings.Index(k, ":")]
	}
	return t.Stream + "|" + k + "|" + reIdx.ReplaceAllString(t.Path, "[]")
}
