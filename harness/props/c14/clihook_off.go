//go:build !verif

package c14

import "verifharness/internal/core"

// Without the build tag "verif" package verifhook does not exist: the
// in-process families of the command line layer are empty (the harness is
// always built with the tag; this file keeps the package compiling without it).

func runCliInproc(t tcase) ([]panicRec, []errIssue, string)  { return nil, nil, "cli-inproc-off" }
func runBulkInproc(t tcase) ([]panicRec, []errIssue, string) { return nil, nil, "bulk-inproc-off" }
func cliInprocCases(c *core.Ctx, exs, bases []example) []tcase { return nil }

var cliMutantEntries []string
