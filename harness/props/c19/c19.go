// Package c19 checks that the published definition files are what the code
// defines, and coherent.
//
//	(a) the repo's own generators (the go:generate lines of gobl.go) are run
//	    from the CURRENT tree inside a scratch copy (removed afterwards) and
//	    their output is compared byte for byte with <repo>/data/**, with what
//	    data.Content embeds, with what the in-code definitions marshal to
//	    in-process, and with what the real `gobl serve` /bulk endpoint answers
//	    for the `schemas`, `schema` and `regime` actions.  This is a direct,
//	    exhaustive comparison over a finite set of files: Lean adds nothing to
//	    byte equality.
//	(b) the coherence specification (Spec/C19.lean) is evaluated by the Lean
//	    driver over the regenerated Generated/Defs.lean; every unresolved
//	    reference is reported with a witness document where one exists.  The
//	    kernel-checked theorem is Props/C19.lean `all_coherent`.
//	(c) RegimeDef.Validate, AddonDef.Validate and time.LoadLocation are run
//	    for every registered definition.
package c19

import (
	"bytes"
	"encoding/json"
	"fmt"
	"io"
	"io/fs"
	"net"
	"net/http"
	"os"
	"os/exec"
	"path/filepath"
	"regexp"
	"sort"
	"strings"
	"sync"
	"time"

	_ "github.com/invopop/gobl"
	"github.com/invopop/gobl/bill"
	"github.com/invopop/gobl/data"
	"github.com/invopop/gobl/schema"
	"github.com/invopop/gobl/tax"

	"verifharness/internal/conc"
	"verifharness/internal/core"
)

const (
	knownStale  = "published_file_not_generated"
	knownTagGap = "scenario_tag_without_tag_set"
)

// Case is the replay format: one file or one definition.
type Case struct {
	Kind string `json:"kind"` // file | embedded | served | marshal | issue | validate | pattern
	Path string `json:"path,omitempty"`
	Def  string `json:"def,omitempty"`
	Ref  string `json:"ref,omitempty"`
}

const rule = "one evaluation per compared file / served resource / definition / reference; non-trivial = a file or definition with content (every one of them)"

var generatedDirs = []string{"regimes", "addons", "catalogues", "schemas"}

func unhex(s string) string {
	if s == "-" {
		return ""
	}
	var out []byte
	for i := 0; i+1 < len(s); i += 2 {
		var b byte
		fmt.Sscanf(s[i:i+2], "%02x", &b)
		out = append(out, b)
	}
	return string(out)
}

// Run is the C19 harness entry point.
func Run(c *core.Ctx) int {
	var only Case
	replay := c.ReplayCase(&only)
	_ = replay // a replay re-runs the whole (finite, seconds-long) comparison

	regenerate(c)
	embedded(c)
	marshalled(c)
	served(c)
	coherence(c)
	validateDefs(c)
	// the definitions the library ENFORCES are the registered ones as they are while documents are
	// being handled: after a workload over every regime x addon combination (full pipeline incl.
	// corrections) they must still marshal to the published files
	afterUse(c)
	return c.Finish(rule, map[string]any{"exhaustive": true})
}

// ---- (a) regenerate and compare ----------------------------------------------

func goEnv() []string {
	env := os.Environ()
	return append(env, "GOFLAGS=-mod=mod", "GOPROXY=off", "GOSUMDB=off", "GOTOOLCHAIN=local")
}

func listFiles(root string) map[string]bool {
	out := map[string]bool{}
	_ = filepath.Walk(root, func(p string, info os.FileInfo, err error) error {
		if err == nil && !info.IsDir() {
			rel, _ := filepath.Rel(root, p)
			out[filepath.ToSlash(rel)] = true
		}
		return nil
	})
	return out
}

func firstDiff(a, b []byte) int {
	n := len(a)
	if len(b) < n {
		n = len(b)
	}
	for i := 0; i < n; i++ {
		if a[i] != b[i] {
			return i
		}
	}
	return n
}

func regenerate(c *core.Ctx) {
	tmp, err := os.MkdirTemp("", "c19-")
	if err != nil {
		c.TieBroken("drive:C19/regenerate", err.Error(), nil)
		return
	}
	defer os.RemoveAll(tmp)
	scratch := filepath.Join(tmp, "repo")
	if out, err := exec.Command("cp", "-r", c.Repo, scratch).CombinedOutput(); err != nil {
		c.TieBroken("drive:C19/regenerate", "copy failed: "+string(out), nil)
		return
	}
	// mark every file of the generated directories as old: whatever keeps the
	// old time stamp afterwards was not written by any generator
	old := time.Date(2000, 1, 1, 0, 0, 0, 0, time.UTC)
	for _, d := range generatedDirs {
		for rel := range listFiles(filepath.Join(scratch, "data", d)) {
			_ = os.Chtimes(filepath.Join(scratch, "data", d, rel), old, old)
		}
	}
	_ = os.Chtimes(filepath.Join(scratch, "currency", "codes.go"), old, old)
	// the generators are the go:generate lines of gobl.go
	src, err := os.ReadFile(filepath.Join(scratch, "gobl.go"))
	if err != nil {
		c.TieBroken("drive:C19/regenerate", err.Error(), nil)
		return
	}
	var gens [][]string
	for _, line := range strings.Split(string(src), "\n") {
		if rest, ok := strings.CutPrefix(strings.TrimSpace(line), "//go:generate "); ok {
			gens = append(gens, strings.Fields(rest))
		}
	}
	c.Count("generators", int64(len(gens)))
	if len(gens) == 0 {
		c.TieBroken("drive:C19/regenerate", "no go:generate lines found in gobl.go", nil)
		return
	}
	var wg sync.WaitGroup
	errs := make([]string, len(gens))
	for i, g := range gens {
		wg.Add(1)
		go func(i int, g []string) {
			defer wg.Done()
			cmd := exec.Command(g[0], g[1:]...)
			cmd.Dir = scratch
			cmd.Env = goEnv()
			if out, err := cmd.CombinedOutput(); err != nil {
				errs[i] = fmt.Sprintf("%s: %v: %s", strings.Join(g, " "), err, tail(string(out), 600))
			}
		}(i, g)
	}
	wg.Wait()
	for _, e := range errs {
		if e != "" {
			c.Fail("", "a generator of the current tree fails: "+e, Case{Kind: "file", Ref: e})
			return
		}
	}
	// compare
	have := listFiles(filepath.Join(c.Repo, "data"))
	got := listFiles(filepath.Join(scratch, "data"))
	all := map[string]bool{}
	for k := range have {
		all[k] = true
	}
	for k := range got {
		all[k] = true
	}
	paths := make([]string, 0, len(all))
	for k := range all {
		paths = append(paths, k)
	}
	sort.Strings(paths)
	for _, rel := range paths {
		if rel == "data.go" {
			continue
		}
		cs := Case{Kind: "file", Path: "data/" + rel}
		c.Eval("file:"+rel, true)
		c.Count("compared:data/"+strings.SplitN(rel, "/", 2)[0], 1)
		if !have[rel] {
			c.Fail("", "the generators produce data/"+rel+" but no such file is shipped", cs)
			continue
		}
		a, _ := os.ReadFile(filepath.Join(c.Repo, "data", rel))
		if !got[rel] {
			c.Fail("", "data/"+rel+" disappears when the generators run", cs)
			continue
		}
		b, _ := os.ReadFile(filepath.Join(scratch, "data", rel))
		if !bytes.Equal(a, b) {
			c.Fail("", fmt.Sprintf("data/%s differs from what the generators of the current tree produce (first difference at byte %d: shipped %q, generated %q)", rel, firstDiff(a, b), snippet(a, firstDiff(a, b)), snippet(b, firstDiff(a, b))), cs)
			continue
		}
		top := strings.SplitN(rel, "/", 2)[0]
		for _, d := range generatedDirs {
			if d == top {
				if st, err := os.Stat(filepath.Join(scratch, "data", rel)); err == nil && st.ModTime().Equal(old) {
					c.Fail(knownStale, "data/"+rel+" is shipped (and served) but no generator of the current tree writes it", cs)
				}
			}
		}
	}
	// currency/codes.go is the output of the fifth generator
	a, _ := os.ReadFile(filepath.Join(c.Repo, "currency", "codes.go"))
	b, _ := os.ReadFile(filepath.Join(scratch, "currency", "codes.go"))
	c.Eval("file:currency/codes.go", true)
	if !bytes.Equal(a, b) {
		c.Fail("", fmt.Sprintf("currency/codes.go differs from what currency/generate.go produces (byte %d)", firstDiff(a, b)), Case{Kind: "file", Path: "currency/codes.go"})
	}
}

func snippet(b []byte, at int) string {
	lo, hi := at-20, at+30
	if lo < 0 {
		lo = 0
	}
	if hi > len(b) {
		hi = len(b)
	}
	return string(b[lo:hi])
}

func tail(s string, n int) string {
	if len(s) > n {
		return s[len(s)-n:]
	}
	return s
}

// ---- (a) data.Content ----------------------------------------------------------

func embedded(c *core.Ctx) {
	onDisk := listFiles(filepath.Join(c.Repo, "data"))
	delete(onDisk, "data.go")
	seen := map[string]bool{}
	_ = fs.WalkDir(data.Content, ".", func(p string, d fs.DirEntry, err error) error {
		if err != nil || d.IsDir() {
			return nil
		}
		seen[p] = true
		c.Eval("embedded:"+p, true)
		c.Count("embedded-files", 1)
		a, err := data.Content.ReadFile(p)
		b, err2 := os.ReadFile(filepath.Join(c.Repo, "data", p))
		if err != nil || err2 != nil || !bytes.Equal(a, b) {
			c.Fail("", "data.Content serves "+p+" with other bytes than "+filepath.Join("data", p), Case{Kind: "embedded", Path: p})
		}
		return nil
	})
	for p := range onDisk {
		if !seen[p] {
			c.Fail("", "data/"+p+" is shipped but not embedded in data.Content", Case{Kind: "embedded", Path: p})
		}
	}
}

// ---- (a) in-process marshalling of the registered definitions ---------------------

func marshalDef(v any) ([]byte, error) {
	doc, err := schema.NewObject(v)
	if err != nil {
		return nil, err
	}
	return json.MarshalIndent(doc, "", "  ")
}

func regimeFile(r *tax.RegimeDef) string {
	n := string(r.Country)
	if r.Zone != "" {
		n += "_" + string(r.Zone)
	}
	return strings.ToLower(n)
}

func afterUse(c *core.Ctx) {
	inputs, outputs, err := conc.LoadExamples(c.Repo)
	if err != nil {
		c.TieBroken("drive:C19/after-use", err.Error(), nil)
		return
	}
	docs := append(append(conc.CrossAddons(inputs), inputs...), outputs...)
	if !c.Thorough() && len(docs) > 160 {
		// every regime x addon combination is in the first part (CrossAddons)
		docs = docs[:160]
	}
	for _, d := range docs {
		_ = conc.Pipeline(d)
	}
	c.Count("after-use:documents-handled", int64(len(docs)))
	phase = "after-use:"
	defer func() { phase = "" }()
	marshalled(c)
}

// phase prefixes the evaluation keys of a repeated comparison.
var phase string

func marshalled(c *core.Ctx) {
	cmp := func(kind, rel string, v any) {
		c.Eval(phase+"marshal:"+rel, true)
		c.Count(phase+"definitions-marshalled:"+kind, 1)
		want, err := marshalDef(v)
		have, err2 := os.ReadFile(filepath.Join(c.Repo, "data", rel))
		switch {
		case err != nil:
			c.Fail("", rel+": the registered definition does not marshal: "+err.Error(), Case{Kind: "marshal", Path: rel})
		case err2 != nil:
			c.Fail("", rel+": registered in the code but not published", Case{Kind: "marshal", Path: rel})
		case !bytes.Equal(want, have):
			c.Fail("", fmt.Sprintf(phase+"data/%s is not what the registered definition marshals to (byte %d: shipped %q, code %q)", rel, firstDiff(have, want), snippet(have, firstDiff(have, want)), snippet(want, firstDiff(have, want))), Case{Kind: "marshal", Path: rel})
		}
	}
	for _, r := range tax.AllRegimeDefs() {
		cmp("regime", "regimes/"+regimeFile(r)+".json", r)
	}
	for _, a := range tax.AllAddonDefs() {
		cmp("addon", "addons/"+string(a.Key)+".json", a)
	}
	for _, cd := range tax.AllCatalogueDefs() {
		cmp("catalogue", "catalogues/"+string(cd.Key)+".json", cd)
	}
}

// ---- (a) what the real binary serves -----------------------------------------------

type bulkResp struct {
	ReqID   string          `json:"req_id"`
	Payload json.RawMessage `json:"payload"`
	Error   *struct {
		Message string `json:"message"`
	} `json:"error"`
	IsFinal bool `json:"is_final"`
}

func compact(b []byte) []byte {
	var buf bytes.Buffer
	if err := json.Compact(&buf, b); err != nil {
		return b
	}
	return buf.Bytes()
}

func served(c *core.Ctx) {
	bin := filepath.Join(c.Root, "harness", "bin", "gobl")
	build := exec.Command("go", "build", "-o", bin, "./cmd/gobl")
	build.Dir = c.Repo
	env := os.Environ()
	build.Env = append(env, "GOFLAGS=-mod=readonly", "GOPROXY=off", "GOSUMDB=off", "GOTOOLCHAIN=local")
	if out, err := build.CombinedOutput(); err != nil {
		c.TieBroken("drive:C19/served", "cannot build cmd/gobl: "+tail(string(out), 800), nil)
		return
	}
	tmp, err := os.MkdirTemp("", "c19-serve-")
	if err != nil {
		c.TieBroken("drive:C19/served", err.Error(), nil)
		return
	}
	defer os.RemoveAll(tmp)
	key := filepath.Join(tmp, "key.jwk")
	if out, err := exec.Command(bin, "keygen", key).CombinedOutput(); err != nil {
		c.TieBroken("drive:C19/served", "keygen: "+string(out), nil)
		return
	}
	l, err := net.Listen("tcp", "127.0.0.1:0")
	if err != nil {
		c.TieBroken("drive:C19/served", err.Error(), nil)
		return
	}
	port := l.Addr().(*net.TCPAddr).Port
	_ = l.Close()
	srv := exec.Command(bin, "serve", "-p", fmt.Sprint(port), "-k", key)
	srv.Stdout, srv.Stderr = io.Discard, io.Discard
	if err := srv.Start(); err != nil {
		c.TieBroken("drive:C19/served", err.Error(), nil)
		return
	}
	defer func() { _ = srv.Process.Kill(); _, _ = srv.Process.Wait() }()
	url := fmt.Sprintf("http://127.0.0.1:%d", port)
	up := false
	for i := 0; i < 100; i++ {
		if r, err := http.Get(url + "/"); err == nil {
			_ = r.Body.Close()
			up = true
			break
		}
		time.Sleep(50 * time.Millisecond)
	}
	if !up {
		c.TieBroken("drive:C19/served", "gobl serve did not come up", nil)
		return
	}

	type want struct {
		what     string
		body     []byte // nil = must be an error
		cls      string
		cs       Case
		optional bool
	}
	wants := map[string]want{}
	reqs := map[string]string{}
	add := func(id, action string, payload any, w want) {
		p, _ := json.Marshal(payload)
		reqs[id] = fmt.Sprintf(`{"action":%q,"req_id":%q,"payload":%s}`+"\n", action, id, p)
		wants[id] = w
	}
	// every published schema file, by path
	schemaFiles := listFiles(filepath.Join(c.Repo, "data", "schemas"))
	var spaths []string
	for p := range schemaFiles {
		spaths = append(spaths, p)
	}
	sort.Strings(spaths)
	for _, p := range spaths {
		b, _ := os.ReadFile(filepath.Join(c.Repo, "data", "schemas", p))
		add("schema:"+p, "schema", map[string]string{"path": strings.TrimSuffix(p, ".json")}, want{what: "schema " + p, body: b, cs: Case{Kind: "served", Path: "data/schemas/" + p}})
	}
	// every published regime file, by its name
	regFiles := listFiles(filepath.Join(c.Repo, "data", "regimes"))
	for p := range regFiles {
		b, _ := os.ReadFile(filepath.Join(c.Repo, "data", "regimes", p))
		code := strings.ToUpper(strings.TrimSuffix(p, ".json"))
		add("regimefile:"+p, "regime", map[string]string{"code": code}, want{what: "regime file " + p, body: b, cs: Case{Kind: "served", Path: "data/regimes/" + p}})
	}
	// every code under which the library knows a regime must be served with
	// what the registered definition marshals to
	for _, r := range tax.AllRegimeDefs() {
		codes := []string{string(r.Country)}
		for _, a := range r.AltCountryCodes {
			codes = append(codes, string(a))
		}
		body, _ := marshalDef(r)
		for _, code := range codes {
			cls := ""
			if _, err := os.Stat(filepath.Join(c.Repo, "data", "regimes", strings.ToLower(code)+".json")); err == nil && strings.ToLower(code) != regimeFile(r) {
				// another, separately shipped file answers for this code
				cls = knownStale
			}
			add("regimecode:"+code, "regime", map[string]string{"code": code}, want{what: "regime code " + code + " (registered as " + string(r.Country) + ")", body: body, cls: cls, cs: Case{Kind: "served", Def: code}, optional: code != string(r.Country)})
		}
	}
	add("schemas", "schemas", nil, want{what: "schemas"})
	// one POST per request: the endpoint answers while it is still reading, and
	// the HTTP/1 server drops the unread rest of a request body once it starts
	// to reply (that behaviour belongs to C15, not to this property)
	got := map[string]bulkResp{}
	var mu sync.Mutex
	var wg sync.WaitGroup
	sem := make(chan struct{}, 8)
	for id, body := range reqs {
		wg.Add(1)
		go func(id, body string) {
			defer wg.Done()
			sem <- struct{}{}
			defer func() { <-sem }()
			resp, err := http.Post(url+"/bulk", "application/json", strings.NewReader(body))
			if err != nil {
				return
			}
			defer resp.Body.Close()
			dec := json.NewDecoder(resp.Body)
			for {
				var r bulkResp
				if err := dec.Decode(&r); err != nil {
					break
				}
				if r.ReqID != "" {
					mu.Lock()
					got[r.ReqID] = r
					mu.Unlock()
				}
			}
		}(id, body)
	}
	wg.Wait()
	ids := make([]string, 0, len(wants))
	for id := range wants {
		ids = append(ids, id)
	}
	sort.Strings(ids)
	for _, id := range ids {
		w := wants[id]
		r, ok := got[id]
		c.Eval("served:"+id, true)
		c.Count("served:"+strings.SplitN(id, ":", 2)[0], 1)
		if id == "schemas" {
			var lst struct {
				List []string `json:"list"`
			}
			_ = json.Unmarshal(r.Payload, &lst)
			ids := map[string]bool{}
			for _, s := range lst.List {
				ids[strings.TrimPrefix(strings.TrimPrefix(s, schema.GOBL.String()), "/")] = true
			}
			for _, p := range spaths {
				if !ids[strings.TrimSuffix(p, ".json")] {
					c.Fail("", "data/schemas/"+p+" is published but not in the `schemas` list the binary serves", Case{Kind: "served", Path: "data/schemas/" + p})
				}
			}
			for s := range ids {
				if !schemaFiles[s+".json"] {
					c.Fail("", "schema "+s+" is listed by the binary but not published under data/schemas", Case{Kind: "served", Def: s})
				}
			}
			continue
		}
		switch {
		case !ok:
			c.TieBroken("drive:C19/served", "no response for "+id, nil)
		case r.Error != nil && w.optional:
			// an alternative country code without a file of its own: nothing is
			// served under that name, so nothing can differ
			c.Count("served:alt-code-not-served", 1)
		case r.Error != nil:
			c.Fail(w.cls, "the binary does not serve "+w.what+": "+r.Error.Message, w.cs)
		case !bytes.Equal(compact(r.Payload), compact(w.body)):
			c.Fail(w.cls, fmt.Sprintf("the binary serves %s with other content than the definition in force (byte %d of the compact form)", w.what, firstDiff(compact(r.Payload), compact(w.body))), w.cs)
		}
	}
}

// ---- (b) coherence, evaluated by the Lean driver over Generated/Defs.lean -----------

func coherence(c *core.Ctx) {
	resp, err := c.Model([]string{"list"})
	if err != nil || len(resp) != 1 || !strings.HasPrefix(resp[0], "ok ") {
		c.TieBroken("drive:C19/coherence", fmt.Sprintf("driver list failed: %v %v", err, resp), nil)
		return
	}
	f := strings.Fields(resp[0])
	var nreg int
	fmt.Sscan(f[1], &nreg)
	type reg struct {
		file, country, currency, tz string
		stale                       bool
	}
	var regs []reg
	pos := 2
	for i := 0; i < nreg; i++ {
		regs = append(regs, reg{file: unhex(f[pos]), stale: f[pos+1] == "1", country: unhex(f[pos+2]), currency: unhex(f[pos+3]), tz: unhex(f[pos+4])})
		pos += 5
	}
	var addons []string
	if pos < len(f) && f[pos] == "addons" {
		for _, a := range f[pos+2:] {
			addons = append(addons, unhex(a))
		}
	}
	var reqs []string
	for _, r := range regs {
		reqs = append(reqs, "issues regime "+core.Hex(r.file), "patterns regime "+core.Hex(r.file))
	}
	for _, a := range addons {
		reqs = append(reqs, "issues addon "+core.Hex(a), "patterns addon "+core.Hex(a))
	}
	out, err := c.Model(reqs)
	if err != nil {
		c.TieBroken("drive:C19/coherence", err.Error(), nil)
		return
	}
	judge := func(def string, stale bool, country string, issues, patterns string) {
		c.Eval("coherence:"+def, true)
		fi := strings.Fields(issues)
		if len(fi) < 2 || fi[0] != "ok" {
			c.TieBroken("drive:C19/coherence", def+": "+issues, nil)
			return
		}
		for i := 2; i+3 < len(fi)+0; i += 4 {
			kind, where, ref, known := unhex(fi[i]), unhex(fi[i+1]), unhex(fi[i+2]), fi[i+3] == "1"
			c.Count("unresolved:"+kind, 1)
			what := fmt.Sprintf("%s: %s %q (%s) does not resolve to anything defined", def, kind, ref, where)
			cs := Case{Kind: "issue", Def: def, Ref: kind + ":" + ref}
			cls := ""
			switch {
			case stale:
				cls = knownStale
			case known:
				cls = knownTagGap
				if kind == "tag" && strings.HasPrefix(where, "scenarios:bill/invoice") {
					what += "; witness: " + tagWitness(country, ref)
				}
			}
			c.Fail(cls, what, cs)
		}
		fp := strings.Fields(patterns)
		for i := 2; i+2 < len(fp); i += 3 {
			k, code, pat := unhex(fp[i]), unhex(fp[i+1]), unhex(fp[i+2])
			c.Eval("pattern:"+def+":"+k+"="+code, true)
			c.Count("pattern-governed references", 1)
			re, err := regexp.Compile(pat)
			if err != nil || !re.MatchString(code) {
				c.Fail("", fmt.Sprintf("%s: extension %s=%s does not match the published pattern %q", def, k, code, pat), Case{Kind: "pattern", Def: def, Ref: k + "=" + code})
			}
		}
	}
	i := 0
	for _, r := range regs {
		if r.stale {
			c.Count("published regime files without a registered regime", 1)
		}
		judge("data/regimes/"+r.file+".json", r.stale, r.country, out[i], out[i+1])
		// the published time zone and currency strings
		if _, err := time.LoadLocation(r.tz); err != nil {
			cls := ""
			if r.stale {
				cls = knownStale
			}
			c.Fail(cls, "data/regimes/"+r.file+".json: time zone "+r.tz+" does not load: "+err.Error(), Case{Kind: "issue", Def: r.file, Ref: "tz:" + r.tz})
		}
		i += 2
	}
	for _, a := range addons {
		judge("data/addons/"+a+".json", false, "", out[i], out[i+1])
		i += 2
	}
}

// tagWitness builds a minimal invoice of the regime carrying the tag and
// reports what validation says about it.
func tagWitness(country, tag string) string {
	doc := map[string]any{
		"$regime": country, "$tags": []string{tag}, "code": "T-1", "issue_date": "2024-06-01", "currency": "",
		"supplier": map[string]any{"name": "Supplier", "tax_id": map[string]any{"country": country}},
		"lines":    []any{map[string]any{"quantity": "1", "item": map[string]any{"name": "x", "price": "10.00"}}},
	}
	delete(doc, "currency")
	b, _ := json.Marshal(doc)
	inv := new(bill.Invoice)
	if err := json.Unmarshal(b, inv); err != nil {
		return "unmarshal: " + err.Error()
	}
	var verr error
	if p := core.Protect(func() {
		if err := inv.Calculate(); err != nil {
			verr = err
			return
		}
		verr = inv.Validate()
	}); p != "" {
		return "panic: " + p
	}
	if verr == nil {
		return fmt.Sprintf("an invoice of regime %s tagged %q validates", country, tag)
	}
	msg := verr.Error()
	if len(msg) > 160 {
		msg = msg[:160]
	}
	return fmt.Sprintf("an invoice of regime %s tagged %q is rejected: %s", country, tag, msg)
}

// ---- (c) the definitions validate -------------------------------------------------------

func validateDefs(c *core.Ctx) {
	for _, r := range tax.AllRegimeDefs() {
		name := "regime " + string(r.Country)
		c.Eval("validate:"+name, true)
		c.Count("definitions-validated:regime", 1)
		var err error
		if p := core.Protect(func() { err = r.Validate() }); p != "" {
			c.Fail("", name+": RegimeDef.Validate panics: "+p, Case{Kind: "validate", Def: name})
			continue
		}
		if err != nil {
			c.Fail("", name+": RegimeDef.Validate: "+err.Error(), Case{Kind: "validate", Def: name})
		}
		if _, err := time.LoadLocation(r.TimeZone); err != nil {
			c.Fail("", name+": time zone "+r.TimeZone+": "+err.Error(), Case{Kind: "validate", Def: name})
		}
		if r.Currency.Def() == nil {
			c.Fail("", name+": currency "+string(r.Currency)+" has no definition", Case{Kind: "validate", Def: name})
		}
	}
	for _, a := range tax.AllAddonDefs() {
		name := "addon " + string(a.Key)
		c.Eval("validate:"+name, true)
		c.Count("definitions-validated:addon", 1)
		var err error
		if p := core.Protect(func() { err = a.Validate() }); p != "" {
			c.Fail("", name+": AddonDef.Validate panics: "+p, Case{Kind: "validate", Def: name})
			continue
		}
		if err != nil {
			c.Fail("", name+": AddonDef.Validate: "+err.Error(), Case{Kind: "validate", Def: name})
		}
		for _, req := range a.Requires {
			if tax.AddonForKey(req) == nil {
				c.Fail("", name+": requires unregistered addon "+string(req), Case{Kind: "validate", Def: name})
			}
		}
	}
	for _, cd := range tax.AllCatalogueDefs() {
		c.Eval("validate:catalogue "+string(cd.Key), true)
		c.Count("definitions-validated:catalogue", 1)
	}
}
