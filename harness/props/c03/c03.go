// Package c03: under the currency rounding rule every presented amount
// re-adds exactly.  The identities are evaluated on the real output from the
// presented figures only; the same documents are also compared with the Lean
// model, for which Props/C03.lean proves the identities.
package c03

import (
	"encoding/json"
	"fmt"
	"strings"

	"github.com/invopop/gobl/bill"
	"github.com/invopop/gobl/l10n"
	"github.com/invopop/gobl/tax"

	"verifharness/internal/calcproto"
	"verifharness/internal/core"
	"verifharness/props/c01"
)

func effectiveRule(d *calcproto.Doc) string {
	if d.Rule != "" {
		return d.Rule
	}
	return string(tax.RegimeDefFor(l10n.TaxCountryCode(d.Country).Code()).GetRoundingRule())
}

// Run is the C03 check.
func Run(c *core.Ctx) int {
	var docs []*calcproto.Doc
	var rc c01.Case
	if c.ReplayCase(&rc) {
		docs = []*calcproto.Doc{rc.Doc}
	} else {
		n := c.Pick(4000, 300000)
		for len(docs) < n {
			o := calcproto.GenOpts{CurrencyOnly: true}
			if c.Thorough() && len(docs)%10 == 0 {
				o.MaxLines = 40
			}
			d := calcproto.Gen(c.Rng, o)
			// explicitly requested, or by regime default (Greece)
			if effectiveRule(d) != "currency" {
				if d.Country == "EL" {
					d.Rule = ""
				} else {
					d.Rule = "currency"
				}
			}
			docs = append(docs, d)
		}
	}
	res, err := c01.RunDocs(c, docs)
	if err != nil {
		c.TieBroken("drive:C03/model", err.Error(), nil)
		return c.Finish("", nil)
	}
	// every real output also goes through the Lean oracle Spec.C03.readdOk (the statement of C03 as one
	// executable function, proved of the model by Props.C03.currency_rule_readds)
	type leanCase struct {
		doc  *calcproto.Doc
		what string
	}
	var leanReqs []string
	var leanCases []leanCase
	type recalc struct {
		doc, edited *calcproto.Doc
		edit        string
		sub         uint32
		goErrs      string
		leanReq     string
	}
	var recalcs []recalc
	toLean := func(d *calcproto.Doc, inv *bill.Invoice, sub uint32, what string) {
		leanReqs = append(leanReqs, "readd "+fmt.Sprint(sub)+" "+calcproto.EncodeOut(inv))
		leanCases = append(leanCases, leanCase{d, what})
	}
	for i, d := range docs {
		r := res[i]
		inv := d.Invoice()
		var cerr error
		if pan := core.Protect(func() { cerr = inv.Calculate() }); pan != "" || cerr != nil {
			c.Count("go:error", 1)
			continue
		}
		sub := uint32(2)
		if def := inv.Currency.Def(); def != nil {
			sub = def.Subunits
		}
		if d.Rule == "" {
			c.Count("rule:regime-default", 1)
		} else {
			c.Count("rule:explicit", 1)
		}
		c.Count("cur:"+d.Cur, 1)
		priceFiner := false
		for _, l := range d.Lines {
			if l.Item != nil && l.Item.Price != nil && l.Item.Price.E > sub {
				priceFiner = true
			}
		}
		if priceFiner {
			c.Count("price-finer-than-currency", 1)
		}
		if d.Includes != "" {
			c.Count("tax-included", 1)
		}
		if !r.Agree {
			c.Count("skipped:outside-2^52-domain", 1)
			continue
		}
		c.Eval(r.Req, len(d.Lines) > 0)
		if i%997 == 0 {
			c.Sample(map[string]any{"doc": d, "go": r.GoOut})
		}
		toLean(d, inv, sub, "the calculated document")
		if errs := calcproto.ReaddIdentities(inv, sub); len(errs) > 0 {
			c.Fail("", "presented figures do not re-add under the currency rule: "+strings.Join(errs, "; "), c01.Case{Doc: d})
			continue
		}
		// edit the calculated document and calculate again: the identities must hold on the new figures
		// too, and nothing of the first calculation may survive in them
		tries := 2
		if len(docs) == 1 {
			tries = len(calcproto.Edits) // replay: every edit
		}
		for k := 0; k < tries; k++ {
			e := c.Rng.Intn(len(calcproto.Edits))
			if len(docs) == 1 {
				e = k
			}
			a, diff, ok := calcproto.RecalcAfterEdit(inv, e)
			if !ok {
				continue
			}
			c.Count("recalc-after-edit:"+calcproto.Edits[e].Name, 1)
			// the recalculated figures are judged below, once the model has said whether the EDITED
			// document is still inside the 2^52 domain (dropping a discount can move it out)
			if ed, ok := calcproto.EditDoc(d, e); ok {
				recalcs = append(recalcs, recalc{doc: d, edited: ed, edit: calcproto.Edits[e].Name, sub: sub,
					goErrs: strings.Join(calcproto.ReaddIdentities(a, sub), "; "), leanReq: "readd " + fmt.Sprint(sub) + " " + calcproto.EncodeOut(a)})
			} else {
				c.Count("skipped:recalc-edit-not-expressible-on-the-description", 1)
			}
			if diff != "" {
				// both copies went through the same arithmetic: independent of the magnitude domain
				c.Fail("", "a figure of the first calculation survives the second one: "+diff, c01.Case{Doc: d})
				break
			}
		}
		// the document with its included tax removed is a calculated document as well
		if a, ok := calcproto.AfterRemoval(inv); ok {
			if calcproto.TooLargeForRemoval(inv) || calcproto.OutsideExactDomain(a) {
				c.Count("after-removal:skipped-outside-2^52-domain", 1)
			} else {
				c.Count("after-removal", 1)
				if errs := calcproto.ReaddIdentities(a, sub); len(errs) > 0 {
					cls := ""
					if removalLeftFixedAmountFiner(a, sub) {
						cls = "c03.removalLeavesFixedAmountFiner"
					}
					c.Fail(cls, "after RemoveIncludedTaxes the presented figures do not re-add: "+strings.Join(errs, "; "), c01.Case{Doc: d})
				}
			}
		}
		if r.Agree && r.Skipped == "" && r.GoErr == "" && r.GoOut != r.Model {
			c.TieBroken("drive:C03/calc", "Go output differs from the model although the identities hold", c01.Case{Doc: d})
		}
	}
	// domain of the recalculated documents
	editedDocs := make([]*calcproto.Doc, len(recalcs))
	for k := range recalcs {
		editedDocs[k] = recalcs[k].edited
	}
	res2, err := c01.RunDocs(c, editedDocs)
	if err != nil {
		c.TieBroken("drive:C03/model", err.Error(), nil)
		return c.Finish("", nil)
	}
	failedRecalc := map[*calcproto.Doc]bool{}
	for k, rc := range recalcs {
		if r2 := res2[k]; !r2.Agree || r2.Skipped != "" || r2.GoErr != "" {
			c.Count("skipped:recalc-outside-2^52-domain", 1)
			continue
		}
		c.Count("recalc-judged", 1)
		if rc.goErrs != "" && !failedRecalc[rc.doc] {
			failedRecalc[rc.doc] = true
			c.Fail("", "after "+rc.edit+" and a second calculation the presented figures do not re-add: "+rc.goErrs, c01.Case{Doc: rc.doc})
		}
		leanReqs = append(leanReqs, rc.leanReq)
		leanCases = append(leanCases, leanCase{rc.doc, "the document recalculated after " + rc.edit})
	}
	// every OTHER public operation that hands the caller a calculated document (ConvertInto of invoices,
	// orders and deliveries, Invert, RemoveIncludedTaxes, Correct): the document handed back, and the
	// receiver a conversion is documented to leave alone, are documents "calculated with the currency
	// rule" like any other — same identities, same Lean oracle
	var replayDoc *calcproto.Doc
	if len(docs) == 1 && rc.Doc != nil {
		replayDoc = rc.Doc
	}
	forceRule := func(d *calcproto.Doc) {
		if effectiveRule(d) != "currency" {
			if d.Country == "EL" {
				d.Rule = ""
			} else {
				d.Rule = "currency"
			}
		}
	}
	opsFailed := map[*calcproto.Doc]bool{}
	opsLean := map[int]c01.Presented{}
	for _, p := range c01.OpsFamily(c, false, c.Pick(1500, 30000), calcproto.GenOpts{CurrencyOnly: true}, forceRule, replayDoc) {
		if effectiveRule(p.Doc) != "currency" {
			continue // a replayed description of another rule
		}
		if calcproto.OutsideExactDomain(p.Inv) || calcproto.OutsidePaymentDomain(p.Inv) {
			c.Count("ops:presented-skipped-outside-2^52-domain", 1)
			continue
		}
		c.Count("ops:presented-documents-judged", 1)
		errs := calcproto.ReaddIdentities(p.Inv, p.Sub)
		if t := p.Inv.Totals; t != nil && t.Rounding != nil && t.Rounding.Exp() > p.Sub {
			errs = append(errs, fmt.Sprintf("totals.rounding %s carries more decimals than the currency (%d)", t.Rounding.String(), p.Sub))
		}
		if len(errs) > 0 {
			if !opsFailed[p.Doc] {
				opsFailed[p.Doc] = true
				c.Fail(opsClassifier(p, errs), "presented figures of "+p.What+" do not re-add under the currency rule: "+strings.Join(errs, "; "), c01.Case{Doc: p.Doc})
			}
			continue
		}
		leanReqs = append(leanReqs, "readd "+fmt.Sprint(p.Sub)+" "+calcproto.EncodeOut(p.Inv))
		leanCases = append(leanCases, leanCase{p.Doc, p.What})
		opsLean[len(leanCases)-1] = p
	}
	verdicts, err := c.ModelProp("C03", leanReqs)
	if err != nil {
		c.TieBroken("drive:C03/oracle", err.Error(), nil)
		return c.Finish("", nil)
	}
	failed := map[*calcproto.Doc]bool{}
	for k, v := range verdicts {
		lc := leanCases[k]
		switch {
		case v == "1":
			c.Count("lean-oracle:readdOk-holds", 1)
		case strings.HasPrefix(v, "0"):
			c.Count("lean-oracle:readdOk-fails", 1)
			if len(failed) == 0 {
				// kept in the evidence even when the five printed violations are taken by the Go-side oracle
				js, _ := json.Marshal(lc.doc)
				c.Note("first document refused by the Lean oracle Spec.C03.readdOk (%s; failing clauses:%s): %s", lc.what, v[1:], js)
			}
			if !failed[lc.doc] {
				failed[lc.doc] = true
				cls := ""
				if p, ok := opsLean[k]; ok {
					// the Lean oracle also reads the breakdown rows; its clause names are "line<i>" …
					var es []string
					for _, f := range strings.Fields(v[1:]) {
						if strings.HasPrefix(f, "line") {
							es = append(es, "line "+strings.TrimPrefix(f, "line")+": sum - discounts + charges")
						} else {
							es = append(es, f)
						}
					}
					cls = opsClassifier(p, es)
				}
				c.Fail(cls, "Spec.C03.readdOk is false on "+lc.what+" as the real code presents it; failing clauses:"+v[1:], c01.Case{Doc: lc.doc})
			}
		default:
			c.TieBroken("drive:C03/oracle", "the Lean driver did not understand the encoded output: "+v, c01.Case{Doc: lc.doc})
		}
	}
	return c.Finish("random documents under the currency rule (explicit, or Greek regime default), fixed discount/charge/advance amounts at the currency's precision, prices with up to 6 decimals, tax-included prices, currencies with 0/2/3 decimals; the identities are recomputed from the presented figures only, in Go with math/big and by the Lean oracle Spec.C03.readdOk on the encoded output (first calculation and every recalculation after an edit); non-trivial = at least one line", nil)
}

// opsClassifier names the known finding a failure of the operations family
// belongs to, by a predicate over the INPUT and the clause that failed: a
// conversion multiplies every fixed line discount/charge amount (and advance) by
// the exchange rate at two extra decimals, carries bases, charge rates and
// breakdown rows over as they are, and nothing rounds any of them to the target
// currency, which the line total was built at (the C03 face of
// fixed-amount-finer-than-presented).  Only a failure made of nothing but the
// line identity of lines that carry such a row (or the advances sum of a
// document with a fixed advance), on the document a ConvertInto handed back, is
// that finding.
func opsClassifier(p c01.Presented, errs []string) string {
	if strings.HasPrefix(p.Op.Op, "invoice.RemoveIncludedTaxes") && strings.HasPrefix(p.What, "the document handed back") && removalLeftFixedAmountFiner(p.Inv, p.Sub) {
		return "c03.removalLeavesFixedAmountFiner" // the same judgement as the after-removal family above
	}
	if p.Op.Convert && strings.HasPrefix(p.What, "the receiver after") {
		// by the clause that fails: the identities read two of the parts a conversion is known to share
		// with its receiver — the due dates of the payment terms and the rows of a breakdown
		cls := ""
		for _, e := range errs {
			var i int
			switch {
			case e == "due-dates" && p.Doc.HasPayment && len(p.Doc.Dues) > 0:
				cls = "c03.convertIntoSharesPaymentTerms"
			case strings.HasPrefix(e, "line "):
				if n, _ := fmt.Sscanf(e, "line %d:", &i); n != 1 || i >= len(p.Doc.Lines) || len(p.Doc.Lines[i].Breakdown) == 0 {
					return ""
				}
				cls = "c03.convertIntoSharesBreakdownRows"
			default:
				return ""
			}
		}
		return cls
	}
	if !p.Op.Convert || p.FixedLineRows == nil {
		return ""
	}
	for _, e := range errs {
		// converted advances keep the decimals of the source currency
		if (strings.HasPrefix(e, "sum of advances") || e == "advances" || e == "advance-rows") && c01.HasFixedAdvance(p.Doc) {
			continue
		}
		var i int
		if n, _ := fmt.Sscanf(e, "line %d: sum - discounts + charges", &i); n != 1 || !p.FixedLineRows[i] {
			return ""
		}
	}
	return "c03.convertedFixedLineAmountFiner"
}

// removalLeftFixedAmountFiner: RemoveIncludedTaxes divides every fixed line or
// document discount/charge amount of a row carrying the included tax by
// (1 + rate) at two extra decimals and stores the result; under the currency
// rule such an amount stays finer than the currency while the totals built from
// it are rounded to the currency (the C03 face of the known finding
// fixed-amount-finer-than-presented of C04/C17).
func removalLeftFixedAmountFiner(a *bill.Invoice, sub uint32) bool {
	for _, l := range a.Lines {
		for _, d := range l.Discounts {
			if (d.Percent == nil || d.Percent.IsZero()) && d.Amount.Exp() > sub {
				return true
			}
		}
		for _, d := range l.Charges {
			if (d.Percent == nil || d.Percent.IsZero()) && d.Amount.Exp() > sub {
				return true
			}
		}
		for _, sl := range l.Breakdown {
			for _, d := range sl.Discounts {
				if (d.Percent == nil || d.Percent.IsZero()) && d.Amount.Exp() > sub {
					return true
				}
			}
			for _, d := range sl.Charges {
				if (d.Percent == nil || d.Percent.IsZero()) && d.Amount.Exp() > sub {
					return true
				}
			}
		}
	}
	for _, d := range a.Discounts {
		if (d.Percent == nil || d.Percent.IsZero()) && d.Amount.Exp() > sub {
			return true
		}
	}
	for _, d := range a.Charges {
		if (d.Percent == nil || d.Percent.IsZero()) && d.Amount.Exp() > sub {
			return true
		}
	}
	return false
}
