// Package c03: under the currency rounding rule every presented amount
// re-adds exactly.  The identities are evaluated on the real output from the
// presented figures only; the same documents are also compared with the Lean
// model, for which Props/C03.lean proves the identities.
package c03

import (
	"github.com/invopop/gobl/bill"
	"strings"

	"github.com/invopop/gobl/l10n"
	"github.com/invopop/gobl/tax"

	"verifharness/internal/calcproto"
	"verifharness/internal/core"
	"verifharness/props/c01"
)

func effectiveRule(d *calcproto.Doc) string {
	if d.Rule != "" {
		return d.Rule
	}
	return string(tax.RegimeDefFor(l10n.TaxCountryCode(d.Country).Code()).GetRoundingRule())
}

// Run is the C03 check.
func Run(c *core.Ctx) int {
	var docs []*calcproto.Doc
	var rc c01.Case
	if c.ReplayCase(&rc) {
		docs = []*calcproto.Doc{rc.Doc}
	} else {
		n := c.Pick(4000, 300000)
		for len(docs) < n {
			o := calcproto.GenOpts{CurrencyOnly: true}
			if c.Thorough() && len(docs)%10 == 0 {
				o.MaxLines = 40
			}
			d := calcproto.Gen(c.Rng, o)
			// explicitly requested, or by regime default (Greece)
			if effectiveRule(d) != "currency" {
				if d.Country == "EL" {
					d.Rule = ""
				} else {
					d.Rule = "currency"
				}
			}
			docs = append(docs, d)
		}
	}
	res, err := c01.RunDocs(c, docs)
	if err != nil {
		c.TieBroken("drive:C03/model", err.Error(), nil)
		return c.Finish("", nil)
	}
	for i, d := range docs {
		r := res[i]
		inv := d.Invoice()
		var cerr error
		if pan := core.Protect(func() { cerr = inv.Calculate() }); pan != "" || cerr != nil {
			c.Count("go:error", 1)
			continue
		}
		sub := uint32(2)
		if def := inv.Currency.Def(); def != nil {
			sub = def.Subunits
		}
		if d.Rule == "" {
			c.Count("rule:regime-default", 1)
		} else {
			c.Count("rule:explicit", 1)
		}
		c.Count("cur:"+d.Cur, 1)
		priceFiner := false
		for _, l := range d.Lines {
			if l.Item != nil && l.Item.Price != nil && l.Item.Price.E > sub {
				priceFiner = true
			}
		}
		if priceFiner {
			c.Count("price-finer-than-currency", 1)
		}
		if d.Includes != "" {
			c.Count("tax-included", 1)
		}
		if !r.Agree {
			c.Count("skipped:outside-2^52-domain", 1)
			continue
		}
		c.Eval(r.Req, len(d.Lines) > 0)
		if i%997 == 0 {
			c.Sample(map[string]any{"doc": d, "go": r.GoOut})
		}
		if errs := calcproto.ReaddIdentities(inv, sub); len(errs) > 0 {
			c.Fail("", "presented figures do not re-add under the currency rule: "+strings.Join(errs, "; "), c01.Case{Doc: d})
			continue
		}
		// edit the calculated document and calculate again: the identities must hold on the new figures
		// too, and nothing of the first calculation may survive in them
		tries := 2
		if len(docs) == 1 {
			tries = len(calcproto.Edits) // replay: every edit
		}
		for k := 0; k < tries; k++ {
			e := c.Rng.Intn(len(calcproto.Edits))
			if len(docs) == 1 {
				e = k
			}
			a, diff, ok := calcproto.RecalcAfterEdit(inv, e)
			if !ok {
				continue
			}
			c.Count("recalc-after-edit:"+calcproto.Edits[e].Name, 1)
			if calcproto.OutsideExactDomain(a) {
				c.Count("recalc-after-edit:skipped-outside-2^52-domain", 1)
				continue
			}
			if errs := calcproto.ReaddIdentities(a, sub); len(errs) > 0 {
				c.Fail("", "after "+calcproto.Edits[e].Name+" and a second calculation the presented figures do not re-add: "+strings.Join(errs, "; "), c01.Case{Doc: d})
				break
			}
			if diff != "" {
				c.Fail("", "a figure of the first calculation survives the second one: "+diff, c01.Case{Doc: d})
				break
			}
		}
		// the document with its included tax removed is a calculated document as well
		if a, ok := calcproto.AfterRemoval(inv); ok {
			if calcproto.TooLargeForRemoval(inv) || calcproto.OutsideExactDomain(a) {
				c.Count("after-removal:skipped-outside-2^52-domain", 1)
			} else {
				c.Count("after-removal", 1)
				if errs := calcproto.ReaddIdentities(a, sub); len(errs) > 0 {
					cls := ""
					if removalLeftFixedAmountFiner(a, sub) {
						cls = "c03.removalLeavesFixedAmountFiner"
					}
					c.Fail(cls, "after RemoveIncludedTaxes the presented figures do not re-add: "+strings.Join(errs, "; "), c01.Case{Doc: d})
				}
			}
		}
		if r.Agree && r.Skipped == "" && r.GoErr == "" && r.GoOut != r.Model {
			c.TieBroken("drive:C03/calc", "Go output differs from the model although the identities hold", c01.Case{Doc: d})
		}
	}
	return c.Finish("random documents under the currency rule (explicit, or Greek regime default), fixed discount/charge/advance amounts at the currency's precision, prices with up to 6 decimals, tax-included prices, currencies with 0/2/3 decimals; the identities are recomputed from the presented figures only; non-trivial = at least one line", nil)
}

// removalLeftFixedAmountFiner: RemoveIncludedTaxes divides every fixed line or
// document discount/charge amount of a row carrying the included tax by
// (1 + rate) at two extra decimals and stores the result; under the currency
// rule such an amount stays finer than the currency while the totals built from
// it are rounded to the currency (the C03 face of the known finding
// fixed-amount-finer-than-presented of C04/C17).
func removalLeftFixedAmountFiner(a *bill.Invoice, sub uint32) bool {
	for _, l := range a.Lines {
		for _, d := range l.Discounts {
			if (d.Percent == nil || d.Percent.IsZero()) && d.Amount.Exp() > sub {
				return true
			}
		}
		for _, d := range l.Charges {
			if (d.Percent == nil || d.Percent.IsZero()) && d.Amount.Exp() > sub {
				return true
			}
		}
		for _, sl := range l.Breakdown {
			for _, d := range sl.Discounts {
				if (d.Percent == nil || d.Percent.IsZero()) && d.Amount.Exp() > sub {
					return true
				}
			}
			for _, d := range sl.Charges {
				if (d.Percent == nil || d.Percent.IsZero()) && d.Amount.Exp() > sub {
					return true
				}
			}
		}
	}
	for _, d := range a.Discounts {
		if (d.Percent == nil || d.Percent.IsZero()) && d.Amount.Exp() > sub {
			return true
		}
	}
	for _, d := range a.Charges {
		if (d.Percent == nil || d.Percent.IsZero()) && d.Amount.Exp() > sub {
			return true
		}
	}
	return false
}
