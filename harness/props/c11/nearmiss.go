package c11

// Near-misses derived from the SCHEMA (added to the schema-guided sweep of sweep.go).
//
// C11: whatever GOBL calculates and validates must be accepted by the published schema,
// "including pattern, enumeration, required-member and format constraints".  The sweep's other
// candidates are spellings a maintainer would think of (padded, re-cased, a suffix); the ones
// below are computed from the constraint the published leaf carries, so that a Go-side rule that
// is looser than the leaf IN ANY ONE CHARACTER CLASS OR IN ANY ONE NAME OF THE SAME ENTITY is
// reached:
//
//   - a leaf with a `pattern` (alone, or as one alternative of a `oneOf` beside constants, or a
//     `format` whose members are a regular language: date, uuid): a member of the pattern with one
//     character — first, last, one inside; every one of a short text — replaced by a character
//     OUTSIDE ASCII of the same Unicode general category as the ASCII character it stands for
//     (read from the tables of Go's `unicode` package: Lu for an upper-case letter, Ll, Nd with
//     the same digit value, Pd for the hyphen, Po, Pc, Sm, Zs …), by its full-width form and by the
//     other members of its case-folding orbit (K → KELVIN SIGN, s → LONG S); and the whole text
//     with every character so replaced.  The published patterns name ASCII classes (`[A-Z0-9]`,
//     `[a-z]`, `[0-9]`): a rule written with unicode.IsUpper / IsDigit / IsLetter, `\p{Lu}`, `\d`
//     of another engine, `(?i)` or a ToUpper comparison accepts one of these and the schema
//     does not;
//   - a leaf that enumerates constants: the OTHER identifiers the library's own data files and
//     definition tables carry for the same entity.  Every record (JSON object) of the data the
//     library ships (data/currency, data/regimes, data/addons, data/catalogues, and the exported
//     tables of countries, unions and units rendered as JSON) that has a constant of the
//     enumeration as one of its texts contributes its other short texts: the ISO 4217 numeric
//     code, symbol and subunit name of a currency, the alpha-3 code and top-level domain of a
//     country, the UN/ECE code of a unit … — nothing is listed by hand; plus case variants, proper
//     prefixes and suffixes, a doubled last character and the full-width / folding variants of a
//     member.
//
// Every candidate the leaf's own schema would accept is dropped (it proves nothing); the rest is
// put at every position of the leaf in the accepted inputs, present or absent, by the sweep, and
// whatever GOBL still calculates and validates is judged like every other accepted document.

import (
	"encoding/json"
	"math/rand"
	"os"
	"path/filepath"
	"regexp"
	"sort"
	"strings"
	"unicode"
	"unicode/utf8"

	"github.com/invopop/gobl/currency"
	"github.com/invopop/gobl/l10n"
	"github.com/invopop/gobl/org"
)

// ---- what a string leaf accepts ----------------------------------------------------------------

// leafShape: the constants and the patterns a text may satisfy ALTERNATIVELY (a `oneOf` / `anyOf`
// of `const` and `pattern` members, an `enum`), and the patterns it has to satisfy in any case
// (a `pattern` beside them, the regular language of a `format`).
type leafShape struct {
	consts  []string
	alts    []*regexp.Regexp
	altSrc  []string
	must    []*regexp.Regexp
	mustSrc []string
	format  bool // the only constraint is a `format`
}

// the formats of the published files whose members are a regular language
var formatPatterns = map[string]string{
	"date": `^[0-9]{4}-[0-9]{2}-[0-9]{2}$`,
	"uuid": `^[0-9a-f]{8}-[0-9a-f]{4}-[0-9a-f]{4}-[0-9a-f]{4}-[0-9a-f]{12}$`,
}

func shapeOf(s map[string]any) (sh leafShape, ok bool) {
	if t, has := s["type"].(string); has && t != "string" {
		return sh, false
	}
	for _, kw := range []string{"oneOf", "anyOf"} {
		l, has := s[kw].([]any)
		if !has || len(l) == 0 {
			continue
		}
		for _, e := range l {
			m, isObj := e.(map[string]any)
			if !isObj {
				return sh, false
			}
			if c, isC := m["const"].(string); isC {
				sh.consts = append(sh.consts, c)
			} else if p, isP := m["pattern"].(string); isP {
				re, err := regexp.Compile(p)
				if err != nil {
					return sh, false
				}
				sh.alts = append(sh.alts, re)
				sh.altSrc = append(sh.altSrc, p)
			} else {
				return sh, false // an alternative of another kind: not a leaf this file understands
			}
		}
	}
	if l, has := s["enum"].([]any); has {
		for _, e := range l {
			if c, isStr := e.(string); isStr {
				sh.consts = append(sh.consts, c)
			}
		}
	}
	if p, has := s["pattern"].(string); has {
		if re, err := regexp.Compile(p); err == nil {
			sh.must = append(sh.must, re)
			sh.mustSrc = append(sh.mustSrc, p)
		}
	}
	if f, has := s["format"].(string); has {
		if p, known := formatPatterns[f]; known {
			sh.format = len(sh.consts)+len(sh.alts)+len(sh.must) == 0
			sh.must = append(sh.must, regexp.MustCompile(p))
			sh.mustSrc = append(sh.mustSrc, p)
		}
	}
	return sh, len(sh.consts)+len(sh.alts)+len(sh.must) > 0
}

func (sh leafShape) accepts(v string) bool {
	for _, re := range sh.must {
		if !re.MatchString(v) {
			return false
		}
	}
	if len(sh.consts)+len(sh.alts) == 0 {
		return true
	}
	for _, c := range sh.consts {
		if c == v {
			return true
		}
	}
	for _, re := range sh.alts {
		if re.MatchString(v) {
			return true
		}
	}
	return false
}

func (sh leafShape) kind() string {
	switch {
	case len(sh.consts) > 0 && len(sh.alts) > 0:
		return "enum-or-pattern"
	case len(sh.consts) > 0:
		return "enum"
	case sh.format:
		return "format"
	default:
		return "pattern"
	}
}

// ---- characters of the same class outside ASCII ------------------------------------------------

// the two-letter general categories an ASCII character of a published pattern can have
var classTables = []struct {
	name string
	tab  *unicode.RangeTable
}{
	{"Lu", unicode.Lu}, {"Ll", unicode.Ll}, {"Nd", unicode.Nd}, {"Pd", unicode.Pd}, {"Pc", unicode.Pc},
	{"Po", unicode.Po}, {"Ps", unicode.Ps}, {"Pe", unicode.Pe}, {"Sm", unicode.Sm}, {"Sc", unicode.Sc},
	{"Sk", unicode.Sk}, {"Zs", unicode.Zs},
}

var classRunes = map[string][]rune{}

func runesOf(name string, tab *unicode.RangeTable) []rune {
	if rs, ok := classRunes[name]; ok {
		return rs
	}
	var rs []rune
	for _, r16 := range tab.R16 {
		for r := rune(r16.Lo); r <= rune(r16.Hi); r += rune(r16.Stride) {
			if r >= 0x80 {
				rs = append(rs, r)
			}
		}
	}
	for _, r32 := range tab.R32 {
		for r := rune(r32.Lo); r <= rune(r32.Hi); r += rune(r32.Stride) {
			rs = append(rs, r)
		}
	}
	classRunes[name] = rs
	return rs
}

type subst struct {
	r     rune
	label string
}

// sameClass: k characters outside ASCII of the general category of the ASCII character b, spread
// over the category's table from a random start (for a digit: decimal digits of the SAME value),
// the full-width form of b and the non-ASCII members of its case-folding orbit.
func sameClass(r *rand.Rand, b rune, k int) (out []subst) {
	if b >= 0x80 {
		return nil
	}
	if b > 0x20 && b < 0x7f {
		out = append(out, subst{b + 0xFEE0, "full-width"})
	}
	for f := unicode.SimpleFold(b); f != b; f = unicode.SimpleFold(f) {
		if f >= 0x80 {
			out = append(out, subst{f, "case-fold-orbit"})
		}
	}
	for _, ct := range classTables {
		if !unicode.Is(ct.tab, b) {
			continue
		}
		rs := runesOf(ct.name, ct.tab)
		if ct.name == "Nd" {
			var same []rune
			for _, x := range rs {
				if digitValue(x) == int(b-'0') {
					same = append(same, x)
				}
			}
			rs = same
		}
		if len(rs) == 0 {
			break
		}
		if k > len(rs) {
			k = len(rs)
		}
		start := r.Intn(len(rs))
		for j := 0; j < k; j++ {
			out = append(out, subst{rs[(start+j*len(rs)/k)%len(rs)], ct.name})
		}
		break
	}
	return out
}

// digitValue of a decimal digit (Nd comes in runs of ten consecutive code points in digit order).
func digitValue(x rune) int {
	for _, r16 := range unicode.Nd.R16 {
		if x >= rune(r16.Lo) && x <= rune(r16.Hi) && r16.Stride == 1 {
			return int(x-rune(r16.Lo)) % 10
		}
	}
	for _, r32 := range unicode.Nd.R32 {
		if x >= rune(r32.Lo) && x <= rune(r32.Hi) && r32.Stride == 1 {
			return int(x-rune(r32.Lo)) % 10
		}
	}
	return -1
}

// unicodeNearMisses of a text: one character replaced (per position: k of its class), and the
// whole text replaced character by character.
func unicodeNearMisses(r *rand.Rand, base string, k, maxPos int) (out []cand) {
	rs := []rune(base)
	if len(rs) == 0 {
		return nil
	}
	var pos []int
	if len(rs) <= maxPos {
		for i := range rs {
			pos = append(pos, i)
		}
	} else {
		pos = append(pos, 0, len(rs)-1)
		for len(pos) < maxPos {
			i := 1 + r.Intn(len(rs)-2)
			dup := false
			for _, p := range pos {
				dup = dup || p == i
			}
			if !dup {
				pos = append(pos, i)
			}
		}
		sort.Ints(pos)
	}
	seenClass := map[string]bool{}
	for _, i := range pos {
		for _, s := range sameClass(r, rs[i], k) {
			cp := append([]rune{}, rs...)
			cp[i] = s.r
			out = append(out, cand{"one-character-outside-ascii:" + s.label, string(cp)})
			seenClass[s.label] = true
		}
	}
	// every character replaced: a text wholly in another script
	for _, which := range []int{0, 1} {
		cp := append([]rune{}, rs...)
		changed := false
		for i := range cp {
			ss := sameClass(r, cp[i], 1)
			if len(ss) == 0 {
				continue
			}
			s := ss[len(ss)-1] // the general-category member
			if which == 1 {
				s = ss[0] // the full-width form
			}
			cp[i] = s.r
			changed = true
		}
		if changed {
			out = append(out, cand{"every-character-outside-ascii", string(cp)})
		}
	}
	return out
}

// ---- the other names of an enumerated entity, from the library's data --------------------------

type alias struct{ field, val string }

type recordIndex struct {
	by map[string][]alias // text of a record → the other short texts of the same record
}

func identifierLike(s string) bool {
	if s == "" || utf8.RuneCountInString(s) > 12 {
		return false
	}
	for _, r := range s {
		if unicode.IsSpace(r) {
			return false
		}
	}
	return true
}

func (ix *recordIndex) addRecords(v any) {
	switch t := v.(type) {
	case map[string]any:
		var texts []alias
		for _, k := range sortedKeysAny(t) {
			switch x := t[k].(type) {
			case string:
				if identifierLike(x) {
					texts = append(texts, alias{k, x})
				}
			case []any:
				for _, e := range x {
					if s, ok := e.(string); ok && identifierLike(s) {
						texts = append(texts, alias{k, s})
					}
				}
			}
		}
		if len(texts) > 1 {
			for _, a := range texts {
				for _, b := range texts {
					if a.val != b.val {
						ix.by[a.val] = append(ix.by[a.val], b)
					}
				}
			}
		}
		for _, k := range sortedKeysAny(t) {
			ix.addRecords(t[k])
		}
	case []any:
		for _, e := range t {
			ix.addRecords(e)
		}
	}
}

func loadRecordIndex(repo string) *recordIndex {
	ix := &recordIndex{by: map[string][]alias{}}
	for _, dir := range []string{"currency", "regimes", "addons", "catalogues"} {
		_ = filepath.Walk(filepath.Join(repo, "data", dir), func(p string, info os.FileInfo, err error) error {
			if err != nil || info.IsDir() || !strings.HasSuffix(p, ".json") {
				return nil
			}
			b, err := os.ReadFile(p)
			if err != nil {
				return nil
			}
			var v any
			if json.Unmarshal(b, &v) == nil {
				ix.addRecords(v)
			}
			return nil
		})
	}
	// the definition tables the library exports without a data file
	for _, table := range []any{l10n.Countries(), l10n.Unions(), org.UnitDefinitions, currency.Definitions()} {
		b, err := json.Marshal(table)
		if err != nil {
			continue
		}
		var v any
		if json.Unmarshal(b, &v) == nil {
			ix.addRecords(v)
		}
	}
	return ix
}

// aliasesOf: per record field, the other names of the members of an enumeration: all of those of
// the present member, and perField of the other members from a random start.
func (ix *recordIndex) aliasesOf(r *rand.Rand, consts []string, cur string, perField int) (out []cand) {
	own := map[string]bool{}
	for _, c := range consts {
		own[c] = true
	}
	seen := map[string]bool{}
	if own[cur] {
		for _, a := range ix.by[cur] {
			if !own[a.val] && !seen[a.val] {
				seen[a.val] = true
				out = append(out, cand{"other-name-of-the-member:" + a.field, a.val})
			}
		}
	}
	byField := map[string][]string{}
	for _, c := range consts {
		for _, a := range ix.by[c] {
			if !own[a.val] && !seen[a.val] {
				seen[a.val] = true
				byField[a.field] = append(byField[a.field], a.val)
			}
		}
	}
	fields := make([]string, 0, len(byField))
	for f := range byField {
		fields = append(fields, f)
	}
	sort.Strings(fields)
	for _, f := range fields {
		vs := byField[f]
		n := perField
		if n > len(vs) {
			n = len(vs)
		}
		start := r.Intn(len(vs))
		for j := 0; j < n; j++ {
			out = append(out, cand{"other-name-of-a-member:" + f, vs[(start+j*len(vs)/n)%len(vs)]})
		}
	}
	return out
}

// memberVariants: case variants, proper prefix and suffix, a doubled last character.
func memberVariants(m string) (out []cand) {
	rs := []rune(m)
	if len(rs) == 0 {
		return nil
	}
	out = append(out,
		cand{"member-lower-case", strings.ToLower(m)},
		cand{"member-upper-case", strings.ToUpper(m)},
		cand{"member-title-case", strings.ToUpper(string(rs[:1])) + strings.ToLower(string(rs[1:]))},
		cand{"member-first-character-re-cased", swapCase(rs[0]) + string(rs[1:])},
		cand{"member-last-character-doubled", m + string(rs[len(rs)-1])})
	if len(rs) > 1 {
		out = append(out, cand{"member-prefix", string(rs[:len(rs)-1])}, cand{"member-suffix", string(rs[1:])})
	}
	return out
}

func swapCase(r rune) string {
	if unicode.IsUpper(r) {
		return string(unicode.ToLower(r))
	}
	return string(unicode.ToUpper(r))
}

// ---- candidates for one leaf -------------------------------------------------------------------

type nearMissCfg struct {
	perClass int // characters per class and position
	maxPos   int // positions of a text that get single replacements
	perField int // other names per record field
	ix       *recordIndex
	keyRe    *regexp.Regexp // the published pattern of a key (cbc/key), nil when not readable
	perKey   int            // members of a key enumeration that get composed beside the present one
	siblings []string       // the constants of the other key enumerations of the same published file
}

// ---- enumerations of KEYS ----------------------------------------------------------------------
//
// A key (cbc/key) is not an opaque text: it is a sequence of sub-keys joined with `+` (the library
// composes and decomposes them: Key.With, Key.Has, Key.HasPrefix, Key.Pop), each possibly made of
// words joined with `-`.  Where the published leaf enumerates keys as CONSTANTS, a consumer
// accepts the listed compositions and nothing else; the Go side must therefore refuse every
// other composition of the same material although it is a well-formed key and although a rule
// that compares by sub-key, by prefix or by containment takes it for a member.  For an
// enumeration all of whose constants are keys (they match the published pattern of cbc/key),
// the candidates are, computed from the enumeration alone:
//   - every (sampled) member extended by `+<sub>` and by `-<sub>`, and prefixed by `<sub>+`,
//     where sub is another member, a member of a sibling enumeration, and a fresh key;
//   - every member cut at each `+` and `-` (both sides of the cut);
//   - every member of the sibling key enumerations of the same published file (the type of an
//     order where the type of an invoice is expected).
func keyCompositions(r *rand.Rand, sh leafShape, cur string, cfg nearMissCfg) (out []cand) {
	if cfg.keyRe == nil || len(sh.consts) == 0 {
		return nil
	}
	own := map[string]bool{}
	for _, c := range sh.consts {
		if !cfg.keyRe.MatchString(c) {
			return nil // not an enumeration of keys
		}
		own[c] = true
	}
	// the members composed: the present one and perKey others from a random start
	var ms []string
	if own[cur] {
		ms = append(ms, cur)
	}
	n := cfg.perKey
	if n > len(sh.consts) {
		n = len(sh.consts)
	}
	start := r.Intn(len(sh.consts))
	for j := 0; j < n; j++ {
		if m := sh.consts[(start+j*len(sh.consts)/n)%len(sh.consts)]; m != cur {
			ms = append(ms, m)
		}
	}
	fresh := func() string {
		for {
			b := make([]byte, 3+r.Intn(4))
			for i := range b {
				b[i] = byte('a' + r.Intn(26))
			}
			if !own[string(b)] {
				return string(b)
			}
		}
	}
	for _, m := range ms {
		subs := []struct{ label, v string }{{"fresh-key", fresh()}}
		if len(sh.consts) > 1 {
			o := sh.consts[r.Intn(len(sh.consts))]
			for o == m {
				o = sh.consts[r.Intn(len(sh.consts))]
			}
			subs = append(subs, struct{ label, v string }{"another-member", o})
		}
		if len(cfg.siblings) > 0 {
			subs = append(subs, struct{ label, v string }{"sibling-member", cfg.siblings[r.Intn(len(cfg.siblings))]})
		}
		for _, s := range subs {
			out = append(out,
				cand{"key-member-extended-with-sub-key:" + s.label, m + "+" + s.v},
				cand{"key-member-extended-with-word:" + s.label, m + "-" + s.v},
				cand{"key-member-as-sub-key-of:" + s.label, s.v + "+" + m})
		}
		for i, ch := range m {
			if ch == '+' || ch == '-' {
				out = append(out, cand{"key-member-cut-at-separator:head", m[:i]}, cand{"key-member-cut-at-separator:tail", m[i+1:]})
			}
		}
	}
	for _, s := range cfg.siblings {
		out = append(out, cand{"key-of-sibling-enumeration", s})
	}
	return out
}

// sampleMember draws a member of a pattern (sampleMatch knows the shapes of the published
// patterns; the draw is repeated until the pattern agrees).
func sampleMember(r *rand.Rand, re *regexp.Regexp, src string) (string, bool) {
	if p, known := formatSamples[src]; known {
		return p(r), true
	}
	for try := 0; try < 64; try++ {
		if s := sampleMatch(r, src); re.MatchString(s) {
			return s, true
		}
	}
	return "", false
}

var formatSamples = map[string]func(*rand.Rand) string{
	formatPatterns["date"]: randDate,
	formatPatterns["uuid"]: randUUID,
}

// nearMisses: the candidates of this file for a leaf of shape sh whose present text is cur ("" when
// absent).  Only texts the leaf itself refuses are returned.
func nearMisses(r *rand.Rand, sh leafShape, cur string, cfg nearMissCfg) (out []cand) {
	seen := map[string]bool{}
	add := func(cs []cand) {
		for _, c := range cs {
			v, _ := c.val.(string)
			if seen[v] || sh.accepts(v) {
				continue
			}
			seen[v] = true
			out = append(out, c)
		}
	}
	if len(sh.consts) > 0 {
		if cfg.ix != nil {
			add(cfg.ix.aliasesOf(r, sh.consts, cur, cfg.perField))
		}
		m := cur
		if !sh.accepts(m) || m == "" {
			m = sh.consts[r.Intn(len(sh.consts))]
		}
		add(memberVariants(m))
		add(unicodeNearMisses(r, m, 1, 2))
		add(keyCompositions(r, sh, cur, cfg))
	}
	pats, srcs := sh.alts, sh.altSrc
	if len(sh.consts)+len(sh.alts) == 0 {
		pats, srcs = sh.must, sh.mustSrc
	}
	for i, re := range pats {
		base := cur
		if base == "" || !re.MatchString(base) || !sh.accepts(base) {
			var ok bool
			if base, ok = sampleMember(r, re, srcs[i]); !ok {
				continue
			}
		}
		add(unicodeNearMisses(r, base, cfg.perClass, cfg.maxPos))
	}
	return out
}
