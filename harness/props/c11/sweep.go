package c11

// Schema-guided sweep (stream 3d): the published schema of every accepted input is walked
// alongside the document, and every member the schema CONSTRAINS gets values the schema
// refuses, present or not in the document:
//
//   - enumerated members (`oneOf` of constants): the constants of every other published
//     enumeration that shares a constant with this one (a regime code list is related to the
//     country code lists, so every country code that is no regime code is tried: registered
//     aliases are among them), a lower-case and a padded spelling;
//   - members with a `pattern`: the present (or a sampled matching) text padded, re-cased,
//     with a fraction / zone suffix, with inner blanks, empty;
//   - absent members that are objects or arrays of objects: the empty object, and objects
//     with their required members filled in and one constrained member damaged;
//   - every array: its first element once more (arrays the schema may declare as sets).
//
// Nothing is sampled away within a position; per (document schema, member path, kind) the
// first few documents that have the position are used (quick) or all of them (thorough).
// Whatever GOBL still calculates and validates is judged like every other accepted document.

import (
	"encoding/json"
	"fmt"
	"math/rand"
	"os"
	"path/filepath"
	"regexp"
	"sort"
	"strings"
	"sync"

	"github.com/invopop/gobl/l10n"
	"github.com/invopop/gobl/tax"

	"verifharness/internal/core"
)

// Classifiers of the holes of the unchanged tree this sweep found (known_findings.json,
// C11-K7 … C11-K16).  Each is a predicate over the complaint and the document: the first
// two over the refused value, the others over WHERE the complaint lies (at or below a member
// for which the Go type that holds it has no validation rule).
const (
	knownRegimeAlias  = "regime-alias-outside-the-schema-enumeration"
	knownDateTimeFrac = "date-time-with-fractional-seconds"
)

// unvalidatedMembers: (`$defs` entry of the published schema, member) → classifier.
var unvalidatedMembers = []struct{ def, member, classifier string }{
	{"bill/invoice#Invoice", "attachments", "invoice-attachments-not-validated"},
	{"bill/order#Order", "$tags", "tags-syntax-unchecked-outside-invoices"},
	{"bill/delivery#Delivery", "$tags", "tags-syntax-unchecked-outside-invoices"},
	{"bill/payment#Payment", "$tags", "tags-syntax-unchecked-outside-invoices"},
	{"org/document-ref#DocumentRef", "identities", "document-ref-identities-not-validated"},
	{"bill/order#Order", "identities", "order-identities-not-validated"},
	{"bill/order#Order", "period", "order-period-not-validated"},
	{"bill/discount#Discount", "key", "discount-key-not-validated"},
	{"pay/advance#Advance", "currency", "advance-currency-not-validated"},
	{"pay/instructions#CreditTransfer", "branch", "credit-transfer-branch-not-validated"},
}

// ---- the published schemas, as plain JSON ------------------------------------------------------

type schemaSet struct {
	byID  map[string]map[string]any
	enums [][]string  // every enumeration of constants found in the files
	near  nearMissCfg // near-misses computed from the constraint itself (nearmiss.go)

	sibCache map[string][]string // $id of a file → the constants of its enumerations of keys
}

type snode struct {
	s    map[string]any
	root map[string]any
	def  string // "<$id>#<name>" of the last `$defs` entry entered
}

func loadSchemaSet(repo string) (*schemaSet, error) {
	ss := &schemaSet{byID: map[string]map[string]any{}}
	err := filepath.Walk(filepath.Join(repo, "data", "schemas"), func(p string, info os.FileInfo, err error) error {
		if err != nil || info.IsDir() || !strings.HasSuffix(p, ".json") {
			return nil
		}
		b, err := os.ReadFile(p)
		if err != nil {
			return nil
		}
		var m map[string]any
		if json.Unmarshal(b, &m) != nil {
			return nil
		}
		if id, ok := m["$id"].(string); ok {
			ss.byID[id] = m
		}
		return nil
	})
	if err != nil {
		return nil, err
	}
	seen := map[string]bool{}
	var walk func(x any)
	walk = func(x any) {
		switch t := x.(type) {
		case map[string]any:
			if cs := constsOf(t); len(cs) > 0 {
				sorted := append([]string{}, cs...)
				sort.Strings(sorted)
				k := strings.Join(sorted, "\x00")
				if !seen[k] {
					seen[k] = true
					ss.enums = append(ss.enums, cs)
				}
			}
			for _, k := range sortedKeysAny(t) {
				walk(t[k])
			}
		case []any:
			for _, c := range t {
				walk(c)
			}
		}
	}
	ids := make([]string, 0, len(ss.byID))
	for id := range ss.byID {
		ids = append(ids, id)
	}
	sort.Strings(ids)
	for _, id := range ids {
		walk(ss.byID[id])
	}
	return ss, nil
}

func sortedKeysAny(m map[string]any) []string {
	ks := make([]string, 0, len(m))
	for k := range m {
		ks = append(ks, k)
	}
	sort.Strings(ks)
	return ks
}

// constsOf: the constants of a `oneOf` of string constants (or of an `enum`).
func constsOf(s map[string]any) []string {
	var out []string
	if l, ok := s["oneOf"].([]any); ok && len(l) > 0 {
		for _, e := range l {
			m, ok := e.(map[string]any)
			if !ok {
				return nil
			}
			c, ok := m["const"].(string)
			if !ok {
				return nil
			}
			out = append(out, c)
		}
		return out
	}
	if l, ok := s["enum"].([]any); ok {
		for _, e := range l {
			if c, ok := e.(string); ok {
				out = append(out, c)
			}
		}
	}
	return out
}

func (ss *schemaSet) root(id string) (snode, bool) {
	r, ok := ss.byID[id]
	if !ok {
		return snode{}, false
	}
	return snode{s: r, root: r}, true
}

// deref follows `$ref` chains (`#/$defs/N`, `<id>`, `<id>#/$defs/N`).
func (ss *schemaSet) deref(n snode) snode {
	for i := 0; i < 16 && n.s != nil; i++ {
		ref, ok := n.s["$ref"].(string)
		if !ok {
			return n
		}
		root := n.root
		name := ""
		if j := strings.Index(ref, "#/$defs/"); j >= 0 {
			name = ref[j+len("#/$defs/"):]
			ref = ref[:j]
		}
		if ref != "" {
			r, ok := ss.byID[ref]
			if !ok {
				return snode{}
			}
			root = r
		}
		if name == "" {
			n = snode{s: root, root: root, def: n.def}
			continue
		}
		defs, _ := root["$defs"].(map[string]any)
		d, _ := defs[name].(map[string]any)
		id, _ := root["$id"].(string)
		n = snode{s: d, root: root, def: id + "#" + name}
	}
	return n
}

// overlay: the keywords written beside a `$ref` constrain the member as well (a `$regime`
// is a tax country code AND one of the listed regimes): they are laid over the target.
func (ss *schemaSet) overlay(raw map[string]any, n snode) snode {
	d := ss.deref(snode{s: raw, root: n.root, def: n.def})
	if _, isRef := raw["$ref"]; !isRef || d.s == nil {
		return d
	}
	m := make(map[string]any, len(d.s)+len(raw))
	for k, v := range d.s {
		m[k] = v
	}
	for k, v := range raw {
		if k != "$ref" {
			m[k] = v
		}
	}
	d.s = m
	return d
}

func (ss *schemaSet) prop(n snode, name string) (snode, map[string]any, bool) {
	props, _ := n.s["properties"].(map[string]any)
	raw, ok := props[name].(map[string]any)
	if !ok {
		return snode{}, nil, false
	}
	return ss.overlay(raw, n), raw, true
}

func (ss *schemaSet) items(n snode) (snode, bool) {
	raw, ok := n.s["items"].(map[string]any)
	if !ok {
		return snode{}, false
	}
	return ss.overlay(raw, n), true
}

// defsAlong gives, for a JSON pointer into an instance of schema id, the `$defs` entry that
// describes the value each token is looked up IN.
func (ss *schemaSet) defsAlong(id, ptr string) (toks, defs []string) {
	n, ok := ss.root(id)
	if !ok || ptr == "" {
		return nil, nil
	}
	n = ss.deref(n)
	for _, tok := range strings.Split(strings.TrimPrefix(ptr, "/"), "/") {
		tok = strings.ReplaceAll(strings.ReplaceAll(tok, "~1", "/"), "~0", "~")
		toks = append(toks, tok)
		defs = append(defs, n.def)
		if n.s == nil {
			continue
		}
		if nx, _, ok := ss.prop(n, tok); ok {
			n = nx
		} else if nx, ok := ss.items(n); ok {
			n = nx
		} else {
			n = snode{}
		}
	}
	return toks, defs
}

// related: the constants of the other enumerations that share a constant with cs, minus cs.
func (ss *schemaSet) related(cs []string) []string {
	own := map[string]bool{}
	for _, c := range cs {
		own[c] = true
	}
	seen := map[string]bool{}
	var out []string
	for _, e := range ss.enums {
		shares := false
		for _, c := range e {
			if own[c] {
				shares = true
				break
			}
		}
		if !shares {
			continue
		}
		for _, c := range e {
			if !own[c] && !seen[c] {
				seen[c] = true
				out = append(out, c)
			}
		}
	}
	sort.Strings(out)
	return out
}

// keySiblings: the constants of the OTHER enumerations of keys in the published file of n (all
// constants match the published pattern of cbc/key), minus cs.
func (ss *schemaSet) keySiblings(n snode, cs []string) []string {
	if ss.near.keyRe == nil || n.root == nil {
		return nil
	}
	own := map[string]bool{}
	for _, c := range cs {
		if !ss.near.keyRe.MatchString(c) {
			return nil
		}
		own[c] = true
	}
	id, _ := n.root["$id"].(string)
	if sib, ok := ss.sibCache[id]; ok {
		return minus(sib, own)
	}
	seen := map[string]bool{}
	var all []string
	var walk func(x any)
	walk = func(x any) {
		switch t := x.(type) {
		case map[string]any:
			if sh, ok := shapeOf(t); ok && len(sh.consts) > 0 {
				keys := true
				for _, c := range sh.consts {
					keys = keys && ss.near.keyRe.MatchString(c)
				}
				for _, c := range sh.consts {
					if keys && !seen[c] {
						seen[c] = true
						all = append(all, c)
					}
				}
			}
			for _, k := range sortedKeysAny(t) {
				walk(t[k])
			}
		case []any:
			for _, c := range t {
				walk(c)
			}
		}
	}
	walk(n.root)
	sort.Strings(all)
	if ss.sibCache == nil {
		ss.sibCache = map[string][]string{}
	}
	ss.sibCache[id] = all
	return minus(all, own)
}

func minus(all []string, own map[string]bool) (out []string) {
	for _, c := range all {
		if !own[c] {
			out = append(out, c)
		}
	}
	return out
}

// ---- positions ---------------------------------------------------------------------------------

type spos struct {
	path    []any // to the member (last element: key or index)
	present bool
	node    snode // the member's schema, dereferenced
	val     any
}

func ptrOf(path []any) string {
	var sb strings.Builder
	for _, e := range path {
		switch v := e.(type) {
		case string:
			sb.WriteString("/" + v)
		case int:
			fmt.Fprintf(&sb, "/%d", v)
		}
	}
	return sb.String()
}

func extend(path []any, e any) []any {
	out := make([]any, len(path)+1)
	copy(out, path)
	out[len(path)] = e
	return out
}

func (ss *schemaSet) walk(n snode, inst any, path []any, depth int, out *[]spos) {
	if n.s == nil || depth > 24 {
		return
	}
	switch x := inst.(type) {
	case map[string]any:
		props, _ := n.s["properties"].(map[string]any)
		for _, name := range sortedKeysAny(props) {
			if name == "$schema" {
				continue
			}
			pn, raw, ok := ss.prop(n, name)
			if !ok || pn.s == nil {
				continue
			}
			if c, _ := raw["calculated"].(bool); c {
				continue
			}
			v, has := x[name]
			*out = append(*out, spos{path: extend(path, name), present: has, node: pn, val: v})
			if has {
				ss.walk(pn, v, extend(path, name), depth+1, out)
			}
		}
	case []any:
		in, ok := ss.items(n)
		if !ok {
			return
		}
		for i, e := range x {
			if _, isStr := e.(string); isStr {
				*out = append(*out, spos{path: extend(path, i), present: true, node: in, val: e})
			}
			ss.walk(in, e, extend(path, i), depth+1, out)
		}
	}
}

// ---- candidates --------------------------------------------------------------------------------

type cand struct {
	label string
	val   any
}

func typeOf(s map[string]any) string {
	t, _ := s["type"].(string)
	if t == "" {
		if _, ok := s["properties"]; ok {
			return "object"
		}
	}
	return t
}

// stringCands: texts the member's schema refuses (as far as a pattern / enumeration tells).
func (ss *schemaSet) stringCands(r *rand.Rand, n snode, cur any) (kind string, out []cand) {
	kind, out = ss.spellingCands(r, n, cur)
	// the near-misses computed from the leaf's own constraint (nearmiss.go); leaves whose `oneOf`
	// mixes constants and a pattern, and leaves with a `format` only, are reached by these alone
	sh, ok := shapeOf(n.s)
	if !ok {
		return kind, out
	}
	if kind == "" {
		kind = sh.kind()
	}
	have := map[string]bool{}
	for _, c := range out {
		if v, isStr := c.val.(string); isStr {
			have[v] = true
		}
	}
	base, _ := cur.(string)
	cfg := ss.near
	cfg.siblings = ss.keySiblings(n, sh.consts)
	for _, c := range nearMisses(r, sh, base, cfg) {
		if v, _ := c.val.(string); !have[v] {
			out = append(out, c)
		}
	}
	return kind, out
}

// spellingCands: the spellings a reader of the schema would think of.
func (ss *schemaSet) spellingCands(r *rand.Rand, n snode, cur any) (kind string, out []cand) {
	if cs := constsOf(n.s); len(cs) > 0 {
		for _, c := range ss.related(cs) {
			out = append(out, cand{"other-enumeration:" + c, c})
		}
		out = append(out, cand{"lower-case", strings.ToLower(cs[0])}, cand{"padded", cs[0] + " "})
		return "enum", out
	}
	p, ok := n.s["pattern"].(string)
	if !ok {
		return "", nil
	}
	re, err := regexp.Compile(p)
	if err != nil {
		return "", nil
	}
	base, _ := cur.(string)
	if base == "" || !re.MatchString(base) {
		base = sampleMatch(r, p)
	}
	add := func(label, v string) {
		if !re.MatchString(v) {
			out = append(out, cand{label, v})
		}
	}
	add("padded-right", base+" ")
	add("padded-left", " "+base)
	add("upper-case", strings.ToUpper(base))
	add("lower-case", strings.ToLower(base))
	add("fraction-suffix", base+".5")
	add("zone-suffix", base+"Z")
	add("inner-blank", base+" "+base)
	add("underscore", base+"_"+base)
	add("empty", "")
	return "pattern", out
}

// filled: an object of schema n with its required members given plausible values.
func (ss *schemaSet) filled(r *rand.Rand, n snode, pl pool, pkey string) map[string]any {
	o := map[string]any{}
	req, _ := n.s["required"].([]any)
	for _, rq := range req {
		name, _ := rq.(string)
		pn, _, ok := ss.prop(n, name)
		if !ok || pn.s == nil {
			continue
		}
		if vs := pl[pkey][name]; len(vs) > 0 {
			o[name] = clone(vs[0])
			continue
		}
		switch {
		case len(constsOf(pn.s)) > 0:
			o[name] = constsOf(pn.s)[0]
		case pn.s["pattern"] != nil:
			p, _ := pn.s["pattern"].(string)
			o[name] = sampleMatch(r, p)
		case typeOf(pn.s) == "string":
			o[name] = "x"
		}
	}
	return o
}

// objectCands: values for an absent member whose schema is an object or an array of objects.
func (ss *schemaSet) objectCands(r *rand.Rand, n snode, pl pool, name string) []cand {
	wrap := func(v any) any { return v }
	on := n
	if typeOf(n.s) == "array" {
		in, ok := ss.items(n)
		if !ok || in.s == nil {
			return nil
		}
		on = in
		wrap = func(v any) any { return []any{v} }
	}
	if typeOf(on.s) != "object" {
		if typeOf(n.s) == "array" {
			// an array of constrained strings
			_, cs := ss.stringCands(r, on, nil)
			var out []cand
			for _, c := range cs {
				out = append(out, cand{"absent-array:" + c.label, []any{c.val}})
			}
			return out
		}
		return nil
	}
	if _, ok := on.s["properties"].(map[string]any); !ok {
		return nil
	}
	out := []cand{{"absent-object:empty", wrap(map[string]any{})}}
	props, _ := on.s["properties"].(map[string]any)
	for _, q := range sortedKeysAny(props) {
		qn, raw, ok := ss.prop(on, q)
		if !ok || qn.s == nil || q == "$schema" {
			continue
		}
		if c, _ := raw["calculated"].(bool); c {
			continue
		}
		_, cs := ss.stringCands(r, qn, nil)
		for i, c := range cs {
			if i >= 3 && !strings.HasPrefix(c.label, "other-enumeration") {
				break
			}
			if i >= 12 {
				break
			}
			o := ss.filled(r, on, pl, name)
			o[q] = c.val
			out = append(out, cand{"absent-object:" + q + ":" + c.label, wrap(o)})
		}
	}
	return out
}

func setAt(doc any, path []any, v any) bool {
	cur := doc
	for i, e := range path {
		last := i == len(path)-1
		switch k := e.(type) {
		case string:
			m, ok := cur.(map[string]any)
			if !ok {
				return false
			}
			if last {
				m[k] = v
				return true
			}
			cur = m[k]
		case int:
			l, ok := cur.([]any)
			if !ok || k < 0 || k >= len(l) {
				return false
			}
			if last {
				l[k] = v
				return true
			}
			cur = l[k]
		}
	}
	return false
}

// ---- the sweep -----------------------------------------------------------------------------------

type sweepJob struct {
	src      example
	mutation string
	input    []byte
	out      []byte
	ok       bool
}

func docOf(e example) (whole any, target any) {
	v, err := decode(e.json)
	if err != nil {
		return nil, nil
	}
	target = v
	if e.isEnvelope {
		if m, ok := v.(map[string]any); ok {
			if d, ok := m["doc"]; ok {
				target = d
			}
			delete(m, "head") // digest and stamps are recomputed
			delete(m, "sigs")
		}
	}
	return v, target
}

func schemaSweep(c *core.Ctx, accepted []example, pl pool, seen map[string]bool, add func(cs Case, envJSON []byte)) {
	ss, err := loadSchemaSet(c.Repo)
	if err != nil || len(ss.byID) == 0 {
		c.TieBroken("drive:C11/sweep", fmt.Sprint("published schemas not readable: ", err), nil)
		return
	}
	perKey := c.Pick(2, 1<<30)
	ss.near = nearMissCfg{perClass: c.Pick(3, 6), maxPos: c.Pick(3, 4), perField: c.Pick(3, 8), ix: loadRecordIndex(c.Repo), perKey: c.Pick(4, 1<<20)}
	if kd, ok := ss.byID[base+"cbc/key"]; ok {
		if defs, ok := kd["$defs"].(map[string]any); ok {
			if k, ok := defs["Key"].(map[string]any); ok {
				if p, ok := k["pattern"].(string); ok {
					ss.near.keyRe, _ = regexp.Compile(p)
				}
			}
		}
	}
	if ss.near.keyRe == nil {
		c.Note("sweep: the published pattern of cbc/key is not readable: no key compositions")
	}
	used := map[string]int{}
	var jobs []*sweepJob
	r := c.Rng
	for _, e := range accepted {
		_, target := docOf(e)
		tm, ok := target.(map[string]any)
		if !ok {
			continue
		}
		id, _ := tm["$schema"].(string)
		rn, ok := ss.root(id)
		if !ok {
			continue
		}
		var poss []spos
		ss.walk(ss.deref(rn), tm, nil, 0, &poss)
		short := strings.TrimPrefix(id, base)
		emit := func(p spos, kind string, cs []cand) {
			if len(cs) == 0 {
				return
			}
			key := short + "|" + starPath(ptrOf(p.path)) + "|" + kind
			if used[key] >= perKey {
				return
			}
			used[key]++
			c.Count("sweep:positions:"+kind, 1)
			for _, cd := range cs {
				whole, tgt := docOf(e)
				if !setAt(tgt, p.path, cd.val) {
					continue
				}
				b, err := json.Marshal(whole)
				if err != nil || seen[string(b)] {
					continue
				}
				seen[string(b)] = true
				jobs = append(jobs, &sweepJob{src: e, mutation: "sweep:" + kind + ":" + starPath(ptrOf(p.path)) + ":" + cd.label, input: b})
			}
		}
		for _, p := range poss {
			t := typeOf(p.node.s)
			switch {
			case p.present:
				if _, isStr := p.val.(string); isStr {
					kind, cs := ss.stringCands(r, p.node, p.val)
					emit(p, kind, cs)
				}
				if arr, isArr := p.val.([]any); isArr && len(arr) > 0 {
					emit(p, "array-repeats-an-element", []cand{{"first-element-twice", append(append([]any{}, arr...), clone(arr[0]))}})
				}
			case t == "object" || t == "array":
				name, _ := p.path[len(p.path)-1].(string)
				emit(p, "absent-"+t, ss.objectCands(r, p.node, pl, name))
			default:
				kind, cs := ss.stringCands(r, p.node, nil)
				if kind != "" {
					emit(p, "absent-"+kind, cs)
				}
			}
		}
	}
	c.Count("sweep:tried", int64(len(jobs)))
	var wg sync.WaitGroup
	work := make(chan *sweepJob, 256)
	for w := 0; w < 12; w++ {
		wg.Add(1)
		go func() {
			defer wg.Done()
			for j := range work {
				out, _, err := goAccept(j.input, j.src.isEnvelope)
				if err == nil {
					j.out, j.ok = out, true
				}
			}
		}()
	}
	for _, j := range jobs {
		work <- j
	}
	close(work)
	wg.Wait()
	for _, j := range jobs {
		kind := strings.SplitN(strings.TrimPrefix(j.mutation, "sweep:"), ":", 2)[0]
		if !j.ok {
			c.Count("sweep:rejected-by-gobl:"+kind, 1)
			continue
		}
		c.Count("sweep:kept:"+kind, 1)
		if os.Getenv("VERIF_C11_SWEEP_DEBUG") != "" {
			fmt.Fprintf(os.Stderr, "KEPT %s %s\n", j.src.path, j.mutation)
		}
		add(Case{Source: j.src.path, Mutation: j.mutation, Input: j.input, IsEnvelope: j.src.isEnvelope}, j.out)
	}
}

// ---- classifiers of the holes found on the unchanged tree ----------------------------------------

var reFracDateTime = regexp.MustCompile(`^[0-9]{4}-[0-9]{2}-[0-9]{2}T[0-9]{2}:[0-9]{2}:[0-9]{2}\.[0-9]{1,9}$`)

var classifySchemas *schemaSet

// classifyHole names the triaged hole a schema complaint falls under ("" = none).
func classifyHole(ck *check, e pyErr, val any) string {
	s, isStr := val.(string)
	switch {
	case strings.HasSuffix(e.Path, "/$regime") && isStr:
		// a code the regime registry answers to without it being the regime's own code
		if rd := tax.RegimeDefFor(l10n.Code(s)); rd != nil && rd.Country.String() != s {
			return knownRegimeAlias
		}
	case e.Kw == "pattern" && isStr && reFracDateTime.MatchString(s):
		return knownDateTimeFrac
	}
	if classifySchemas == nil {
		return ""
	}
	toks, defs := classifySchemas.defsAlong(ck.id, e.Path)
	for i, t := range toks {
		for _, u := range unvalidatedMembers {
			if t == u.member && defs[i] == base+u.def {
				return u.classifier
			}
		}
	}
	return ""
}
