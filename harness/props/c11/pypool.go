package c11

import (
	"bufio"
	"bytes"
	"encoding/json"
	"fmt"
	"os/exec"
	"path/filepath"
	"sync"
)

// pyPool runs harness/py/schemacheck.py (python jsonschema, offline registry
// of the local schema files) in a few parallel processes.
type pyPool struct {
	script  string
	schemas string
	procs   int
}

type pyReq struct {
	N       int    `json:"n"`
	Op      string `json:"op"`
	ID      string `json:"id,omitempty"`
	Doc     any    `json:"doc,omitempty"`
	Pattern string `json:"pattern"`
	S       string `json:"s"`
	Format  string `json:"format,omitempty"`
}

type pyErr struct {
	Kw         string `json:"kw"`
	Path       string `json:"path"`
	SchemaPath string `json:"schema_path"`
	Msg        string `json:"msg"`
}

type pyResp struct {
	N      int     `json:"n"`
	OK     bool    `json:"ok"`
	M      bool    `json:"m"`
	Errors []pyErr `json:"errors"`
	Error  string  `json:"error"`
}

func newPyPool(root, repo string) *pyPool {
	return &pyPool{script: filepath.Join(root, "harness", "py", "schemacheck.py"), schemas: filepath.Join(repo, "data", "schemas"), procs: 12}
}

func (p *pyPool) meta() ([]metaLine, error) {
	cmd := exec.Command("python3-vt", p.script, "meta", p.schemas)
	var errb bytes.Buffer
	cmd.Stderr = &errb
	out, err := cmd.Output()
	if err != nil {
		return nil, fmt.Errorf("schemacheck meta: %v: %s", err, errb.String())
	}
	var lines []metaLine
	sc := bufio.NewScanner(bytes.NewReader(out))
	sc.Buffer(make([]byte, 1<<20), 1<<28)
	for sc.Scan() {
		var l metaLine
		if err := json.Unmarshal(sc.Bytes(), &l); err != nil {
			return nil, err
		}
		lines = append(lines, l)
	}
	return lines, nil
}

// run answers the requests in order.
func (p *pyPool) run(reqs []pyReq) ([]pyResp, error) {
	out := make([]pyResp, len(reqs))
	if len(reqs) == 0 {
		return out, nil
	}
	for i := range reqs {
		reqs[i].N = i
	}
	procs := p.procs
	if len(reqs) < 4*procs {
		procs = 1 + len(reqs)/8
	}
	var wg sync.WaitGroup
	var mu sync.Mutex
	var firstErr error
	for w := 0; w < procs; w++ {
		wg.Add(1)
		go func(w int) {
			defer wg.Done()
			var in bytes.Buffer
			enc := json.NewEncoder(&in)
			n := 0
			for i := w; i < len(reqs); i += procs {
				if err := enc.Encode(reqs[i]); err != nil {
					mu.Lock()
					firstErr = err
					mu.Unlock()
					return
				}
				n++
			}
			cmd := exec.Command("python3-vt", p.script, "serve", p.schemas)
			cmd.Stdin = &in
			var errb bytes.Buffer
			cmd.Stderr = &errb
			b, err := cmd.Output()
			if err != nil {
				mu.Lock()
				if firstErr == nil {
					firstErr = fmt.Errorf("schemacheck serve: %v: %s", err, errb.String())
				}
				mu.Unlock()
				return
			}
			sc := bufio.NewScanner(bytes.NewReader(b))
			sc.Buffer(make([]byte, 1<<20), 1<<28)
			got := 0
			for sc.Scan() {
				var r pyResp
				if err := json.Unmarshal(sc.Bytes(), &r); err != nil || r.N < 0 || r.N >= len(out) {
					mu.Lock()
					if firstErr == nil {
						firstErr = fmt.Errorf("schemacheck serve: bad line %q", sc.Text())
					}
					mu.Unlock()
					return
				}
				out[r.N] = r
				got++
			}
			if got != n {
				mu.Lock()
				if firstErr == nil {
					firstErr = fmt.Errorf("schemacheck serve: %d answers for %d requests: %s", got, n, errb.String())
				}
				mu.Unlock()
			}
		}(w)
	}
	wg.Wait()
	return out, firstErr
}
