package c11

// WHAT WAS HANDED OUT STAYS WHAT WAS HANDED OUT.
//
// C11: "every envelope or document that calculates and validates successfully serialises to JSON
// that the published schema for its type accepts … a consumer validating GOBL output against the
// schemas never rejects what the library accepted."  The output is the bytes the serialisation
// entry points hand to the caller — Object.MarshalJSON (the json.Marshaler a caller may use
// directly), json.Marshal of the document, json.Marshal of the envelope — and the caller sends them
// on when it pleases.  The statement is about the document those bytes were written for; what
// happens to the OBJECT afterwards (it is edited and calculated again, it is serialised again for
// a digest, a validation, an output) is no longer their business.  All other stages of this
// harness read a serialisation at once and throw the object away; this one keeps ONE object alive:
//
//	parse, calculate, validate                     — state 0
//	hand out every serialisation, KEEP the slices as they were handed out (and a copy of the text)
//	edit the same object so that its text SHRINKS (an element dropped from an array, a member dropped), calculate,
//	validate, hand out and keep again; back to the original (the text GROWS); an element doubled
//	(grows beyond anything written so far); a second shrink; the original again
//	   — edits made by decoding the new JSON into the same schema.Object, and by assigning the new
//	     payload through the pointer Envelope.Extract returns (the Go API), alternately
//	after every step: every slice kept so far must still hold the text it held when handed out
//
// A kept slice whose text changed is judged as the output it is: not JSON any more ⇒ no schema
// accepts it (violation); still JSON ⇒ judged against the published schema like every other
// accepted output.  The edits are computed from the document (every array with two or more /
// one or more elements, every member of the document), validity is established on a fresh parse first.

import (
	"bytes"
	"encoding/json"
	"fmt"
	"reflect"

	"github.com/invopop/gobl"
	"github.com/invopop/gobl/schema"

	"verifharness/internal/core"
)

type keptBytes struct {
	entry string
	state int
	b     []byte // as handed out
	text  string // what it said then
}

type keptChange struct {
	Entry     string `json:"entry"`
	FromState int    `json:"handed_out_in_state"`
	AfterStep int    `json:"changed_after_step"`
	Was       string `json:"was"`
	Now       string `json:"now"`
}

// arrays lists the arrays of a decoded document (path of keys / indexes).
func arraysOf(v any, path []any, depth int, out *[][]any) {
	if depth > 4 {
		return
	}
	switch t := v.(type) {
	case map[string]any:
		for _, k := range sortedKeysAny(t) {
			arraysOf(t[k], extend(path, k), depth+1, out)
		}
	case []any:
		*out = append(*out, path)
		for i, e := range t {
			if i < 2 {
				arraysOf(e, extend(path, i), depth+1, out)
			}
		}
	}
}

func getAt(v any, path []any) any {
	for _, p := range path {
		switch k := p.(type) {
		case string:
			m, ok := v.(map[string]any)
			if !ok {
				return nil
			}
			v = m[k]
		case int:
			a, ok := v.([]any)
			if !ok || k >= len(a) {
				return nil
			}
			v = a[k]
		}
	}
	return v
}

// docJSONOf: the document of an input (the `doc` of an envelope).
func docJSONOf(e example) (any, bool) {
	v, err := decode(e.json)
	if err != nil {
		return nil, false
	}
	if e.isEnvelope {
		m, ok := v.(map[string]any)
		if !ok {
			return nil, false
		}
		return m["doc"], m["doc"] != nil
	}
	return v, true
}

// keptSteps computes the states the object goes through after state 0: documents (JSON) that GOBL
// accepts on a fresh parse.
func keptSteps(c *core.Ctx, e example) (steps []json.RawMessage, names []string) {
	orig, ok := docJSONOf(e)
	if !ok {
		return nil, nil
	}
	origJSON, err := json.Marshal(orig)
	if err != nil {
		return nil, nil
	}
	var paths [][]any
	arraysOf(orig, nil, 0, &paths)
	c.Rng.Shuffle(len(paths), func(i, j int) { paths[i], paths[j] = paths[j], paths[i] })
	var shrinks, grows []json.RawMessage
	var sn, gn []string
	tries := 0
	for _, p := range paths {
		if tries >= 8 || (len(shrinks) >= 2 && len(grows) >= 1) {
			break
		}
		for _, grow := range []bool{false, true} {
			if (grow && len(grows) >= 1) || (!grow && len(shrinks) >= 2) {
				continue
			}
			d := clone(orig)
			a, _ := getAt(d, p).([]any)
			if (grow && len(a) < 1) || (!grow && len(a) < 2) {
				continue
			}
			var na []any
			if grow {
				na = append(append([]any{}, a...), clone(a[len(a)-1]))
			} else {
				na = a[:len(a)-1]
			}
			if !setAt(d, p, na) {
				continue
			}
			b, err := json.Marshal(d)
			if err != nil {
				continue
			}
			tries++
			if _, _, err := goAccept(b, false); err != nil {
				continue
			}
			if grow {
				grows, gn = append(grows, b), append(gn, "last element of "+ptrOf(p)+" doubled")
			} else {
				shrinks, sn = append(shrinks, b), append(sn, "last element of "+ptrOf(p)+" dropped")
			}
		}
	}
	// a member of the document dropped (what the arrays do not give: most documents have one line)
	if om, isObj := orig.(map[string]any); isObj && len(shrinks) < 2 {
		ks := sortedKeysAny(om)
		c.Rng.Shuffle(len(ks), func(i, j int) { ks[i], ks[j] = ks[j], ks[i] })
		for _, k := range ks {
			if tries >= 16 || len(shrinks) >= 2 {
				break
			}
			if k == "$schema" {
				continue
			}
			d, _ := clone(orig).(map[string]any)
			delete(d, k)
			b, err := json.Marshal(d)
			if err != nil {
				continue
			}
			tries++
			if _, _, err := goAccept(b, false); err != nil {
				continue
			}
			shrinks, sn = append(shrinks, b), append(sn, "member /"+k+" dropped")
		}
	}
	if len(shrinks) == 0 {
		return nil, nil
	}
	add := func(b json.RawMessage, n string) { steps, names = append(steps, b), append(names, n) }
	add(shrinks[0], sn[0])
	add(origJSON, "the original again")
	if len(grows) > 0 {
		add(grows[0], gn[0])
	}
	add(shrinks[len(shrinks)-1], sn[len(sn)-1])
	add(origJSON, "the original again")
	return steps, names
}

// keptRun keeps one object alive through the steps; it answers the first kept slice that no longer
// says what it said (nil: none), and how far it came.
func keptRun(input []byte, isEnvelope bool, steps []json.RawMessage) (ch *keptChange, done int, stage string, err error) {
	pan := core.Protect(func() {
		var env *gobl.Envelope
		if isEnvelope {
			env = new(gobl.Envelope)
			if err = json.Unmarshal(input, env); err != nil {
				stage = "parse"
				return
			}
			if err = env.Calculate(); err != nil {
				stage = "calculate"
				return
			}
		} else {
			doc := new(schema.Object)
			if err = json.Unmarshal(input, doc); err != nil {
				stage = "parse"
				return
			}
			if env, err = gobl.Envelop(doc); err != nil {
				stage = "calculate"
				return
			}
		}
		env.Head.UUID = fixedUUID
		if err = env.Validate(); err != nil {
			stage = "validate"
			return
		}
		var kept []keptBytes
		handOut := func(state int) {
			take := func(entry string, b []byte, e error) {
				if e == nil && b != nil {
					kept = append(kept, keptBytes{entry, state, b, string(b)})
				}
			}
			b, e := env.Document.MarshalJSON()
			take("Envelope.Document.MarshalJSON()", b, e)
			b, e = json.Marshal(env.Document)
			take("json.Marshal(Envelope.Document)", b, e)
			b, e = json.Marshal(env)
			take("json.Marshal(Envelope)", b, e)
			if m, ok := env.Extract().(json.Marshaler); ok {
				b, e = m.MarshalJSON()
				take("payload.MarshalJSON()", b, e)
			}
		}
		look := func(step int) bool {
			for _, k := range kept {
				if string(k.b) != k.text {
					ch = &keptChange{Entry: k.entry, FromState: k.state, AfterStep: step, Was: k.text, Now: string(k.b)}
					return true
				}
			}
			return false
		}
		handOut(0)
		if look(0) {
			return
		}
		for i, st := range steps {
			if i%2 == 0 {
				if err = json.Unmarshal(st, env.Document); err != nil {
					stage = "step-parse"
					return
				}
			} else {
				fresh := new(schema.Object)
				if err = json.Unmarshal(st, fresh); err != nil {
					stage = "step-parse"
					return
				}
				cur, nw := reflect.ValueOf(env.Extract()), reflect.ValueOf(fresh.Instance())
				if cur.Kind() != reflect.Ptr || nw.Kind() != reflect.Ptr || cur.Type() != nw.Type() || cur.IsNil() || nw.IsNil() {
					stage = "step-type"
					err = fmt.Errorf("payload of another type")
					return
				}
				cur.Elem().Set(nw.Elem()) // *payload = *newPayload: the caller edits the object it extracted
			}
			err = env.Calculate()
			if look(i + 1) {
				err = nil
				return
			}
			if err != nil {
				stage = "step-calculate"
				return
			}
			err = env.Validate()
			if look(i + 1) {
				err = nil
				return
			}
			if err != nil {
				stage = "step-validate"
				return
			}
			done = i + 1
			handOut(i + 1)
			if look(i + 1) {
				return
			}
		}
	})
	if pan != "" {
		return nil, done, "panic", fmt.Errorf("panic: %s", pan)
	}
	return ch, done, stage, err
}

// judgeKept: a kept slice that changed is the output the caller sends on.
func judgeKept(c *core.Ctx, cs Case, ch *keptChange, addAccepted func(cs Case, envJSON []byte)) {
	if ch == nil {
		return
	}
	c.Count("kept:a slice handed out changed afterwards", 1)
	now := []byte(ch.Now)
	if !json.Valid(now) {
		what := fmt.Sprintf("%s: the bytes handed out by %s for the calculated and validated document (state %d) were kept by the caller; after step %d on the same object (edited, calculated and validated again) they are no longer the JSON they were, nor JSON at all — no published schema accepts them. They said %s, they now say %s",
			cs.Source, ch.Entry, ch.FromState, ch.AfterStep, clip(ch.Was), clip(ch.Now))
		c.Fail("", what, cs)
		return
	}
	// still JSON: judged like every accepted output (the envelope or the document as it now reads)
	if bytes.HasPrefix(bytes.TrimSpace(now), []byte("{")) {
		k := cs
		k.Mutation = cs.Mutation + " (bytes kept from " + ch.Entry + ", changed under the caller)"
		addAccepted(k, now)
	}
}

func clip(s string) string {
	if len(s) <= 160 {
		return fmt.Sprintf("%q", s)
	}
	return fmt.Sprintf("%q … %q (%d bytes)", s[:70], s[len(s)-70:], len(s))
}

// keptSerialisations is the stage.
func keptSerialisations(c *core.Ctx, accepted []example, addAccepted func(cs Case, envJSON []byte)) {
	n := c.Pick(60, 1<<30)
	order := c.Rng.Perm(len(accepted))
	ran := 0
	for _, i := range order {
		if ran >= n {
			break
		}
		e := accepted[i]
		steps, names := keptSteps(c, e)
		if len(steps) == 0 {
			c.Count("kept:no shrinking edit that stays valid", 1)
			continue
		}
		ran++
		cs := Case{Kind: "kept", Source: e.path, Mutation: "kept-serialisations", Input: e.json, IsEnvelope: e.isEnvelope, Steps: steps, StepNames: names}
		ch, done, stage, err := keptRun(e.json, e.isEnvelope, steps)
		c.Count("kept:objects", 1)
		c.Count(fmt.Sprintf("kept:steps-done:%d", done), 1)
		if err != nil {
			c.Count("kept:stopped:"+stage, 1)
			if stage == "panic" {
				c.Note("kept: %s: %v", e.path, err)
			}
		}
		c.Eval("kept "+e.path, done > 0)
		judgeKept(c, cs, ch, addAccepted)
	}
}
