// Package c11 checks C11: the published JSON Schemas are valid draft 2020-12
// schemas with resolvable references, and every envelope / document that GOBL
// calculates and validates conforms to the published schema of its `$schema`.
//
// Judges: (a) the Lean consumer model (Model/Schema.lean, through the driver)
// and (b) python `jsonschema` (harness/py/schemacheck.py).  GOBL accepted and
// both judges reject = property violation with the document as the replay;
// the two judges disagreeing = the tie is broken (the Lean model is wrong, or
// the cross-check is), reported without a witness.
package c11

import (
	"bytes"
	"encoding/json"
	"fmt"
	"os"
	"path/filepath"
	"regexp"
	"sort"
	"strings"
	"sync"

	"github.com/invopop/gobl"
	"github.com/invopop/gobl/schema"
	"github.com/invopop/gobl/uuid"
	"github.com/invopop/yaml"

	"verifharness/internal/core"
)

const envelopeID = "https://gobl.org/draft-0/envelope"

// Classifier of the one triaged finding left (known_findings.json).  It is a
// predicate over the document: *every* complaint of the schema must fall under
// the trigger, otherwise the case is an unclassified violation.
//
// Repaired in /repo and no longer classified (each is a violation if it comes
// back): tax identity codes of the pattern-exempt country (the schema of
// tax.Identity.code now admits them), tax summaries stored with document
// references (tax.Total / CategoryTotal / RateTotal validate code, rates, key
// and country), extension values (held to cbc.Code by Extensions.Validate),
// `tracking` of a bill.Delivery.
const (
	// a `format: uri` complaint about a text that is.URL accepted although it cannot be an
	// RFC 3986 URI (no scheme, characters outside the URI repertoire, bare `%`).
	knownURLNotURI = "url-accepted-by-is-url-is-not-an-rfc3986-uri"
)

// Case is one replayable case.
type Case struct {
	Kind       string          `json:"kind"` // doc | schema-file | leaf
	Source     string          `json:"source,omitempty"`
	Mutation   string          `json:"mutation,omitempty"`
	Input      json.RawMessage `json:"input,omitempty"`       // document (or envelope) before Calculate
	IsEnvelope bool            `json:"is_envelope,omitempty"` // Input is an envelope
	Envelope   json.RawMessage `json:"envelope,omitempty"`    // what GOBL produced and validated
	SchemaFile string          `json:"schema_file,omitempty"`
	SchemaID   string          `json:"schema_id,omitempty"` // leaf: schema, Value
	Value      json.RawMessage `json:"value,omitempty"`
	GoType     string          `json:"go_type,omitempty"` // leaf: the Go type whose Validate accepted Value (re-run on replay)
	Signed     bool            `json:"signed,omitempty"`  // Input is a signed envelope: read, validated and written as it stands (signed.go)
	// kind "kept" (kept.go): the documents the SAME object is edited to, one after the other
	Steps     []json.RawMessage `json:"steps,omitempty"`
	StepNames []string          `json:"step_names,omitempty"`
}

// check is one (schema id, instance) pair to be judged.
type check struct {
	caseIdx  int
	id       string
	inst     any // decoded with UseNumber
	raw      json.RawMessage
	accepted bool   // GOBL accepted it (property stream) / false: model-correspondence stream only
	what     string // envelope | doc | leaf
	lean     string
	py       pyResp
}

var fixedUUID = uuid.MustParse("8a51fd30-2a27-11ee-be56-0242ac120002")

// goAccept runs the real code: parse, calculate, validate, marshal.
func goAccept(input []byte, isEnvelope bool) (out []byte, stage string, err error) {
	var env *gobl.Envelope
	pan := core.Protect(func() {
		if isEnvelope {
			env = new(gobl.Envelope)
			if err = json.Unmarshal(input, env); err != nil {
				stage = "parse"
				return
			}
			if err = env.Calculate(); err != nil {
				stage = "calculate"
				return
			}
		} else {
			doc := new(schema.Object)
			if err = json.Unmarshal(input, doc); err != nil {
				stage = "parse"
				return
			}
			if env, err = gobl.Envelop(doc); err != nil {
				stage = "calculate"
				return
			}
		}
		env.Head.UUID = fixedUUID
		if err = env.Validate(); err != nil {
			stage = "validate"
			return
		}
		out, err = json.Marshal(env)
		if err != nil {
			stage = "marshal"
		}
	})
	if pan != "" {
		return nil, "panic", fmt.Errorf("panic: %s", pan)
	}
	return out, stage, err
}

func decode(b []byte) (any, error) {
	dec := json.NewDecoder(bytes.NewReader(b))
	dec.UseNumber()
	var v any
	err := dec.Decode(&v)
	return v, err
}

// numTok renders a JSON number literal as "d <mantissa> <exp10>".
func numTok(lit string) (string, bool) {
	s := lit
	neg := false
	if strings.HasPrefix(s, "-") {
		neg, s = true, s[1:]
	}
	exp := 0
	if i := strings.IndexAny(s, "eE"); i >= 0 {
		if _, err := fmt.Sscanf(s[i+1:], "%d", &exp); err != nil {
			return "", false
		}
		s = s[:i]
	}
	if i := strings.IndexByte(s, '.'); i >= 0 {
		exp -= len(s) - i - 1
		s = s[:i] + s[i+1:]
	}
	s = strings.TrimLeft(s, "0")
	if s == "" {
		s = "0"
	}
	if exp > 400 || exp < -400 || len(s) > 400 {
		return "", false
	}
	if neg && s != "0" {
		s = "-" + s
	}
	return fmt.Sprintf("d %s %d", s, exp), true
}

// tokens renders a decoded JSON value in the driver's prefix notation.
func tokens(v any, sb *strings.Builder) bool {
	switch x := v.(type) {
	case nil:
		sb.WriteString(" n")
	case bool:
		if x {
			sb.WriteString(" t")
		} else {
			sb.WriteString(" f")
		}
	case json.Number:
		t, ok := numTok(x.String())
		if !ok {
			return false
		}
		sb.WriteString(" " + t)
	case string:
		sb.WriteString(" s " + core.Hex(strings.ToValidUTF8(x, "�")))
	case []any:
		fmt.Fprintf(sb, " a %d", len(x))
		for _, c := range x {
			if !tokens(c, sb) {
				return false
			}
		}
	case map[string]any:
		ks := make([]string, 0, len(x))
		for k := range x {
			ks = append(ks, k)
		}
		sort.Strings(ks)
		fmt.Fprintf(sb, " o %d", len(ks))
		for _, k := range ks {
			sb.WriteString(" " + core.Hex(k))
			if !tokens(x[k], sb) {
				return false
			}
		}
	default:
		return false
	}
	return true
}

func unhex(h string) string {
	if h == "-" || h == "" {
		return ""
	}
	var b []byte
	_, _ = fmt.Sscanf(h, "%x", &b)
	return string(b)
}

// ---- corpus ---------------------------------------------------------------

var skipExamplePaths = []string{"build/", ".out.", "/out/", "data/", ".github", ".golangci.yaml", "wasm/", "node_modules/"}

type example struct {
	path       string
	isEnvelope bool
	json       []byte // input as JSON
}

func loadInputs(repo string) ([]example, error) {
	var out []example
	err := filepath.Walk(repo, func(path string, info os.FileInfo, err error) error {
		if err != nil {
			return nil
		}
		if info.IsDir() {
			if info.Name() == ".git" {
				return filepath.SkipDir
			}
			return nil
		}
		ext := filepath.Ext(path)
		if ext != ".yaml" && ext != ".json" {
			return nil
		}
		rel, _ := filepath.Rel(repo, path)
		rel = filepath.ToSlash(rel)
		if !strings.Contains(rel, "examples/") {
			return nil
		}
		for _, s := range skipExamplePaths {
			if strings.Contains(rel, s) {
				return nil
			}
		}
		data, err := os.ReadFile(path)
		if err != nil {
			return nil
		}
		j, err := yaml.YAMLToJSON(data)
		if err != nil {
			return nil
		}
		out = append(out, example{path: rel, isEnvelope: strings.Contains(rel, ".env."), json: j})
		return nil
	})
	sort.Slice(out, func(i, j int) bool { return out[i].path < out[j].path })
	return out, err
}

func loadOutFiles(repo string) ([]example, error) {
	var out []example
	err := filepath.Walk(repo, func(path string, info os.FileInfo, err error) error {
		if err != nil {
			return nil
		}
		if info.IsDir() {
			if info.Name() == ".git" {
				return filepath.SkipDir
			}
			return nil
		}
		rel, _ := filepath.Rel(repo, path)
		rel = filepath.ToSlash(rel)
		if !strings.HasSuffix(rel, ".json") || !strings.Contains(rel, "examples/") || !strings.Contains(rel, "/out/") {
			return nil
		}
		data, err := os.ReadFile(path)
		if err != nil {
			return nil
		}
		out = append(out, example{path: rel, isEnvelope: true, json: data})
		return nil
	})
	sort.Slice(out, func(i, j int) bool { return out[i].path < out[j].path })
	return out, err
}

// ---- judging --------------------------------------------------------------

// checksOf splits what a consumer validates: the envelope against the envelope
// schema and the embedded document against the schema its `$schema` names.
func checksOf(idx int, envJSON []byte, accepted bool) ([]*check, error) {
	v, err := decode(envJSON)
	if err != nil {
		return nil, err
	}
	m, ok := v.(map[string]any)
	if !ok {
		return nil, fmt.Errorf("not an object")
	}
	id, _ := m["$schema"].(string)
	if id == "" {
		return nil, fmt.Errorf("no $schema")
	}
	var out []*check
	out = append(out, &check{caseIdx: idx, id: id, inst: v, accepted: accepted, what: "envelope"})
	if id == envelopeID {
		if d, ok := m["doc"].(map[string]any); ok {
			if did, _ := d["$schema"].(string); did != "" {
				out = append(out, &check{caseIdx: idx, id: did, inst: d, accepted: accepted, what: "doc"})
			}
		}
	} else {
		out[0].what = "doc"
	}
	return out, nil
}

var reTracking = regexp.MustCompile(`^/tracking(/|$)`)

// classifyOne names the triaged trigger one schema complaint falls under ("" = none).
func classifyOne(ck *check, e pyErr) string {
	val := lookupPath(ck.inst, e.Path)
	if e.Kw == "format" && strings.HasSuffix(e.Path, "/url") && !reTracking.MatchString(e.Path) {
		if t, ok := val.(string); ok && !isURIish(t) {
			return knownURLNotURI
		}
	}
	return classifyHole(ck, e, val) // holes found by the schema-guided sweep (sweep.go)
}

// isURIish is the necessary RFC 3986 condition both judges assert for `format: uri`.
func isURIish(t string) bool {
	i := strings.IndexByte(t, ':')
	if i <= 0 || !regexp.MustCompile(`^[A-Za-z][A-Za-z0-9+.\-]*$`).MatchString(t[:i]) {
		return false
	}
	return regexp.MustCompile(`^([A-Za-z0-9\-._~:/?#\[\]@!$&'()*+,;=]|%[0-9A-Fa-f]{2})*$`).MatchString(t)
}

// classify decides whether the schema's complaints are all triaged triggers;
// the classifier of the first complaint names the case.
func classify(ck *check) string {
	if len(ck.py.Errors) == 0 || len(ck.py.Errors) >= 8 {
		return ""
	}
	first := ""
	for _, e := range ck.py.Errors {
		k := classifyOne(ck, e)
		if k == "" {
			return ""
		}
		if first == "" {
			first = k
		}
	}
	return first
}

func lookupPath(v any, ptr string) any {
	if ptr == "" {
		return v
	}
	for _, tok := range strings.Split(strings.TrimPrefix(ptr, "/"), "/") {
		tok = strings.ReplaceAll(strings.ReplaceAll(tok, "~1", "/"), "~0", "~")
		switch x := v.(type) {
		case map[string]any:
			v = x[tok]
		case []any:
			var i int
			if _, err := fmt.Sscanf(tok, "%d", &i); err != nil || i < 0 || i >= len(x) {
				return nil
			}
			v = x[i]
		default:
			return nil
		}
	}
	return v
}

// judge runs both judges over the checks and reports.
func judge(c *core.Ctx, py *pyPool, cases []Case, checks []*check) {
	reqs := make([]string, 0, len(checks))
	idx := make([]int, 0, len(checks))
	for i, ck := range checks {
		var sb strings.Builder
		sb.WriteString("val " + core.Hex(ck.id))
		if !tokens(ck.inst, &sb) {
			ck.lean = "skip"
			c.Count("skipped:number-out-of-model-range", 1)
			continue
		}
		reqs = append(reqs, sb.String())
		idx = append(idx, i)
	}
	resp, err := modelParallel(c, reqs)
	if err != nil {
		c.TieBroken("drive:C11/model", err.Error(), nil)
		return
	}
	for k, i := range idx {
		checks[i].lean = resp[k]
	}
	pyReqs := make([]pyReq, len(checks))
	for i, ck := range checks {
		pyReqs[i] = pyReq{Op: "val", ID: ck.id, Doc: ck.inst}
	}
	pyResps, err := py.run(pyReqs)
	if err != nil {
		c.TieBroken("drive:C11/python", err.Error(), nil)
		return
	}
	for i, ck := range checks {
		ck.py = pyResps[i]
		if ck.lean == "skip" {
			continue
		}
		cs := cases[ck.caseIdx]
		leanOK := ck.lean == "ok"
		leanReject := strings.HasPrefix(ck.lean, "reject ") || strings.HasPrefix(ck.lean, "broken ")
		if !leanOK && !leanReject {
			c.TieBroken("drive:C11/protocol", "unexpected model response "+ck.lean, cs)
			continue
		}
		leanWhy := ck.lean
		if f := strings.Fields(ck.lean); len(f) == 3 && f[0] == "reject" {
			leanWhy = "reject " + f[1] + " at " + unhex(f[2])
		} else if len(f) == 2 && f[0] == "broken" {
			leanWhy = "broken: " + unhex(f[1])
		}
		if ck.py.Error != "" {
			// the cross-check could not evaluate the schema at all (ill-typed keyword…)
			if leanReject && strings.HasPrefix(ck.lean, "broken ") {
				c.Count("both:schema-not-evaluable", 1)
				if ck.accepted {
					c.Fail("", fmt.Sprintf("%s (%s): GOBL calculated and validated the document, but the published schema %s cannot be evaluated: model %s; jsonschema %s",
						cs.Source, cs.Mutation, ck.id, leanWhy, ck.py.Error), cs)
				}
				continue
			}
			c.TieBroken("drive:C11/validator", fmt.Sprintf("jsonschema failed (%s) where the model says %s, schema %s, %s", ck.py.Error, leanWhy, ck.id, cs.Source), cs)
			continue
		}
		key := fmt.Sprintf("%s|%s|%s", ck.id, cs.Source, cs.Mutation)
		c.Count("schema:"+strings.TrimPrefix(ck.id, "https://gobl.org/draft-0/"), 1)
		switch {
		case leanOK && ck.py.OK:
			c.Eval(key, cs.Mutation != "" || ck.what == "leaf")
			c.Count("verdict:"+streamName(ck)+":conforms", 1)
		case leanReject && !ck.py.OK:
			c.Eval(key, true)
			c.Count("verdict:"+streamName(ck)+":rejected", 1)
			if ck.accepted {
				first := ck.py.Errors[0]
				for _, e := range ck.py.Errors {
					c.Count("go-accepted-but-rejected:"+strings.TrimPrefix(ck.id, base)+":"+e.Kw+":"+starPath(e.Path), 1)
				}
				c.Fail(classify(ck), fmt.Sprintf("%s (%s): GOBL calculated and validated the %s, but the published schema %s rejects it: %s at %s — %s (model: %s)",
					cs.Source, cs.Mutation, ck.what, ck.id, first.Kw, first.Path, first.Msg, leanWhy), cs)
			}
		default:
			c.Eval(key, true)
			pyWhy := "accepts"
			if !ck.py.OK {
				pyWhy = fmt.Sprintf("rejects (%s at %s: %s)", ck.py.Errors[0].Kw, ck.py.Errors[0].Path, ck.py.Errors[0].Msg)
			}
			c.TieBroken("drive:C11/validator", fmt.Sprintf("Lean consumer model and jsonschema disagree on schema %s, %s (%s): model %s, jsonschema %s",
				ck.id, cs.Source, cs.Mutation, leanWhy, pyWhy), map[string]any{"case": cs, "schema": ck.id, "instance": ck.inst})
		}
	}
}

var reIndex = regexp.MustCompile(`/[0-9]+`)

func starPath(p string) string { return reIndex.ReplaceAllString(p, "/*") }

// modelParallel spreads a batch over several driver processes (documents are
// long requests; core.Model only shards batches of many thousand lines).
func modelParallel(c *core.Ctx, reqs []string) ([]string, error) {
	const workers = 12
	if len(reqs) < 4*workers {
		return c.Model(reqs)
	}
	out := make([]string, len(reqs))
	per := (len(reqs) + workers - 1) / workers
	var wg sync.WaitGroup
	var mu sync.Mutex
	var firstErr error
	for lo := 0; lo < len(reqs); lo += per {
		hi := lo + per
		if hi > len(reqs) {
			hi = len(reqs)
		}
		wg.Add(1)
		go func(lo, hi int) {
			defer wg.Done()
			r, err := c.Model(reqs[lo:hi])
			if err != nil {
				mu.Lock()
				if firstErr == nil {
					firstErr = err
				}
				mu.Unlock()
				return
			}
			copy(out[lo:hi], r)
		}(lo, hi)
	}
	wg.Wait()
	return out, firstErr
}

func streamName(ck *check) string {
	if ck.accepted {
		return "go-accepted-" + ck.what
	}
	return "model-correspondence-" + ck.what
}

// ---- static part: schema files --------------------------------------------

type metaLine struct {
	File   string `json:"file"`
	ID     string `json:"id"`
	Valid  bool   `json:"valid"`
	Errors []struct {
		Path string `json:"path"`
		Msg  string `json:"msg"`
	} `json:"errors"`
	Unresolved []struct {
		Ref string `json:"ref"`
		Msg string `json:"msg"`
	} `json:"unresolved"`
	BadPatterns []struct {
		Pattern string `json:"pattern"`
		Msg     string `json:"msg"`
	} `json:"bad_patterns"`
}

func staticPart(c *core.Ctx, py *pyPool, only string) {
	lines, err := py.meta()
	if err != nil {
		c.TieBroken("drive:C11/python-meta", err.Error(), nil)
		return
	}
	resp, err := c.Model([]string{"static"})
	if err != nil || len(resp) != 1 {
		c.TieBroken("drive:C11/model", fmt.Sprint("static: ", err), nil)
		return
	}
	leanBad := map[string][]string{}
	f := strings.Fields(resp[0])
	if len(f) < 4 || f[0] != "files" {
		c.TieBroken("drive:C11/protocol", "unexpected static response "+resp[0], nil)
		return
	}
	for _, h := range f[4:] {
		s := unhex(h)
		if i := strings.LastIndex(s, ":"); i > 0 {
			leanBad[s[:i]] = append(leanBad[s[:i]], s[i+1:])
		}
	}
	if fmt.Sprint(len(lines)) != f[1] {
		c.TieBroken("drive:C11/static", fmt.Sprintf("the model holds %s schema files, %d are on disk", f[1], len(lines)), nil)
	}
	c.Count("schema-files", int64(len(lines)))
	for _, l := range lines {
		if only != "" && l.File != only {
			continue
		}
		c.Eval("schema-file:"+l.File, true)
		pyBad := !l.Valid || len(l.Unresolved) > 0 || len(l.BadPatterns) > 0
		lb := leanBad[l.File]
		switch {
		case pyBad:
			var why []string
			for _, e := range l.Errors {
				why = append(why, fmt.Sprintf("%s: %s", e.Path, e.Msg))
			}
			for _, u := range l.Unresolved {
				why = append(why, fmt.Sprintf("$ref %s does not resolve (%s)", u.Ref, u.Msg))
			}
			for _, p := range l.BadPatterns {
				why = append(why, fmt.Sprintf("pattern %s does not compile (%s)", p.Pattern, p.Msg))
			}
			c.Count("schema-file:invalid", 1)
			c.Fail("", fmt.Sprintf("data/schemas/%s is not a valid draft 2020-12 schema with resolvable references: %s (model: %v)",
				l.File, strings.Join(why, "; "), lb), Case{Kind: "schema-file", SchemaFile: l.File})
			if len(lb) == 0 {
				c.TieBroken("drive:C11/static", "jsonschema finds "+l.File+" invalid, the Lean checks pass: "+strings.Join(why, "; "), nil)
			}
		case len(lb) > 0:
			c.TieBroken("drive:C11/static", fmt.Sprintf("the Lean checks %v fail on %s, which jsonschema finds valid", lb, l.File), nil)
		default:
			c.Count("schema-file:valid", 1)
		}
	}
}

// ---- leaf patterns taken from the schema files ------------------------------

func schemaPatterns(repo string) (pats []string, err error) {
	seen := map[string]bool{}
	err = filepath.Walk(filepath.Join(repo, "data", "schemas"), func(p string, info os.FileInfo, err error) error {
		if err != nil || info.IsDir() || !strings.HasSuffix(p, ".json") {
			return nil
		}
		b, err := os.ReadFile(p)
		if err != nil {
			return nil
		}
		var v any
		if json.Unmarshal(b, &v) != nil {
			return nil
		}
		var walk func(x any)
		walk = func(x any) {
			switch t := x.(type) {
			case map[string]any:
				if s, ok := t["pattern"].(string); ok {
					seen[s] = true
				}
				if m, ok := t["patternProperties"].(map[string]any); ok {
					for k := range m {
						seen[k] = true
					}
				}
				for _, c := range t {
					walk(c)
				}
			case []any:
				for _, c := range t {
					walk(c)
				}
			}
		}
		walk(v)
		return nil
	})
	for k := range seen {
		pats = append(pats, k)
	}
	sort.Strings(pats)
	return
}
