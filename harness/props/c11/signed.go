package c11

// Signed envelopes (stream 3e).  The other streams only judge unsigned envelopes: `sigs` is
// dropped from every input.  Here accepted documents are enveloped and signed with fresh
// ES256 keys, and the signatures are handed back to GOBL in every encoding its reader takes:
//
//	compact                         what Envelope.Sign writes
//	two-signatures                  two compact signatures by two keys
//	flattened-json                  RFC 7515 §7.2.2, as a JSON text inside the string
//	flattened-json-unprotected-*    the same with an unprotected `header` member: a JWS that
//	                                has no compact form
//	general-json*                   RFC 7515 §7.2.1 (`signatures` array), one and two signers,
//	                                with and without unprotected headers
//	json-object                     the flattened serialization as a JSON object, not a string
//
// Whatever GOBL reads and validates (no Calculate: the signed header is left as it is) is
// marshalled and judged against envelope.json / dsig/signature.json like every other
// accepted envelope.

import (
	"encoding/json"
	"fmt"
	"strings"

	"github.com/invopop/gobl"
	"github.com/invopop/gobl/dsig"

	"verifharness/internal/core"
)

// acceptSigned reads an envelope as it stands, validates it and writes it again.
func acceptSigned(input []byte) (out []byte, stage string, err error) {
	pan := core.Protect(func() {
		env := new(gobl.Envelope)
		if err = json.Unmarshal(input, env); err != nil {
			stage = "parse"
			return
		}
		if err = env.Validate(); err != nil {
			stage = "validate"
			return
		}
		out, err = json.Marshal(env)
		if err != nil {
			stage = "marshal"
		}
	})
	if pan != "" {
		return nil, "panic", fmt.Errorf("panic: %s", pan)
	}
	return out, stage, err
}

// jwsParts splits a compact JWS.
func jwsParts(compact string) (protected, payload, signature string, ok bool) {
	p := strings.Split(compact, ".")
	if len(p) != 3 {
		return "", "", "", false
	}
	return p[0], p[1], p[2], true
}

func flattened(compact string, header map[string]any) map[string]any {
	pr, pl, sg, ok := jwsParts(compact)
	if !ok {
		return nil
	}
	m := map[string]any{"protected": pr, "payload": pl, "signature": sg}
	if header != nil {
		m["header"] = header
	}
	return m
}

func general(compacts []string, headers []map[string]any) map[string]any {
	var sigs []any
	payload := ""
	for i, c := range compacts {
		pr, pl, sg, ok := jwsParts(c)
		if !ok || (payload != "" && pl != payload) {
			return nil
		}
		payload = pl
		s := map[string]any{"protected": pr, "signature": sg}
		if i < len(headers) && headers[i] != nil {
			s["header"] = headers[i]
		}
		sigs = append(sigs, s)
	}
	return map[string]any{"payload": payload, "signatures": sigs}
}

func jsonText(v any) string {
	b, _ := json.Marshal(v)
	return string(b)
}

func signedEnvelopes(c *core.Ctx, accepted []example, add func(cs Case, envJSON []byte)) {
	n := c.Pick(16, 400)
	if n > len(accepted) {
		n = len(accepted)
	}
	if n == 0 {
		return
	}
	stride := len(accepted) / n
	if stride == 0 {
		stride = 1
	}
	for i := 0; i < len(accepted); i += stride {
		e := accepted[i]
		unsignedJSON, _, err := goAccept(e.json, e.isEnvelope)
		if err != nil {
			continue
		}
		env := new(gobl.Envelope)
		if json.Unmarshal(unsignedJSON, env) != nil {
			continue
		}
		k1, k2 := dsig.NewES256Key(), dsig.NewES256Key()
		var c1, c2 string
		pan := core.Protect(func() {
			if env.Sign(k1) != nil {
				return
			}
			c1 = env.Signatures[0].String()
			if env.Sign(k2) != nil || len(env.Signatures) != 2 {
				return
			}
			c2 = env.Signatures[1].String()
		})
		if pan != "" || c1 == "" {
			c.Count("signed:not-signable", 1)
			continue
		}
		c.Count("signed:sources", 1)
		var tree map[string]any
		if v, err := decode(unsignedJSON); err == nil {
			tree, _ = v.(map[string]any)
		}
		if tree == nil {
			continue
		}
		kid := map[string]any{"kid": k1.ID()}
		other := map[string]any{"x-note": "unprotected"}
		variants := []struct {
			label string
			sigs  []any
		}{
			{"compact", []any{c1}},
			{"flattened-json", []any{jsonText(flattened(c1, nil))}},
			{"flattened-json-unprotected-kid", []any{jsonText(flattened(c1, kid))}},
			{"flattened-json-unprotected-other", []any{jsonText(flattened(c1, other))}},
			{"general-json", []any{jsonText(general([]string{c1}, nil))}},
			{"general-json-unprotected-kid", []any{jsonText(general([]string{c1}, []map[string]any{kid}))}},
			{"json-object", []any{flattened(c1, nil)}},
			{"json-object-unprotected-kid", []any{flattened(c1, kid)}},
			{"compact-and-flattened-unprotected", []any{c1, jsonText(flattened(c1, other))}},
		}
		if c2 != "" {
			variants = append(variants,
				struct {
					label string
					sigs  []any
				}{"two-signatures", []any{c1, c2}},
				struct {
					label string
					sigs  []any
				}{"general-json-two-signers", []any{jsonText(general([]string{c1, c2}, nil))}},
				struct {
					label string
					sigs  []any
				}{"general-json-two-signers-unprotected", []any{jsonText(general([]string{c1, c2}, []map[string]any{kid, other}))}},
			)
		}
		for _, v := range variants {
			tree["sigs"] = v.sigs
			in, err := json.Marshal(tree)
			if err != nil {
				continue
			}
			c.Count("signed:tried:"+v.label, 1)
			out, stage, err := acceptSigned(in)
			if err != nil {
				c.Count("signed:rejected-by-gobl:"+v.label+":"+stage, 1)
				continue
			}
			c.Count("signed:kept:"+v.label, 1)
			// how the signatures come back (the schema wants strings; an empty string is one)
			var back struct {
				Sigs []json.RawMessage `json:"sigs"`
			}
			if json.Unmarshal(out, &back) == nil {
				for _, s := range back.Sigs {
					switch {
					case string(s) == `""`:
						c.Count("signed:written-as:empty-string:"+v.label, 1)
					case len(s) > 0 && s[0] == '"':
						c.Count("signed:written-as:string", 1)
					default:
						c.Count("signed:written-as:not-a-string", 1)
					}
				}
				if len(back.Sigs) != len(v.sigs) {
					c.Count("signed:signature-count-changed:"+v.label, 1)
				}
				// not this property's subject, but worth a number: does GOBL read its own output?
				if json.Unmarshal(out, new(gobl.Envelope)) != nil {
					c.Count("signed:output-not-read-back-by-gobl:"+v.label, 1)
				}
			}
			add(Case{Source: e.path, Mutation: "signed:" + v.label, Input: in, IsEnvelope: true, Signed: true}, out)
		}
	}
}
