package c11

import (
	"encoding/json"
	"fmt"
	"math"
	"math/rand"
	"regexp"
	"sort"
	"strings"
	"time"

	"github.com/invopop/gobl/cal"
	"github.com/invopop/gobl/cbc"
	"github.com/invopop/gobl/currency"
	"github.com/invopop/gobl/l10n"
	"github.com/invopop/gobl/num"
	"github.com/invopop/gobl/org"

	"verifharness/internal/core"
)

const base = "https://gobl.org/draft-0/"

// Run is the C11 run.
func Run(c *core.Ctx) int {
	py := newPyPool(c.Root, c.Repo)
	var rc Case
	if c.ReplayCase(&rc) {
		classifySchemas, _ = loadSchemaSet(c.Repo)
		return replay(c, py, rc)
	}
	classifySchemas, _ = loadSchemaSet(c.Repo)
	staticPart(c, py, "")

	inputs, err := loadInputs(c.Repo)
	if err != nil || len(inputs) == 0 {
		c.TieBroken("drive:C11/corpus", fmt.Sprint("no example inputs found: ", err), nil)
		return c.Finish("", nil)
	}
	outs, _ := loadOutFiles(c.Repo)
	inputs = append(inputs, syntheticInputs()...)

	var cases []Case
	var checks []*check
	addAccepted := func(cs Case, envJSON []byte) {
		cs.Kind = "doc"
		cs.Envelope = envJSON
		cks, err := checksOf(len(cases), envJSON, true)
		if err != nil {
			c.TieBroken("drive:C11/corpus", "GOBL output is not a JSON object with $schema: "+cs.Source, cs)
			return
		}
		cases = append(cases, cs)
		checks = append(checks, cks...)
	}

	// (1) the published example outputs, as far as the current code still accepts them
	for _, e := range outs {
		out, stage, err := goAccept(e.json, true)
		if err != nil {
			c.Count("out-file:not-accepted:"+stage, 1)
			continue
		}
		c.Count("out-file:accepted", 1)
		// the file itself is what a consumer receives; GOBL re-accepts it, so judge both texts
		addAccepted(Case{Source: e.path, Input: e.json, IsEnvelope: true}, e.json)
		if string(out) != string(e.json) {
			addAccepted(Case{Source: e.path + " (re-marshalled)", Input: e.json, IsEnvelope: true}, out)
		}
	}
	// (2) documents re-calculated from the example inputs
	var accepted []example
	for _, e := range inputs {
		out, stage, err := goAccept(e.json, e.isEnvelope)
		if err != nil {
			c.Count("input:not-accepted:"+stage, 1)
			continue
		}
		c.Count("input:accepted", 1)
		accepted = append(accepted, e)
		addAccepted(Case{Source: e.path, Input: e.json, IsEnvelope: e.isEnvelope}, out)
	}
	// (3) field-level mutations that the real code still calculates and validates
	mut := newMutator(c.Rng, inputs, outs)
	target := c.Pick(4000, 40000)
	budget := target * 12
	deadline := time.Now().Add(time.Duration(c.Pick(60, 900)) * time.Second)
	kept := 0
	panics := 0
	seen := map[string]bool{}
	var keptEnvs [][]byte
	for tries := 0; kept < target && tries < budget && len(accepted) > 0 && time.Now().Before(deadline); tries++ {
		e := accepted[c.Rng.Intn(len(accepted))]
		v, err := decode(e.json)
		if err != nil {
			continue
		}
		target := v
		if e.isEnvelope {
			if m, ok := v.(map[string]any); ok {
				if d, ok := m["doc"]; ok {
					target = d
				}
				delete(m, "head") // digest and stamps are recomputed
				delete(m, "sigs")
			}
		}
		name := mut.mutate(target)
		if name == "" {
			continue
		}
		b, err := json.Marshal(v)
		if err != nil || seen[string(b)] {
			continue
		}
		seen[string(b)] = true
		c.Count("mutants:tried", 1)
		out, stage, err := goAccept(b, e.isEnvelope)
		if err != nil {
			c.Count("mutants:rejected-by-gobl:"+stage, 1)
			if stage == "panic" {
				c.Count("mutants:gobl-panicked", 1)
				panics++
			}
			if stage == "panic" && panics <= 3 {
				c.Note("GOBL panicked on a mutant of %s (%s): %v (C14's subject; not judged here)", e.path, name, err)
			}
			continue
		}
		kept++
		for _, op := range strings.Split(name, "+") {
			c.Count("mutants:kept:"+strings.SplitN(op, ":", 2)[0], 1)
		}
		if kept%97 == 0 {
			c.Sample(map[string]any{"source": e.path, "mutation": name})
		}
		addAccepted(Case{Source: e.path, Mutation: name, Input: b, IsEnvelope: e.isEnvelope}, out)
		if len(keptEnvs) < 4000 {
			keptEnvs = append(keptEnvs, out)
		}
	}
	c.Count("mutants:kept", int64(kept))

	// (3b) targeted sweep, no sampling: every tax identity code of every accepted
	// input replaced by texts outside the published identity pattern; whatever
	// GOBL still accepts must be accepted by the schema
	for _, e := range accepted {
		for _, bad := range []string{"12-3456789", "ab.12", "12 34", "A&B", "12345678z"} {
			v, err := decode(e.json)
			if err != nil {
				continue
			}
			target := v
			if e.isEnvelope {
				if m, ok := v.(map[string]any); ok {
					if d, ok := m["doc"]; ok {
						target = d
					}
					delete(m, "head")
					delete(m, "sigs")
				}
			}
			n := setTaxIDCodes(target, bad)
			if n == 0 {
				continue
			}
			b, err := json.Marshal(v)
			if err != nil || seen[string(b)] {
				continue
			}
			seen[string(b)] = true
			c.Count("targeted:taxid-code:tried", 1)
			out, _, err := goAccept(b, e.isEnvelope)
			if err != nil {
				continue
			}
			c.Count("targeted:taxid-code:kept", 1)
			addAccepted(Case{Source: e.path, Mutation: "targeted-taxid-code:" + bad, Input: b, IsEnvelope: e.isEnvelope}, out)
		}
	}

	// (3c) targeted sweeps over what used to be triaged and is repaired: every tax summary
	// stored in an accepted input (document references of payments, preceding documents) with
	// its category codes, rates, rate keys and countries damaged in turn, and every extension
	// value replaced by texts outside the code pattern; whatever GOBL still accepts is judged
	sweep := func(e example, name string, damage func(target any) bool) {
		v, err := decode(e.json)
		if err != nil {
			return
		}
		target := v
		if e.isEnvelope {
			if m, ok := v.(map[string]any); ok {
				if d, ok := m["doc"]; ok {
					target = d
				}
				delete(m, "head")
				delete(m, "sigs")
			}
		}
		if !damage(target) {
			return
		}
		b, err := json.Marshal(v)
		if err != nil || seen[string(b)] {
			return
		}
		seen[string(b)] = true
		kind := strings.SplitN(name, ":", 2)[0]
		c.Count("targeted:"+kind+":tried", 1)
		out, _, err := goAccept(b, e.isEnvelope)
		if err != nil {
			return
		}
		c.Count("targeted:"+kind+":kept", 1)
		addAccepted(Case{Source: e.path, Mutation: "targeted-" + name, Input: b, IsEnvelope: e.isEnvelope}, out)
	}
	for _, e := range accepted {
		v, err := decode(e.json)
		if err != nil {
			continue
		}
		nTotals := len(storedTotals(v))
		for i := 0; i < nTotals; i++ {
			for _, dm := range totalDamages {
				i, dm := i, dm
				sweep(e, "stored-total:"+dm.name, func(t any) bool {
					ts := storedTotals(t)
					return i < len(ts) && dm.apply(ts[i])
				})
			}
		}
		nExt := len(extMembers(v))
		for i := 0; i < nExt; i++ {
			for _, bad := range []string{"-0.25", "A B ", "0101 ", strings.Repeat("7", 33), "62\t01"} {
				i, bad := i, bad
				sweep(e, "ext-value:"+bad, func(t any) bool {
					ms := extMembers(t)
					if i >= len(ms) {
						return false
					}
					ms[i].obj[ms[i].key] = bad
					return true
				})
			}
		}
		// every identifier written in the other textual forms a lenient parser may take (URN, braces,
		// upper case, no dashes): what GOBL accepts it must write so that `format: uuid` holds
		for _, form := range []string{"urn", "braces", "upper", "nodash"} {
			form := form
			sweep(e, "uuid-form:"+form, func(t any) bool { return respellUUIDs(t, form) > 0 })
		}
		// identity codes with the characters only the exempt country's rule admits
		for _, code := range []string{"K&A010301I16", "ÑAB010301I16", "Ñ&A0103019ZZ", "&&&&0103019ZZ"} {
			code := code
			sweep(e, "taxid-exempt:"+code, func(t any) bool { return setTaxIDCodesOf(t, "MX", code) > 0 })
		}
	}

	// (3d) schema-guided sweep: every member the published schema constrains, present or not,
	// with values the schema refuses (sweep.go)
	schemaSweep(c, accepted, mut.pool, seen, addAccepted)
	// (3e) signed envelopes, the signatures in every encoding the reader takes (signed.go)
	signedEnvelopes(c, accepted, addAccepted)
	// (3f) one object kept alive: what the serialisation entry points handed out stays what it was (kept.go)
	keptSerialisations(c, accepted, addAccepted)

	// (4) model correspondence on the rejecting side: broken copies of valid outputs,
	// judged by the Lean model and jsonschema only (GOBL has no say here)
	nb := c.Pick(1200, 20000)
	var srcs [][]byte
	for _, cs := range cases {
		srcs = append(srcs, cs.Envelope)
	}
	for i := 0; i < nb && len(srcs) > 0; i++ {
		src := srcs[c.Rng.Intn(len(srcs))]
		v, err := decode(src)
		if err != nil {
			continue
		}
		name := breakDoc(c.Rng, v)
		if name == "" {
			continue
		}
		b, _ := json.Marshal(v)
		cs := Case{Kind: "doc", Source: "broken copy", Mutation: name, Envelope: b}
		cks, err := checksOf(len(cases), b, false)
		if err != nil {
			continue
		}
		cases = append(cases, cs)
		checks = append(checks, cks...)
	}

	// (5) leaf values of the registered leaf types that GOBL accepts
	leafChecks(c, &cases, &checks)
	// (6) the validators of stored tax summaries, extension values, codes, keys and identity
	// codes: model correspondence, and what they accept against the published schemas
	validatorChecks(c, &cases, &checks)

	judge(c, py, cases, checks)
	printerCorrespondence(c)
	regexCorrespondence(c, py)

	return c.Finish("every schema file judged by the Lean checks and by jsonschema against the draft 2020-12 meta-schema; every example output, every document re-calculated from an example input, and every field-level mutant that GOBL calculates and validates judged by the Lean consumer model and by jsonschema against the schema of its $schema (envelope and embedded document separately); leaf values accepted by the Go validators judged against their leaf schema; broken copies, printers and patterns compare the model with jsonschema / Go only. non-trivial = a mutant, a leaf value, a rejected case or a schema file; distinct by schema, source and mutation",
		map[string]any{"documents": len(cases), "checks": len(checks)})
}

// breakDoc damages a valid output so that the schema should (mostly) reject it.
func breakDoc(r *rand.Rand, v any) string {
	var slots []slot
	collect(v, "$doc", &slots)
	if len(slots) == 0 {
		return ""
	}
	for try := 0; try < 10; try++ {
		s := slots[r.Intn(len(slots))]
		switch r.Intn(7) {
		case 0:
			if p, ok := s.parent.(map[string]any); ok && s.key != "$schema" {
				delete(p, s.key)
				return "break:delete:" + s.key
			}
		case 1:
			if _, ok := s.val.(string); ok && s.key != "$schema" {
				s.set(json.Number(fmt.Sprint(r.Intn(100))))
				return "break:string-to-number:" + s.key
			}
		case 2:
			if _, ok := s.val.(string); ok && s.key != "$schema" {
				s.set(randText(r))
				return "break:random-text:" + s.key
			}
		case 3:
			if _, ok := s.val.(map[string]any); ok {
				s.set([]any{})
				return "break:object-to-array:" + s.key
			}
		case 4:
			if _, ok := s.val.([]any); ok {
				s.set("x")
				return "break:array-to-string:" + s.key
			}
		case 5:
			if t, ok := s.val.(string); ok && s.key != "$schema" {
				s.set(strings.ToUpper(t) + " ")
				return "break:upper-space:" + s.key
			}
		default:
			if _, ok := s.val.(string); ok && s.key != "$schema" {
				s.set(nil)
				return "break:null:" + s.key
			}
		}
	}
	return ""
}

// ---- leaf values ------------------------------------------------------------

func leafChecks(c *core.Ctx, cases *[]Case, checks *[]*check) {
	r := c.Rng
	add := func(id string, v any, what string) {
		b, err := json.Marshal(v)
		if err != nil {
			return
		}
		inst, err := decode(b)
		if err != nil {
			return
		}
		*cases = append(*cases, Case{Kind: "leaf", Source: what, SchemaID: id, Value: b})
		*checks = append(*checks, &check{caseIdx: len(*cases) - 1, id: id, inst: inst, accepted: true, what: "leaf"})
		c.Count("leaf:"+strings.TrimPrefix(id, base), 1)
	}
	n := c.Pick(400, 20000)
	for i := 0; i < n; i++ {
		v := randInt64(r)
		e := uint32(r.Intn(19))
		a := num.MakeAmount(v, e)
		add(base+"num/amount", a, fmt.Sprintf("num.MakeAmount(%d,%d)", v, e))
		// any text AmountFromString accepts comes back as a pattern-conforming text
		if pa, err := num.AmountFromString(randAmount(r)); err == nil {
			add(base+"num/amount", pa, "num.AmountFromString")
		}
		pv := randInt64(r) >> uint(20+r.Intn(30))
		p := num.MakePercentage(pv, e%9)
		add(base+"num/percentage", p, fmt.Sprintf("num.MakePercentage(%d,%d)", pv, e%9))
	}
	for i := 0; i < n; i++ {
		y := 1 + r.Intn(9999)
		if r.Intn(3) > 0 {
			y = 1900 + r.Intn(200)
		}
		m := 1 + r.Intn(12)
		d := cal.MakeDate(y, time.Month(m), 1+r.Intn(daysIn(y, m)))
		if d.Validate() == nil {
			add(base+"cal/date", d, "cal.MakeDate")
		}
		dt := cal.MakeDateTime(y, time.Month(m), 1+r.Intn(daysIn(y, m)), r.Intn(24), r.Intn(60), r.Intn(60))
		if dt.Validate() == nil {
			add(base+"cal/date-time", dt, "cal.MakeDateTime")
		}
	}
	for i := 0; i < n; i++ {
		s := randCode(r)
		if i%5 == 0 {
			s = string(cbc.NormalizeCode(cbc.Code(randText(r) + s + randText(r))))
		}
		if len(s) > 0 && cbc.Code(s).Validate() == nil {
			add(base+"cbc/code", cbc.Code(s), "cbc.Code")
		}
		k := randKey(r)
		if cbc.Key(k).Validate() == nil {
			add(base+"cbc/key", cbc.Key(k), "cbc.Key")
		}
		u := org.Unit(k)
		if i%2 == 0 {
			u = org.Unit(strings.ToUpper(randDigitsOrLetters(r, 1+r.Intn(4))))
		}
		if u != "" && u.Validate() == nil {
			add(base+"org/unit", u, "org.Unit")
		}
	}
	for _, d := range org.UnitDefinitions {
		if d.Unit.Validate() == nil {
			add(base+"org/unit", d.Unit, "org.UnitDefinitions")
		}
	}
	for _, d := range currency.Definitions() {
		if d.ISOCode.Validate() == nil {
			add(base+"currency/code", d.ISOCode, "currency.Definitions")
		}
	}
	for a := 'A'; a <= 'Z'; a++ {
		for b := 'A'; b <= 'Z'; b++ {
			s := string([]rune{a, b})
			if l10n.ISOCountryCode(s).Validate() == nil {
				add(base+"l10n/iso-country-code", l10n.ISOCountryCode(s), "l10n.ISOCountryCode")
			}
			if l10n.TaxCountryCode(s).Validate() == nil {
				add(base+"l10n/tax-country-code", l10n.TaxCountryCode(s), "l10n.TaxCountryCode")
			}
		}
	}
	for _, cd := range l10n.Countries() {
		if l10n.TaxCountryCode(cd.Code).Validate() == nil {
			add(base+"l10n/tax-country-code", l10n.TaxCountryCode(cd.Code), "l10n.Countries")
		}
	}
}

func randInt64(r *rand.Rand) int64 {
	v := r.Int63() >> uint(r.Intn(63))
	if r.Intn(2) == 0 {
		v = -v
	}
	if r.Intn(200) == 0 {
		v = math.MaxInt64
	}
	if r.Intn(200) == 0 {
		v = -math.MaxInt64
	}
	if r.Intn(200) == 0 {
		v = math.MinInt64 // written as its decimal text since the fix of Amount.String
	}
	return v
}

func randDigitsOrLetters(r *rand.Rand, n int) string {
	var sb strings.Builder
	for i := 0; i < n; i++ {
		sb.WriteByte(alnum[r.Intn(len(alnum))])
	}
	return sb.String()
}

func randKey(r *rand.Rand) string {
	const ks = "abcdefghijklmnopqrstuvwxyz0123456789-+"
	n := 1 + r.Intn(10)
	if r.Intn(20) == 0 {
		n = 60 + r.Intn(8)
	}
	var sb strings.Builder
	for i := 0; i < n; i++ {
		if r.Intn(6) == 0 {
			sb.WriteByte(ks[r.Intn(len(ks))])
		} else {
			sb.WriteByte(ks[r.Intn(36)])
		}
	}
	return sb.String()
}

// ---- printers and NormalizeCode: Lean model vs Go ---------------------------

func printerCorrespondence(c *core.Ctx) {
	r := c.Rng
	n := c.Pick(3000, 200000)
	type pc struct {
		req, want, what string
	}
	var pcs []pc
	for i := 0; i < n; i++ {
		v, e := randInt64(r), uint32(r.Intn(19))
		pcs = append(pcs, pc{fmt.Sprintf("amt %d %d", v, e), "t " + core.Hex(num.MakeAmount(v, e).String()), "Amount.String"})
		// percentages small enough for value*100 to be an int64 (Percentage.Amount rescales
		// up unchecked when there are fewer than two decimals)
		pv, pe := randInt64(r)>>uint(24+r.Intn(30)), uint32(r.Intn(9))
		pcs = append(pcs, pc{fmt.Sprintf("pct %d %d", pv, pe), "t " + core.Hex(num.MakePercentage(pv, pe).String()), "Percentage.String"})
		y, m, d := r.Intn(10000), r.Intn(14), r.Intn(33)
		cd := cal.MakeDate(y, time.Month(m), d)
		valid := 0
		if cd.Date.IsValid() {
			valid = 1
		}
		pcs = append(pcs, pc{fmt.Sprintf("date %d %d %d", y, m, d), fmt.Sprintf("t %s v %d", core.Hex(cd.String()), valid), "civil.Date.String/IsValid"})
		s := randNormInput(r)
		pcs = append(pcs, pc{"norm " + core.Hex(s), "t " + core.Hex(string(cbc.NormalizeCode(cbc.Code(s)))), "cbc.NormalizeCode"})
	}
	reqs := make([]string, len(pcs))
	for i, p := range pcs {
		reqs[i] = p.req
	}
	resp, err := c.Model(reqs)
	if err != nil {
		c.TieBroken("drive:C11/model", err.Error(), nil)
		return
	}
	for i, p := range pcs {
		c.Eval("printer:"+p.req, false)
		c.Count("printer:"+p.what, 1)
		if resp[i] != p.want {
			c.TieBroken("drive:C11/printer:"+p.what, fmt.Sprintf("%s: model %q, Go %q", p.req, show(resp[i]), show(p.want)), p.req)
		}
	}
}

func show(resp string) string {
	f := strings.Fields(resp)
	if len(f) >= 2 && f[0] == "t" {
		return unhex(f[1]) + " " + strings.Join(f[2:], " ")
	}
	return resp
}

func randNormInput(r *rand.Rand) string {
	bits := []string{"a", "B", "7", "xyz", ".", "-", "/", " ", "_", ":", "é", "&", "  ", "\t", "\n", "--", "..", "-.", "ñ", "日", "(", ")", "+", "#", " ", "A1"}
	var sb strings.Builder
	n := r.Intn(9)
	for i := 0; i < n; i++ {
		sb.WriteString(bits[r.Intn(len(bits))])
	}
	return sb.String()
}

// ---- patterns: Lean regex engine vs python re vs Go regexp -------------------

func regexCorrespondence(c *core.Ctx, py *pyPool) {
	pats, err := schemaPatterns(c.Repo)
	if err != nil || len(pats) == 0 {
		c.TieBroken("drive:C11/patterns", fmt.Sprint("no patterns found in the schema files: ", err), nil)
		return
	}
	r := c.Rng
	per := c.Pick(400, 20000)
	type rc struct {
		p, s string
	}
	var rcs []rc
	for _, p := range pats {
		alpha := []rune(p + "aZ09 -+._:/%é\t\n")
		for i := 0; i < per; i++ {
			var s string
			switch i % 4 {
			case 0:
				s = sampleMatch(r, p)
			case 1:
				s = perturb(r, sampleMatch(r, p), alpha)
			default:
				n := r.Intn(8)
				var sb strings.Builder
				for k := 0; k < n; k++ {
					sb.WriteRune(alpha[r.Intn(len(alpha))])
				}
				s = sb.String()
			}
			rcs = append(rcs, rc{p, s})
		}
	}
	reqs := make([]string, len(rcs))
	preqs := make([]pyReq, len(rcs))
	for i, x := range rcs {
		reqs[i] = "pat " + core.Hex(x.p) + " " + core.Hex(x.s)
		preqs[i] = pyReq{Op: "pat", Pattern: x.p, S: x.s}
	}
	resp, err := c.Model(reqs)
	if err != nil {
		c.TieBroken("drive:C11/model", err.Error(), nil)
		return
	}
	presp, err := py.run(preqs)
	if err != nil {
		c.TieBroken("drive:C11/python", err.Error(), nil)
		return
	}
	compiled := map[string]*regexp.Regexp{}
	for _, p := range pats {
		if re, err := regexp.Compile(p); err == nil {
			compiled[p] = re
		}
	}
	for i, x := range rcs {
		c.Eval("pattern:"+x.p+"|"+x.s, false)
		want := "m 0"
		if presp[i].M {
			want = "m 1"
		}
		c.Count("pattern:"+want, 1)
		if presp[i].Error != "" {
			c.TieBroken("drive:C11/patterns", "python re failed on "+x.p+": "+presp[i].Error, nil)
			continue
		}
		if resp[i] != want {
			c.TieBroken("drive:C11/patterns", fmt.Sprintf("pattern %s on %q: Lean regex %s, python re %s", x.p, x.s, resp[i], want), map[string]string{"pattern": x.p, "s": x.s})
			continue
		}
		if re := compiled[x.p]; re != nil {
			g := "m 0"
			if re.MatchString(x.s) {
				g = "m 1"
			}
			if g != want {
				// Go's own regexp (used by the Go validators) reads the pattern differently
				c.TieBroken("drive:C11/patterns", fmt.Sprintf("pattern %s on %q: Go regexp %s, python re / Lean %s", x.p, x.s, g, want), map[string]string{"pattern": x.p, "s": x.s})
			}
		}
	}
}

// sampleMatch draws a string that is likely to match one of the known pattern shapes.
func sampleMatch(r *rand.Rand, p string) string {
	switch {
	case strings.Contains(p, "%$"):
		return randPct(r)
	case strings.HasPrefix(p, `^\-?[0-9]+`):
		return randAmount(r)
	case strings.Contains(p, "T[0-9]{2}"):
		return fmt.Sprintf("%sT%02d:%02d:%02d", randDate(r), r.Intn(24), r.Intn(60), r.Intn(60))
	case strings.Contains(p, "a-z0-9-+"):
		return randKey(r)
	case strings.Contains(p, `[\.\-\/ _\:]`):
		return randCode(r)
	case strings.Contains(p, "[a-z]{2}"):
		return strings.ToLower(randDigitsOrLetters(r, 2))
	default:
		return strings.ToUpper(randDigitsOrLetters(r, 1+r.Intn(4)))
	}
}

func perturb(r *rand.Rand, s string, alpha []rune) string {
	rs := []rune(s)
	if len(rs) == 0 {
		return s
	}
	i := r.Intn(len(rs))
	switch r.Intn(3) {
	case 0:
		rs[i] = alpha[r.Intn(len(alpha))]
	case 1:
		rs = append(rs[:i], rs[i+1:]...)
	default:
		rs = append(rs[:i], append([]rune{alpha[r.Intn(len(alpha))]}, rs[i:]...)...)
	}
	return string(rs)
}

// ---- replay -------------------------------------------------------------------

func replay(c *core.Ctx, py *pyPool, rc Case) int {
	switch rc.Kind {
	case "kept":
		var cases []Case
		var checks []*check
		ch, done, stage, err := keptRun(rc.Input, rc.IsEnvelope, rc.Steps)
		c.Note("replay: kept serialisations: %d steps done (%s %v)", done, stage, err)
		c.Eval("kept "+rc.Source, done > 0)
		judgeKept(c, rc, ch, func(cs Case, envJSON []byte) {
			cs.Kind = "doc"
			cs.Envelope = envJSON
			if cks, err := checksOf(len(cases), envJSON, true); err == nil {
				cases = append(cases, cs)
				checks = append(checks, cks...)
			}
		})
		if len(checks) > 0 {
			judge(c, py, cases, checks)
		}
	case "schema-file":
		staticPart(c, py, rc.SchemaFile)
	case "leaf":
		inst, err := decode(rc.Value)
		if err != nil {
			c.TieBroken("drive:C11/replay", "bad leaf value", rc)
			break
		}
		accepted := true
		if ok, known := revalidateLeaf(rc.GoType, rc.Value); known && !ok {
			c.Note("replay: %s.Validate no longer accepts the value; judging it for the model correspondence only", rc.GoType)
			accepted = false
		}
		judge(c, py, []Case{rc}, []*check{{caseIdx: 0, id: rc.SchemaID, inst: inst, accepted: accepted, what: "leaf"}})
	default:
		env := []byte(rc.Envelope)
		acceptedByGo := false
		if len(rc.Input) > 0 {
			accept := func() ([]byte, string, error) { return goAccept(rc.Input, rc.IsEnvelope) }
			if rc.Signed {
				accept = func() ([]byte, string, error) { return acceptSigned(rc.Input) }
			}
			out, stage, err := accept()
			if err != nil {
				c.Note("replay: GOBL no longer accepts the input (%s: %v); judging the recorded envelope for the model correspondence only", stage, err)
			} else {
				acceptedByGo = true
				if !strings.HasSuffix(rc.Source, ".json") || strings.Contains(rc.Source, "re-marshalled") || rc.Signed {
					env = out
				}
			}
		}
		cks, err := checksOf(0, env, acceptedByGo)
		if err != nil {
			c.TieBroken("drive:C11/replay", "recorded envelope is not a JSON object with $schema", rc)
			break
		}
		judge(c, py, []Case{rc}, cks)
	}
	return c.Finish("replay of one recorded case", nil)
}

// syntheticInputs are small documents of registered types that the examples
// hardly exercise (URLs, e-mail addresses, inboxes), fed through the same
// pipeline: only what GOBL calculates and validates is judged.
func syntheticInputs() []example {
	var out []example
	add := func(name string, v map[string]any) {
		b, _ := json.Marshal(v)
		out = append(out, example{path: "synthetic/" + name, json: b})
	}
	for i, u := range urls {
		add(fmt.Sprintf("org-website-%d", i), map[string]any{"$schema": base + "org/website", "url": u})
		add(fmt.Sprintf("org-image-%d", i), map[string]any{"$schema": base + "org/image", "url": u})
		add(fmt.Sprintf("org-inbox-url-%d", i), map[string]any{"$schema": base + "org/inbox", "key": "peppol", "url": u})
		add(fmt.Sprintf("head-link-%d", i), map[string]any{"$schema": base + "head/link", "key": "pdf", "url": u})
		add(fmt.Sprintf("cbc-source-%d", i), map[string]any{"$schema": base + "cbc/source", "title": map[string]any{"en": "x"}, "url": u})
		add(fmt.Sprintf("org-attachment-%d", i), map[string]any{"$schema": base + "org/attachment", "key": "doc", "name": "a.pdf", "url": u})
	}
	for i, e := range emails {
		add(fmt.Sprintf("org-email-%d", i), map[string]any{"$schema": base + "org/email", "addr": e})
		add(fmt.Sprintf("org-inbox-email-%d", i), map[string]any{"$schema": base + "org/inbox", "key": "mail", "email": e})
	}
	add("org-telephone", map[string]any{"$schema": base + "org/telephone", "num": "+34 600 000 000"})
	add("org-address", map[string]any{"$schema": base + "org/address", "street": "Calle Mayor", "locality": "Madrid", "country": "ES",
		"coords": map[string]any{"lat": json.Number("40.4168"), "lon": json.Number("-3.7038")}})
	add("org-item", map[string]any{"$schema": base + "org/item", "name": "Thing", "price": "10.00", "unit": "h"})
	add("cal-period", map[string]any{"$schema": base + "cal/period", "start": "2024-01-01", "end": "2024-12-31"})
	add("currency-exchange-rate", map[string]any{"$schema": base + "currency/exchange-rate", "from": "USD", "to": "EUR", "amount": "0.92"})
	add("pay-terms", map[string]any{"$schema": base + "pay/terms", "key": "due-date", "due_dates": []any{map[string]any{"date": "2024-02-01", "amount": "10.00", "percent": "100%"}}})
	add("org-person", map[string]any{"$schema": base + "org/person", "name": map[string]any{"given": "Ana", "surname": "López"}, "emails": []any{map[string]any{"addr": "a@b.co"}}})
	return out
}

var reUUIDText = regexp.MustCompile(`^[0-9a-f]{8}-[0-9a-f]{4}-[0-9a-f]{4}-[0-9a-f]{4}-[0-9a-f]{12}$`)

// respellUUIDs rewrites every string that is a canonical UUID text in another textual form.
func respellUUIDs(v any, form string) int {
	re := func(s string) string {
		switch form {
		case "urn":
			return "urn:uuid:" + s
		case "braces":
			return "{" + s + "}"
		case "upper":
			return strings.ToUpper(s)
		default:
			return strings.ReplaceAll(s, "-", "")
		}
	}
	n := 0
	switch x := v.(type) {
	case map[string]any:
		for k, val := range x {
			if sv, ok := val.(string); ok && reUUIDText.MatchString(sv) {
				x[k] = re(sv)
				n++
				continue
			}
			n += respellUUIDs(val, form)
		}
	case []any:
		for i, val := range x {
			if sv, ok := val.(string); ok && reUUIDText.MatchString(sv) {
				x[i] = re(sv)
				n++
				continue
			}
			n += respellUUIDs(val, form)
		}
	}
	return n
}

// setTaxIDCodes sets (or adds) the code of every tax_id object in a document.
func setTaxIDCodes(v any, code string) int {
	n := 0
	switch x := v.(type) {
	case map[string]any:
		for k, val := range x {
			if k == "tax_id" {
				if m, ok := val.(map[string]any); ok {
					m["code"] = code
					n++
					continue
				}
			}
			n += setTaxIDCodes(val, code)
		}
	case []any:
		for _, e := range x {
			n += setTaxIDCodes(e, code)
		}
	}
	return n
}

// setTaxIDCodesOf sets the code of every tax_id object of the given country.
func setTaxIDCodesOf(v any, country, code string) int {
	n := 0
	switch x := v.(type) {
	case map[string]any:
		for k, val := range x {
			if k == "tax_id" {
				if m, ok := val.(map[string]any); ok {
					if m["country"] == country {
						m["code"] = code
						n++
					}
					continue
				}
			}
			n += setTaxIDCodesOf(val, country, code)
		}
	case []any:
		for _, e := range x {
			n += setTaxIDCodesOf(e, country, code)
		}
	}
	return n
}

// storedTotals lists, in a fixed order, the tax summaries an input carries along: objects with
// a `categories` array (the `tax` of document references and of payments; `totals.taxes` is
// recalculated and therefore left out).
func storedTotals(v any) []map[string]any {
	var out []map[string]any
	var walk func(x any, key string)
	walk = func(x any, key string) {
		switch t := x.(type) {
		case map[string]any:
			if _, ok := t["categories"].([]any); ok && key != "taxes" {
				out = append(out, t)
			}
			ks := make([]string, 0, len(t))
			for k := range t {
				ks = append(ks, k)
			}
			sort.Strings(ks)
			for _, k := range ks {
				walk(t[k], k)
			}
		case []any:
			for _, e := range t {
				walk(e, key)
			}
		}
	}
	walk(v, "")
	return out
}

type totalDamage struct {
	name  string
	apply func(t map[string]any) bool
}

func firstCategory(t map[string]any) map[string]any {
	cs, _ := t["categories"].([]any)
	if len(cs) == 0 {
		return nil
	}
	c, _ := cs[0].(map[string]any)
	return c
}

func firstRate(t map[string]any) map[string]any {
	c := firstCategory(t)
	if c == nil {
		return nil
	}
	rs, _ := c["rates"].([]any)
	if len(rs) == 0 {
		return nil
	}
	r, _ := rs[0].(map[string]any)
	return r
}

func setIn(m map[string]any, k string, v any) bool {
	if m == nil {
		return false
	}
	m[k] = v
	return true
}

var totalDamages = []totalDamage{
	{"code-trailing-space", func(t map[string]any) bool { return setIn(firstCategory(t), "code", "VAT ") }},
	{"code-malformed", func(t map[string]any) bool { return setIn(firstCategory(t), "code", "c8PbY9.DP6 ") }},
	{"code-empty", func(t map[string]any) bool { return setIn(firstCategory(t), "code", "") }},
	{"code-removed", func(t map[string]any) bool {
		c := firstCategory(t)
		if c == nil {
			return false
		}
		delete(c, "code")
		return true
	}},
	{"rates-removed", func(t map[string]any) bool {
		c := firstCategory(t)
		if c == nil {
			return false
		}
		delete(c, "rates")
		return true
	}},
	{"rates-null", func(t map[string]any) bool { return setIn(firstCategory(t), "rates", nil) }},
	{"rates-empty", func(t map[string]any) bool { return setIn(firstCategory(t), "rates", []any{}) }},
	{"rate-key-malformed", func(t map[string]any) bool { return setIn(firstRate(t), "key", "Std Rate") }},
	{"rate-country-unknown", func(t map[string]any) bool { return setIn(firstRate(t), "country", "ZZ") }},
}

type extMember struct {
	obj map[string]any
	key string
}

// extMembers lists, in a fixed order, the members of every `ext` object of a document.
func extMembers(v any) []extMember {
	var out []extMember
	var walk func(x any)
	walk = func(x any) {
		switch t := x.(type) {
		case map[string]any:
			ks := make([]string, 0, len(t))
			for k := range t {
				ks = append(ks, k)
			}
			sort.Strings(ks)
			for _, k := range ks {
				if m, ok := t[k].(map[string]any); ok && k == "ext" {
					mk := make([]string, 0, len(m))
					for kk := range m {
						mk = append(mk, kk)
					}
					sort.Strings(mk)
					for _, kk := range mk {
						if _, ok := m[kk].(string); ok {
							out = append(out, extMember{m, kk})
						}
					}
					continue
				}
				walk(t[k])
			}
		case []any:
			for _, e := range t {
				walk(e)
			}
		}
	}
	walk(v)
	return out
}
