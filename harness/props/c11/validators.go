package c11

import (
	"encoding/json"
	"fmt"
	"math/rand"
	"regexp"
	"sort"
	"strings"

	"github.com/invopop/gobl/cbc"
	"github.com/invopop/gobl/l10n"
	"github.com/invopop/gobl/num"
	"github.com/invopop/gobl/tax"
	"github.com/invopop/validation"

	"verifharness/internal/core"
)

// Validators of leaf texts, extension values, stored tax summaries and tax
// identity codes (Model/SchemaLeaves.lean, section "validators"):
//
//   - correspondence: the Lean model of each validator against the real one
//     on generated values (a difference without a property failure is a
//     broken tie);
//   - property: every value the real validator accepts is judged, as a leaf
//     case, against the published schema of its type (tax/total,
//     tax/extensions, tax/identity, cbc/code, cbc/key): accepted by GOBL and
//     rejected by the schema is a violation with the value as the witness.

var (
	goodCatCodes = []string{"VAT", "IRPF", "GST", "IGIC", "A1", "X.Y", "ISS-1", "ab"}
	badCatCodes  = []string{"", "VAT ", " VAT", "c8PbY9.DP6 ", "é", "A--B", "A&B", "VAT\n", "-VAT", strings.Repeat("A", 33), "V\tT"}
	goodRateKeys = []string{"standard", "reduced", "super-reduced", "zero", "exempt+reverse-charge", "a", "a1"}
	badRateKeys  = []string{"Std Rate", "UPPER", "a_b", "-a", "a-", "a b", "é", strings.Repeat("k", 65), "a\n"}
	goodCountry  = []string{"ES", "PT", "EL", "XI", "MX", "DE"}
	badCountry   = []string{"ZZ", "es", "E", "ESP", "E ", "GR "}
	badExtValues = []string{"-0.25", "A B ", " ", "", strings.Repeat("7", 33), "62\t01\t5\t01", "0101 ", "01\n", "a&b", "é1", "1..2", ".5", "12_"}
)

type extDefs struct {
	keys []cbc.Key // every registered extension key, sorted
	free []cbc.Key // keys defined without values and without pattern
	pat  []cbc.Key // keys defined with a pattern
}

func loadExtDefs() *extDefs {
	seen := map[cbc.Key]bool{}
	d := &extDefs{}
	add := func(defs []*cbc.Definition) {
		for _, kd := range defs {
			if kd == nil || seen[kd.Key] || tax.ExtensionForKey(kd.Key) == nil {
				continue
			}
			seen[kd.Key] = true
			d.keys = append(d.keys, kd.Key)
		}
	}
	for _, x := range tax.AllRegimeDefs() {
		add(x.Extensions)
	}
	for _, x := range tax.AllAddonDefs() {
		add(x.Extensions)
	}
	for _, x := range tax.AllCatalogueDefs() {
		add(x.Extensions)
	}
	sort.Slice(d.keys, func(i, j int) bool { return d.keys[i] < d.keys[j] })
	for _, k := range d.keys {
		kd := tax.ExtensionForKey(k)
		switch {
		case kd.Pattern != "":
			d.pat = append(d.pat, k)
		case len(kd.Values) == 0:
			d.free = append(d.free, k)
		}
	}
	return d
}

func pick(r *rand.Rand, xs []string) string { return xs[r.Intn(len(xs))] }

// randExt draws an extension map: defined keys with listed, pattern-shaped, free or bad values,
// now and then an undefined or malformed key.
func (d *extDefs) randExt(r *rand.Rand, bad bool) tax.Extensions {
	n := r.Intn(3)
	if bad && n == 0 {
		n = 1
	}
	if n == 0 || len(d.keys) == 0 {
		return nil
	}
	em := tax.Extensions{}
	for i := 0; i < n; i++ {
		var k cbc.Key
		switch x := r.Intn(10); {
		case x < 4 && len(d.free) > 0:
			k = d.free[r.Intn(len(d.free))]
		case x < 6 && len(d.pat) > 0:
			k = d.pat[r.Intn(len(d.pat))]
		default:
			k = d.keys[r.Intn(len(d.keys))]
		}
		kd := tax.ExtensionForKey(k)
		var v string
		switch {
		case len(kd.Values) > 0:
			v = string(kd.Values[r.Intn(len(kd.Values))].Code)
		case kd.Pattern != "":
			v = samplePatternValue(r, kd.Pattern)
		default:
			v = randCode(r)
			if r.Intn(3) == 0 {
				v = randDigits(r, 1+r.Intn(8))
			}
		}
		if bad && r.Intn(2) == 0 {
			v = pick(r, badExtValues)
			if r.Intn(4) == 0 {
				v = randText(r)
			}
		}
		if bad && r.Intn(12) == 0 {
			k = cbc.Key(pick(r, []string{"zz-undefined", "BAD KEY", "x", ""}))
		}
		em[k] = cbc.Code(v)
	}
	return em
}

// samplePatternValue draws a text that has a chance to match the definition patterns in use
// (digit groups with optional separators).
func samplePatternValue(r *rand.Rand, p string) string {
	re, err := regexp.Compile(p)
	seps := []string{"", "", ".", "-", "/", " ", "\t", "\n"}
	for try := 0; try < 40; try++ {
		var sb strings.Builder
		groups := 1 + r.Intn(4)
		for g := 0; g < groups; g++ {
			if g > 0 {
				sb.WriteString(seps[r.Intn(len(seps))])
			}
			sb.WriteString(randDigits(r, 1+r.Intn(7)))
		}
		if err == nil && re.MatchString(sb.String()) {
			return sb.String()
		}
	}
	return randDigits(r, 1+r.Intn(8))
}

func randSmallAmount(r *rand.Rand) num.Amount {
	return num.MakeAmount(int64(r.Intn(2000000))-200000, uint32(r.Intn(5)))
}

func (d *extDefs) randTotal(r *rand.Rand) *tax.Total {
	tt := &tax.Total{Sum: randSmallAmount(r)}
	bad := r.Intn(2) == 0 // half of the summaries are meant to be valid
	oneBad := func() bool { return bad && r.Intn(4) == 0 }
	ncat := 1 + r.Intn(3)
	if r.Intn(15) == 0 {
		ncat = 0
	}
	for i := 0; i < ncat; i++ {
		ct := &tax.CategoryTotal{Code: cbc.Code(pick(r, goodCatCodes)), Amount: randSmallAmount(r), Retained: r.Intn(5) == 0}
		if r.Intn(4) == 0 {
			ct.Code = cbc.Code(randCode(r))
		}
		if oneBad() {
			ct.Code = cbc.Code(pick(r, badCatCodes))
		}
		if r.Intn(6) == 0 {
			a := randSmallAmount(r)
			ct.Surcharge = &a
		}
		nr := 1 + r.Intn(3)
		switch {
		case oneBad():
			nr = 0 // nil slice: printed as null
		case oneBad():
			nr = 0
			ct.Rates = []*tax.RateTotal{}
		}
		for j := 0; j < nr; j++ {
			rt := &tax.RateTotal{Base: randSmallAmount(r), Amount: randSmallAmount(r)}
			if r.Intn(3) > 0 {
				rt.Key = cbc.Key(pick(r, goodRateKeys))
			}
			if r.Intn(6) == 0 {
				rt.Key = cbc.Key(randKey(r))
			}
			if oneBad() {
				rt.Key = cbc.Key(pick(r, badRateKeys))
			}
			if r.Intn(4) == 0 {
				rt.Country = l10n.TaxCountryCode(pick(r, goodCountry))
			}
			if oneBad() {
				rt.Country = l10n.TaxCountryCode(pick(r, badCountry))
			}
			if r.Intn(3) > 0 {
				p := num.MakePercentage(int64(r.Intn(300)), uint32(1+r.Intn(3)))
				rt.Percent = &p
			}
			if r.Intn(8) == 0 {
				rt.Surcharge = &tax.RateTotalSurcharge{Percent: num.MakePercentage(int64(r.Intn(60)), 3), Amount: randSmallAmount(r)}
			}
			if r.Intn(3) == 0 || oneBad() {
				rt.Ext = d.randExt(r, bad && r.Intn(2) == 0)
			}
			ct.Rates = append(ct.Rates, rt)
		}
		tt.Categories = append(tt.Categories, ct)
	}
	return tt
}

// extTokens renders the members of an extension map for the driver (sorted by key),
// each with what tax.ExtensionForKey says about its key.
func extTokens(em tax.Extensions) string {
	ks := make([]string, 0, len(em))
	for k := range em {
		ks = append(ks, string(k))
	}
	sort.Strings(ks)
	var sb strings.Builder
	fmt.Fprintf(&sb, "%d", len(ks))
	for _, k := range ks {
		v := string(em[cbc.Key(k)])
		fmt.Fprintf(&sb, " %s %s", core.Hex(k), core.Hex(v))
		kd := tax.ExtensionForKey(cbc.Key(k))
		if kd == nil {
			sb.WriteString(" u")
			continue
		}
		fmt.Fprintf(&sb, " d %d", len(kd.Values))
		for _, vd := range kd.Values {
			sb.WriteString(" " + core.Hex(string(vd.Code)))
		}
		switch {
		case kd.Pattern == "":
			sb.WriteString(" -")
		default:
			re, err := regexp.Compile(kd.Pattern)
			if err == nil && re.MatchString(v) {
				sb.WriteString(" 1")
			} else {
				sb.WriteString(" 0")
			}
		}
	}
	return sb.String()
}

func totalTokens(tt *tax.Total) string {
	var sb strings.Builder
	fmt.Fprintf(&sb, "vtot %d", len(tt.Categories))
	for _, ct := range tt.Categories {
		fmt.Fprintf(&sb, " %s %d", core.Hex(string(ct.Code)), len(ct.Rates))
		for _, rt := range ct.Rates {
			fmt.Fprintf(&sb, " %s %s %s", core.Hex(string(rt.Key)), core.Hex(string(rt.Country)), extTokens(rt.Ext))
		}
	}
	return sb.String()
}

func goOK(f func() error) (ok bool, panicked string) {
	var err error
	panicked = core.Protect(func() { err = f() })
	return err == nil && panicked == "", panicked
}

// countryWithoutRegime is a tax country whose identities only pass the generic rules.
func countryWithoutRegime() l10n.TaxCountryCode {
	for _, cd := range l10n.Countries() {
		c := l10n.TaxCountryCode(cd.Code)
		if c.Validate() == nil && tax.RegimeDefFor(l10n.Code(cd.Code)) == nil {
			exempt := false
			for _, x := range tax.IdentityCodeValidationIgnore {
				exempt = exempt || x == c
			}
			if !exempt {
				return c
			}
		}
	}
	return ""
}

var mxSamples = []string{"K&A010301I16", "ÑAB010301I16", "Ñ&A010301I16", "MNOP8201019HJ", "&&&&0000000AA", "STU760612MN1", "STU760612MN", "K&A010301I1ñ", "K&A 010301I16", "XAXX010101000"}

func randIdentityCode(r *rand.Rand) string {
	switch r.Intn(8) {
	case 0:
		return pick(r, mxSamples)
	case 1:
		// RFC-shaped
		letters := "ABCDEFGHIJKLMNOPQRSTUVWXYZÑ&"
		rs := []rune(letters)
		var sb strings.Builder
		for i, n := 0, 3+r.Intn(2); i < n; i++ {
			sb.WriteRune(rs[r.Intn(len(rs))])
		}
		sb.WriteString(randDigits(r, 6))
		sb.WriteString(strings.ToUpper(randDigitsOrLetters(r, 3)))
		return sb.String()
	case 2:
		return strings.ToUpper(randDigitsOrLetters(r, 1+r.Intn(34)))
	case 3:
		return randCode(r)
	case 4:
		return ""
	default:
		return strings.ToUpper(randCode(r))
	}
}

// validatorChecks runs the correspondence of the validator models and adds what the real
// validators accept to the leaf cases.
func validatorChecks(c *core.Ctx, cases *[]Case, checks *[]*check) {
	r := c.Rng
	defs := loadExtDefs()
	c.Count("validators:extension-keys", int64(len(defs.keys)))
	c.Count("validators:extension-keys-without-list-or-pattern", int64(len(defs.free)))
	c.Count("validators:extension-keys-with-pattern", int64(len(defs.pat)))

	addLeaf := func(id, goType, what string, v any) {
		b, err := json.Marshal(v)
		if err != nil {
			return
		}
		inst, err := decode(b)
		if err != nil {
			return
		}
		*cases = append(*cases, Case{Kind: "leaf", Source: what, SchemaID: id, Value: b, GoType: goType})
		*checks = append(*checks, &check{caseIdx: len(*cases) - 1, id: id, inst: inst, accepted: true, what: "leaf"})
		c.Count("leaf:"+strings.TrimPrefix(id, base), 1)
	}

	type vc struct {
		req, want, what string
		replay         any
	}
	var vcs []vc
	n := c.Pick(1500, 40000)

	// (a) stored tax summaries
	for i := 0; i < n; i++ {
		tt := defs.randTotal(r)
		ok, pan := goOK(tt.Validate)
		if pan != "" {
			c.Count("validators:total:panicked", 1)
			continue
		}
		b, _ := json.Marshal(tt)
		vcs = append(vcs, vc{totalTokens(tt), "v " + b01(ok), "(*tax.Total).Validate", json.RawMessage(b)})
		c.Count("validators:total:go-accepts:"+b01(ok), 1)
		if ok {
			addLeaf(base+"tax/total", "tax.Total", "(*tax.Total).Validate accepted", tt)
		}
	}
	// (b) extension maps
	for i := 0; i < n; i++ {
		em := defs.randExt(r, i%2 == 0)
		if em == nil {
			continue
		}
		ok, pan := goOK(em.Validate)
		if pan != "" {
			continue
		}
		b, _ := json.Marshal(em)
		vcs = append(vcs, vc{"vext " + extTokens(em), "v " + b01(ok), "tax.Extensions.Validate", json.RawMessage(b)})
		c.Count("validators:extensions:go-accepts:"+b01(ok), 1)
		if ok {
			addLeaf(base+"tax/extensions", "tax.Extensions", "tax.Extensions.Validate accepted", em)
		}
	}
	// every key defined without list and without pattern, with every bad value: none may pass
	for _, k := range defs.free {
		for _, v := range badExtValues {
			em := tax.Extensions{k: cbc.Code(v)}
			ok, _ := goOK(em.Validate)
			b, _ := json.Marshal(em)
			vcs = append(vcs, vc{"vext " + extTokens(em), "v " + b01(ok), "tax.Extensions.Validate", json.RawMessage(b)})
			c.Count("validators:extensions:free-key-bad-value:go-accepts:"+b01(ok), 1)
			if ok {
				addLeaf(base+"tax/extensions", "tax.Extensions", "tax.Extensions.Validate accepted", em)
			}
		}
	}
	// (c) codes and keys
	for i := 0; i < n; i++ {
		s := randCode(r)
		switch i % 5 {
		case 0:
			s = randNormInput(r)
		case 1:
			s = pick(r, append(append([]string{}, badCatCodes...), badExtValues...))
		case 2:
			s = randCode(r) + randCode(r) + randCode(r)
		}
		ok1, _ := goOK(func() error { return cbc.Code(s).Validate() })
		ok2, _ := goOK(func() error { return validation.Validate(cbc.Code(s), validation.Required) })
		vcs = append(vcs, vc{"vcode " + core.Hex(s), "v " + b01(ok1) + " " + b01(ok2), "cbc.Code.Validate / Required", s})
		if ok2 {
			addLeaf(base+"cbc/code", "", "validation.Required + cbc.Code.Validate accepted", s)
		}
		k := randKey(r)
		if i%4 == 0 {
			k = pick(r, append(append([]string{}, badRateKeys...), goodRateKeys...))
		}
		ok3, _ := goOK(func() error { return cbc.Key(k).Validate() })
		vcs = append(vcs, vc{"vkey " + core.Hex(k), "v " + b01(ok3), "cbc.Key.Validate", k})
		if ok3 && k != "" {
			addLeaf(base+"cbc/key", "", "cbc.Key.Validate accepted", k)
		}
	}
	// (d) tax identity codes: a country that only has the generic rules, and the exempt country
	plain := countryWithoutRegime()
	if plain == "" {
		c.TieBroken("drive:C11/validators", "no tax country without a regime found for the generic identity rules", nil)
	}
	for i := 0; i < n && plain != ""; i++ {
		s := randIdentityCode(r)
		okG, _ := goOK(func() error { return (&tax.Identity{Country: plain, Code: cbc.Code(s)}).Validate() })
		okM, _ := goOK(func() error { return (&tax.Identity{Country: "MX", Code: cbc.Code(s)}).Validate() })
		vcs = append(vcs, vc{"vid " + core.Hex(s), "v " + b01(okG) + " " + b01(okM), "(*tax.Identity).Validate (generic / MX)", s})
		c.Count("validators:identity:generic:go-accepts:"+b01(okG), 1)
		c.Count("validators:identity:mx:go-accepts:"+b01(okM), 1)
		if okG && s != "" {
			addLeaf(base+"tax/identity", "tax.Identity", "(*tax.Identity).Validate accepted", &tax.Identity{Country: plain, Code: cbc.Code(s)})
		}
		if okM && s != "" {
			addLeaf(base+"tax/identity", "tax.Identity", "(*tax.Identity).Validate accepted", &tax.Identity{Country: "MX", Code: cbc.Code(s)})
		}
	}

	reqs := make([]string, len(vcs))
	for i, x := range vcs {
		reqs[i] = x.req
	}
	resp, err := c.Model(reqs)
	if err != nil {
		c.TieBroken("drive:C11/model", err.Error(), nil)
		return
	}
	for i, x := range vcs {
		c.Eval("validator:"+x.req, true)
		c.Count("validator:"+x.what, 1)
		if resp[i] != x.want {
			c.TieBroken("drive:C11/validator-model:"+x.what, fmt.Sprintf("%s on %s: model %q, Go %q", x.what, showJSON(x.replay), resp[i], x.want), x.replay)
		}
	}
}

func b01(b bool) string {
	if b {
		return "1"
	}
	return "0"
}

func showJSON(v any) string {
	b, _ := json.Marshal(v)
	if len(b) > 300 {
		return string(b[:300]) + "…"
	}
	return string(b)
}

// revalidateLeaf runs the real validator of a recorded leaf value again (replay).
func revalidateLeaf(goType string, value []byte) (accepted bool, known bool) {
	var err error
	switch goType {
	case "tax.Total":
		tt := new(tax.Total)
		if json.Unmarshal(value, tt) != nil {
			return false, true
		}
		pan := core.Protect(func() { err = tt.Validate() })
		return err == nil && pan == "", true
	case "tax.Extensions":
		em := tax.Extensions{}
		if json.Unmarshal(value, &em) != nil {
			return false, true
		}
		pan := core.Protect(func() { err = em.Validate() })
		return err == nil && pan == "", true
	case "tax.Identity":
		id := new(tax.Identity)
		if json.Unmarshal(value, id) != nil {
			return false, true
		}
		pan := core.Protect(func() { err = id.Validate() })
		return err == nil && pan == "", true
	}
	return true, false
}
