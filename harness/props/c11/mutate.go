package c11

import (
	"encoding/json"
	"fmt"
	"math/rand"
	"regexp"
	"sort"
	"strings"

	"github.com/invopop/gobl/currency"
	"github.com/invopop/gobl/tax"
	"github.com/invopop/gobl/uuid"
)

// Field-level mutations of example documents.  A mutant is kept only when the
// real code calculates and validates it; everything here only has to be
// "mostly valid".

var (
	reAmount = regexp.MustCompile(`^-?[0-9]+(\.[0-9]+)?$`)
	rePct    = regexp.MustCompile(`^-?[0-9]+(\.[0-9]+)?%$`)
	reDate   = regexp.MustCompile(`^[0-9]{4}-[0-9]{2}-[0-9]{2}$`)
	reUUID   = regexp.MustCompile(`^[0-9a-f]{8}-[0-9a-f]{4}-[0-9a-f]{4}-[0-9a-f]{4}-[0-9a-f]{12}$`)
)

var codeKeys = map[string]bool{"code": true, "series": true, "ref": true, "number": true, "po_box": true, "post_code": true}
var textKeys = map[string]bool{"name": true, "text": true, "title": true, "description": true, "street": true, "locality": true,
	"region": true, "label": true, "alias": true, "given": true, "surname": true, "notes": true, "reason": true, "detail": true,
	"street_extra": true, "num": true, "floor": true, "block": true, "door": true, "content": true, "office": true, "role": true}
var urlKeys = map[string]bool{"url": true}

type slot struct {
	parent any // map[string]any or []any
	key    string
	idx    int
	val    any
	pkey   string // key under which the parent object sits
}

func collect(v any, pkey string, out *[]slot) {
	switch x := v.(type) {
	case map[string]any:
		ks := make([]string, 0, len(x))
		for k := range x {
			ks = append(ks, k)
		}
		sort.Strings(ks)
		for _, k := range ks {
			*out = append(*out, slot{parent: x, key: k, val: x[k], pkey: pkey})
			collect(x[k], k, out)
		}
	case []any:
		for i, c := range x {
			*out = append(*out, slot{parent: x, idx: i, key: "", val: c, pkey: pkey})
			collect(c, pkey, out)
		}
	}
}

func (s slot) set(v any) {
	switch p := s.parent.(type) {
	case map[string]any:
		p[s.key] = v
	case []any:
		p[s.idx] = v
	}
}

// pool of member values seen in the examples: parent key → member key → values
type pool map[string]map[string][]any

func (p pool) add(v any, pkey string) {
	switch x := v.(type) {
	case map[string]any:
		for k, c := range x {
			if p[pkey] == nil {
				p[pkey] = map[string][]any{}
			}
			if len(p[pkey][k]) < 40 {
				p[pkey][k] = append(p[pkey][k], c)
			}
			p.add(c, k)
		}
	case []any:
		for _, c := range x {
			p.add(c, pkey)
		}
	}
}

func clone(v any) any {
	b, _ := json.Marshal(v)
	out, _ := decode(b)
	return out
}

func randDigits(r *rand.Rand, n int) string {
	var sb strings.Builder
	for i := 0; i < n; i++ {
		sb.WriteByte(byte('0' + r.Intn(10)))
	}
	return sb.String()
}

func randAmount(r *rand.Rand) string {
	var ip string
	switch r.Intn(6) {
	case 0:
		ip = "0"
	case 1:
		ip = fmt.Sprint(r.Intn(10))
	case 2:
		ip = fmt.Sprint(r.Intn(100000))
	case 3:
		ip = fmt.Sprint(r.Int63n(1e10))
	case 4:
		ip = "00" + fmt.Sprint(r.Intn(1000)) // leading zeros are accepted by AmountFromString
	default:
		ip = fmt.Sprint(1 + r.Intn(999))
	}
	s := ip
	if d := []int{0, 0, 1, 2, 2, 2, 3, 4, 6, 8, 12}[r.Intn(11)]; d > 0 {
		s += "." + randDigits(r, d)
	}
	if r.Intn(8) == 0 {
		s = "-" + s
	}
	return s
}

func randPct(r *rand.Rand) string {
	s := fmt.Sprint(r.Intn(101))
	if d := r.Intn(5); d > 0 {
		s += "." + randDigits(r, d)
	}
	if r.Intn(12) == 0 {
		s = "-" + s
	}
	return s + "%"
}

func daysIn(y, m int) int {
	switch m {
	case 2:
		if (y%4 == 0 && y%100 != 0) || y%400 == 0 {
			return 29
		}
		return 28
	case 4, 6, 9, 11:
		return 30
	}
	return 31
}

func randDate(r *rand.Rand) string {
	y := 1990 + r.Intn(46)
	switch r.Intn(40) {
	case 0:
		y = 1 + r.Intn(9999) // year 0000 is left out: python's date type starts at year 1
	case 1:
		y = 9999
	case 2:
		y = 2000 + 4*r.Intn(8)
	}
	m := 1 + r.Intn(12)
	d := 1 + r.Intn(daysIn(y, m))
	if r.Intn(6) == 0 {
		d = daysIn(y, m)
	}
	return fmt.Sprintf("%04d-%02d-%02d", y, m, d)
}

const alnum = "ABCDEFGHIJKLMNOPQRSTUVWXYZabcdefghijklmnopqrstuvwxyz0123456789"

func randCode(r *rand.Rand) string {
	var sb strings.Builder
	blocks := 1 + r.Intn(4)
	for b := 0; b < blocks; b++ {
		if b > 0 {
			sb.WriteByte(".-/ _:"[r.Intn(6)])
		}
		n := 1 + r.Intn(6)
		for i := 0; i < n; i++ {
			switch r.Intn(3) {
			case 0:
				sb.WriteByte(alnum[r.Intn(26)])
			case 1:
				sb.WriteByte(alnum[52+r.Intn(10)])
			default:
				sb.WriteByte(alnum[r.Intn(len(alnum))])
			}
		}
	}
	s := sb.String()
	if r.Intn(10) == 0 {
		odd := []string{"&", "Ñ", "ñ", "+", "#", "--", " ", "é", " ", "(", "*", ",", "·", "'"}
		i := r.Intn(len(s) + 1)
		s = s[:i] + odd[r.Intn(len(odd))] + s[i:]
	}
	return s
}

var textBits = []string{"Hello", "world", " ", "  ", "Ünïcödé", "日本語", "😀", "\"quoted\"", "back\\slash", "line\nbreak", "tab\there",
	"<tag>&amp;", "Ñandú", "O'Neil", "ﬁ", "é", "​", "٣", "ß", "—", "/", "%", "{}", "[x]", "a", "Z", "0", " ", "\r\n", " "}

func randText(r *rand.Rand) string {
	var sb strings.Builder
	n := 1 + r.Intn(5)
	for i := 0; i < n; i++ {
		sb.WriteString(textBits[r.Intn(len(textBits))])
	}
	return sb.String()
}

var urls = []string{"https://example.com", "http://a.b/c?d=e#f", "https://example.com/päth", "http://exämple.com", "ftp://x.y/z",
	"https://example.com/a b", "example.com", "www.example.com/x", "https://[::1]/", "HTTPS://EXAMPLE.COM/", "https://example.com/%zz",
	"https://example.com/%20ok", "http://localhost:8080/", "https://user:pw@example.com/", "https://example.com/a|b", "http://example.com/{id}",
	"https://例え.jp/", "wss://example.com/s", "https://example.com/\"q\"", "http://example.com/<x>", "https://example.com/^", "https://example.com/`"}

var emails = []string{"a@b.co", "first.last+tag@example.com", "ñ@example.com", "user@exämple.com", "a@b", "\"quoted\"@example.com"}

func randUUID(r *rand.Rand) string {
	b := make([]byte, 16)
	r.Read(b)
	v := []byte{0x10, 0x30, 0x40, 0x50, 0x60, 0x70}[r.Intn(6)]
	b[6] = (b[6] & 0x0f) | v
	b[8] = (b[8] & 0x3f) | 0x80
	return fmt.Sprintf("%x-%x-%x-%x-%x", b[0:4], b[4:6], b[6:8], b[8:10], b[10:16])
}

type mutator struct {
	r        *rand.Rand
	pool     pool
	regimes  []string
	addons   []string
	currs    []string
	examples []example // inputs, for regime-specific parties
}

func newMutator(r *rand.Rand, inputs []example, outs []example) *mutator {
	m := &mutator{r: r, pool: pool{}, examples: inputs}
	for _, e := range append(append([]example{}, inputs...), outs...) {
		if v, err := decode(e.json); err == nil {
			if mm, ok := v.(map[string]any); ok {
				if d, ok := mm["doc"]; ok && mm["$schema"] == envelopeID {
					v = d
				}
			}
			m.pool.add(v, "$doc")
		}
	}
	for _, rd := range tax.AllRegimeDefs() {
		m.regimes = append(m.regimes, rd.Code().String())
	}
	for _, ad := range tax.AllAddonDefs() {
		m.addons = append(m.addons, ad.Key.String())
	}
	for _, d := range currency.Definitions() {
		m.currs = append(m.currs, d.ISOCode.String())
	}
	return m
}

// mutate applies 1–3 random operators in place and names them.
func (m *mutator) mutate(doc any) string {
	r := m.r
	var names []string
	n := 1 + r.Intn(3)
	for i := 0; i < n; i++ {
		var slots []slot
		collect(doc, "$doc", &slots)
		if len(slots) == 0 {
			break
		}
		op := r.Intn(100)
		name := ""
		switch {
		case op < 45:
			name = m.leaf(slots)
		case op < 60:
			name = m.addMember(doc, slots)
		case op < 68:
			name = m.removeMember(slots)
		case op < 76:
			name = m.arrayOp(slots)
		case op < 84:
			name = m.switchRegime(doc)
		case op < 92:
			name = m.switchAddons(doc)
		default:
			name = m.switchCurrency(doc)
		}
		if name != "" {
			names = append(names, name)
		}
	}
	return strings.Join(names, "+")
}

func (m *mutator) leaf(slots []slot) string {
	r := m.r
	var cands []slot
	for _, s := range slots {
		if _, ok := s.val.(string); ok && !strings.HasPrefix(s.key, "$") {
			cands = append(cands, s)
		}
	}
	if len(cands) == 0 {
		return ""
	}
	// prefer a requested class now and then, so that rare leaves are hit too
	want := r.Intn(8)
	for try := 0; try < 30; try++ {
		s := cands[r.Intn(len(cands))]
		t := s.val.(string)
		key := s.key
		if key == "" {
			key = s.pkey
		}
		switch {
		case reUUID.MatchString(t):
			if want != 0 && try < 20 {
				continue
			}
			s.set(randUUID(r))
			return "uuid:" + key
		case reDate.MatchString(t):
			if want != 1 && try < 20 {
				continue
			}
			s.set(randDate(r))
			return "date:" + key
		case rePct.MatchString(t):
			if want != 2 && try < 20 {
				continue
			}
			s.set(randPct(r))
			return "percent:" + key
		case urlKeys[key]:
			s.set(urls[r.Intn(len(urls))])
			return "url:" + key
		case key == "addr" && strings.Contains(t, "@"):
			s.set(emails[r.Intn(len(emails))])
			return "email:" + key
		case codeKeys[key] && s.pkey == "tax_id":
			if want != 3 && try < 20 {
				continue
			}
			s.set(strings.ToUpper(randCode(r)))
			return "taxid-code"
		case codeKeys[key]:
			if want != 4 && try < 20 {
				continue
			}
			s.set(randCode(r))
			return "code:" + key
		case reAmount.MatchString(t) && !codeKeys[key]:
			if want > 6 && try < 20 {
				continue
			}
			s.set(randAmount(r))
			return "amount:" + key
		case textKeys[key]:
			if want != 5 && try < 20 {
				continue
			}
			s.set(randText(r))
			return "text:" + key
		}
	}
	return ""
}

func (m *mutator) addMember(doc any, slots []slot) string {
	r := m.r
	type objAt struct {
		obj  map[string]any
		pkey string
	}
	objs := []objAt{}
	if d, ok := doc.(map[string]any); ok {
		objs = append(objs, objAt{d, "$doc"})
	}
	for _, s := range slots {
		if o, ok := s.val.(map[string]any); ok {
			k := s.key
			if k == "" {
				k = s.pkey
			}
			objs = append(objs, objAt{o, k})
		}
	}
	for try := 0; try < 20 && len(objs) > 0; try++ {
		o := objs[r.Intn(len(objs))]
		members := m.pool[o.pkey]
		var ks []string
		for k := range members {
			if _, has := o.obj[k]; !has && k != "$schema" {
				ks = append(ks, k)
			}
		}
		if len(ks) == 0 {
			continue
		}
		sort.Strings(ks)
		k := ks[r.Intn(len(ks))]
		vals := members[k]
		o.obj[k] = clone(vals[r.Intn(len(vals))])
		return "add:" + o.pkey + "." + k
	}
	return ""
}

func (m *mutator) removeMember(slots []slot) string {
	r := m.r
	for try := 0; try < 20; try++ {
		s := slots[r.Intn(len(slots))]
		if p, ok := s.parent.(map[string]any); ok && !strings.HasPrefix(s.key, "$schema") {
			delete(p, s.key)
			return "remove:" + s.pkey + "." + s.key
		}
	}
	return ""
}

func (m *mutator) arrayOp(slots []slot) string {
	r := m.r
	for try := 0; try < 20; try++ {
		s := slots[r.Intn(len(slots))]
		arr, ok := s.val.([]any)
		if !ok || len(arr) == 0 || s.key == "" {
			continue
		}
		p, ok := s.parent.(map[string]any)
		if !ok {
			continue
		}
		if r.Intn(2) == 0 && len(arr) < 6 {
			p[s.key] = append(append([]any{}, arr...), clone(arr[r.Intn(len(arr))]))
			return "dup-item:" + s.key
		}
		if len(arr) > 1 {
			i := r.Intn(len(arr))
			p[s.key] = append(append([]any{}, arr[:i]...), arr[i+1:]...)
			return "drop-item:" + s.key
		}
	}
	return ""
}

// switchRegime changes `$regime`; half of the time the parties of an example
// of that regime come along, so that the result has a chance to validate.
func (m *mutator) switchRegime(doc any) string {
	d, ok := doc.(map[string]any)
	if !ok {
		return ""
	}
	if _, has := d["supplier"]; !has {
		return ""
	}
	r := m.r
	reg := m.regimes[r.Intn(len(m.regimes))]
	if r.Intn(2) == 0 {
		var cands []map[string]any
		for _, e := range m.examples {
			if v, err := decode(e.json); err == nil {
				if mm, ok := v.(map[string]any); ok && mm["$schema"] == d["$schema"] {
					if sup, ok := mm["supplier"].(map[string]any); ok {
						if tid, ok := sup["tax_id"].(map[string]any); ok && tid["country"] == reg {
							cands = append(cands, mm)
						}
					}
				}
			}
		}
		if len(cands) > 0 {
			src := cands[r.Intn(len(cands))]
			d["supplier"] = clone(src["supplier"])
			if c, ok := src["customer"]; ok && r.Intn(2) == 0 {
				d["customer"] = clone(c)
			}
			if r.Intn(2) == 0 {
				if a, ok := src["$addons"]; ok {
					d["$addons"] = clone(a)
				} else {
					delete(d, "$addons")
				}
				if t, ok := src["tax"]; ok {
					d["tax"] = clone(t)
				} else {
					delete(d, "tax")
				}
			}
			d["$regime"] = reg
			if cur, ok := src["currency"]; ok {
				d["currency"] = cur
			}
			return "regime+parties:" + reg
		}
	}
	d["$regime"] = reg
	if r.Intn(3) == 0 {
		delete(d, "$addons")
	}
	return "regime:" + reg
}

func (m *mutator) switchAddons(doc any) string {
	d, ok := doc.(map[string]any)
	if !ok {
		return ""
	}
	if _, has := d["supplier"]; !has {
		return ""
	}
	r := m.r
	cur, _ := d["$addons"].([]any)
	switch r.Intn(3) {
	case 0:
		if len(cur) > 0 {
			i := r.Intn(len(cur))
			d["$addons"] = append(append([]any{}, cur[:i]...), cur[i+1:]...)
			if len(cur) == 1 {
				delete(d, "$addons")
			}
			return "addon-drop"
		}
		fallthrough
	case 1:
		a := m.addons[r.Intn(len(m.addons))]
		d["$addons"] = append(append([]any{}, cur...), a)
		return "addon-add:" + a
	default:
		a := m.addons[r.Intn(len(m.addons))]
		d["$addons"] = []any{a}
		return "addon-set:" + a
	}
}

func (m *mutator) switchCurrency(doc any) string {
	d, ok := doc.(map[string]any)
	if !ok {
		return ""
	}
	if _, has := d["currency"]; !has && m.r.Intn(2) == 0 {
		return ""
	}
	c := m.currs[m.r.Intn(len(m.currs))]
	d["currency"] = c
	return "currency:" + c
}

var _ = uuid.Empty
