package c13

// Two relations that need no table of national rules: they compare the library with itself on
// inputs the statement ties together.
//
// "c" — COMPLETED SHORT FORMS.  Some normalisers COMPLETE a code: handed a national short form
// (the French SIREN, 9 digits) they compute the missing control characters and write the long form
// (the 11-character TVA number).  The completed characters agree with the rest by construction, so
// the long form's check says nothing about the short form that was typed: "accepted iff the check
// digit agrees with the published algorithm" and "changing any single digit of an accepted code
// makes it rejected" are then statements about the SHORT form and its own check.  Short forms are
// not listed by hand: every truncation (1-3 characters off either end) of the codes valid by the
// published rule is normalised for every country routed to the regime, and the ones that come back
// LONGER and are accepted are short forms the normaliser completes.  Each of them gets ALL its
// single-digit edits, through Identity.Normalize+Validate, tax.ParseIdentity and a party's
// Calculate+Validate: an edit that is completed and accepted as well — with other completed
// characters than the accepted short form got, i.e. computed for the edited digits instead of
// checked — is a code with a wrong digit that the library accepts.  (An edit whose long form is
// the long form of the original with the one digit changed is the long scheme's own blind spot,
// judged by the validation cases against the specification; it is counted and left alone.)
//
// "i" — ONE OBJECT, EDITED IN PLACE.  Acceptance and the normal form are functions of what the
// identity SAYS (country, code), not of what the object said before: an identity that has been
// normalised, validated, asked for its scheme or regime, or calculated inside a party, and whose
// Country and/or Code are then changed — on the same object, on a by-value copy of it, or by
// decoding JSON into the same object a second time — must normalise to the same form, get the same
// verdict and name the same scheme as a FRESH identity with the new content.  Contents: per
// ordered pair of countries (every regime with a rule, regimes without one, a country without a
// regime) a code valid by the published rule, one of its single-character edits, and a truncation.

import (
	"encoding/json"
	"fmt"
	"math/rand"
	"strings"

	"github.com/invopop/gobl/cbc"
	"github.com/invopop/gobl/l10n"
	"github.com/invopop/gobl/org"
	"github.com/invopop/gobl/tax"

	"verifharness/internal/core"
)

// ---- what the library says about one text ----------------------------------

type verdict struct {
	Country, Code string
	Accepted      bool
	Err           string
	Scheme        string
}

func readVerdict(id *tax.Identity) verdict {
	id.Normalize()
	v := verdict{Country: string(id.Country), Code: string(id.Code), Scheme: string(id.GetScheme())}
	if err := id.Validate(); err != nil {
		v.Err = err.Error()
	} else {
		v.Accepted = true
	}
	return v
}

func freshVerdict(country, code string) (v verdict, pan string) {
	pan = core.Protect(func() {
		v = readVerdict(&tax.Identity{Country: l10n.TaxCountryCode(country), Code: cbc.Code(code)})
	})
	return
}

// ---- "c": completed short forms ----------------------------------------------

func digitEdits(s string) []string {
	var out []string
	b := []byte(s)
	for i, ch := range b {
		if ch < '0' || ch > '9' {
			continue
		}
		for d := byte('0'); d <= '9'; d++ {
			if d != ch {
				cp := append([]byte{}, b...)
				cp[i] = d
				out = append(out, string(cp))
			}
		}
	}
	return out
}

func completedCases(c *core.Ctx, rg *regime, valids []string) []tcase {
	var out []tcase
	seen := map[string]bool{}
	n := c.Pick(40, 2000)
	for i := 0; i < n && i < len(valids); i++ {
		base := valids[i]
		if rg.CC != "MX" {
			base = cleanASCII(base)
		}
		for _, t := range truncations(rg, rg.Countries[i%len(rg.Countries)], base) {
			c.Count("completed:truncations-tried", 1)
			v, pan := freshVerdict(t.Country, t.Code)
			if pan != "" || !v.Accepted || len(v.Code) <= len(t.Code) || seen[t.Country+" "+t.Code] {
				continue
			}
			seen[t.Country+" "+t.Code] = true
			c.Count("completed:short-forms-found:"+rg.CC, 1)
			for _, e := range digitEdits(t.Code) {
				out = append(out, tcase{Kind: "c", CC: rg.CC, Country: t.Country, Code: e, Base: t.Code, Stream: "completed-short-form:single-digit-edit"})
			}
		}
	}
	return out
}

type centry struct {
	Name string
	verdict
}

func singleEdit(a, b string) bool {
	if len(a) != len(b) {
		return false
	}
	n := 0
	for i := range a {
		if a[i] != b[i] {
			n++
		}
	}
	return n == 1
}

func judgeCompleted(c *core.Ctx, t tcase) {
	c.Count("regime:"+t.CC, 1)
	c.Count("stream:"+t.Stream, 1)
	base, pan := freshVerdict(t.Country, t.Base)
	if pan != "" {
		c.Fail("", fmt.Sprintf("identity %s %q: panicked: %s", t.Country, t.Base, pan), t)
		return
	}
	if !base.Accepted || len(base.Code) <= len(t.Base) {
		c.Count("completed:short form not (any longer) completed and accepted", 1)
		return
	}
	var entries []centry
	pan = core.Protect(func() {
		entries = append(entries, centry{"tax.Identity.Normalize+Validate", readVerdict(&tax.Identity{Country: l10n.TaxCountryCode(t.Country), Code: cbc.Code(t.Code)})})
		if id, err := tax.ParseIdentity(t.Country + t.Code); err == nil {
			entries = append(entries, centry{fmt.Sprintf("tax.ParseIdentity(%q)", t.Country+t.Code), readVerdict(id)})
		}
		p := &org.Party{Name: "x", TaxID: &tax.Identity{Country: l10n.TaxCountryCode(t.Country), Code: cbc.Code(t.Code)}}
		_ = p.Calculate()
		if !taxIDErr(p.Validate()) && p.TaxID != nil {
			entries = append(entries, centry{"org.Party.Calculate+Validate", readVerdict(p.TaxID)})
		}
	})
	if pan != "" {
		c.Fail("", fmt.Sprintf("identity %s %q: panicked: %s", t.Country, t.Code, pan), t)
		return
	}
	c.Eval("c "+t.Country+" "+t.Code, true)
	for _, e := range entries {
		switch {
		case !e.Accepted:
			c.Count("completed:edit rejected", 1)
		case len(e.Code) <= len(t.Code):
			c.Count("completed:edit accepted as a code in its own right (not completed)", 1)
		case singleEdit(e.Code, base.Code):
			c.Count("completed:edit completed with the very same characters (the long scheme misses this edit)", 1)
		default:
			c.Count("law-failed:completed-edit-accepted", 1)
			c.Fail("", fmt.Sprintf("tax identity of country %s: the short form %q is completed to %q and accepted; with one digit changed, %q, %s completes it to %q and accepts it as well: the control characters were computed for the wrong digits instead of the short form's own check rejecting them (a single-digit error of an accepted code is accepted)",
				t.Country, t.Base, base.Code, t.Code, e.Name, e.Code), map[string]any{"case": t, "short_form": base, "edited": entries})
			return
		}
	}
}

// ---- "i": one object, edited in place ----------------------------------------

var firstOps = []string{"normalize", "validate", "scheme", "regime", "normalize+validate", "party"}
var editHows = []string{"same-object", "by-value-copy", "json-into-same-object"}

type content struct{ country, code, what string }

// contents: what an identity may say, per country.
func contents(r *rand.Rand, rgs []*regime, valids map[string][]string) (out [][]content) {
	for _, rg := range rgs {
		vs := valids[rg.CC]
		if len(vs) == 0 {
			continue
		}
		v := vs[r.Intn(len(vs))]
		if rg.CC != "MX" {
			v = cleanASCII(v)
		}
		country := rg.Countries[r.Intn(len(rg.Countries))]
		cs := []content{{country, v, "valid"}}
		if es := allEdits(rg, v); len(es) > 0 {
			cs = append(cs, content{country, es[r.Intn(len(es))], "single-character-edit"})
		}
		if ts := truncations(rg, country, v); len(ts) > 0 {
			cs = append(cs, content{country, ts[r.Intn(len(ts))].Code, "truncated"})
		}
		out = append(out, cs)
	}
	// regimes without a rule for the code, and countries without a regime: any code will do there
	have := map[string]bool{}
	for _, rg := range rgs {
		for _, cc := range rg.Countries {
			have[cc] = true
		}
		have[rg.CC] = true
	}
	n := 0
	for _, rd := range tax.AllRegimeDefs() {
		if cc := string(rd.Country); !have[cc] {
			have[cc] = true
			out = append(out, []content{{cc, fmt.Sprintf("%09d", r.Intn(1000000000)), "regime-without-rule"}})
		}
	}
	for _, cd := range l10n.Countries() {
		if cc := string(cd.Code); len(cc) == 2 && !have[cc] && n < 2 && r.Intn(20) == 0 {
			n++
			out = append(out, []content{{cc, fmt.Sprintf("%09d", r.Intn(1000000000)), "country-without-regime"}})
		}
	}
	return out
}

func inplaceCases(c *core.Ctx, r *rand.Rand, rgs []*regime, valids map[string][]string) []tcase {
	var out []tcase
	cs := contents(r, rgs, valids)
	k := 0
	for i, from := range cs {
		for j, to := range cs {
			for _, b := range to {
				a := from[r.Intn(len(from))]
				if i == j && a == b {
					continue
				}
				ops, hows := firstOps, editHows
				if !c.Thorough() {
					// every first operation and every way of editing over the pairs, two of each per pair
					k++
					ops = []string{firstOps[k%len(firstOps)], firstOps[(k/len(firstOps)+k+1)%len(firstOps)]}
					hows = []string{editHows[k%len(editHows)]}
				}
				for _, op := range ops {
					for _, how := range hows {
						out = append(out, tcase{Kind: "i", CC: strings.ToUpper(a.country), Country: a.country, Code: a.code, Country2: b.country, Code2: b.code,
							Op: op, How: how, Stream: "in-place:" + a.what + "->" + b.what})
					}
				}
				// the country alone, the code alone
				out = append(out, tcase{Kind: "i", CC: a.country, Country: a.country, Code: b.code, Country2: b.country, Code2: b.code,
					Op: firstOps[k%len(firstOps)], How: editHows[k%len(editHows)], Stream: "in-place:country-alone->" + b.what})
			}
		}
		for _, b := range from {
			for _, a := range from {
				if a != b {
					k++
					out = append(out, tcase{Kind: "i", CC: a.country, Country: a.country, Code: a.code, Country2: b.country, Code2: b.code,
						Op: firstOps[k%len(firstOps)], How: editHows[k%len(editHows)], Stream: "in-place:code-alone:" + a.what + "->" + b.what})
				}
			}
		}
	}
	return out
}

func judgeInPlace(c *core.Ctx, t tcase) {
	c.Count("stream:in-place:"+t.Op+","+t.How, 1)
	var got, want verdict
	pan := core.Protect(func() {
		id := &tax.Identity{Country: l10n.TaxCountryCode(t.Country), Code: cbc.Code(t.Code)}
		switch t.Op {
		case "normalize":
			id.Normalize()
		case "validate":
			_ = id.Validate()
		case "scheme":
			_ = id.GetScheme()
		case "regime":
			_ = id.Regime()
		case "normalize+validate":
			id.Normalize()
			_ = id.Validate()
		case "party":
			p := &org.Party{Name: "x", TaxID: id}
			_ = p.Calculate()
			_ = p.Validate()
			if p.TaxID != nil {
				id = p.TaxID
			}
		}
		switch t.How {
		case "by-value-copy":
			cp := *id
			id = &cp
			id.Country, id.Code = l10n.TaxCountryCode(t.Country2), cbc.Code(t.Code2)
		case "json-into-same-object":
			b, _ := json.Marshal(map[string]string{"country": t.Country2, "code": t.Code2})
			if err := json.Unmarshal(b, id); err != nil {
				panic("json: " + err.Error())
			}
		default:
			id.Country, id.Code = l10n.TaxCountryCode(t.Country2), cbc.Code(t.Code2)
		}
		got = readVerdict(id)
		want = readVerdict(&tax.Identity{Country: l10n.TaxCountryCode(t.Country2), Code: cbc.Code(t.Code2)})
	})
	if pan != "" {
		if strings.HasPrefix(pan, "json: ") {
			c.Count("in-place:not decodable", 1)
			return
		}
		c.Fail("", fmt.Sprintf("identity %s %q edited to %s %q: panicked: %s", t.Country, t.Code, t.Country2, t.Code2, pan), t)
		return
	}
	c.Eval(fmt.Sprintf("i %s %s %s %s %s %s", t.Country, t.Code, t.Country2, t.Code2, t.Op, t.How), t.Country != t.Country2)
	c.Count(fmt.Sprintf("in-place:fresh accepted=%v", want.Accepted), 1)
	detail := map[string]any{"case": t, "edited_object": got, "fresh_identity": want}
	switch {
	case got.Accepted != want.Accepted:
		c.Count("law-failed:in-place-verdict", 1)
		c.Fail("", fmt.Sprintf("a tax identity %s %q went through %q, then was changed (%s) to %s %q: normalised and validated again it is %s (%s), a fresh identity %s %q is %s (%s): acceptance depends on what the object held before, not on format and check digit",
			t.Country, t.Code, t.Op, t.How, t.Country2, t.Code2, accd(got.Accepted), got.Err, t.Country2, t.Code2, accd(want.Accepted), want.Err), detail)
	case got.Country != want.Country || got.Code != want.Code:
		c.Count("law-failed:in-place-normal-form", 1)
		c.Fail("", fmt.Sprintf("a tax identity %s %q went through %q, then was changed (%s) to %s %q: it normalises to %s %q, a fresh identity with the same content to %s %q",
			t.Country, t.Code, t.Op, t.How, t.Country2, t.Code2, got.Country, got.Code, want.Country, want.Code), detail)
	case got.Scheme != want.Scheme:
		c.Count("law-failed:in-place-scheme", 1)
		c.Fail("", fmt.Sprintf("a tax identity %s %q went through %q, then was changed (%s) to %s %q: its scheme is %q, that of a fresh identity with the same content %q",
			t.Country, t.Code, t.Op, t.How, t.Country2, t.Code2, got.Scheme, want.Scheme), detail)
	}
}
