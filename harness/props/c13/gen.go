package c13

// Generators: for every regime a position template (the national alphabet per
// position), a generator of codes that are VALID BY THE PUBLISHED RULE — the
// check digits are computed here, from DESIGN.md Appendix D, without calling
// any GOBL code — and the formatting variants used for the normalisation laws.

import (
	"math/rand"
	"strings"
)

const (
	dig  = "0123456789"
	dig1 = "123456789"
	up   = "ABCDEFGHIJKLMNOPQRSTUVWXYZ"
	aln  = dig + up
)

type regime struct {
	CC        string     // regime country as used for validation ("EL" for Greece)
	Countries []string   // identity countries routed to this regime's normaliser
	Alts      []string   // alternative prefixes the regime's normaliser strips
	Templates [][]string // national formats: allowed characters per position
	Alphabet  string     // national alphabet for noise
	Valid     func(r *rand.Rand) string
	// Boundary builds a well-formed code whose weighted sum has a chosen
	// special remainder (0, 1, 10, …) and every possible check digit; nil if
	// the scheme has no special remainder.
	Boundary func(r *rand.Rand) string
	Suffixes []string // CH only
	NoPrefix bool     // MX: the normaliser deliberately keeps a leading "MX"
	Rewrites bool     // the normaliser overwrites the identity country with CC (EL, IN)
}

func rep(s string, n int) []string {
	out := make([]string, n)
	for i := range out {
		out[i] = s
	}
	return out
}

func cat(parts ...[]string) []string {
	var out []string
	for _, p := range parts {
		out = append(out, p...)
	}
	return out
}

func pick(r *rand.Rand, s string) byte { return s[r.Intn(len(s))] }

func pickRune(r *rand.Rand, s string) string {
	rs := []rune(s)
	return string(rs[r.Intn(len(rs))])
}

func fromTemplate(r *rand.Rand, t []string) string {
	var sb strings.Builder
	for _, cls := range t {
		sb.WriteString(pickRune(r, cls))
	}
	return sb.String()
}

func digitsN(r *rand.Rand, n int) []int {
	d := make([]int, n)
	for i := range d {
		d[i] = r.Intn(10)
	}
	return d
}

func str(d []int) string {
	b := make([]byte, len(d))
	for i, x := range d {
		b[i] = byte('0' + x)
	}
	return string(b)
}

func dot(w, d []int) int {
	s := 0
	for i := range w {
		if i < len(d) {
			s += w[i] * d[i]
		}
	}
	return s
}

func value(d []int) int {
	n := 0
	for _, x := range d {
		n = n*10 + x
	}
	return n
}

func digitSum(n int) int { return n/10 + n%10 }

// luhnCheck: the digit that makes the whole number Luhn-valid.
func luhnCheck(payload []int) int {
	total := 0
	for i := 0; i < len(payload); i++ {
		d := payload[len(payload)-1-i]
		if i%2 == 0 { // next to the check digit: doubled
			total += digitSum(2 * d)
		} else {
			total += d
		}
	}
	return (10 - total%10) % 10
}

const esLetters = "TRWAGMYFPDXBNJZSQVHLCKE"
const esControl = "JABCDEFGHI"

var ptPrefixes = []string{"1", "2", "3", "5", "6", "8", "45", "70", "71", "72", "74", "75", "77", "78", "79", "90", "91", "98", "99"}

// force makes Σ w·d ≡ want (mod m) by adjusting one digit whose weight is
// invertible mod m (m prime here), if a digit value 0..9 achieves it.
func force(r *rand.Rand, w, d []int, m, want int) bool {
	for try := 0; try < 20; try++ {
		i := r.Intn(len(w))
		if i >= len(d) {
			continue
		}
		for v := 0; v < 10; v++ {
			old := d[i]
			d[i] = v
			if dot(w, d)%m == want {
				return true
			}
			d[i] = old
		}
	}
	return false
}

func regimes() []*regime {
	var rs []*regime

	rs = append(rs, &regime{CC: "AE", Countries: []string{"AE"}, Templates: [][]string{rep(dig, 15)}, Alphabet: dig,
		Valid: func(r *rand.Rand) string { return str(digitsN(r, 15)) }})

	rs = append(rs, &regime{CC: "AT", Countries: []string{"AT"}, Templates: [][]string{cat([]string{"U"}, rep(dig, 8))}, Alphabet: dig + "U",
		Valid: func(r *rand.Rand) string {
			d := digitsN(r, 7)
			s := 0
			for i, x := range d {
				if i%2 == 0 {
					s += x
				} else {
					s += digitSum(2 * x)
				}
			}
			c := (10 - (s+4)%10) % 10
			return "U" + str(d) + str([]int{c})
		}})

	rs = append(rs, &regime{CC: "BE", Countries: []string{"BE"}, Templates: [][]string{cat([]string{"0", dig1}, rep(dig, 8)), cat([]string{dig1}, rep(dig, 8))}, Alphabet: dig,
		Valid: func(r *rand.Rand) string {
			d := digitsN(r, 8)
			d[0] = 0
			d[1] = 1 + r.Intn(9)
			chk := 97 - value(d)%97
			s := str(d) + str([]int{chk / 10, chk % 10})
			if r.Intn(3) == 0 {
				return s[1:]
			}
			return s
		}})

	brW1 := []int{5, 4, 3, 2, 9, 8, 7, 6, 5, 4, 3, 2}
	brW2 := []int{6, 5, 4, 3, 2, 9, 8, 7, 6, 5, 4, 3, 2}
	brDV := func(r int) int {
		if r < 2 {
			return 0
		}
		return 11 - r
	}
	brFinish := func(d []int) string {
		d = append(d[:12:12], brDV(dot(brW1, d)%11))
		d = append(d, brDV(dot(brW2, d)%11))
		return str(d)
	}
	rs = append(rs, &regime{CC: "BR", Countries: []string{"BR"}, Templates: [][]string{rep(dig, 14)}, Alphabet: dig,
		Valid: func(r *rand.Rand) string { return brFinish(digitsN(r, 12)) },
		Boundary: func(r *rand.Rand) string {
			d := digitsN(r, 12)
			force(r, brW1, d, 11, []int{0, 1, 10, 2}[r.Intn(4)])
			s := brFinish(d)
			b := []byte(s)
			if r.Intn(2) == 0 {
				b[12] = pick(r, dig)
			} else {
				b[13] = pick(r, dig)
			}
			return string(b)
		}})

	chW := []int{5, 4, 3, 2, 7, 6, 5, 4}
	rs = append(rs, &regime{CC: "CH", Countries: []string{"CH"}, Templates: [][]string{cat([]string{"E"}, rep(dig, 9))}, Alphabet: dig + "E",
		Suffixes: []string{"MWST", "TVA", "IVA"},
		Valid: func(r *rand.Rand) string {
			for {
				d := digitsN(r, 8)
				c := 11 - dot(chW, d)%11
				if c == 10 {
					continue
				}
				if c == 11 {
					c = 0
				}
				return "E" + str(d) + str([]int{c})
			}
		},
		Boundary: func(r *rand.Rand) string {
			d := digitsN(r, 8)
			force(r, chW, d, 11, []int{0, 1, 10}[r.Intn(3)])
			return "E" + str(d) + string(pick(r, dig))
		}})

	coP := []int{3, 7, 13, 17, 19, 23, 29, 37, 41, 43, 47, 53, 59, 67, 71}
	coRem := func(body []int) int {
		s := 0
		for i := range body {
			s += body[len(body)-1-i] * coP[i]
		}
		return s % 11
	}
	rs = append(rs, &regime{CC: "CO", Countries: []string{"CO"}, Templates: [][]string{rep(dig, 9), rep(dig, 10)}, Alphabet: dig,
		Valid: func(r *rand.Rand) string {
			d := digitsN(r, 8+r.Intn(2))
			x := coRem(d)
			if x >= 2 {
				x = 11 - x
			}
			return str(d) + str([]int{x})
		},
		Boundary: func(r *rand.Rand) string {
			for {
				d := digitsN(r, 8+r.Intn(2))
				x := coRem(d)
				if x == 0 || x == 1 || x == 10 {
					return str(d) + string(pick(r, dig))
				}
			}
		}})

	rs = append(rs, &regime{CC: "DE", Countries: []string{"DE"}, Templates: [][]string{cat([]string{dig1}, rep(dig, 8))}, Alphabet: dig,
		Valid: func(r *rand.Rand) string {
			d := digitsN(r, 8)
			d[0] = 1 + r.Intn(9)
			p := 10
			for _, a := range d {
				s := (p + a) % 10
				if s == 0 {
					s = 10
				}
				p = 2 * s % 11
			}
			for a := 0; a < 10; a++ {
				if (p+a)%10 == 1 {
					return str(d) + str([]int{a})
				}
			}
			panic("unreachable")
		}})

	esCIF := func(r *rand.Rand, types string) string {
		d := digitsN(r, 7)
		ev := d[1] + d[3] + d[5]
		od := digitSum(2*d[0]) + digitSum(2*d[2]) + digitSum(2*d[4]) + digitSum(2*d[6])
		c := (10 - (ev+od)%10) % 10
		ctl := string(byte('0' + c))
		if r.Intn(2) == 0 {
			ctl = string(esControl[c])
		}
		return string(pick(r, types)) + str(d) + ctl
	}
	rs = append(rs, &regime{CC: "ES", Countries: []string{"ES"},
		Templates: [][]string{cat(rep(dig, 8), []string{esLetters}), cat([]string{"XYZ"}, rep(dig, 7), []string{esLetters}),
			cat([]string{"ABCDEFGHJNPQRSUVW"}, rep(dig, 7), []string{dig + esControl}), cat([]string{"KLM"}, rep(dig, 7), []string{dig + esControl})},
		Alphabet: aln,
		Valid: func(r *rand.Rand) string {
			switch r.Intn(4) {
			case 0:
				for {
					d := digitsN(r, 8)
					if r.Intn(4) == 0 { // small numbers with leading zeros
						for i := 0; i < 5; i++ {
							d[i] = 0
						}
					}
					n := value(d)
					if n == 0 {
						continue
					}
					return str(d) + string(esLetters[n%23])
				}
			case 1:
				k := r.Intn(3)
				d := digitsN(r, 7)
				n := k*10000000 + value(d)
				return string("XYZ"[k]) + str(d) + string(esLetters[n%23])
			case 2:
				return esCIF(r, "ABCDEFGHJNPQRSUVW")
			default:
				return esCIF(r, "KLM")
			}
		}})

	rs = append(rs, &regime{CC: "FR", Countries: []string{"FR"}, Templates: [][]string{rep(dig, 11)}, Alphabet: dig,
		Valid: func(r *rand.Rand) string {
			d := digitsN(r, 9)
			if r.Intn(2) == 0 { // a Luhn-valid SIREN
				d[8] = luhnCheck(d[:8])
			}
			if r.Intn(8) == 0 {
				for i := 0; i < 6; i++ {
					d[i] = 0
				}
			}
			k := (12 + 3*(value(d)%97)) % 97
			return str([]int{k / 10, k % 10}) + str(d)
		}})

	gbW := []int{8, 7, 6, 5, 4, 3, 2}
	gbOldRange := func(n int) bool {
		return n < 9990001 && (n < 100000 || n > 999999) && (n < 9490001 || n > 9700000)
	}
	gbBody := func(r *rand.Rand) []int {
		d := digitsN(r, 7)
		switch r.Intn(6) {
		case 0: // around the range borders
			n := []int{100000, 999999, 1000000, 9490001, 9700000, 9990001, 99999, 1000001, 9490000, 9700001, 9990000}[r.Intn(11)] + r.Intn(3) - 1
			for i := 6; i >= 0; i-- {
				d[i] = n % 10
				n /= 10
			}
		case 1:
			d[0] = 0
		}
		return d
	}
	rs = append(rs, &regime{CC: "GB", Countries: []string{"GB", "XI", "XU"}, Alts: []string{"XI", "XU"},
		Templates: [][]string{rep(dig, 9), rep(dig, 12), cat([]string{"G", "D"}, rep(dig, 3)), cat([]string{"H", "A"}, rep(dig, 3))}, Alphabet: dig + "GDHA",
		Valid: func(r *rand.Rand) string {
			switch r.Intn(8) {
			case 0:
				n := r.Intn(500)
				return "GD" + str([]int{n / 100, n / 10 % 10, n % 10})
			case 1:
				n := 500 + r.Intn(500)
				return "HA" + str([]int{n / 100, n / 10 % 10, n % 10})
			}
			for {
				d := gbBody(r)
				n := value(d)
				t := dot(gbW, d)
				var cc int
				if r.Intn(2) == 0 {
					if !gbOldRange(n) {
						continue
					}
					cc = (97 - t%97) % 97
				} else {
					if n <= 1000000 {
						continue
					}
					cc = (97*2 - (t+55)%97) % 97
				}
				s := str(d) + str([]int{cc / 10, cc % 10})
				if value(d) == 0 && cc == 0 {
					continue
				}
				if r.Intn(3) == 0 {
					s += str(digitsN(r, 3))
				}
				return s
			}
		},
		Boundary: func(r *rand.Rand) string {
			// check digits 97..99 and 00, sums that are multiples of 97, range borders
			d := gbBody(r)
			cc := []int{0, 97, 98, 99, 42, 55}[r.Intn(6)]
			if r.Intn(2) == 0 {
				force(r, gbW, d, 97, []int{0, 42, 55, 96, 1}[r.Intn(5)])
			}
			return str(d) + str([]int{cc / 10, cc % 10})
		}})

	grW := []int{256, 128, 64, 32, 16, 8, 4, 2}
	rs = append(rs, &regime{CC: "EL", Countries: []string{"EL", "GR"}, Alts: []string{"GR"}, Rewrites: true, Templates: [][]string{rep(dig, 9)}, Alphabet: dig,
		Valid: func(r *rand.Rand) string {
			d := digitsN(r, 8)
			return str(d) + str([]int{dot(grW, d) % 11 % 10})
		},
		Boundary: func(r *rand.Rand) string {
			d := digitsN(r, 8)
			force(r, grW, d, 11, []int{0, 10, 1}[r.Intn(3)])
			return str(d) + string("01"[r.Intn(2)])
		}})

	inVal := func(c byte) int {
		if c >= '0' && c <= '9' {
			return int(c - '0')
		}
		return int(c-'A') + 10
	}
	inT := cat(rep(dig, 2), rep(up, 5), rep(dig, 4), []string{up, dig1 + up, "Z", aln})
	rs = append(rs, &regime{CC: "IN", Countries: []string{"IN"}, Alts: []string{"IN"}, Rewrites: true, Templates: [][]string{inT}, Alphabet: aln,
		Valid: func(r *rand.Rand) string {
			s := fromTemplate(r, inT[:14])
			total := 0
			for i := 0; i < 14; i++ {
				q := inVal(s[i])
				if i%2 == 1 {
					q *= 2
				}
				total += q/36 + q%36
			}
			c := (36 - total%36) % 36
			return s + string(aln[c])
		}})

	rs = append(rs, &regime{CC: "IT", Countries: []string{"IT"}, Templates: [][]string{rep(dig, 11)}, Alphabet: dig,
		Valid: func(r *rand.Rand) string {
			d := digitsN(r, 10)
			return str(d) + str([]int{luhnCheck(d)})
		}})

	mxL := up + "Ñ&"
	rs = append(rs, &regime{CC: "MX", Countries: []string{"MX"}, NoPrefix: true,
		Templates: [][]string{cat(rep(mxL, 4), rep(dig, 6), rep(aln, 3)), cat(rep(mxL, 3), rep(dig, 6), rep(aln, 3))}, Alphabet: aln + "Ñ&",
		Valid: func(r *rand.Rand) string {
			n := 3 + r.Intn(2)
			l := up
			if r.Intn(3) == 0 {
				l = mxL + "Ñ&Ñ&"
			}
			return fromTemplate(r, cat(rep(l, n), rep(dig, 6), rep(aln, 3)))
		}})

	nlW := []int{9, 8, 7, 6, 5, 4, 3, 2}
	nlMod97 := func(d9 []int, c1, c2 int) bool {
		// NL d…d B cc  with N=23 L=21 B=11, as one decimal number
		n := 2321 % 97
		for _, x := range d9 {
			n = (n*10 + x) % 97
		}
		n = (n*100 + 11) % 97
		n = (n*10 + c1) % 97
		n = (n*10 + c2) % 97
		return n == 1
	}
	rs = append(rs, &regime{CC: "NL", Countries: []string{"NL"}, Templates: [][]string{cat(rep(dig, 9), []string{"B"}, rep(dig, 2))}, Alphabet: dig + "B",
		Valid: func(r *rand.Rand) string {
			for {
				d := digitsN(r, 9)
				if r.Intn(2) == 0 { // 11-test
					x := dot(nlW, d) % 11
					if x == 10 {
						continue
					}
					d[8] = x
					return str(d) + "B" + str(digitsN(r, 2))
				}
				for _, cc := range r.Perm(100) {
					if nlMod97(d, cc/10, cc%10) {
						return str(d) + "B" + str([]int{cc / 10, cc % 10})
					}
				}
			}
		},
		Boundary: func(r *rand.Rand) string {
			d := digitsN(r, 9)
			force(r, nlW, d[:8], 11, []int{10, 10, 0, 1}[r.Intn(4)])
			d[8] = []int{0, 0, 1, r.Intn(10)}[r.Intn(4)]
			return str(d) + "B" + str(digitsN(r, 2))
		}})

	plW := []int{6, 5, 7, 2, 3, 4, 5, 6, 7}
	plBody := func(r *rand.Rand) []int {
		d := digitsN(r, 9)
		d[0] = 1 + r.Intn(9)
		if d[1] == 0 && d[2] == 0 {
			d[1+r.Intn(2)] = 1 + r.Intn(9)
		}
		return d
	}
	rs = append(rs, &regime{CC: "PL", Countries: []string{"PL"},
		Templates: [][]string{cat([]string{dig1, dig, dig1}, rep(dig, 7)), cat([]string{dig1, dig1, dig}, rep(dig, 7))}, Alphabet: dig,
		Valid: func(r *rand.Rand) string {
			for {
				d := plBody(r)
				x := dot(plW, d) % 11
				if x == 10 {
					continue
				}
				return str(d) + str([]int{x})
			}
		},
		Boundary: func(r *rand.Rand) string {
			d := plBody(r)
			force(r, plW[3:], d[3:], 11, (10-dot(plW[:3], d[:3])%11+11)%11) // Σ ≡ 10
			return str(d) + string("01"[r.Intn(2)])
		}})

	ptW := []int{9, 8, 7, 6, 5, 4, 3, 2}
	ptBody := func(r *rand.Rand) []int {
		p := ptPrefixes[r.Intn(len(ptPrefixes))]
		d := digitsN(r, 8)
		for i := range p {
			d[i] = int(p[i] - '0')
		}
		return d
	}
	rs = append(rs, &regime{CC: "PT", Countries: []string{"PT"}, Templates: [][]string{rep(dig, 9)}, Alphabet: dig,
		Valid: func(r *rand.Rand) string {
			d := ptBody(r)
			x := dot(ptW, d) % 11
			c := 0
			if x >= 2 {
				c = 11 - x
			}
			return str(d) + str([]int{c})
		},
		Boundary: func(r *rand.Rand) string {
			d := ptBody(r)
			force(r, ptW[2:], d[2:], 11, ([]int{0, 1, 10}[r.Intn(3)]-dot(ptW[:2], d[:2])%11+22)%11)
			return str(d) + string(pick(r, "0110"+dig))
		}})

	return rs
}

// substitutions of position i of code within the regime's template class (or
// the whole alphabet when the position is outside every template).
func classAt(rg *regime, code string, i int) string {
	n := len([]rune(code))
	for _, t := range rg.Templates {
		if len(t) == n {
			return t[i]
		}
	}
	return rg.Alphabet
}

// allEdits lists every single-character substitution of code inside the
// national alphabet of that position.
func allEdits(rg *regime, code string) []string {
	rs := []rune(code)
	var out []string
	for i := range rs {
		cls := classAt(rg, code, i)
		if len([]rune(cls)) == 1 {
			cls = rg.Alphabet
		}
		for _, c := range cls {
			if c == rs[i] {
				continue
			}
			e := append([]rune{}, rs...)
			e[i] = c
			out = append(out, string(e))
		}
	}
	return out
}

// lengthEdit deletes or inserts one character.
func lengthEdit(r *rand.Rand, rg *regime, code string) string {
	rs := []rune(code)
	if len(rs) > 0 && r.Intn(2) == 0 {
		i := r.Intn(len(rs))
		return string(append(append([]rune{}, rs[:i]...), rs[i+1:]...))
	}
	i := r.Intn(len(rs) + 1)
	c := []rune(pickRune(r, rg.Alphabet))
	return string(append(append(append([]rune{}, rs[:i]...), c...), rs[i:]...))
}

// randomCode: a string over the national alphabet, length of a national
// format ±1, mostly following the position classes.
func randomCode(r *rand.Rand, rg *regime) string {
	t := rg.Templates[r.Intn(len(rg.Templates))]
	s := fromTemplate(r, t)
	switch r.Intn(10) {
	case 0, 1:
		s = lengthEdit(r, rg, s)
	case 2:
		rs := []rune(s)
		rs[r.Intn(len(rs))] = []rune(pickRune(r, rg.Alphabet))[0]
		s = string(rs)
	case 3:
		rs := []rune(s)
		rs[r.Intn(len(rs))] = []rune(pickRune(r, aln))[0]
		s = string(rs)
	case 4:
		// outside the generic alphabet: lower case, separators, non-ASCII (the `^[A-Z0-9]+$` gate)
		if r.Intn(3) > 0 {
			rs := []rune(s)
			i := r.Intn(len(rs) + 1)
			c := []rune(pickRune(r, "abcxyz -./_&ñÑé٣"))
			s = string(append(append(append([]rune{}, rs[:i]...), c...), rs[i:]...))
		} else {
			s = strings.ToLower(s)
		}
	}
	return s
}

var separators = []string{" ", ".", "-", "/", "  ", "_", ",", "\t"}

// variant formats a clean code: separators, lower case, optionally one
// leading prefix and (CH) a suffix.
func variant(r *rand.Rand, code, prefix, suffix string) string {
	rs := []rune(code)
	var sb strings.Builder
	if prefix != "" {
		if r.Intn(2) == 0 {
			prefix = strings.ToLower(prefix)
		}
		sb.WriteString(prefix)
		if r.Intn(2) == 0 {
			sb.WriteString(separators[r.Intn(len(separators))])
		}
	}
	lower := r.Intn(3) == 0
	for i, c := range rs {
		if i > 0 && r.Intn(3) == 0 {
			sb.WriteString(separators[r.Intn(len(separators))])
		}
		s := string(c)
		if lower || r.Intn(6) == 0 {
			s = strings.ToLower(s)
		}
		sb.WriteString(s)
	}
	if suffix != "" {
		if r.Intn(2) == 0 {
			sb.WriteString(" ")
		}
		if r.Intn(3) == 0 {
			suffix = strings.ToLower(suffix)
		}
		sb.WriteString(suffix)
	}
	if r.Intn(8) == 0 {
		sb.WriteString(" ")
	}
	return sb.String()
}
