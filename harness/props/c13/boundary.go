package c13

// DEGENERATE AND EXTREMAL NUMBER PARTS, control characters computed by the SPEC.
//
// The statement quantifies over ALL candidate codes of the national format:
// "accepted iff national format and the check character agrees with the
// published algorithm".  Random bodies never reach the corners of the number
// space (all zeros, all nines, one position alone non-zero …), which is where a
// validator's special cases live ("the number 0 is never issued", a remainder
// mapped to a letter, a leading zero lost by a conversion to an integer).
//
// For every regime and every format class (position template) the harness
// writes PATTERNS:
//
//	tier 1  the two pure fills — every position at the lowest / the highest
//	        character of its class — and each of them with ONE non-digit
//	        position (series / entity letter, control letter) running through
//	        its whole class;
//	tier 2  each pure fill with ONE digit position running through all ten
//	        digits ("each weight position alone non-zero": the weighted sum then
//	        runs through the remainders w·0 … w·9, special ones included).
//
// The control characters are not computed here: every pattern goes to the Lean
// driver (`c <CC> <pattern>`), which answers with the codes the national
// SPECIFICATION (Spec/C13.lean) accepts among the pattern, the pattern with
// one position replaced by any of [0-9A-Z], and the pattern with two adjacent
// positions replaced by digits — wherever the scheme keeps its control
// characters (first two digits in FR, ninth of twelve in NL, the last one or
// two elsewhere) the completed code is among them.  All completions of tier 1
// are kept on every run, those of tier 2 are sampled; all of them are ordinary
// validation cases (real code against the spec verdict), some of them get all
// their single-character edits and some go through every entry point
// (entries.go).

import (
	"fmt"
	"math/rand"
	"sort"
	"strings"

	"verifharness/internal/core"
)

type bpattern struct {
	rg   *regime
	s    string
	tier int
}

func isDigitClass(cls string) bool {
	for _, c := range cls {
		if c < '0' || c > '9' {
			return false
		}
	}
	return true
}

func minmax(cls string) (lo, hi rune) {
	rs := []rune(cls)
	lo, hi = rs[0], rs[0]
	for _, c := range rs {
		if c < lo {
			lo = c
		}
		if c > hi {
			hi = c
		}
	}
	return
}

func boundaryPatterns(rg *regime) []bpattern {
	var out []bpattern
	seen := map[string]bool{}
	add := func(rs []rune, tier int) {
		s := string(rs)
		if !seen[s] {
			seen[s] = true
			out = append(out, bpattern{rg, s, tier})
		}
	}
	for _, t := range rg.Templates {
		lo := make([]rune, len(t))
		hi := make([]rune, len(t))
		for i, cls := range t {
			lo[i], hi[i] = minmax(cls)
		}
		for _, fill := range [][]rune{lo, hi} {
			add(fill, 1)
			for i, cls := range t {
				if len([]rune(cls)) < 2 {
					continue
				}
				tier := 1
				if isDigitClass(cls) {
					tier = 2
				}
				for _, c := range cls {
					p := append([]rune{}, fill...)
					p[i] = c
					add(p, tier)
				}
			}
		}
	}
	return out
}

type bcode struct {
	CC   string
	Code string
	Tier int
}

func parseHexList(s string) []string {
	if s == "." || s == "" {
		return nil
	}
	var out []string
	for _, h := range strings.Split(s, ",") {
		out = append(out, unhex(h))
	}
	return out
}

// boundaryCodes asks the specification for the completions of every pattern.
// Returned per regime: the patterns themselves (most of them are not valid:
// they are validation cases too) and the completed codes.
func boundaryCodes(c *core.Ctx, r *rand.Rand, rgs []*regime) (patterns map[string][]string, codes map[string][]bcode, err error) {
	var pats []bpattern
	for _, rg := range rgs {
		pats = append(pats, boundaryPatterns(rg)...)
	}
	reqs := make([]string, len(pats))
	for i, p := range pats {
		reqs[i] = fmt.Sprintf("c %s %s", p.rg.CC, core.Hex(p.s))
	}
	resp, err := modelChunks(c, reqs, 12)
	if err != nil {
		return nil, nil, err
	}
	patterns = map[string][]string{}
	codes = map[string][]bcode{}
	pairs1 := map[string][]string{}
	tier2 := map[string][]string{}
	seen := map[string]bool{}
	for i, p := range pats {
		f := strings.Fields(resp[i])
		if len(f) != 4 || f[0] != "ok" {
			return nil, nil, fmt.Errorf("unexpected model response %q to %q", resp[i], reqs[i])
		}
		cc := p.rg.CC
		patterns[cc] = append(patterns[cc], p.s)
		c.Count(fmt.Sprintf("degenerate-patterns:tier%d", p.tier), 1)
		fresh := func(l []string) []string {
			var out []string
			for _, s := range l {
				if !seen[cc+" "+s] {
					seen[cc+" "+s] = true
					out = append(out, s)
				}
			}
			return out
		}
		var self []string
		if f[1] == "1" {
			self = []string{p.s}
		}
		single, pair := fresh(append(self, parseHexList(f[2])...)), fresh(parseHexList(f[3]))
		if p.tier == 1 {
			// the pattern completed at ONE position (where a single control character
			// lives): always, all of them
			for _, s := range single {
				codes[cc] = append(codes[cc], bcode{cc, s, 1})
			}
			pairs1[cc] = append(pairs1[cc], pair...)
		} else {
			tier2[cc] = append(tier2[cc], single...)
			tier2[cc] = append(tier2[cc], pair...)
		}
	}
	// tier 1 completed at two adjacent positions: all of them for the numeric formats
	// (a few hundred), a sample where letter positions multiply the patterns (ES, IN);
	// tier 2: a sample
	budgetP, budget2 := c.Pick(600, 20000), c.Pick(400, 40000)
	ccs := make([]string, 0, len(patterns))
	for cc := range patterns {
		ccs = append(ccs, cc)
	}
	sort.Strings(ccs)
	sample := func(l []string, n int) []string {
		if len(l) <= n {
			return l
		}
		r.Shuffle(len(l), func(i, j int) { l[i], l[j] = l[j], l[i] })
		return l[:n]
	}
	for _, cc := range ccs {
		for _, s := range sample(pairs1[cc], budgetP) {
			codes[cc] = append(codes[cc], bcode{cc, s, 1})
		}
		for _, s := range sample(tier2[cc], budget2) {
			codes[cc] = append(codes[cc], bcode{cc, s, 2})
		}
	}
	return patterns, codes, nil
}

// boundaryCases: the validation cases of the family.
func boundaryCases(c *core.Ctx, r *rand.Rand, rg *regime, patterns []string, codes []bcode) []tcase {
	var out []tcase
	for _, p := range patterns {
		out = append(out, tcase{Kind: "v", CC: rg.CC, Code: p, Stream: "degenerate-pattern"})
	}
	for _, b := range codes {
		stream := "degenerate-spec-completed"
		if b.Tier == 2 {
			stream = "one-position-spec-completed"
		}
		out = append(out, tcase{Kind: "v", CC: rg.CC, Code: b.Code, Stream: stream})
	}
	// every single-character edit of some of them
	if len(codes) > 0 {
		for k := c.Pick(8, 300); k > 0; k-- {
			for _, e := range allEdits(rg, codes[r.Intn(len(codes))].Code) {
				out = append(out, tcase{Kind: "v", CC: rg.CC, Code: e, Stream: "degenerate-edit"})
			}
		}
	}
	return out
}

// modelChunks runs a batch of expensive requests over several driver processes
// (core.Model shards only batches of thousands of requests).
func modelChunks(c *core.Ctx, reqs []string, n int) ([]string, error) {
	out := make([]string, len(reqs))
	per := (len(reqs) + n - 1) / n
	if per == 0 {
		return out, nil
	}
	errs := make(chan error, n+1)
	k := 0
	for lo := 0; lo < len(reqs); lo += per {
		hi := lo + per
		if hi > len(reqs) {
			hi = len(reqs)
		}
		k++
		go func(lo, hi int) {
			resp, err := c.Model(reqs[lo:hi])
			if err == nil {
				copy(out[lo:hi], resp)
			}
			errs <- err
		}(lo, hi)
	}
	var first error
	for ; k > 0; k-- {
		if err := <-errs; err != nil && first == nil {
			first = err
		}
	}
	return out, first
}
