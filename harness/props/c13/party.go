package c13

// The identity INSIDE a party.
//
// C13 is observed at "validating a party tax_id; code after normalisation"
// (properties.jsonl, observe_at), and its mechanism names org/party.go: a tax
// identity is normalised and judged by the regime of ITS OWN country wherever
// it stands.  The standalone streams of c13.go never put the identity anywhere,
// so the relation checked here is
//
//	for every identity (country, code) and every party `$regime` X in
//	{absent, the identity's own country, every other registered regime and
//	 every other code a regime is registered under}:
//	  the identity of a party document {$regime: X, tax_id}, of the supplier
//	  and of the customer of an invoice whose parties carry $regime X,
//	  after the document's own Calculate, is EXACTLY what
//	  tax.Identity.Normalize makes of the identity on its own — same country,
//	  same code — and is accepted / rejected exactly as that one is;
//	  whether party validation reports an error under `tax_id` does not
//	  depend on X.
//
// Identities: for every regime of the generator (gen.go) clean valid codes, the
// formatted variants of the normalisation streams (separators, lower case,
// country prefixes, CH suffixes) and a few invalid codes.

import (
	"fmt"
	"math/rand"
	"sort"

	"github.com/invopop/gobl/bill"
	"github.com/invopop/gobl/cal"
	"github.com/invopop/gobl/cbc"
	"github.com/invopop/gobl/l10n"
	"github.com/invopop/gobl/num"
	"github.com/invopop/gobl/org"
	"github.com/invopop/gobl/tax"
	"github.com/invopop/validation"

	"verifharness/internal/core"
)

// partyRegimes: "" (absent) and every code the registry answers to.
func partyRegimes() []string {
	out := []string{""}
	for _, rd := range tax.AllRegimeDefs() {
		out = append(out, string(rd.Country))
		for _, a := range rd.AltCountryCodes {
			out = append(out, string(a))
		}
	}
	sort.Strings(out[1:])
	return out
}

// partyCases picks identities from the cases already generated for a regime
// and crosses them with every party regime.
func partyCases(r *rand.Rand, cases []tcase, perRegime int) []tcase {
	xs := partyRegimes()
	byCC := map[string][]tcase{}
	var order []string
	for _, t := range cases {
		if _, ok := byCC[t.CC]; !ok {
			order = append(order, t.CC)
		}
		byCC[t.CC] = append(byCC[t.CC], t)
	}
	var out []tcase
	for _, cc := range order {
		ts := byCC[cc]
		var norm, valid, other []tcase
		for _, t := range ts {
			switch {
			case t.Kind == "n":
				norm = append(norm, t)
			case t.Kind == "v" && t.Stream == "spec-valid":
				valid = append(valid, t)
			case t.Kind == "v":
				other = append(other, t)
			}
		}
		var chosen []tcase
		take := func(from []tcase, n int) {
			for k := 0; k < n && len(from) > 0; k++ {
				chosen = append(chosen, from[r.Intn(len(from))])
			}
		}
		take(norm, perRegime*6/10)
		take(valid, perRegime*3/10)
		take(other, perRegime-perRegime*6/10-perRegime*3/10)
		// every stream of formatted variants at least once
		seen := map[string]bool{}
		for _, t := range chosen {
			seen[t.Stream] = true
		}
		for _, t := range norm {
			if !seen[t.Stream] {
				seen[t.Stream] = true
				chosen = append(chosen, t)
			}
		}
		for _, t := range chosen {
			country := t.Country
			if t.Kind == "v" {
				country = t.CC
			}
			for _, x := range xs {
				out = append(out, tcase{Kind: "p", CC: t.CC, Country: country, Code: t.Code, Stream: "party:" + t.Stream, PartyRegime: x})
			}
		}
	}
	return out
}

type idOut struct {
	Country, Code string
	Accepted      bool   // tax.Identity.Validate of the identity as it stands
	Err           string // its error text
}

type pres struct {
	Alone                 idOut // tax.Identity.Normalize on the identity by itself
	Party                 idOut // party document
	Supplier, Customer    idOut // invoice
	PartyTaxIDErr         bool  // party validation reports something under tax_id, with $regime X
	PartyTaxIDErrNoRegime bool  // … and without any $regime
	InvoiceErr            string
	Pan                   string
}

func readID(id *tax.Identity) idOut {
	if id == nil {
		return idOut{Err: "identity removed"}
	}
	o := idOut{Country: string(id.Country), Code: string(id.Code)}
	if err := id.Validate(); err != nil {
		o.Err = err.Error()
	} else {
		o.Accepted = true
	}
	return o
}

func mkParty(t tcase, x string) *org.Party {
	p := &org.Party{Name: "x", TaxID: &tax.Identity{Country: l10n.TaxCountryCode(t.Country), Code: cbc.Code(t.Code)}}
	if x != "" {
		p.Regime = tax.WithRegime(l10n.TaxCountryCode(x))
	}
	return p
}

func taxIDErr(err error) bool {
	if err == nil {
		return false
	}
	if es, ok := err.(validation.Errors); ok {
		return es["tax_id"] != nil
	}
	return false
}

func goParty(t tcase) pres {
	var o pres
	o.Pan = core.Protect(func() {
		id := &tax.Identity{Country: l10n.TaxCountryCode(t.Country), Code: cbc.Code(t.Code)}
		id.Normalize()
		o.Alone = readID(id)

		p := mkParty(t, t.PartyRegime)
		_ = p.Calculate()
		o.Party = readID(p.TaxID)
		o.PartyTaxIDErr = taxIDErr(p.Validate())
		p0 := mkParty(t, "")
		_ = p0.Calculate()
		o.PartyTaxIDErrNoRegime = taxIDErr(p0.Validate())

		price := num.MakeAmount(10000, 2)
		inv := &bill.Invoice{
			Code:      "C13-P",
			Currency:  "EUR",
			IssueDate: cal.MakeDate(2024, 3, 15),
			Supplier:  mkParty(t, t.PartyRegime),
			Customer:  mkParty(t, t.PartyRegime),
			Lines:     []*bill.Line{{Quantity: num.MakeAmount(1, 0), Item: &org.Item{Name: "thing", Price: &price}}},
		}
		if err := inv.Calculate(); err != nil {
			o.InvoiceErr = err.Error()
		}
		o.Supplier = readID(inv.Supplier.TaxID)
		o.Customer = readID(inv.Customer.TaxID)
	})
	return o
}

func judgeParty(c *core.Ctx, t tcase, o pres) {
	c.Count("regime:"+t.CC, 1)
	c.Count("stream:"+t.Stream, 1)
	kind := "other-regime"
	switch {
	case t.PartyRegime == "":
		kind = "absent"
	case t.PartyRegime == t.Country:
		kind = "identity's own country"
	default:
		a, b := tax.RegimeDefFor(l10n.Code(t.PartyRegime)), tax.RegimeDefFor(l10n.Code(t.Country))
		if a != nil && a == b {
			kind = "another code of the identity's regime"
		}
	}
	c.Count("party-$regime:"+kind, 1)
	detail := map[string]any{"case": t, "go": o}
	if o.Pan != "" {
		c.Fail("", fmt.Sprintf("identity %s %q in a party with $regime %q: panicked: %s", t.Country, t.Code, t.PartyRegime, o.Pan), detail)
		return
	}
	c.Eval("p "+t.Country+" "+t.Code+" "+t.PartyRegime, o.Alone.Code != t.Code || o.Alone.Country != t.Country)
	if o.Alone.Accepted {
		c.Count("party:identity accepted on its own", 1)
	} else {
		c.Count("party:identity rejected on its own", 1)
	}
	for _, w := range []struct {
		where string
		got   idOut
	}{{"a party document", o.Party}, {"the supplier of an invoice", o.Supplier}, {"the customer of an invoice", o.Customer}} {
		c.Count("party:identities-compared", 1)
		if w.got.Country != o.Alone.Country || w.got.Code != o.Alone.Code {
			c.Count("law-failed:party-normalisation", 1)
			verdict := ""
			if w.got.Accepted != o.Alone.Accepted {
				verdict = fmt.Sprintf("; on its own the identity is %s, in the party it is %s (%s)", accd(o.Alone.Accepted), accd(w.got.Accepted), w.got.Err)
			}
			c.Fail("", fmt.Sprintf("tax identity %s %q as the tax_id of %s whose party has $regime %q (%s) is normalised to %s %q, on its own it is normalised to %s %q%s",
				t.Country, t.Code, w.where, t.PartyRegime, kind, w.got.Country, w.got.Code, o.Alone.Country, o.Alone.Code, verdict), detail)
			return
		}
		if w.got.Accepted != o.Alone.Accepted {
			c.Count("law-failed:party-verdict", 1)
			c.Fail("", fmt.Sprintf("tax identity %s %q as the tax_id of %s whose party has $regime %q (%s): on its own it is %s, in the party it is %s (%s)",
				t.Country, t.Code, w.where, t.PartyRegime, kind, accd(o.Alone.Accepted), accd(w.got.Accepted), w.got.Err), detail)
			return
		}
	}
	if o.PartyTaxIDErr != o.PartyTaxIDErrNoRegime {
		c.Count("law-failed:party-validation-depends-on-$regime", 1)
		c.Fail("", fmt.Sprintf("tax identity %s %q: validation of the party reports an error under tax_id = %v with $regime %q (%s) but %v without a $regime",
			t.Country, t.Code, o.PartyTaxIDErr, t.PartyRegime, kind, o.PartyTaxIDErrNoRegime), detail)
		return
	}
	if o.PartyTaxIDErrNoRegime == o.Alone.Accepted {
		// the party reports an error under tax_id exactly when the identity is rejected
		c.Count("law-failed:party-validation-vs-identity", 1)
		c.Fail("", fmt.Sprintf("tax identity %s %q: normalised on its own it is %s, party validation (no $regime) reports an error under tax_id = %v",
			t.Country, t.Code, accd(o.Alone.Accepted), o.PartyTaxIDErrNoRegime), detail)
	}
}

func accd(b bool) string {
	if b {
		return "accepted"
	}
	return "rejected"
}
