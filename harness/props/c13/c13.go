// Package c13 ties the Lean models of the tax-identity validators and
// normalisers (Model/TaxId.lean, Model/Normalize.lean) and the national
// check-digit specifications (Spec/C13.lean) to the real GOBL code:
// tax.Identity.Validate, org.Party validation (tax_id) and
// tax.Identity.Normalize, per regime.
package c13

import (
	"fmt"
	"math/rand"
	"strings"
	"unicode/utf8"

	_ "github.com/invopop/gobl" // registers the regimes
	"github.com/invopop/gobl/cbc"
	"github.com/invopop/gobl/l10n"
	"github.com/invopop/gobl/org"
	"github.com/invopop/gobl/tax"

	"verifharness/internal/core"
)

// tcase is one generated case (also the replay format).
type tcase struct {
	Kind    string // "v" validation, "n" normalisation, "p" the identity inside a party (party.go), "e" every entry point (entries.go)
	CC      string // regime
	Country string // identity country (normalisation)
	Code    string
	Base    string // n: the clean code this is a formatted variant of ("" = none)
	Stream  string
	// p: the `$regime` of the party that carries the identity ("" = absent)
	PartyRegime string `json:",omitempty"`
	// i (relations.go): what the same object says after the edit, what it went through before, how it was edited
	Country2 string `json:",omitempty"`
	Code2    string `json:",omitempty"`
	Op       string `json:",omitempty"`
	How      string `json:",omitempty"`
}

// ---- the real code ---------------------------------------------------------

func goValidate(cc, code string) (idErr, partyErr string, panicked string) {
	panicked = core.Protect(func() {
		id := &tax.Identity{Country: l10n.TaxCountryCode(cc), Code: cbc.Code(code)}
		if err := id.Validate(); err != nil {
			idErr = err.Error()
		}
		// the national rule belongs to the country, not to the tax scheme named on the identity:
		// the same code under another scheme gets the same verdict
		for _, sch := range []cbc.Code{"VAT", "GST", "IGIC"} {
			ids := &tax.Identity{Country: l10n.TaxCountryCode(cc), Code: cbc.Code(code), Scheme: sch}
			e2 := ""
			if err := ids.Validate(); err != nil {
				e2 = err.Error()
			}
			if (e2 == "") != (idErr == "") {
				panic(fmt.Sprintf("scheme-dependent verdict: without scheme %q, with scheme %s %q", idErr, sch, e2))
			}
		}
		p := &org.Party{Name: "x", TaxID: &tax.Identity{Country: l10n.TaxCountryCode(cc), Code: cbc.Code(code)}}
		if err := p.Validate(); err != nil {
			partyErr = err.Error()
		}
	})
	return
}

func goNormalize(country, code string) (c2, code2 string, panicked string) {
	panicked = core.Protect(func() {
		id := &tax.Identity{Country: l10n.TaxCountryCode(country), Code: cbc.Code(code)}
		id.Normalize()
		c2, code2 = string(id.Country), string(id.Code)
	})
	return
}

// errKind maps a validation error text to a small enum for the distribution.
func errKind(e string) string {
	switch {
	case e == "":
		return "accepted"
	case strings.Contains(e, "must be in a valid format"):
		return "gate"
	case strings.Contains(e, "format") || strings.Contains(e, "length") || strings.Contains(e, "unknown type") ||
		strings.Contains(e, "too long") || strings.Contains(e, "too short") || strings.Contains(e, "invalid characters") ||
		strings.Contains(e, "prefix") || strings.Contains(e, "digits") || strings.Contains(e, "invalid tax identity code") ||
		strings.Contains(e, "company code") || strings.Contains(e, "15-digit"):
		return "format"
	default:
		return "check"
	}
}

// ---- helpers of the generator ----------------------------------------------

func cleanASCII(s string) string {
	s = strings.ToUpper(s)
	var sb strings.Builder
	for _, c := range s {
		if (c >= 'A' && c <= 'Z') || (c >= '0' && c <= '9') {
			sb.WriteRune(c)
		}
	}
	return sb.String()
}

// prefixSet: the country prefixes of an identity: its country, the country the
// regime's normaliser rewrites it to (EL, IN), and the regime's alternative codes.
func prefixSet(rg *regime, country string) []string {
	set := []string{country}
	if rg.Rewrites {
		set = append(set, rg.CC)
	}
	set = append(set, rg.Alts...)
	return set
}

// ---- run ------------------------------------------------------------------------

// Run is the C13 correspondence and oracle run.
func Run(c *core.Ctx) int {
	rgs := regimes()
	byCC := map[string]*regime{}
	for _, rg := range rgs {
		byCC[rg.CC] = rg
	}
	var rc tcase
	if c.ReplayCase(&rc) {
		return runCases(c, byCC, []tcase{rc})
	}
	r := c.Rng
	n := c.Pick(3000, 300000)
	var cases []tcase
	valids := map[string][]string{}
	for _, rg := range rgs {
		cs, vs := genRegime(r, rg, n)
		cases = append(cases, cs...)
		valids[rg.CC] = vs
	}
	cases = append(cases, partyCases(r, cases, c.Pick(20, 400))...)
	// degenerate and extremal number parts, completed by the specification (boundary.go),
	// and every entry point on every spelling (entries.go)
	patterns, degenerate, err := boundaryCodes(c, r, rgs)
	if err != nil {
		c.TieBroken("drive:C13/model", err.Error(), nil)
		return c.Finish("", nil)
	}
	for _, rg := range rgs {
		cases = append(cases, boundaryCases(c, r, rg, patterns[rg.CC], degenerate[rg.CC])...)
		cases = append(cases, entryCases(c, r, rg, valids[rg.CC], degenerate[rg.CC])...)
		cases = append(cases, completedCases(c, rg, valids[rg.CC])...)
	}
	cases = append(cases, inplaceCases(c, r, rgs, valids)...)
	return runCases(c, byCC, cases)
}

func genRegime(r *rand.Rand, rg *regime, n int) ([]tcase, []string) {
	var cases []tcase
	v := func(code, stream string) {
		cases = append(cases, tcase{Kind: "v", CC: rg.CC, Code: code, Stream: stream})
	}
	v("", "empty")
	// (1) codes valid by the published rule
	nValid := n * 15 / 100
	valids := make([]string, 0, nValid)
	for i := 0; i < nValid; i++ {
		s := rg.Valid(r)
		valids = append(valids, s)
		v(s, "spec-valid")
	}
	// (2) all single-character substitutions of some of them, and ±1 length edits
	nEdits := n * 45 / 100
	for made := 0; made < nEdits; {
		s := valids[r.Intn(len(valids))]
		es := allEdits(rg, s)
		for _, e := range es {
			v(e, "edit-substitute")
		}
		made += len(es)
		for k := 0; k < 4; k++ {
			v(lengthEdit(r, rg, s), "edit-length")
			made++
		}
	}
	// (3) random strings over the national alphabet, length ±1
	for i := 0; i < n*20/100; i++ {
		v(randomCode(r, rg), "random")
	}
	// (4) special remainders
	if rg.Boundary != nil {
		for i := 0; i < n*8/100; i++ {
			v(rg.Boundary(r), "boundary")
		}
	}
	// (5) normalisation: formatted variants of valid and random codes
	nn := n * 12 / 100
	for i := 0; i < nn; i++ {
		base := valids[r.Intn(len(valids))]
		stream := "variant-valid"
		if r.Intn(4) == 0 {
			base = randomCode(r, rg)
			stream = "variant-random"
		}
		if rg.CC != "MX" {
			base = cleanASCII(base)
		}
		country := rg.Countries[r.Intn(len(rg.Countries))]
		prefix, suffix := "", ""
		if !rg.NoPrefix {
			switch r.Intn(12) {
			case 0, 1, 2, 3, 4:
				prefix = country
			case 5:
				set := prefixSet(rg, country)
				prefix = set[r.Intn(len(set))]
			case 6: // doubled prefix
				set := prefixSet(rg, country)
				prefix = set[r.Intn(len(set))] + set[r.Intn(len(set))]
				stream = "variant-doubled-prefix"
			}
		}
		if len(rg.Suffixes) > 0 {
			switch r.Intn(6) {
			case 0, 1, 2:
				suffix = rg.Suffixes[r.Intn(len(rg.Suffixes))]
			case 3:
				suffix = rg.Suffixes[r.Intn(len(rg.Suffixes))] + rg.Suffixes[r.Intn(len(rg.Suffixes))]
				stream = "variant-doubled-suffix"
			}
		}
		cases = append(cases, tcase{Kind: "n", CC: rg.CC, Country: country, Code: variant(r, base, prefix, suffix), Base: base, Stream: stream})
		if i%16 == 0 {
			// the clean code itself and a raw random text
			cases = append(cases, tcase{Kind: "n", CC: rg.CC, Country: country, Code: base, Base: base, Stream: "variant-identity"})
			cases = append(cases, tcase{Kind: "n", CC: rg.CC, Country: country, Code: variant(r, randomCode(r, rg), "", ""), Stream: "variant-raw"})
		}
	}
	// (6) prefix grid, complete on every run: each country routed to the regime × every
	// sequence of at most two prefixes of the identity (its country, the country the
	// normaliser rewrites it to, the alternative codes), written plainly in front of one
	// valid code.  A normaliser that learns one of these prefixes only on its second pass
	// (GR before the library fix: `EL…` under country `GR`) fails here whatever the seed.
	if !rg.NoPrefix {
		base := cleanASCII(valids[0])
		for _, country := range rg.Countries {
			set := append([]string{""}, prefixSet(rg, country)...)
			for _, p1 := range set {
				for _, p2 := range set {
					if p1 == "" && p2 != "" {
						continue
					}
					cases = append(cases, tcase{Kind: "n", CC: rg.CC, Country: country, Code: p1 + p2 + base, Base: base, Stream: "variant-prefix-grid"})
				}
			}
		}
	}
	return cases, valids
}

type nres struct {
	c1, code1 string // first normalisation
	c2, code2 string // second normalisation
	bc, bcode string // normalisation of the base
	pan       string
}

func runCases(c *core.Ctx, byCC map[string]*regime, cases []tcase) int {
	// 1. real code
	type vres struct{ idErr, partyErr, pan string }
	vr := make([]vres, len(cases))
	nr := make([]nres, len(cases))
	pr := make([]pres, len(cases))
	er := make([]*eres, len(cases)) // only the "e" cases have one
	reqs := make([]string, len(cases))
	for i, t := range cases {
		if !utf8.ValidString(t.Code) {
			reqs[i] = "skip"
			continue
		}
		switch t.Kind {
		case "v":
			a, b, p := goValidate(t.CC, t.Code)
			vr[i] = vres{a, b, p}
			reqs[i] = fmt.Sprintf("v %s %s", t.CC, core.Hex(t.Code))
		case "n":
			var x nres
			x.c1, x.code1, x.pan = goNormalize(t.Country, t.Code)
			if x.pan == "" {
				x.c2, x.code2, x.pan = goNormalize(x.c1, x.code1)
			}
			if x.pan == "" && t.Base != "" {
				x.bc, x.bcode, x.pan = goNormalize(t.Country, t.Base)
			}
			nr[i] = x
			reqs[i] = fmt.Sprintf("n %s %s %s %s", t.CC, core.Hex(t.Country), core.Hex(t.Code), core.Hex(x.code1))
		case "p":
			pr[i] = goParty(t)
			reqs[i] = "skip"
		case "e":
			o := goEntries(t)
			er[i] = &o
			reqs[i] = entryReq(t, o)
		default:
			reqs[i] = "skip"
		}
	}
	// 2. model and specification
	resp, err := c.Model(reqs)
	if err != nil {
		c.TieBroken("drive:C13/model", err.Error(), nil)
		return c.Finish("", nil)
	}
	// 3. judge
	mxNonAlnum := 0
	for i, t := range cases {
		rg := byCC[t.CC]
		if t.Kind == "c" && utf8.ValidString(t.Code) {
			judgeCompleted(c, t)
			continue
		}
		if t.Kind == "i" && utf8.ValidString(t.Code) && utf8.ValidString(t.Code2) {
			judgeInPlace(c, t)
			continue
		}
		if t.Kind == "p" && utf8.ValidString(t.Code) {
			judgeParty(c, t, pr[i])
			continue
		}
		if t.Kind == "e" && rg != nil && er[i] != nil && (reqs[i] != "skip" || er[i].Pan != "") {
			judgeEntries(c, t, *er[i], resp[i])
			continue
		}
		if rg == nil || reqs[i] == "skip" {
			c.Count("skipped", 1)
			continue
		}
		c.Count("regime:"+t.CC, 1)
		c.Count("stream:"+t.Stream, 1)
		f := strings.Fields(resp[i])
		switch t.Kind {
		case "v":
			x := vr[i]
			if strings.HasPrefix(x.pan, "scheme-dependent") {
				c.Fail("", fmt.Sprintf("%s %q: %s", t.CC, t.Code, x.pan), t)
				continue
			}
			if x.pan != "" {
				c.Fail("", fmt.Sprintf("validation of %s %q panicked: %s", t.CC, t.Code, x.pan), t)
				continue
			}
			if len(f) != 4 || f[0] != "ok" {
				c.TieBroken("drive:C13/protocol", "unexpected model response "+resp[i], t)
				continue
			}
			goOK := x.idErr == ""
			model, spec, format := f[1] == "1", f[2] == "1", f[3] == "1"
			c.Count("go:"+errKind(x.idErr), 1)
			if t.CC == "MX" && goOK && t.Code != "" && cleanASCII(t.Code) != t.Code {
				// triage of the known observation "MX RFC allows & and Ñ": the national RFC format
				// does contain them, so this is not a C13 failure; it is counted for the evidence
				c.Count("mx:accepted_with_&_or_Ñ", 1)
				mxNonAlnum++
			}
			c.Count(fmt.Sprintf("%s:go=%v,spec=%v", t.CC, goOK, spec), 1)
			c.Eval(t.CC+" "+t.Code, format)
			if i%9973 == 0 {
				c.Sample(map[string]any{"regime": t.CC, "code": t.Code, "stream": t.Stream, "go_error": x.idErr, "model_accepts": model, "spec_accepts": spec})
			}
			if (x.idErr == "") != (x.partyErr == "") {
				c.Fail("", fmt.Sprintf("%s %q: tax.Identity.Validate says %q but org.Party validation says %q", t.CC, t.Code, x.idErr, x.partyErr), t)
				continue
			}
			if goOK != spec {
				// no known finding is left on the validation side: every disagreement with the
				// national rule (NL remainder 10 included, fixed in the library) is a violation
				what := fmt.Sprintf("%s code %q: Go validation %s (%s) but the national rule says %s (format %v; model %v)",
					t.CC, t.Code, acc(goOK), x.idErr, acc(spec), format, model)
				c.Fail("", what, map[string]any{"case": t, "go_error": x.idErr, "spec_accepts": spec, "model_accepts": model})
				continue
			}
			if goOK != model {
				c.TieBroken("drive:C13/validate/"+t.CC, fmt.Sprintf("model %v vs Go %v (%s) on %q", model, goOK, x.idErr, t.Code), t)
			}
		case "n":
			x := nr[i]
			if x.pan != "" {
				c.Fail("", fmt.Sprintf("normalisation of %s %q panicked: %s", t.Country, t.Code, x.pan), t)
				continue
			}
			undef := resp[i] == "undef"
			if !undef && (len(f) != 4 || f[0] != "ok") {
				c.TieBroken("drive:C13/protocol", "unexpected model response "+resp[i], t)
				continue
			}
			c.Eval("n "+t.Country+" "+t.Code, x.code1 != t.Code)
			if i%9973 == 0 {
				c.Sample(map[string]any{"regime": t.CC, "country": t.Country, "code": t.Code, "stream": t.Stream, "normalized": x.code1, "country_out": x.c1})
			}
			// no known finding is left on the normalisation side: doubled country prefixes,
			// doubled CH suffixes and `EL…` under country `GR` (the prefix of the country the
			// GR normaliser rewrites the identity to) are fixed in the library; each of them
			// is a violation if it returns
			detail := map[string]any{"case": t, "first": x.code1, "second": x.code2, "base_normalized": x.bcode}
			// idempotent
			if x.code1 != x.code2 || x.c1 != x.c2 {
				c.Count("law-failed:idempotent", 1)
				c.Fail("", fmt.Sprintf("normalisation of %s %q is not idempotent: %q then %q", t.Country, t.Code, x.code1, x.code2), detail)
				continue
			}
			// insensitive to separators, case and leading country prefixes
			if t.Base != "" && (x.code1 != x.bcode || x.c1 != x.bc) {
				c.Count("law-failed:insensitive", 1)
				c.Fail("", fmt.Sprintf("normalisation of %s %q gives %q but its clean form %q gives %q", t.Country, t.Code, x.code1, t.Base, x.bcode), detail)
				continue
			}
			if undef {
				c.Count("skipped_outside_model", 1)
				continue
			}
			// identifying digits kept (oracle evaluated by the Lean driver on Go's output)
			if f[3] != "1" {
				c.Count("law-failed:digits", 1)
				c.Fail("", fmt.Sprintf("normalisation of %s %q alters the digits: %q", t.Country, t.Code, x.code1), detail)
				continue
			}
			mc, mcode := unhex(f[1]), unhex(f[2])
			if mc != x.c1 || mcode != x.code1 {
				c.TieBroken("drive:C13/normalize/"+t.CC, fmt.Sprintf("model (%q,%q) vs Go (%q,%q) on %s %q", mc, mcode, x.c1, x.code1, t.Country, t.Code), t)
			}
		}
	}
	if mxNonAlnum > 0 {
		c.Note("MX: %d accepted RFCs contain `&` or `Ñ` (validation skips the generic `^[A-Z0-9]+$` gate for MX). The national RFC format allows these characters, so the C13 statement holds for them; the published JSON-schema pattern of tax.Identity.code admits them too (IdentityCodeSchemaPattern, checked by C11).", mxNonAlnum)
	}
	return c.Finish("per regime: codes valid by the published rule (check digits computed independently in the harness), every single-character substitution of such codes inside the positional alphabet plus length edits, random strings over the national alphabet with length of a national format +-1, special-remainder codes, and formatted variants (separators, lower case, country prefix, CH suffix) for the normalisation laws; the same identities as the tax_id of a party document and of the supplier and customer of an invoice, for every party $regime (absent, own, every other registered code), compared with the identity normalised and validated on its own (party.go); degenerate and extremal number parts per format class (all positions lowest/highest, one position running through its class) with the control characters found by the specification among all one-position and adjacent two-digit completions, plus their single-character edits (boundary.go); every entry point (Identity.Normalize+Validate, tax.ParseIdentity, the regime validator, party Calculate/Normalize+Validate, envelope, supplier and customer of an invoice) on a complete spelling grid (compact/spaced/dotted/dashed/lower x no/one/two prefixes x national suffixes x routed countries), on truncated codes and on the degenerate codes, each held to the specification verdict on the normal form and to the same normal form (entries.go); non-trivial = validation case in the national format (check-digit logic reached) or normalisation case that changes the text; distinct by regime+code",
		nil)
}

func acc(b bool) string {
	if b {
		return "accepts"
	}
	return "rejects"
}

func unhex(h string) string {
	if h == "-" {
		return ""
	}
	var b []byte
	for i := 0; i+1 < len(h); i += 2 {
		var x byte
		fmt.Sscanf(h[i:i+2], "%02x", &x)
		b = append(b, x)
	}
	return string(b)
}
