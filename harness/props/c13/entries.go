package c13

// ENTRY-POINT AGREEMENT: acceptance is a function of the normal form.
//
// The statement says a code "is accepted by validation iff it has the national
// format and its check character agrees", and that normalisation is
// insensitive to separators, letter case and a leading country prefix.  Both
// are statements about the identity, not about the function the caller happened
// to use: every public way of turning a text into a validated identity must
//
//	(a) accept it exactly when the national rule accepts its normal form, and
//	(b) hand back the same normal form,
//
// for every spelling of the identity.  The entries exercised on each text are
//
//	alone      tax.Identity{country, text}.Normalize(); .Validate()
//	parse      tax.ParseIdentity(country + text)
//	regime     Identity.Regime().ValidateObject(normalised identity)
//	party      org.Party{tax_id}.Calculate(); .Validate()   (error under tax_id)
//	party-norm org.Party{tax_id}.Normalize(nil); .Validate()
//	envelope   gobl.Envelop(party); Envelope.Validate()  (a whole document)
//	invoice    bill.Invoice{supplier, customer}.Calculate(); .Validate()
//	           (error under supplier.tax_id / customer.tax_id)
//
// and the verdict they are held to is the specification's (Lean driver, `v`) on
// the normal form.  Texts: a complete SPELLING GRID over a few valid codes per
// regime — {compact, groups separated by space / dot / dash, lower case, random
// separators and case} × {no prefix, every prefix of the identity, every pair
// of them} × {no suffix, every national suffix (CH)} × every country routed to
// the regime — the truncations of valid codes (1–3 characters dropped at either
// end: national short forms such as the French SIREN are among them), and the
// spec-completed degenerate codes of boundary.go.

import (
	"fmt"
	"math/rand"
	"strings"
	"unicode/utf8"

	"github.com/invopop/gobl"
	"github.com/invopop/gobl/bill"
	"github.com/invopop/gobl/cal"
	"github.com/invopop/gobl/cbc"
	"github.com/invopop/gobl/l10n"
	"github.com/invopop/gobl/num"
	"github.com/invopop/gobl/org"
	"github.com/invopop/gobl/tax"
	"github.com/invopop/validation"

	"verifharness/internal/core"
)

// ---- spellings -------------------------------------------------------------

func grouped(code, sep string, lower bool) string {
	rs := []rune(code)
	var sb strings.Builder
	for i, c := range rs {
		if i > 0 && i%3 == 0 {
			sb.WriteString(sep)
		}
		sb.WriteRune(c)
	}
	s := sb.String()
	if lower {
		s = strings.ToLower(s)
	}
	return s
}

// spellings of one clean code under one identity country.
func spellings(r *rand.Rand, rg *regime, country, base string) []tcase {
	var out []tcase
	prefixes := []string{""}
	if !rg.NoPrefix {
		set := prefixSet(rg, country)
		prefixes = append(prefixes, set...)
		for _, p1 := range set {
			for _, p2 := range set {
				prefixes = append(prefixes, p1+p2)
			}
		}
	}
	suffixes := append([]string{""}, rg.Suffixes...)
	type style struct {
		name, sep string
		lower     bool
	}
	styles := []style{{"compact", "", false}, {"spaced", " ", false}, {"dotted", ".", false}, {"dashed", "-", false}, {"lower", "", true}}
	for _, st := range styles {
		for _, p := range prefixes {
			for _, sf := range suffixes {
				pp, ss := p, sf
				if st.lower {
					pp, ss = strings.ToLower(p), strings.ToLower(sf)
				}
				text := pp
				if pp != "" {
					text += st.sep
				}
				text += grouped(base, st.sep, st.lower)
				if ss != "" {
					text += st.sep + ss
				}
				stream := "spelling:" + st.name
				switch {
				case len(p) > 2:
					stream += "+doubled-prefix"
				case p != "":
					stream += "+prefix"
				}
				if sf != "" {
					stream += "+suffix"
				}
				out = append(out, tcase{Kind: "e", CC: rg.CC, Country: country, Code: text, Base: base, Stream: stream})
			}
		}
	}
	// random separators and case, as in the normalisation streams
	for k := 0; k < 3; k++ {
		p, sf := prefixes[r.Intn(len(prefixes))], suffixes[r.Intn(len(suffixes))]
		out = append(out, tcase{Kind: "e", CC: rg.CC, Country: country, Code: variant(r, base, p, sf), Base: base, Stream: "spelling:random"})
	}
	return out
}

func truncations(rg *regime, country, code string) []tcase {
	var out []tcase
	rs := []rune(code)
	for k := 1; k <= 3 && k < len(rs); k++ {
		out = append(out, tcase{Kind: "e", CC: rg.CC, Country: country, Code: string(rs[k:]), Stream: "truncated-head"})
		out = append(out, tcase{Kind: "e", CC: rg.CC, Country: country, Code: string(rs[:len(rs)-k]), Stream: "truncated-tail"})
	}
	return out
}

// entryCases: the texts of the family for one regime.  valids: clean codes valid
// by the published rule (gen.go); degenerate: the spec-completed codes of boundary.go.
func entryCases(c *core.Ctx, r *rand.Rand, rg *regime, valids []string, degenerate []bcode) []tcase {
	var out []tcase
	clean := func(s string) string {
		if rg.CC != "MX" {
			return cleanASCII(s)
		}
		return s
	}
	nBases := c.Pick(3, 40)
	for i := 0; i < nBases && i < len(valids); i++ {
		base := clean(valids[i])
		for _, country := range rg.Countries {
			out = append(out, spellings(r, rg, country, base)...)
		}
		out = append(out, truncations(rg, rg.Countries[i%len(rg.Countries)], base)...)
	}
	// truncations of more codes: the short forms a normaliser completes depend on the digits
	for i := nBases; i < nBases+c.Pick(12, 200) && i < len(valids); i++ {
		out = append(out, truncations(rg, rg.Countries[i%len(rg.Countries)], clean(valids[i]))...)
	}
	// degenerate codes through every entry: all of tier 1 up to a budget, a few of tier 2,
	// written compact and in one random spelling
	budget := c.Pick(150, 4000)
	n1 := 0
	for _, b := range degenerate {
		if b.Tier == 1 {
			n1++
		}
	}
	for _, b := range degenerate {
		keep := false
		if b.Tier == 1 {
			keep = n1 <= budget || r.Intn(n1) < budget
		} else {
			keep = r.Intn(20) == 0
		}
		if !keep {
			continue
		}
		country := rg.Countries[r.Intn(len(rg.Countries))]
		out = append(out, tcase{Kind: "e", CC: rg.CC, Country: country, Code: b.Code, Base: b.Code, Stream: "degenerate:compact"})
		if r.Intn(4) == 0 {
			p := ""
			if !rg.NoPrefix && r.Intn(2) == 0 {
				p = country
			}
			out = append(out, tcase{Kind: "e", CC: rg.CC, Country: country, Code: variant(r, b.Code, p, ""), Base: b.Code, Stream: "degenerate:spelled"})
		}
	}
	return out
}

// ---- the real code ---------------------------------------------------------

type entryOut struct {
	Name          string
	Call          string // the call as written, where the text is an argument
	Ran           bool
	Accepted      bool
	Err           string
	HasID         bool // the entry hands an identity back
	Country, Code string
}

type eres struct {
	Entries       []entryOut
	BaseCountry   string // normal form of the base spelling
	BaseCode      string
	HasBase       bool
	Pan           string
	InvoiceOthers string // what invoice validation said besides the parties' tax ids (evidence only)
}

func (e *eres) alone() entryOut { return e.Entries[0] }

func sub(err error, keys ...string) error {
	for _, k := range keys {
		if err == nil {
			return nil
		}
		es, ok := err.(validation.Errors)
		if !ok {
			return nil
		}
		err = es[k]
	}
	return err
}

func errText(err error) string {
	if err == nil {
		return ""
	}
	return err.Error()
}

func goEntries(t tcase) eres {
	var o eres
	mkID := func() *tax.Identity {
		return &tax.Identity{Country: l10n.TaxCountryCode(t.Country), Code: cbc.Code(t.Code)}
	}
	withID := func(e *entryOut, id *tax.Identity) {
		if id != nil {
			e.HasID, e.Country, e.Code = true, string(id.Country), string(id.Code)
		}
	}
	run := func(name string, f func(e *entryOut)) {
		e := entryOut{Name: name}
		if pan := core.Protect(func() { f(&e) }); pan != "" {
			e.Err = "panic: " + pan
			if o.Pan == "" {
				o.Pan = name + ": " + pan
			}
		}
		o.Entries = append(o.Entries, e)
	}
	run("tax.Identity.Normalize+Validate", func(e *entryOut) {
		id := mkID()
		id.Normalize()
		err := id.Validate()
		e.Ran, e.Accepted, e.Err = true, err == nil, errText(err)
		withID(e, id)
	})
	run("tax.ParseIdentity", func(e *entryOut) {
		e.Call = fmt.Sprintf("tax.ParseIdentity(%q)", t.Country+t.Code)
		id, err := tax.ParseIdentity(t.Country + t.Code)
		e.Ran, e.Accepted, e.Err = true, err == nil, errText(err)
		if err == nil {
			withID(e, id)
		}
	})
	run("RegimeDef.ValidateObject", func(e *entryOut) {
		id := mkID()
		id.Normalize()
		rd := id.Regime()
		// the regime's own validator speaks about codes that passed the generic
		// character gate (or are exempt from it: MX); the empty code is not its business
		if rd == nil || id.Code == "" || (!tax.IdentityCodePatternRegexp.MatchString(string(id.Code)) && !id.Country.In(tax.IdentityCodeValidationIgnore...)) {
			return
		}
		err := rd.ValidateObject(id)
		e.Ran, e.Accepted, e.Err = true, err == nil, errText(err)
		withID(e, id)
	})
	run("org.Party.Calculate+Validate", func(e *entryOut) {
		p := &org.Party{Name: "x", TaxID: mkID()}
		_ = p.Calculate()
		err := sub(p.Validate(), "tax_id")
		e.Ran, e.Accepted, e.Err = true, err == nil, errText(err)
		withID(e, p.TaxID)
	})
	run("org.Party.Normalize(nil)+Validate", func(e *entryOut) {
		p := &org.Party{Name: "x", TaxID: mkID()}
		p.Normalize(nil)
		err := sub(p.Validate(), "tax_id")
		e.Ran, e.Accepted, e.Err = true, err == nil, errText(err)
		withID(e, p.TaxID)
	})
	run("gobl.Envelop(org.Party)+Validate", func(e *entryOut) {
		p := &org.Party{Name: "x", TaxID: mkID()}
		env, err := gobl.Envelop(p) // calculates
		if err == nil {
			err = env.Validate()
		}
		e.Ran = true
		if err != nil {
			e.Err = err.Error()
			e.Accepted = !strings.Contains(e.Err, "tax_id")
		} else {
			e.Accepted = true
		}
		if env != nil {
			if q, ok := env.Extract().(*org.Party); ok {
				withID(e, q.TaxID)
			}
		}
	})
	var inv *bill.Invoice
	var invErr error
	pan := core.Protect(func() {
		price := num.MakeAmount(10000, 2)
		inv = &bill.Invoice{
			Code:      "C13-E",
			Currency:  "EUR",
			IssueDate: cal.MakeDate(2024, 3, 15),
			Supplier:  &org.Party{Name: "x", TaxID: mkID()},
			Customer:  &org.Party{Name: "y", TaxID: mkID()},
			Lines:     []*bill.Line{{Quantity: num.MakeAmount(1, 0), Item: &org.Item{Name: "thing", Price: &price}}},
		}
		if err := inv.Calculate(); err != nil {
			o.InvoiceOthers = "calculate: " + err.Error()
		}
		invErr = inv.Validate()
	})
	if pan != "" && o.Pan == "" {
		o.Pan = "bill.Invoice: " + pan
	}
	for _, w := range []string{"supplier", "customer"} {
		w := w
		run("bill.Invoice."+w+" Calculate+Validate", func(e *entryOut) {
			if pan != "" || inv == nil || len(o.Entries) == 0 || o.Entries[0].Code == "" {
				// an identity without a code: whether an invoice may carry one is the
				// regime's business, not the national check's
				return
			}
			// only what is said about the CODE of the identity: regimes add their own
			// demands on the parties of an invoice (a tax id must be present, …)
			err := sub(invErr, w, "tax_id", "code")
			e.Ran, e.Accepted, e.Err = true, err == nil, errText(err)
			if w == "supplier" {
				withID(e, inv.Supplier.TaxID)
			} else {
				withID(e, inv.Customer.TaxID)
			}
		})
	}
	if t.Base != "" {
		if pan := core.Protect(func() {
			id := &tax.Identity{Country: l10n.TaxCountryCode(t.Country), Code: cbc.Code(t.Base)}
			id.Normalize()
			o.HasBase, o.BaseCountry, o.BaseCode = true, string(id.Country), string(id.Code)
		}); pan != "" && o.Pan == "" {
			o.Pan = "base: " + pan
		}
	}
	return o
}

// ---- judgement -------------------------------------------------------------

// entryReq: the specification is asked about the normal form the identity has on its own.
func entryReq(t tcase, o eres) string {
	if o.Pan != "" || len(o.Entries) == 0 || !utf8.ValidString(o.alone().Code) {
		return "skip"
	}
	return fmt.Sprintf("v %s %s", t.CC, core.Hex(o.alone().Code))
}

func judgeEntries(c *core.Ctx, t tcase, o eres, resp string) {
	c.Count("regime:"+t.CC, 1)
	c.Count("stream:"+t.Stream, 1)
	detail := map[string]any{"case": t, "go": o}
	if o.Pan != "" {
		c.Fail("", fmt.Sprintf("identity %s %q: %s panicked", t.Country, t.Code, o.Pan), detail)
		return
	}
	f := strings.Fields(resp)
	if len(f) != 4 || f[0] != "ok" {
		c.Count("skipped_outside_model", 1)
		return
	}
	spec := f[2] == "1"
	a := o.alone()
	c.Eval("e "+t.Country+" "+t.Code, a.Code != t.Code || a.Country != t.Country)
	c.Count(fmt.Sprintf("entries:spec=%v", spec), 1)
	// insensitive to the spelling: the normal form is the one of the clean code
	if o.HasBase && (a.Code != o.BaseCode || a.Country != o.BaseCountry) {
		c.Count("law-failed:insensitive", 1)
		c.Fail("", fmt.Sprintf("normalisation of %s %q gives %s %q but its clean form %q gives %s %q", t.Country, t.Code, a.Country, a.Code, t.Base, o.BaseCountry, o.BaseCode), detail)
		return
	}
	for _, e := range o.Entries {
		if !e.Ran {
			c.Count("entries:not-applicable:"+e.Name, 1)
			continue
		}
		c.Count("entries:compared", 1)
		if e.Accepted != spec {
			c.Count("law-failed:entry-verdict", 1)
			others := []string{}
			for _, x := range o.Entries {
				if x.Ran && x.Name != e.Name {
					others = append(others, x.Name+" "+accd(x.Accepted))
				}
			}
			call := e.Name
			if e.Call != "" {
				call = e.Call
			}
			c.Fail("", fmt.Sprintf("tax identity of country %s written %q (regime %s): its normal form is %s %q, which the national rule %s, but %s %s it (%s) [%s]",
				t.Country, t.Code, t.CC, a.Country, a.Code, acc(spec), call, acc(e.Accepted), e.Err, strings.Join(others, "; ")), detail)
			return
		}
		if e.HasID && (e.Country != a.Country || e.Code != a.Code) {
			c.Count("law-failed:entry-normal-form", 1)
			c.Fail("", fmt.Sprintf("%s: the text %q of a tax identity of country %s comes back as %s %q, on its own tax.Identity.Normalize makes it %s %q",
				e.Name, t.Code, t.Country, e.Country, e.Code, a.Country, a.Code), detail)
			return
		}
	}
}
