package c17

// Third clause of C17: Invoice.RemoveIncludedTaxes.  The property oracle
// (payable = original total_with_tax, residue in rounding — also when a
// rounding was supplied with the document: the removal starts from a new totals
// object —, prices_include cleared) is judged on the real code, then the
// complete result is compared with the Lean model Calc.calculateThenRemove
// (= Calc.removeIncludedDoc without supplied rounding) / Calc.removeIncludedRecalc
// (Model/CalcRemove.lean, Driver/C17.lean), for which Props/C17.lean proves
// remove_included_payable and its companions.

import (
	"fmt"
	"strings"

	"github.com/invopop/gobl/bill"
	"github.com/invopop/gobl/num"

	"verifharness/internal/calcproto"
	"verifharness/internal/core"
	"verifharness/props/c01"
)

type rmCase struct {
	i    int
	doc  *calcproto.Doc
	body string // encoded document (request body without the op)
}

func hx(s string) string {
	if s == "" {
		return "-"
	}
	return fmt.Sprintf("%x", s)
}

// rmOutput is the mirror of Driver.C17.sMem.
func rmOutput(inv *bill.Invoice) string {
	pi := ""
	if inv.Tax != nil {
		pi = string(inv.Tax.PricesInclude)
	}
	return "ok " + calcproto.Output(inv) + " P " + hx(pi)
}

// residueAcrossZero is the classifier of the known finding
// c17.removeIncludedResidueAcrossZero: the presented total_with_tax after the
// removal is not zero and the original one is zero or has the other sign.
// Only then can `payable = Rescale(total_with_tax_unrounded + rounding)` differ
// from `Rescale(total_with_tax_unrounded) + rounding`: rounding half away from
// zero is not invariant under a shift that crosses zero.
func residueAcrossZero(orig, after num.Amount) bool {
	o, a := orig.Value(), after.Value()
	if a == 0 {
		return false
	}
	return o == 0 || (o < 0) != (a < 0)
}

// targetedRemovalDocs are the written-out witnesses of the two known findings
// about RemoveIncludedTaxes (and the neighbours on which the property holds):
// the residue carried across zero, and the fixed document row.
func targetedRemovalDocs() []*calcproto.Doc {
	A := calcproto.A
	one := A(1, 0)
	vat := func(v int64, e uint32) []calcproto.Combo {
		p := A(v, e)
		return []calcproto.Combo{{Cat: "VAT", Percent: &p}}
	}
	price := func(v int64, e uint32) *calcproto.Item { p := A(v, e); return &calcproto.Item{Price: &p} }
	across := func(cur, rule string, p2 calcproto.Amt) *calcproto.Doc {
		return &calcproto.Doc{Country: "ES", Cur: cur, Rule: rule, Includes: "VAT", Lines: []calcproto.Line{
			{Qty: one, Item: price(100, 2), Taxes: vat(50, 2)},
			{Qty: one, Item: &calcproto.Item{Price: &p2}},
		}}
	}
	fixedRow := func(rule string) *calcproto.Doc { // Props.C17.residueDoc … true
		return &calcproto.Doc{Country: "ES", Cur: "EUR", Rule: rule, Includes: "VAT",
			Lines:   []calcproto.Line{{Qty: A(100, 0), Item: price(100, 2), Taxes: vat(21, 2)}},
			Charges: []calcproto.DocAdj{{Amount: A(1, 2), Taxes: vat(21, 2)}}}
	}
	return []*calcproto.Doc{
		across("JPY", "precise", A(-5001, 4)),   // total_with_tax 0 → 0.5000 unrounded after the removal: payable -1
		across("EUR", "precise", A(-995100, 6)), // 0.0049 → 0.005000: payable -0.01
		across("JPY", "precise", A(-5002, 4)),   // 0.4999 after the removal: nothing to record
		across("JPY", "precise", A(5001, 4)),    // far from zero: residue recorded, payable kept
		fixedRow("precise"),  // 100.01 → payable 100.02
		fixedRow("currency"), // 100.01 kept
	}
}

func parseModel(r string) (agree bool, text string, ok bool) {
	if len(r) < 2 || (r[0] != '0' && r[0] != '1') {
		return false, r, false
	}
	return r[0] == '1', r[2:], true
}

// runRemoval judges RemoveIncludedTaxes on every collected document.
func runRemoval(c *core.Ctx, cases []rmCase) {
	if len(cases) == 0 {
		return
	}
	reqs := make([]string, 0, 2*len(cases))
	for _, k := range cases {
		reqs = append(reqs, "rm "+k.body, "rm2 "+k.body)
	}
	res, err := c.ModelProp("C17", reqs)
	if err != nil {
		c.TieBroken("drive:C17/remove-model", err.Error(), nil)
		return
	}
	for n, k := range cases {
		d := k.doc
		rc := c01.Case{Doc: d}

		// ---- the real code: Calculate, then RemoveIncludedTaxes (totals present)
		inv := d.Invoice()
		if err := inv.Calculate(); err != nil || inv.Totals == nil {
			continue // cannot happen: the caller calculated this document already
		}
		twt := inv.Totals.TotalWithTax
		agree, text, ok := parseModel(res[2*n])
		// beyond the magnitude heuristic the property is still judged where the float
		// model equals the exact one (then no operation left C05's domain)
		large := tooLargeForRemoval(inv) && !(ok && agree)
		sub := uint32(2)
		if def := inv.Currency.Def(); def != nil {
			sub = def.Subunits
		}
		var rerr error
		pan := core.Protect(func() { rerr = inv.RemoveIncludedTaxes() })

		// ---- 1. the property on the Go output
		failed := false // a property failure that is no known finding: the correspondence is not judged on top of it
		if !large {
			c.Count("relation:remove-included", 1)
			switch {
			case pan != "" || rerr != nil:
				failed = true
				c.Fail("", fmt.Sprintf("RemoveIncludedTaxes failed: %v %s", rerr, pan), rc)
			case inv.Totals == nil:
				failed = true
				c.Fail("", "RemoveIncludedTaxes dropped the totals", rc)
			default:
				t := inv.Totals
				if !t.Payable.Equals(twt) {
					cls := ""
					switch {
					case removalMakesFixedDocRowFiner(d, sub):
						cls = "c17.removeIncludedFixedDocRow"
					case residueAcrossZero(twt, t.TotalWithTax):
						cls = "c17.removeIncludedResidueAcrossZero"
					}
					// (c17.fixedAmountFinerThanPresented is no excuse here: the original total_with_tax
					// is the one of the calculation the removal starts from — Props.C17.remove_included_payable
					// does not exclude that domain, and 114 000 thorough cases never needed it)
					failed = cls == ""
					c.Count("remove:payable-mismatch:"+cls, 1)
					c.Fail(cls, fmt.Sprintf("after RemoveIncludedTaxes payable %s != original total_with_tax %s", t.Payable.String(), twt.String()), rc)
				} else {
					if d.Rounding != nil {
						c.Count("remove:supplied-rounding-replaced", 1)
					}
					resid := t.Payable.Subtract(t.TotalWithTax)
					if (t.Rounding == nil && !resid.IsZero()) || (t.Rounding != nil && !t.Rounding.Equals(resid)) {
						failed = true
						c.Fail("", fmt.Sprintf("residue %s not recorded in rounding %s", resid.String(), ao(t.Rounding)), rc)
					}
					if t.Rounding != nil {
						c.Count("remove:residue-recorded", 1)
					} else {
						c.Count("remove:no-residue", 1)
					}
					if inv.Tax != nil && inv.Tax.PricesInclude != "" {
						failed = true
						c.Fail("", "prices_include still set after RemoveIncludedTaxes", rc)
					}
				}
			}
		} else {
			c.Count("skipped:remove-too-large", 1)
		}

		// ---- 2. the model, inside its domain
		switch {
		case !ok:
			c.TieBroken("drive:C17/remove-model", "model answered "+text, rc)
		case !agree:
			c.Count("skipped:remove-outside-2^52-domain", 1)
		case pan != "" || rerr != nil:
			if !failed {
				c.TieBroken("drive:C17/remove", fmt.Sprintf("RemoveIncludedTaxes failed (%v %s), model: %s", rerr, pan, head(text)), rc)
			}
		default:
			c.Count("model:remove-compared", 1)
			c.Eval("rm "+k.body, len(d.Lines) > 1)
			if g := rmOutput(inv); g != text && !failed {
				c.Count("model:remove-differs", 1)
				c.TieBroken("drive:C17/remove", "RemoveIncludedTaxes differs from Calc.calculateThenRemove: "+firstDiff(g, text), rc)
			}
		}

		// ---- 3. the "no totals yet" branch: Calculate, drop the totals, RemoveIncludedTaxes
		inv2 := d.Invoice()
		if err := inv2.Calculate(); err != nil || inv2.Totals == nil {
			continue
		}
		inv2.Totals = nil
		var rerr2 error
		pan2 := core.Protect(func() { rerr2 = inv2.RemoveIncludedTaxes() })
		agree2, text2, ok2 := parseModel(res[2*n+1])
		switch {
		case !ok2:
			c.TieBroken("drive:C17/remove-model", "model answered "+text2, rc)
		case !agree2:
			c.Count("skipped:remove-recalc-outside-2^52-domain", 1)
		case pan2 != "" || rerr2 != nil:
			c.TieBroken("drive:C17/remove-recalc", fmt.Sprintf("RemoveIncludedTaxes without totals failed (%v %s), model: %s", rerr2, pan2, head(text2)), rc)
		default:
			c.Count("model:remove-recalc-compared", 1)
			if g := rmOutput(inv2); g != text2 {
				c.TieBroken("drive:C17/remove-recalc", "RemoveIncludedTaxes without totals differs from Calc.removeIncludedRecalc: "+firstDiff(g, text2), rc)
			}
		}
	}
}

func head(s string) string {
	if len(s) > 120 {
		return s[:120] + "…"
	}
	return s
}

func firstDiff(a, b string) string {
	x, y := strings.Fields(a), strings.Fields(b)
	for i := 0; i < len(x) && i < len(y); i++ {
		if x[i] != y[i] {
			lo := i - 6
			if lo < 0 {
				lo = 0
			}
			hi := i + 4
			return fmt.Sprintf("token %d: go …%s… / model …%s…", i, strings.Join(x[lo:min(hi, len(x))], " "), strings.Join(y[lo:min(hi, len(y))], " "))
		}
	}
	return fmt.Sprintf("lengths %d / %d tokens", len(x), len(y))
}
