// Package c17: totals are symmetric under negation, independent of row
// order, and removing included taxes preserves the amount payable.
// Metamorphic relations are judged between runs of the real code; the
// reordered documents are also compared with the Lean model, for which
// Props/C17.lean proves the symmetry and order-independence lemmas.
package c17

import (
	"fmt"
	"math/big"
	"math/rand"
	"sort"
	"strings"

	"github.com/invopop/gobl/bill"
	"github.com/invopop/gobl/num"

	"verifharness/internal/calcproto"
	"verifharness/internal/core"
	"verifharness/props/c01"
)

type figures struct {
	lines  []string          // per line: sum total discounts… charges…
	groups map[string]string // (cat|country|ext|pct|sur) -> base amount surcharge
	cats   map[string]string
	totals string
}

func am(a num.Amount) string { return fmt.Sprintf("%d:%d", a.Value(), a.Exp()) }
func ao(a *num.Amount) string {
	if a == nil {
		return "-"
	}
	return am(*a)
}
func neg(a num.Amount) num.Amount { return a.Negate() }
func negP(a *num.Amount) *num.Amount {
	if a == nil {
		return nil
	}
	n := a.Negate()
	return &n
}

// collect gathers the presented figures; with negate they are sign-flipped first.
func collect(inv *bill.Invoice, negate bool) figures {
	f := figures{groups: map[string]string{}, cats: map[string]string{}}
	s := func(a num.Amount) string {
		if negate {
			a = neg(a)
		}
		return am(a)
	}
	sp := func(a *num.Amount) string {
		if negate {
			a = negP(a)
		}
		return ao(a)
	}
	for _, l := range inv.Lines {
		w := []string{sp(l.Sum), sp(l.Total)}
		for _, d := range l.Discounts {
			w = append(w, "d"+s(d.Amount))
		}
		for _, d := range l.Charges {
			w = append(w, "c"+s(d.Amount))
		}
		f.lines = append(f.lines, strings.Join(w, " "))
	}
	t := inv.Totals
	if t == nil {
		f.totals = "none"
		return f
	}
	f.totals = strings.Join([]string{s(t.Sum), sp(t.Discount), sp(t.Charge), sp(t.TaxIncluded), s(t.Total), s(t.Tax), s(t.TotalWithTax), s(t.Payable), sp(t.Advances), sp(t.Due)}, " ")
	if t.Taxes != nil {
		f.totals += " X" + s(t.Taxes.Sum)
		for _, ct := range t.Taxes.Categories {
			f.cats[string(ct.Code)] = fmt.Sprintf("%v %s %s", ct.Retained, s(ct.Amount), sp(ct.Surcharge))
			for _, rt := range ct.Rates {
				pct, sur, sa := "-", "-", "-"
				if rt.Percent != nil {
					pct = ratText(rt.Percent.Base()) // value, not spelling: 4% and 4.0% are one group
				}
				if rt.Surcharge != nil {
					sur = ratText(rt.Surcharge.Percent.Base())
					sa = s(rt.Surcharge.Amount)
				}
				k := fmt.Sprintf("%s|%s|%s|%s|%s", ct.Code, rt.Country, calcproto.ExtText(rt.Ext), pct, sur)
				f.groups[k] += fmt.Sprintf("[%s %s %s]", s(rt.Base), s(rt.Amount), sa)
			}
		}
	}
	return f
}

// RemoveIncludedTaxes raises every price and fixed amount by two decimals and
// divides; beyond 2^52 / 10^4 units the float detour of num.Amount is no longer
// exact (C05's domain) and int64 can overflow: outside the property's domain.
func tooLargeForRemoval(inv *bill.Invoice) bool {
	// every figure is eventually accumulated at the finest precision present in the
	// document plus the two decimals the removal adds: judge the magnitudes there
	maxExp := uint32(0)
	var all []num.Amount
	note := func(a num.Amount) {
		all = append(all, a)
		if a.Exp() > maxExp {
			maxExp = a.Exp()
		}
	}
	if inv.Totals != nil {
		note(inv.Totals.Sum)
		note(inv.Totals.TotalWithTax)
	}
	for _, l := range inv.Lines {
		if l.Item != nil && l.Item.Price != nil {
			note(*l.Item.Price)
		}
		if l.Sum != nil {
			note(*l.Sum)
		}
		if l.Total != nil {
			note(*l.Total)
		}
	}
	lim := new(big.Int).Lsh(big.NewInt(1), 52)
	for _, a := range all {
		v := new(big.Int).Abs(big.NewInt(a.Value()))
		v.Mul(v, new(big.Int).Exp(big.NewInt(10), big.NewInt(int64(maxExp+2-a.Exp())), nil))
		if v.Cmp(lim) >= 0 {
			return true
		}
	}
	return false
}

func ratText(a num.Amount) string {
	d := new(big.Int).Exp(big.NewInt(10), big.NewInt(int64(a.Exp())), nil)
	return new(big.Rat).SetFrac(big.NewInt(a.Value()), d).RatString()
}

// RemoveIncludedTaxes divides every fixed document discount/charge that
// carries the included category by (1 + rate) with two extra decimals; the
// result is finer than the currency and is rounded in place by the first of
// the two recalculations the function performs.
func removalMakesFixedDocRowFiner(d *calcproto.Doc, _ uint32) bool {
	for _, x := range append(append([]calcproto.DocAdj{}, d.Discounts...), d.Charges...) {
		// (the amount entering the removal is the calculated one, already at the
		// currency's precision or finer, so two extra decimals always exceed it)
		if (x.Percent == nil || x.Percent.V == 0) && x.Amount.V != 0 {
			for _, cb := range x.Taxes {
				if cb.Cat == d.Includes {
					return true
				}
			}
		}
	}
	return false
}

func sortedLines(x []string) []string {
	y := append([]string{}, x...)
	sort.Strings(y)
	return y
}

func diffFigures(a, b figures, ordered bool) string {
	la, lb := a.lines, b.lines
	if !ordered {
		la, lb = sortedLines(la), sortedLines(lb)
	}
	if strings.Join(la, "/") != strings.Join(lb, "/") {
		return fmt.Sprintf("line figures differ: %v vs %v", la, lb)
	}
	if a.totals != b.totals {
		return fmt.Sprintf("totals differ: %s vs %s", a.totals, b.totals)
	}
	if fmt.Sprint(a.groups) != fmt.Sprint(b.groups) {
		return fmt.Sprintf("rate groups differ: %v vs %v", a.groups, b.groups)
	}
	if fmt.Sprint(a.cats) != fmt.Sprint(b.cats) {
		return fmt.Sprintf("categories differ: %v vs %v", a.cats, b.cats)
	}
	return ""
}

func permuted(r *rand.Rand, d *calcproto.Doc) *calcproto.Doc {
	e := *d
	e.Lines = append([]calcproto.Line{}, d.Lines...)
	e.Discounts = append([]calcproto.DocAdj{}, d.Discounts...)
	e.Charges = append([]calcproto.DocAdj{}, d.Charges...)
	r.Shuffle(len(e.Lines), func(i, j int) { e.Lines[i], e.Lines[j] = e.Lines[j], e.Lines[i] })
	r.Shuffle(len(e.Discounts), func(i, j int) { e.Discounts[i], e.Discounts[j] = e.Discounts[j], e.Discounts[i] })
	r.Shuffle(len(e.Charges), func(i, j int) { e.Charges[i], e.Charges[j] = e.Charges[j], e.Charges[i] })
	return &e
}

// Run is the C17 check.
func Run(c *core.Ctx) int {
	var docs []*calcproto.Doc
	var rc c01.Case
	if c.ReplayCase(&rc) {
		docs = []*calcproto.Doc{rc.Doc}
	} else {
		n := c.Pick(3000, 200000)
		for len(docs) < n {
			o := calcproto.GenOpts{}
			if c.Thorough() && len(docs)%10 == 0 {
				o.MaxLines = 40
			}
			docs = append(docs, calcproto.Gen(c.Rng, o))
		}
		docs = append(docs, targetedRemovalDocs()...)
	}
	// model agreement on reordered documents
	perms := make([]*calcproto.Doc, len(docs))
	for i, d := range docs {
		perms[i] = permuted(c.Rng, d)
	}
	pres, err := c01.RunDocs(c, perms)
	if err != nil {
		c.TieBroken("drive:C17/model", err.Error(), nil)
		return c.Finish("", nil)
	}
	ores, err := c01.RunDocs(c, docs)
	if err != nil {
		c.TieBroken("drive:C17/model", err.Error(), nil)
		return c.Finish("", nil)
	}
	var rms []rmCase
	for i, d := range docs {
		if !ores[i].Agree || !pres[i].Agree {
			c.Count("skipped:outside-2^52-domain", 1)
			continue
		}
		inv := d.Invoice()
		var cerr error
		if pan := core.Protect(func() { cerr = inv.Calculate() }); pan != "" || cerr != nil {
			c.Count("go:error", 1)
			continue
		}
		if inv.Totals == nil {
			c.Count("no-totals", 1)
			continue
		}
		c.Eval(ores[i].Req, len(d.Lines) > 1)
		base := collect(inv, false)
		if i%997 == 0 {
			c.Sample(map[string]any{"doc": d, "totals": base.totals})
		}

		// --- reordering
		pinv := perms[i].Invoice()
		if pan := core.Protect(func() { cerr = pinv.Calculate() }); pan != "" || cerr != nil {
			c.Fail("", fmt.Sprintf("reordered document fails to calculate: %v %s", cerr, pan), c01.Case{Doc: d})
			continue
		}
		c.Count("relation:reorder", 1)
		if df := diffFigures(base, collect(pinv, false), false); df != "" {
			c.Fail("", "reordering rows changed figures: "+df, map[string]any{"doc": d, "permuted": perms[i]})
			continue
		}
		if pres[i].GoErr == "" && pres[i].Skipped == "" && pres[i].GoOut != pres[i].Model {
			c.TieBroken("drive:C17/calc", "reordered document: Go differs from the model", c01.Case{Doc: perms[i]})
		}

		// --- inversion (an externally supplied rounding amount is inverted with the rest: it was
		// excluded here until Invert was repaired in /repo d6d7c00 — it used to drop the rounding
		// with the totals and then fail its own payable check)
		{
			c.Count("relation:invert", 1)
			inv2 := d.Invoice()
			_ = inv2.Calculate()
			var ierr error
			pan := core.Protect(func() { ierr = inv2.Invert() })
			cls := ""
			sub := uint32(2)
			if def := inv.Currency.Def(); def != nil {
				sub = def.Subunits
			}
			if calcproto.FixedFinerThanPresented(d, sub) {
				cls = "c17.fixedAmountFinerThanPresented"
			}
			if pan != "" || ierr != nil {
				c.Fail(cls, fmt.Sprintf("Invert failed: %v %s", ierr, pan), c01.Case{Doc: d})
			} else if df := diffFigures(collect(inv, true), collect(inv2, false), true); df != "" {
				c.Fail(cls, "inverted invoice is not the negation of the original: "+df, c01.Case{Doc: d})
			} else {
				// twice restores
				pan := core.Protect(func() { ierr = inv2.Invert() })
				if pan != "" || ierr != nil {
					c.Fail(cls, fmt.Sprintf("second Invert failed: %v %s", ierr, pan), c01.Case{Doc: d})
				} else if df := diffFigures(base, collect(inv2, false), true); df != "" {
					c.Fail(cls, "inverting twice does not restore the figures: "+df, c01.Case{Doc: d})
				}
			}
		}

		// --- removing included taxes (judged in runRemoval, together with the model)
		if d.Includes != "" {
			rms = append(rms, rmCase{i: i, doc: d, body: strings.TrimPrefix(ores[i].Req, "calc ")})
		}
	}
	runRemoval(c, rms)
	return c.Finish("random documents (C01 variety); relations between runs of the real code: random reordering of lines/discounts/charges keeps every row's figures, all totals and rate-group amounts (as multisets); Invert yields the exact negation and twice restores; RemoveIncludedTaxes keeps payable = original total_with_tax with the residue in rounding, and its complete result (with and without totals present beforehand) equals Calc.removeIncludedDoc / removeIncludedRecalc of the Lean model; non-trivial = more than one line", nil)
}
