// Package c15 is the search side of C15 (concurrency): the Lean theorems
// cover the bulk dispatcher protocol only; data-race freedom and result
// equivalence of the Go program are searched for here with
//
//	(1) trace validation: real `gobl serve` POST /bulk streams (and `gobl
//	    bulk` when the binary has that command) of mixed actions with sleep
//	    latencies under GOMAXPROCS 1, 2, 16; every observed response stream is
//	    judged by the Lean acceptor `Bulk.validTrace`, every payload compared
//	    with the standalone CLI operation / published data file;
//	(2) result equivalence in-process: N goroutines x documents of every
//	    regime x addon combination, transcripts byte-compared with the
//	    sequential run;
//	(3) frozen registries: a reflection walk over everything reachable from
//	    the regime / addon / catalogue / currency / schema registries including
//	    the hidden len..cap region of every slice, before and after;
//	(4) the same workload under the race detector (cmd/racework built -race);
//	(5)-(7) the command line operations and the bulk dispatcher called in-process
//	    through the verifhook package: see hook.go.
package c15

import (
	"bytes"
	"crypto/sha256"
	"encoding/base64"
	"encoding/hex"
	"encoding/json"
	"fmt"
	"io"
	"math/rand"
	"net"
	"net/http"
	"os"
	"os/exec"
	"path/filepath"
	"runtime"
	"sort"
	"strings"
	"sync"
	"time"

	"github.com/invopop/gobl/dsig"
	"github.com/invopop/gobl/schema"

	"verifharness/internal/conc"
	"verifharness/internal/core"
)

type rcase struct {
	Kind      string `json:"kind"` // equiv | frozen | race | racework | bulk
	Name      string `json:"name,omitempty"`
	Data      string `json:"data,omitempty"`
	Procs     int    `json:"procs,omitempty"`
	G         int    `json:"goroutines,omitempty"`
	Seed      int64  `json:"seed,omitempty"`
	Cold      string `json:"cold,omitempty"`
	Stream    string `json:"stream_base64,omitempty"`
	Slow      bool   `json:"slow,omitempty"`
	KeepAlive bool   `json:"keep_alive,omitempty"`
	Detail    any    `json:"detail,omitempty"`
	// the in-process phases (hook.go): kind hookbulk | hookcancel, or race with the -hook workload
	Hook json.RawMessage `json:"hook,omitempty"`
	// kind tiny (tiny.go): the small documents of one schema that show the violation
	Tiny *conc.TinyProblem `json:"tiny,omitempty"`
	// kind kid (kid.go): distinct private keys under one key id
	Kid *kidCase `json:"kid_case,omitempty"`
}

func env() []string {
	e := os.Environ()
	return append(e, "GOFLAGS=-mod=mod", "GOPROXY=off", "GOSUMDB=off", "GOTOOLCHAIN=local")
}

// buildBinaries builds the real gobl CLI from the current tree and the
// race-detector variant of the workload.
func buildBinaries(c *core.Ctx) (gobl, race string, err error) {
	bin := filepath.Join(c.Root, "harness", "bin")
	_ = os.MkdirAll(bin, 0o755)
	gobl = filepath.Join(bin, "gobl")
	cmd := exec.Command("go", "build", "-o", gobl, "./cmd/gobl")
	cmd.Dir = c.Repo
	cmd.Env = env()
	if out, e := cmd.CombinedOutput(); e != nil {
		return "", "", fmt.Errorf("go build gobl: %v: %s", e, out)
	}
	race = filepath.Join(bin, "racework.race")
	args := []string{"build", "-race", "-tags", "verif"}
	if alt := filepath.Join(c.Root, "harness", "go.alt.mod"); c.Repo != "/repo" {
		// a scratch copy of the repository (VERIF_REPO): ./check wrote a go.mod that links it
		args = append(args, "-modfile="+alt)
	}
	cmd = exec.Command("go", append(args, "-o", race, "./cmd/racework")...)
	cmd.Dir = filepath.Join(c.Root, "harness")
	cmd.Env = append(env(), "CGO_ENABLED=1")
	if out, e := cmd.CombinedOutput(); e != nil {
		return gobl, "", fmt.Errorf("go build -race racework: %v: %s", e, out)
	}
	return gobl, race, nil
}

// Run is the harness entry.
func Run(c *core.Ctx) int {
	// the snapshot must be the first thing: nothing has used the registries yet
	before := conc.Snap()

	gobl, race, err := buildBinaries(c)
	if err != nil {
		fmt.Fprintln(os.Stderr, "c15:", err)
		return 2
	}
	var rc rcase
	if c.ReplayCase(&rc) {
		replay(c, rc, gobl, race, before)
		return c.Finish("replay", nil)
	}

	inputs, outputs, err := conc.LoadExamples(c.Repo)
	if err != nil || len(inputs) == 0 {
		fmt.Fprintln(os.Stderr, "c15: examples:", err)
		return 2
	}
	cross := conc.CrossAddons(inputs)
	docs := append(append(append([]conc.Doc{}, cross...), inputs...), outputs...)
	small := conc.TinyCorpus(3)
	docs = append(docs, small...)
	c.Count("docs.small(one member, derived from the schema registry)", int64(len(small)))
	c.Count("docs.example-inputs", int64(len(inputs)))
	c.Count("docs.example-outputs", int64(len(outputs)))
	c.Count("docs.regime-x-addon", int64(len(cross)))

	t0 := time.Now()
	frozenAndEquivalence(c, docs, before)
	c.Note("frozen registries + result equivalence over %d documents: %.1fs", len(docs), time.Since(t0).Seconds())
	tinyDocuments(c)
	raceRuns(c, race)
	hk := startHookRace(c, race) // (7) in the background while (5), (6) and (1) run
	hookInProcess(c, inputs, outputs)
	bulkTraces(c, gobl, inputs, outputs)
	t0 = time.Now()
	sharedKeyIDs(c, gobl, outputs)
	c.Note("distinct private keys under one key id (library, cli.Sign, bulk in process and over HTTP): %.1fs", time.Since(t0).Seconds())
	hk.finish(c)

	return c.Finish("one evaluation = one document pipeline compared sequential vs concurrent, one registry snapshot comparison, one race-detector run, one bulk response stream (POST /bulk or in-process) judged by the Lean acceptor, or one uncancelled operation compared with its sequential result while others are cancelled; non-trivial = document whose pipeline reaches validation / stream with >= 2 requests answered out of order or with an error tail",
		map[string]any{"registry_leaves": len(before.Lines), "registry_slices": before.Slices, "registry_slices_with_spare_capacity": before.Spare})
}

/* ---------- (2) + (3) result equivalence and frozen registries ---------- */

func stageKinds(c *core.Ctx, tr string) bool {
	reached := false
	for _, l := range strings.Split(tr, "\n") {
		i := strings.Index(l, ": ")
		if i < 0 {
			if strings.HasPrefix(l, "PANIC") {
				c.Count("pipeline.panic(recovered; C14 matter)", 1)
			}
			continue
		}
		st, res := l[:i], l[i+2:]
		switch {
		case res == "ok":
			c.Count("stage."+st+".ok", 1)
		case strings.HasPrefix(res, "error"):
			c.Count("stage."+st+".error", 1)
		default:
			c.Count("stage."+st+".output", 1)
		}
		if st == "validate" {
			reached = true
		}
	}
	return reached
}

func frozenAndEquivalence(c *core.Ctx, docs []conc.Doc, before *conc.Snapshot) {
	// sequential baseline, with the registry snapshot re-taken after every
	// few documents so that a change is attributed to a small group
	seq := make([]string, len(docs))
	last := before
	step := c.Pick(16, 4)
	for i, d := range docs {
		seq[i] = conc.Pipeline(d)
		nt := stageKinds(c, seq[i])
		c.Eval("seq:"+d.Name, nt)
		if (i+1)%step == 0 || i == len(docs)-1 {
			now := conc.Snap()
			c.Eval("snap", false)
			if now.Digest != last.Digest {
				lo := i + 1 - step
				if lo < 0 {
					lo = 0
				}
				var names []string
				for _, x := range docs[lo : i+1] {
					names = append(names, x.Name)
				}
				// narrow down in fresh processes is not possible in-process (the
				// write already happened); the replay re-runs each candidate
				c.Fail("", "a shared definition changed while documents were processed sequentially (append into spare capacity / in-place edit of a registry value): "+strings.Join(last.Diff(now, 4), " ;; "),
					rcase{Kind: "frozen", Name: strings.Join(names, ","), Detail: map[string]any{"diff": last.Diff(now, 12), "candidates": groupData(docs[lo : i+1])}})
				last = now
			}
		}
	}
	// determinism of the pipeline itself (needed for the comparison to mean anything)
	for i := 0; i < len(docs); i += 7 {
		if again := conc.Pipeline(docs[i]); again != seq[i] {
			c.Fail("", "sequential run not reproducible for "+docs[i].Name, rcase{Kind: "equiv", Name: docs[i].Name, Data: string(docs[i].Data), Detail: firstDiff(seq[i], again)})
		}
	}

	// concurrent runs
	type cfg struct{ g, procs int }
	cfgs := []cfg{{4, 1}, {8, 2}, {32, 16}}
	rounds := c.Pick(1, 6)
	old := runtime.GOMAXPROCS(0)
	defer runtime.GOMAXPROCS(old)
	for r := 0; r < rounds; r++ {
		for _, cf := range cfgs {
			runtime.GOMAXPROCS(cf.procs)
			order := c.Rng.Perm(len(docs))
			var wg sync.WaitGroup
			var mu sync.Mutex
			bad := map[int]string{}
			for k := 0; k < cf.g; k++ {
				wg.Add(1)
				go func(k int) {
					defer wg.Done()
					for n := range order {
						// neighbours work on the same document at about the same time
						i := order[(n+k/2)%len(order)]
						tr := conc.Pipeline(docs[i])
						if tr != seq[i] {
							mu.Lock()
							if _, ok := bad[i]; !ok {
								bad[i] = tr
							}
							mu.Unlock()
						}
						if (n+k)%5 == 0 {
							runtime.Gosched()
						}
					}
				}(k)
			}
			wg.Wait()
			c.Count(fmt.Sprintf("concurrent.goroutines=%d.gomaxprocs=%d.pipelines", cf.g, cf.procs), int64(cf.g*len(docs)))
			for i := 0; i < cf.g*len(docs); i++ {
				c.Eval("", false)
			}
			var idx []int
			for i := range bad {
				idx = append(idx, i)
			}
			sort.Ints(idx)
			for _, i := range idx {
				c.Fail("", fmt.Sprintf("result of a goroutine differs from the sequential result for %s (goroutines=%d GOMAXPROCS=%d): %s", docs[i].Name, cf.g, cf.procs, firstDiff(seq[i], bad[i])),
					rcase{Kind: "equiv", Name: docs[i].Name, Data: string(docs[i].Data), G: cf.g, Procs: cf.procs, Detail: firstDiff(seq[i], bad[i])})
			}
		}
	}
	runtime.GOMAXPROCS(old)
	after := conc.Snap()
	c.Eval("snap-final", true)
	if after.Digest != last.Digest {
		c.Fail("", "a shared definition changed during the concurrent workload: "+strings.Join(last.Diff(after, 4), " ;; "),
			rcase{Kind: "frozen", Name: "(concurrent workload)", Detail: map[string]any{"diff": last.Diff(after, 12)}})
	}
}

func groupData(ds []conc.Doc) []map[string]string {
	var out []map[string]string
	for _, d := range ds {
		out = append(out, map[string]string{"name": d.Name, "data": string(d.Data)})
	}
	return out
}

func firstDiff(a, b string) string {
	n := len(a)
	if len(b) < n {
		n = len(b)
	}
	i := 0
	for i < n && a[i] == b[i] {
		i++
	}
	lo := i - 60
	if lo < 0 {
		lo = 0
	}
	cut := func(s string) string {
		hi := i + 60
		if hi > len(s) {
			hi = len(s)
		}
		if lo > len(s) {
			return ""
		}
		return s[lo:hi]
	}
	return fmt.Sprintf("at byte %d: sequential %q / concurrent %q", i, cut(a), cut(b))
}

/* ---------- (4) race detector ---------- */

type raceOut struct {
	reports []string
	lines   []string // TRANSCRIPT-DIFFERS / FROZEN-REGISTRY-CHANGED
	done    string
	err     error
}

func runRace(race, repo string, g, procs int, seed int64, budget time.Duration, maxDocs int, cold string) raceOut {
	args := []string{"-cold", cold, "-repo", repo, "-goroutines", fmt.Sprint(g), "-seed", fmt.Sprint(seed), "-budget", budget.String(), "-docs", fmt.Sprint(maxDocs), "-procs", fmt.Sprint(procs)}
	cmd := exec.Command(race, args...)
	cmd.Env = append(os.Environ(), "GORACE=halt_on_error=0 history_size=3")
	var so, se bytes.Buffer
	cmd.Stdout, cmd.Stderr = &so, &se
	done := make(chan error, 1)
	if err := cmd.Start(); err != nil {
		return raceOut{err: err}
	}
	go func() { done <- cmd.Wait() }()
	var ro raceOut
	select {
	case e := <-done:
		// exit status 66 = races were reported; anything else without DONE is a failure of the run
		_ = e
	case <-time.After(budget + 180*time.Second):
		_ = cmd.Process.Kill()
		ro.err = fmt.Errorf("race workload hung (killed)")
	}
	blocks := strings.Split(se.String(), "==================")
	for _, b := range blocks {
		if strings.Contains(b, "WARNING: DATA RACE") {
			ro.reports = append(ro.reports, strings.TrimSpace(b))
		}
	}
	for _, l := range strings.Split(so.String(), "\n") {
		switch {
		case strings.HasPrefix(l, "TRANSCRIPT-DIFFERS"), strings.HasPrefix(l, "FROZEN-REGISTRY-CHANGED"):
			ro.lines = append(ro.lines, l)
		case strings.HasPrefix(l, "DONE"):
			ro.done = l
		}
	}
	if ro.done == "" && ro.err == nil && len(ro.reports) == 0 {
		ro.err = fmt.Errorf("race workload did not finish: %s", tail(se.String(), 1500))
	}
	return ro
}

func tail(s string, n int) string {
	if len(s) > n {
		return s[len(s)-n:]
	}
	return s
}

// raceSite summarises a report by the gobl functions of its first two stacks.
func raceSite(rep string) string {
	var fns []string
	for _, l := range strings.Split(rep, "\n") {
		l = strings.TrimSpace(l)
		if strings.HasPrefix(l, "github.com/invopop/gobl/") {
			fn := strings.TrimPrefix(l, "github.com/invopop/gobl/")
			if j := strings.LastIndex(fn, "("); j > 0 {
				fn = fn[:j]
			}
			if len(fns) == 0 || fns[len(fns)-1] != fn {
				fns = append(fns, fn)
			}
			if len(fns) >= 3 {
				break
			}
		}
	}
	return strings.Join(fns, " <- ")
}

func reportRace(c *core.Ctx, ro raceOut, g, procs int, seed int64, cold string) {
	if ro.err != nil {
		c.TieBroken("racework", ro.err.Error(), nil)
		return
	}
	seen := map[string]bool{}
	for _, rep := range ro.reports {
		site := raceSite(rep)
		if seen[site] {
			continue
		}
		seen[site] = true
		c.Fail("", "DATA RACE reported by the race detector at "+site, rcase{Kind: "race", G: g, Procs: procs, Seed: seed, Cold: cold, Detail: rep})
	}
	for _, l := range ro.lines {
		c.Fail("", "race workload: "+l, rcase{Kind: "racework", G: g, Procs: procs, Seed: seed, Cold: cold, Detail: l})
	}
}

func raceRuns(c *core.Ctx, race string) {
	type cfg struct {
		g, procs, docs int
		budget         time.Duration
		cold           string // narrow first phase on the cold process (see cmd/racework)
	}
	cfgs := []cfg{{8, 0, 0, 40 * time.Second, "validate"}, {4, 2, 120, 20 * time.Second, "calculate"}}
	if c.Thorough() {
		cfgs = []cfg{{8, 0, 0, 90 * time.Second, "validate"}, {32, 0, 0, 120 * time.Second, "calculate"}, {4, 2, 0, 90 * time.Second, ""},
			{3, 1, 200, 60 * time.Second, "validate"}, {16, 4, 0, 90 * time.Second, "calculate"}, {16, 0, 0, 30 * time.Second, "validate"}}
	}
	for i, cf := range cfgs {
		seed := c.Seed*100 + int64(i)
		t := time.Now()
		ro := runRace(race, c.Repo, cf.g, cf.procs, seed, cf.budget, cf.docs, cf.cold)
		c.Eval(fmt.Sprintf("race:%d", i), true)
		c.Count(fmt.Sprintf("race.run.g=%d.procs=%d.cold=%s", cf.g, cf.procs, cf.cold), 1)
		c.Note("race run g=%d procs=%d cold=%q: %s in %.1fs, %d reports", cf.g, cf.procs, cf.cold, ro.done, time.Since(t).Seconds(), len(ro.reports))
		reportRace(c, ro, cf.g, cf.procs, seed, cf.cold)
	}
}

/* ---------- (1) bulk trace validation ---------- */

// poolItem is one request body (without req_id) and the canonical result of
// the standalone operation.
type poolItem struct {
	Action  string
	Payload json.RawMessage // nil = absent
	Want    string          // canonical "P:…" / "E:…"
	sleep   bool
}

func canonJSON(b []byte) string {
	var v any
	dec := json.NewDecoder(bytes.NewReader(b))
	dec.UseNumber()
	if err := dec.Decode(&v); err != nil {
		return "!" + string(b)
	}
	o, _ := json.Marshal(v)
	return string(o)
}

func b64(b []byte) string { return base64.StdEncoding.EncodeToString(b) }

type cliRes struct {
	out, errOut string
	code        int
}

func runCLI(gobl, home string, stdin []byte, args ...string) cliRes {
	cmd := exec.Command(gobl, args...)
	cmd.Env = append(os.Environ(), "HOME="+home)
	cmd.Stdin = bytes.NewReader(stdin)
	var so, se bytes.Buffer
	cmd.Stdout, cmd.Stderr = &so, &se
	err := cmd.Run()
	code := 0
	if err != nil {
		code = 1
		if ee, ok := err.(*exec.ExitError); ok {
			code = ee.ExitCode()
		}
	}
	return cliRes{so.String(), se.String(), code}
}

// canonPayload canonicalises a payload / error for comparison.
func canonOK(action string, payload []byte, pub *dsig.PublicKey) string {
	s := canonJSON(payload)
	if action == "keygen" {
		var kp struct {
			Private *dsig.PrivateKey `json:"private"`
			Public  *dsig.PublicKey  `json:"public"`
		}
		if json.Unmarshal(payload, &kp) == nil && kp.Private != nil && kp.Public != nil && kp.Private.Validate() == nil &&
			kp.Public.Validate() == nil && kp.Private.Public().Thumbprint() == kp.Public.Thumbprint() {
			return "P:KEYPAIR-OK"
		}
		return "P:keygen?" + s
	}
	if action == "sign" {
		// the signature is randomised: check it instead of comparing it
		var e struct {
			Sigs []*dsig.Signature `json:"sigs"`
			Head json.RawMessage   `json:"head"`
		}
		ok := "unsigned"
		if json.Unmarshal(payload, &e) == nil && len(e.Sigs) == 1 && e.Sigs[0] != nil {
			if _, err := e.Sigs[0].Verify(pub); err == nil {
				ok = "sig-verifies"
			} else {
				ok = "sig-bad"
			}
		}
		return "P:" + ok + ":" + conc.Canon(s)
	}
	return "P:" + conc.Canon(s)
}

func canonErr(e []byte) string { return "E:" + conc.Canon(canonJSON(e)) }

func buildPool(c *core.Ctx, gobl, home string, priv *dsig.PrivateKey, inputs, outputs []conc.Doc) []poolItem {
	pub := priv.Public()
	keyFile := filepath.Join(home, "key.jwk")
	pubFile := filepath.Join(home, "key.pub.jwk")
	pubJSON, _ := json.Marshal(pub)
	type job struct {
		item poolItem
		run  func() string // standalone result
	}
	var jobs []job
	add := func(action string, payload any, run func() string) {
		var raw json.RawMessage
		if payload != nil {
			raw, _ = json.Marshal(payload)
		}
		jobs = append(jobs, job{poolItem{Action: action, Payload: raw}, run})
	}
	cliJSON := func(action string, stdin []byte, args ...string) func() string {
		return func() string {
			r := runCLI(gobl, home, stdin, args...)
			if r.code == 0 {
				if strings.TrimSpace(r.out) == "" {
					return `P:{"ok":true}`
				}
				return canonOK(action, []byte(r.out), pub)
			}
			return canonErr([]byte(r.errOut))
		}
	}
	rng := c.Rng
	pick := func(ds []conc.Doc, n int) []conc.Doc {
		idx := rng.Perm(len(ds))
		if n > len(ds) {
			n = len(ds)
		}
		out := make([]conc.Doc, n)
		for i := 0; i < n; i++ {
			out[i] = ds[idx[i]]
		}
		return out
	}
	nb := c.Pick(14, 60)
	for _, d := range pick(inputs, nb) {
		d := d
		envelop := rng.Intn(2) == 0
		args := []string{"build"}
		if envelop {
			args = append(args, "-e")
		}
		add("build", map[string]any{"data": d.Data, "envelop": envelop}, cliJSON("build", d.Data, args...))
	}
	for _, d := range pick(outputs, nb) {
		d := d
		add("validate", map[string]any{"data": d.Data}, cliJSON("validate", d.Data, "validate"))
		add("replicate", map[string]any{"data": d.Data}, cliJSON("replicate", d.Data, "replicate"))
	}
	for _, d := range pick(inputs, nb/2) {
		d := d
		add("sign", map[string]any{"data": d.Data}, cliJSON("sign", d.Data, "sign", "-k", keyFile))
	}
	// verify: signed envelopes (made with the CLI), good key / other key / unsigned
	other := dsig.NewES256Key().Public()
	otherJSON, _ := json.Marshal(other)
	otherFile := filepath.Join(home, "other.pub.jwk")
	_ = os.WriteFile(otherFile, otherJSON, 0o644)
	for _, d := range pick(inputs, nb/2) {
		d := d
		r := runCLI(gobl, home, d.Data, "sign", "-k", keyFile)
		if r.code != 0 {
			continue
		}
		signed := []byte(r.out)
		add("verify", map[string]any{"data": signed, "publickey": json.RawMessage(pubJSON)}, cliJSON("verify", signed, "verify", "-k", pubFile))
		if rng.Intn(2) == 0 {
			add("verify", map[string]any{"data": signed, "publickey": json.RawMessage(otherJSON)}, cliJSON("verify", signed, "verify", "-k", otherFile))
		}
	}
	for _, d := range pick(outputs, 3) {
		d := d
		add("verify", map[string]any{"data": d.Data, "publickey": json.RawMessage(pubJSON)}, cliJSON("verify", d.Data, "verify", "-k", pubFile))
	}
	// correct: invoices with several option sets
	var invs []conc.Doc
	for _, d := range outputs {
		if conc.IsInvoice(d.Data) {
			invs = append(invs, d)
		}
	}
	optsets := []string{`{"type":"credit-note"}`, `{"type":"credit-note","reason":"r","ext":{"es-facturae-correction":"01"}}`, `{"type":"corrective","reason":"x"}`, `{"type":"debit-note"}`, `{"type":"nonsense"}`, `{}`}
	for _, d := range pick(invs, nb) {
		d := d
		o := optsets[rng.Intn(len(optsets))]
		add("correct", map[string]any{"data": d.Data, "options": []byte(o)}, cliJSON("correct", d.Data, "correct", "-d", o))
	}
	for _, d := range pick(invs, 2) {
		d := d
		add("correct", map[string]any{"data": d.Data, "schema": true}, cliJSON("correct", d.Data, "correct", "--options"))
	}
	// data files
	readData := func(rel string) func() string {
		return func() string {
			b, err := os.ReadFile(filepath.Join(c.Repo, "data", rel))
			if err != nil {
				return "E:nofile"
			}
			return "P:" + conc.Canon(canonJSON(b))
		}
	}
	for _, p := range []string{"bill/invoice", "bill/invoice.json", "envelope", "tax/regime-def", "org/party", "pay/terms", "note/message"} {
		rel := p
		if filepath.Ext(rel) == "" {
			rel += ".json"
		}
		add("schema", map[string]any{"path": p}, readData(filepath.Join("schemas", rel)))
	}
	for _, code := range []string{"ES", "pt", "MX", "it", "gb", "DE"} {
		add("regime", map[string]any{"code": code}, readData(filepath.Join("regimes", strings.ToLower(code)+".json")))
	}
	// fixed answers
	fixed := func(s string) func() string { return func() string { return s } }
	add("ping", nil, fixed(`P:{"pong":true}`))
	add("ping", map[string]any{"x": 1}, fixed(`P:{"pong":true}`))
	add("keygen", nil, fixed("P:KEYPAIR-OK"))
	{
		var ids []string
		for _, id := range schema.List() {
			ids = append(ids, id.String())
		}
		sort.Strings(ids)
		b, _ := json.Marshal(map[string]any{"list": ids})
		add("schemas", nil, fixed("P:"+canonJSON(b)))
	}
	// error answers whose text is fixed by bulk.go itself (no standalone command): the
	// oracle is that repeated, isolated single-request streams give the same answer
	errItems := []poolItem{
		{Action: "nonsense"}, {Action: ""}, {Action: "schema", Payload: json.RawMessage(`{"path":"no/such"}`)},
		{Action: "regime", Payload: json.RawMessage(`{"code":"zz"}`)}, {Action: "sleep", Payload: json.RawMessage(`"soon"`)},
		{Action: "sleep", Payload: json.RawMessage(`5`)}, {Action: "build", Payload: json.RawMessage(`5`)},
		{Action: "build", Payload: json.RawMessage(`{"data":"bm90IGpzb24="}`)}, {Action: "validate", Payload: json.RawMessage(`{"data":"e30="}`)},
		{Action: "verify", Payload: json.RawMessage(`{"data":"e30="}`)}, {Action: "correct", Payload: json.RawMessage(`{"data":"e30=","options":"e30="}`)},
		{Action: "replicate", Payload: json.RawMessage(`"x"`)}, {Action: "sign", Payload: json.RawMessage(`{"data":"e30="}`)},
	}
	// run the standalone operations in parallel
	items := make([]poolItem, len(jobs))
	var wg sync.WaitGroup
	sem := make(chan struct{}, 12)
	for i := range jobs {
		wg.Add(1)
		go func(i int) {
			defer wg.Done()
			sem <- struct{}{}
			items[i] = jobs[i].item
			items[i].Want = jobs[i].run()
			<-sem
		}(i)
	}
	wg.Wait()
	for _, it := range items {
		c.Count("pool."+it.Action+"."+it.Want[:1], 1)
	}
	for _, e := range errItems {
		e.Want = "" // filled by the isolated single-request run
		items = append(items, e)
	}
	return items
}

type server struct {
	cmd   *exec.Cmd
	url   string
	procs int
	log   *bytes.Buffer
}

func startServer(gobl, home string, procs int) (*server, error) {
	for attempt := 0; attempt < 5; attempt++ {
		l, err := net.Listen("tcp", "127.0.0.1:0")
		if err != nil {
			return nil, err
		}
		port := l.Addr().(*net.TCPAddr).Port
		_ = l.Close()
		cmd := exec.Command(gobl, "serve", "-p", fmt.Sprint(port), "-k", filepath.Join(home, "key.jwk"))
		cmd.Env = append(os.Environ(), "HOME="+home, fmt.Sprintf("GOMAXPROCS=%d", procs))
		var lg bytes.Buffer
		cmd.Stdout, cmd.Stderr = &lg, &lg
		if err := cmd.Start(); err != nil {
			return nil, err
		}
		s := &server{cmd: cmd, url: fmt.Sprintf("http://127.0.0.1:%d", port), procs: procs, log: &lg}
		ok := false
		for i := 0; i < 100; i++ {
			time.Sleep(30 * time.Millisecond)
			resp, err := http.Get(s.url + "/")
			if err == nil {
				b, _ := io.ReadAll(resp.Body)
				_ = resp.Body.Close()
				if strings.Contains(string(b), "gobl") {
					ok = true
					break
				}
			}
		}
		if ok {
			return s, nil
		}
		s.stop()
	}
	return nil, fmt.Errorf("gobl serve did not come up")
}

func (s *server) stop() {
	if s.cmd != nil && s.cmd.Process != nil {
		_ = s.cmd.Process.Kill()
		_, _ = s.cmd.Process.Wait()
	}
}

type obsResp struct {
	ReqID   string          `json:"req_id"`
	SeqID   int64           `json:"seq_id"`
	Payload json.RawMessage `json:"payload"`
	Error   json.RawMessage `json:"error"`
	IsFinal bool            `json:"is_final"`
}

type slowReader struct {
	chunks [][]byte
	delay  time.Duration
	i      int
}

func (r *slowReader) Read(p []byte) (int, error) {
	for r.i < len(r.chunks) && len(r.chunks[r.i]) == 0 {
		r.i++
		time.Sleep(r.delay)
	}
	if r.i >= len(r.chunks) {
		return 0, io.EOF
	}
	n := copy(p, r.chunks[r.i])
	r.chunks[r.i] = r.chunks[r.i][n:]
	return n, nil
}

// post sends a stream and parses the response stream.
func (s *server) post(body []byte, slow, keepAlive bool, rng *rand.Rand) ([]obsResp, string, error) {
	var rd io.Reader = bytes.NewReader(body)
	if slow && len(body) > 4 {
		// cut the body at random places (also inside a JSON value) and trickle it
		var chunks [][]byte
		rest := body
		for len(rest) > 0 && len(chunks) < 6 {
			n := 1 + rng.Intn(len(rest))
			chunks = append(chunks, append([]byte{}, rest[:n]...))
			rest = rest[n:]
		}
		if len(rest) > 0 {
			chunks = append(chunks, append([]byte{}, rest...))
		}
		rd = &slowReader{chunks: chunks, delay: time.Duration(1+rng.Intn(8)) * time.Millisecond}
	}
	req, err := http.NewRequest("POST", s.url+"/bulk", rd)
	if err != nil {
		return nil, "", err
	}
	if slow && rng.Intn(2) == 0 {
		req.ContentLength = int64(len(body))
	}
	// Without "Connection: close" the net/http server drains the unread request
	// body when the first response chunk is flushed (HTTP/1.1, no full duplex):
	// that is the listed finding c15.bulkHttp1KeepAlive.  With it the body is
	// left to the bulk reader and the dispatcher is observed undisturbed.
	req.Close = !keepAlive
	cl := &http.Client{Timeout: 120 * time.Second, Transport: &http.Transport{DisableKeepAlives: !keepAlive}}
	defer cl.CloseIdleConnections()
	resp, err := cl.Do(req)
	if err != nil {
		return nil, "", err
	}
	defer resp.Body.Close() //nolint:errcheck
	raw, err := io.ReadAll(resp.Body)
	if err != nil {
		return nil, string(raw), err
	}
	var out []obsResp
	dec := json.NewDecoder(bytes.NewReader(raw))
	for {
		var o obsResp
		if err := dec.Decode(&o); err == io.EOF {
			break
		} else if err != nil {
			return out, string(raw), fmt.Errorf("response stream is not a sequence of JSON objects: %v", err)
		}
		out = append(out, o)
	}
	return out, string(raw), nil
}

func h16(s string) string {
	h := sha256.Sum256([]byte(s))
	return hex.EncodeToString(h[:8])
}

type streamReq struct {
	item  int
	reqID string
}

type stream struct {
	body    []byte
	reqs    []streamReq
	want    []string // canonical expected result per request
	tail    string   // eof | bad
	tailID  string
	actions []string
}

// mirror of BulkRequest for predicting what a failed decode leaves in req_id
type mirrorReq struct {
	Action  string          `json:"action"`
	ReqID   string          `json:"req_id"`
	Payload json.RawMessage `json:"payload"`
	Indent  bool            `json:"indent"`
}

func genStream(rng *rand.Rand, pool []poolItem, maxN int) stream {
	var st stream
	n := rng.Intn(maxN + 1)
	if rng.Intn(10) == 0 {
		n = 0
	}
	var sb bytes.Buffer
	seps := []string{"\n", "", " ", "\n\n", "\t\n", "\r\n"}
	dupIDs := rng.Intn(6) == 0
	for i := 0; i < n; i++ {
		var it poolItem
		idx := -1
		if rng.Intn(4) == 0 {
			// latency
			ms := rng.Intn(40)
			it = poolItem{Action: "sleep", Payload: json.RawMessage(fmt.Sprintf(`"%dms"`, ms)), Want: `P:{"sleep":"done"}`}
		} else {
			idx = rng.Intn(len(pool))
			it = pool[idx]
		}
		id := fmt.Sprintf("r%d-%x", i, rng.Intn(1<<16))
		switch {
		case dupIDs:
			id = fmt.Sprintf("same%d", rng.Intn(2))
		case rng.Intn(12) == 0:
			id = ""
		case rng.Intn(12) == 0:
			id = "π \"quoted\" \\ " + fmt.Sprint(i)
		}
		m := map[string]any{"action": it.Action}
		if id != "" || rng.Intn(2) == 0 {
			m["req_id"] = id
		}
		if it.Payload != nil {
			m["payload"] = it.Payload
		}
		if rng.Intn(5) == 0 {
			m["indent"] = true
		}
		b, _ := json.Marshal(m)
		sb.Write(b)
		sb.WriteString(seps[rng.Intn(len(seps))])
		st.reqs = append(st.reqs, streamReq{idx, id})
		st.want = append(st.want, it.Want)
		st.actions = append(st.actions, it.Action)
	}
	st.tail = "eof"
	if rng.Intn(4) == 0 {
		st.tail = "bad"
		bads := []string{"not json", `{"action":"ping","req_id":"half`, `{"req_id":"tid","action":5}`, `[1,2]`, `{"action":"ping","req_id":7}`, `}`, `{"req_id":"tid2","indent":"yes","action":"ping"}`, "\x00"}
		bad := bads[rng.Intn(len(bads))]
		var m mirrorReq
		_ = json.NewDecoder(strings.NewReader(bad)).Decode(&m)
		st.tailID = m.ReqID
		sb.WriteString(bad)
		// whatever follows the first undecodable value is never read
		sb.WriteString("\n" + `{"action":"ping","req_id":"after"}` + "\n")
	}
	st.body = sb.Bytes()
	return st
}

// judge sends the observation to the Lean acceptor.
func modelReq(st stream, obs []obsResp, pub *dsig.PublicKey) string {
	var sb strings.Builder
	fmt.Fprintf(&sb, "trace 1 %s %s %d", st.tail, core.Hex(st.tailID), len(st.reqs))
	for i, r := range st.reqs {
		fmt.Fprintf(&sb, " %s %s", core.Hex(r.reqID), core.Hex(h16(st.want[i])))
	}
	fmt.Fprintf(&sb, " %d", len(obs))
	for _, o := range obs {
		pl := "~"
		if !o.IsFinal {
			pl = core.Hex(h16(canonObs(o, st, pub)))
		}
		fin, er := 0, 0
		if o.IsFinal {
			fin = 1
			if len(o.Error) > 0 && string(o.Error) != "null" {
				er = 1
			}
			if len(o.Payload) > 0 {
				pl = core.Hex("final-with-payload")
			}
		}
		fmt.Fprintf(&sb, " %s %d %s %d %d", core.Hex(o.ReqID), o.SeqID, pl, fin, er)
	}
	return sb.String()
}

func canonObs(o obsResp, st stream, pub *dsig.PublicKey) string {
	action := ""
	if o.SeqID >= 1 && int(o.SeqID) <= len(st.actions) {
		action = st.actions[o.SeqID-1]
	}
	if len(o.Error) > 0 && string(o.Error) != "null" {
		return canonErr(o.Error)
	}
	return canonOK(action, o.Payload, pub)
}

func bulkTraces(c *core.Ctx, gobl string, inputs, outputs []conc.Doc) {
	home, err := os.MkdirTemp("", "c15-home-")
	if err != nil {
		c.TieBroken("bulk", err.Error(), nil)
		return
	}
	defer os.RemoveAll(home) //nolint:errcheck
	if r := runCLI(gobl, home, nil, "keygen", filepath.Join(home, "key.jwk")); r.code != 0 {
		c.TieBroken("bulk", "gobl keygen failed: "+r.errOut, nil)
		return
	}
	kb, _ := os.ReadFile(filepath.Join(home, "key.jwk"))
	priv := new(dsig.PrivateKey)
	if err := json.Unmarshal(kb, priv); err != nil {
		c.TieBroken("bulk", "key file: "+err.Error(), nil)
		return
	}
	// does this binary have a `bulk` command at all?
	if r := runCLI(gobl, home, nil, "bulk"); r.code != 0 {
		c.Note("`gobl bulk` (stdin/stdout) is not a command of this binary (cmd/gobl/root.go does not register bulkOpts): exit %d; only POST /bulk is driven", r.code)
		c.Count("bulk.stdin-command-absent(skipped)", 1)
	} else {
		c.Note("`gobl bulk` exists: driven as well")
	}
	hasBulkCmd := runCLI(gobl, home, nil, "bulk").code == 0

	pool := buildPool(c, gobl, home, priv, inputs, outputs)
	pub := priv.Public()

	// isolated single-request streams: fill the fixed-text error answers and
	// check every pool item alone (sequential, no concurrency) first
	srv, err := startServer(gobl, home, 2)
	if err != nil {
		c.TieBroken("bulk", err.Error(), nil)
		return
	}
	for i := range pool {
		m := map[string]any{"action": pool[i].Action, "req_id": "solo"}
		if pool[i].Payload != nil {
			m["payload"] = pool[i].Payload
		}
		b, _ := json.Marshal(m)
		obs, raw, err := srv.post(b, false, false, c.Rng)
		if err != nil || len(obs) != 2 {
			c.Fail("", fmt.Sprintf("single-request bulk stream for action %q did not give one reply and a final marker: %v %s", pool[i].Action, err, tail(raw, 300)),
				rcase{Kind: "bulk", Procs: 2, Stream: b64(b)})
			srv.stop()
			return
		}
		st := stream{actions: []string{pool[i].Action}}
		got := canonObs(obs[0], st, pub)
		if pool[i].Want == "" {
			pool[i].Want = got
			c.Count("pool."+pool[i].Action+".fixed-error", 1)
			continue
		}
		c.Eval("solo:"+pool[i].Action, false)
		if got != pool[i].Want {
			c.Fail("", fmt.Sprintf("bulk %s payload differs from the standalone operation: %s", pool[i].Action, firstDiff(pool[i].Want, got)),
				rcase{Kind: "bulk", Procs: 2, Stream: b64(b), Detail: map[string]string{"standalone": pool[i].Want, "bulk": got}})
			pool[i].Want = got // keep going; reported once
		}
	}
	srv.stop()

	nStreams := c.Pick(40, 400)
	maxN := c.Pick(30, 60)
	type pending struct {
		st   stream
		obs  []obsResp
		raw  string
		proc int
		slow bool
		via  string
	}
	const viaKeepAlive = "http-keepalive"
	var all []pending
	for _, procs := range []int{1, 2, 16} {
		srv, err := startServer(gobl, home, procs)
		if err != nil {
			c.TieBroken("bulk", err.Error(), nil)
			return
		}
		// a few streams at the same time on one server: requests of different
		// connections interleave as well
		par := 3
		var wg sync.WaitGroup
		var mu sync.Mutex
		seeds := make([]int64, nStreams)
		for i := range seeds {
			seeds[i] = c.Rng.Int63()
		}
		sem := make(chan struct{}, par)
		for i := 0; i < nStreams; i++ {
			wg.Add(1)
			sem <- struct{}{}
			go func(i int) {
				defer wg.Done()
				defer func() { <-sem }()
				rng := rand.New(rand.NewSource(seeds[i]))
				st := genStream(rng, pool, maxN)
				slow := rng.Intn(3) == 0
				keep := rng.Intn(5) == 0
				via := "http-connection-close"
				if keep {
					via = viaKeepAlive
				}
				obs, raw, err := srv.post(st.body, slow, keep, rng)
				if err != nil {
					mu.Lock()
					c.Fail("", fmt.Sprintf("POST /bulk failed (GOMAXPROCS=%d): %v; server log: %s", procs, err, tail(srv.log.String(), 600)),
						rcase{Kind: "bulk", Procs: procs, Stream: b64(st.body), Slow: slow, KeepAlive: keep})
					mu.Unlock()
					return
				}
				mu.Lock()
				all = append(all, pending{st, obs, raw, procs, slow, via})
				mu.Unlock()
			}(i)
		}
		wg.Wait()
		if srv.cmd.ProcessState != nil {
			c.Fail("", fmt.Sprintf("gobl serve died (GOMAXPROCS=%d): %s", procs, tail(srv.log.String(), 1500)), rcase{Kind: "bulk", Procs: procs, Detail: tail(srv.log.String(), 4000)})
		}
		if strings.Contains(srv.log.String(), "panic") {
			c.Note("server log mentions a panic (GOMAXPROCS=%d): %s", procs, tail(srv.log.String(), 800))
		}
		srv.stop()
		if hasBulkCmd {
			for i := 0; i < nStreams/4; i++ {
				st := genStream(c.Rng, pool, maxN)
				cmd := exec.Command(gobl, "bulk")
				cmd.Env = append(os.Environ(), "HOME="+home, fmt.Sprintf("GOMAXPROCS=%d", procs))
				cmd.Stdin = bytes.NewReader(st.body)
				out, err := cmd.Output()
				if err != nil {
					c.Fail("", fmt.Sprintf("gobl bulk exited with %v", err), rcase{Kind: "bulk", Procs: procs, Stream: b64(st.body)})
					continue
				}
				var obs []obsResp
				dec := json.NewDecoder(bytes.NewReader(out))
				for {
					var o obsResp
					if dec.Decode(&o) != nil {
						break
					}
					obs = append(obs, o)
				}
				all = append(all, pending{st, obs, string(out), procs, false, "stdin"})
			}
		}
	}
	// judge all streams with the Lean acceptor
	reqs := make([]string, len(all))
	for i, p := range all {
		reqs[i] = modelReq(p.st, p.obs, pub)
	}
	resps, err := c.Model(reqs)
	if err != nil {
		c.TieBroken("model", err.Error(), nil)
		return
	}
	for i, p := range all {
		n := len(p.st.reqs)
		reordered := false
		for k := 0; k+1 < len(p.obs); k++ {
			if p.obs[k].SeqID > p.obs[k+1].SeqID {
				reordered = true
			}
		}
		c.Eval(fmt.Sprintf("stream:%d:%d", p.proc, i), n >= 2 && (reordered || p.st.tail == "bad"))
		c.Count(fmt.Sprintf("stream.gomaxprocs=%d", p.proc), 1)
		c.Count("stream.requests", int64(n))
		if reordered {
			c.Count("stream.answered-out-of-order", 1)
		}
		if p.st.tail == "bad" {
			c.Count("stream.ends-with-undecodable-value", 1)
		}
		if p.slow {
			c.Count("stream.trickled-body", 1)
		}
		c.Count("stream.via."+p.via, 1)
		if n == 0 {
			c.Count("stream.empty", 1)
		}
		if i < 2 {
			c.Sample(map[string]any{"gomaxprocs": p.proc, "requests": n, "tail": p.st.tail, "seq_order": seqOrder(p.obs), "lean": resps[i]})
		}
		if resps[i] == "ok accept" {
			continue
		}
		detail := map[string]any{"lean": resps[i], "seq_order": seqOrder(p.obs), "requests": n, "tail": p.st.tail, "via": p.via}
		if strings.Contains(resps[i], "payload-differs") {
			for _, o := range p.obs {
				if !o.IsFinal && o.SeqID >= 1 && int(o.SeqID) <= n {
					if got := canonObs(o, p.st, pub); got != p.st.want[o.SeqID-1] {
						detail["first_payload_difference"] = map[string]any{"seq": o.SeqID, "action": p.st.actions[o.SeqID-1], "diff": firstDiff(p.st.want[o.SeqID-1], got)}
						break
					}
				}
			}
		}
		if !strings.HasPrefix(resps[i], "ok reject") {
			c.TieBroken("driver", "unexpected model answer: "+resps[i], detail)
			continue
		}
		// named classifier over the INPUT: the stream was POSTed on a keep-alive
		// HTTP/1.1 connection (see post)
		cls := ""
		if p.via == viaKeepAlive {
			cls = "c15.bulkHttp1KeepAlive"
		}
		c.Fail(cls, fmt.Sprintf("bulk response stream rejected by the acceptor (%s; GOMAXPROCS=%d, %d requests, tail %s)", strings.TrimPrefix(resps[i], "ok reject "), p.proc, n, p.st.tail),
			rcase{Kind: "bulk", Procs: p.proc, Stream: b64(p.st.body), Slow: p.slow, KeepAlive: p.via == viaKeepAlive, Detail: detail})
	}
}

func seqOrder(obs []obsResp) []int64 {
	var o []int64
	for _, r := range obs {
		o = append(o, r.SeqID)
	}
	return o
}

/* ---------- replay ---------- */

func replay(c *core.Ctx, rc rcase, gobl, race string, before *conc.Snapshot) {
	if len(rc.Hook) > 0 {
		replayHook(c, rc, race)
		return
	}
	switch rc.Kind {
	case "kid":
		if rc.Kid != nil {
			runKid(c, *rc.Kid, gobl, nil)
		}
	case "tiny":
		replayTiny(c, rc)
	case "equiv":
		d := conc.Doc{Name: rc.Name, Data: []byte(rc.Data)}
		seq := conc.Pipeline(d)
		g := rc.G
		if g == 0 {
			g = 8
		}
		var wg sync.WaitGroup
		var mu sync.Mutex
		bad := ""
		for k := 0; k < g; k++ {
			wg.Add(1)
			go func() {
				defer wg.Done()
				for i := 0; i < 200; i++ {
					if tr := conc.Pipeline(d); tr != seq {
						mu.Lock()
						bad = tr
						mu.Unlock()
					}
				}
			}()
		}
		wg.Wait()
		c.Eval("replay", true)
		if bad != "" {
			c.Fail("", "result of a goroutine differs from the sequential result: "+firstDiff(seq, bad), rc)
		}
	case "frozen":
		var det struct {
			Candidates []map[string]string `json:"candidates"`
		}
		b, _ := json.Marshal(rc.Detail)
		_ = json.Unmarshal(b, &det)
		last := before
		for _, cd := range det.Candidates {
			conc.Pipeline(conc.Doc{Name: cd["name"], Data: []byte(cd["data"])})
			now := conc.Snap()
			c.Eval("replay", true)
			if now.Digest != last.Digest {
				c.Fail("", "a shared definition changed while processing "+cd["name"]+": "+strings.Join(last.Diff(now, 4), " ;; "), rc)
				last = now
			}
		}
	case "race", "racework":
		ro := runRace(race, c.Repo, rc.G, rc.Procs, rc.Seed, 60*time.Second, 0, rc.Cold)
		c.Eval("replay", true)
		reportRace(c, ro, rc.G, rc.Procs, rc.Seed, rc.Cold)
	case "bulk":
		home, _ := os.MkdirTemp("", "c15-home-")
		defer os.RemoveAll(home) //nolint:errcheck
		runCLI(gobl, home, nil, "keygen", filepath.Join(home, "key.jwk"))
		body, _ := base64.StdEncoding.DecodeString(rc.Stream)
		procs := rc.Procs
		if procs == 0 {
			procs = 2
		}
		srv, err := startServer(gobl, home, procs)
		if err != nil {
			c.TieBroken("bulk", err.Error(), nil)
			return
		}
		defer srv.stop()
		for i := 0; i < 5; i++ {
			obs, raw, err := srv.post(body, rc.Slow, rc.KeepAlive, c.Rng)
			c.Eval("replay", true)
			fmt.Fprintf(os.Stderr, "replay %d: err=%v seq order %v\n%s\n", i, err, seqOrder(obs), tail(raw, 2000))
			// structural judgement without the pool: count decodable requests
			n := 0
			dec := json.NewDecoder(bytes.NewReader(body))
			for {
				var m mirrorReq
				if dec.Decode(&m) != nil {
					break
				}
				n++
			}
			seen := map[int64]int{}
			finals := 0
			for k, o := range obs {
				if o.IsFinal {
					finals++
					if k != len(obs)-1 || int(o.SeqID) != n+1 {
						c.Fail("", "final marker not last / wrong seq", rc)
					}
				} else {
					seen[o.SeqID]++
				}
			}
			for k := 1; k <= n; k++ {
				if seen[int64(k)] != 1 {
					c.Fail("", fmt.Sprintf("request %d answered %d times", k, seen[int64(k)]), rc)
				}
			}
			if finals != 1 {
				c.Fail("", fmt.Sprintf("%d final markers", finals), rc)
			}
		}
	}
}
