package c15

// Phase (2b): SMALL documents derived from the schema registry (internal/conc/tiny.go) under
// the result-stability relation (sequential) and goroutine = sequential, for every
// marshalling entry point.

import (
	"fmt"
	"runtime"
	"time"

	"verifharness/internal/conc"
	"verifharness/internal/core"
)

func failTiny(c *core.Ctx, p conc.TinyProblem) {
	pp := p
	c.Fail("", fmt.Sprintf("small documents (%s, %s): %s", p.Relation, p.Schema, p.What), rcase{Kind: "tiny", Name: p.Relation + " | " + p.Entry, G: p.G, Procs: p.Procs, Tiny: &pp})
}

func tinyDocuments(c *core.Ctx) {
	t0 := time.Now()
	docs := conc.TinyDocs(c.Pick(24, 0))
	per := map[string]int{}
	envs := 0
	for _, d := range docs {
		per[d.Schema]++
		if d.Env != "" {
			envs++
		}
		body := len(d.Text) - len(d.Schema) - 14 // what follows {"$schema":"<id>",
		switch {
		case body <= 12:
			c.Count("small.body<=12 bytes", 1)
		case body <= 16:
			c.Count("small.body<=16 bytes", 1)
		case body <= 32:
			c.Count("small.body<=32 bytes", 1)
		default:
			c.Count("small.body>32 bytes", 1)
		}
		c.Eval("small:"+d.Text, true)
	}
	c.Count("small.documents", int64(len(docs)))
	c.Count("small.schemas", int64(len(per)))
	c.Count("small.documents-with-an-envelope", int64(envs))
	want, probs := conc.TinyWant(docs)
	nfail := map[string]int{}
	report := func(ps []conc.TinyProblem) {
		for _, p := range ps {
			// one line per relation: core keeps five violations per run, the other phases must get theirs
			c.Count("small.problems."+p.Relation, 1)
			if nfail[p.Relation]++; nfail[p.Relation] <= 1 {
				failTiny(c, p)
			}
		}
	}
	report(probs)
	ps, held := conc.TinyStability(docs, want)
	c.Count("small.results-held-and-compared-again(sequential)", int64(held))
	report(ps)
	old := runtime.GOMAXPROCS(0)
	defer runtime.GOMAXPROCS(old)
	for _, cf := range [][2]int{{4, 1}, {8, 2}, {32, 16}} {
		runtime.GOMAXPROCS(cf[1])
		ps, n := conc.TinyConcurrent(docs, want, cf[0], c.Pick(4, 30))
		c.Count(fmt.Sprintf("small.concurrent.goroutines=%d.gomaxprocs=%d.results", cf[0], cf[1]), n)
		for i := int64(0); i < n; i += 16 {
			c.Eval("", false)
		}
		report(ps)
	}
	runtime.GOMAXPROCS(old)
	c.Note("small documents: %d of %d schemas, %d entry points, in %.1fs", len(docs), len(per), 7, time.Since(t0).Seconds())
}

func replayTiny(c *core.Ctx, rc rcase) {
	if rc.Tiny == nil || len(rc.Tiny.Docs) == 0 {
		c.TieBroken("replay", "no documents in the case", nil)
		return
	}
	docs := rc.Tiny.Docs
	want, probs := conc.TinyWant(docs)
	c.Eval("replay", true)
	for _, p := range probs {
		failTiny(c, p)
		return
	}
	if ps, _ := conc.TinyStability(docs, want); len(ps) > 0 {
		failTiny(c, ps[0])
		return
	}
	g := rc.G
	if g == 0 {
		g = 16
	}
	if rc.Procs > 0 {
		old := runtime.GOMAXPROCS(rc.Procs)
		defer runtime.GOMAXPROCS(old)
	}
	for i := 0; i < 5; i++ {
		if ps, _ := conc.TinyConcurrent(docs, want, g, 200); len(ps) > 0 {
			failTiny(c, ps[0])
			return
		}
	}
}
