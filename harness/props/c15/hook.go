package c15

// The phases that call the command line operations and the bulk dispatcher
// IN-PROCESS through github.com/invopop/gobl/verifhook (internal/conchook):
//
//	(5) in-process bulk streams over a reader the harness controls: every kind
//	    of ending (clean, syntax error, wrongly typed member, cut inside a value
//	    at every class of offset, failing reader) with document operations still
//	    in flight; judged by the Lean acceptor AND payload = standalone result
//	    computed sequentially beforehand AND the pinned final marker;
//	(6) the cancellation workload: operations cancelled while their input read
//	    is pending next to independent operations, whose results must equal
//	    their sequential results;
//	(7) both again under the race detector (`racework -hook all`, cold process).

import (
	"bytes"
	"encoding/json"
	"fmt"
	"math/rand"
	"os"
	"os/exec"
	"strings"
	"time"

	"verifharness/internal/conc"
	"verifharness/internal/conchook"
	"verifharness/internal/core"
)

type hookCase struct {
	Stream *conchook.Stream    `json:"stream,omitempty"`
	Cancel *conchook.CancelCfg `json:"cancel,omitempty"`
	Size   string              `json:"size,omitempty"`
	// the operations of the cancellation workload are made from (OpsSeed, Per)
	OpsSeed int64 `json:"ops_seed,omitempty"`
	Per     int   `json:"per,omitempty"`
}

func hookRaw(h hookCase) json.RawMessage { b, _ := json.Marshal(h); return b }

func hookPer(c *core.Ctx) int { return c.Pick(6, 14) }

func hookSize(c *core.Ctx) string {
	if c.Thorough() {
		return "thorough"
	}
	return "quick"
}

/* ---------- (7) under the race detector, in the background ---------- */

type hookRace struct {
	done chan struct{}
	so   bytes.Buffer
	se   bytes.Buffer
	err  error
	t0   time.Time
	seed int64
	size string
}

func startHookRace(c *core.Ctx, race string) *hookRace {
	h := &hookRace{done: make(chan struct{}), t0: time.Now(), seed: c.Seed, size: hookSize(c)}
	cmd := exec.Command(race, "-hook", "all", "-repo", c.Repo, "-seed", fmt.Sprint(h.seed), "-size", h.size)
	cmd.Env = append(os.Environ(), "GORACE=halt_on_error=0 history_size=3")
	cmd.Stdout, cmd.Stderr = &h.so, &h.se
	if err := cmd.Start(); err != nil {
		h.err = err
		close(h.done)
		return h
	}
	go func() {
		defer close(h.done)
		w := make(chan error, 1)
		go func() { w <- cmd.Wait() }()
		select {
		case <-w: // exit status 66 = races were reported
		case <-time.After(20 * time.Minute):
			_ = cmd.Process.Kill()
			h.err = fmt.Errorf("racework -hook hung (killed)")
		}
	}()
	return h
}

func (h *hookRace) finish(c *core.Ctx) {
	<-h.done
	if h.err != nil {
		c.TieBroken("racework-hook", h.err.Error(), nil)
		return
	}
	rc := rcase{Kind: "race", Seed: h.seed, Hook: hookRaw(hookCase{Size: h.size})}
	seen := map[string]bool{}
	nrep := 0
	for _, b := range strings.Split(h.se.String(), "==================") {
		if !strings.Contains(b, "WARNING: DATA RACE") {
			continue
		}
		nrep++
		site := raceSite(b)
		if seen[site] || len(seen) >= 2 {
			continue
		}
		seen[site] = true
		r := rc
		r.Detail = strings.TrimSpace(b)
		c.Fail("", "DATA RACE reported by the race detector in the in-process bulk / cancellation workload at "+site, r)
	}
	var traces []string
	goBad := 0
	doneLine := ""
	nprob := 0
	for _, l := range strings.Split(h.so.String(), "\n") {
		switch {
		case strings.HasPrefix(l, "HOOK-PROBLEM "):
			var p conchook.Problem
			if json.Unmarshal([]byte(strings.TrimPrefix(l, "HOOK-PROBLEM ")), &p) != nil {
				c.TieBroken("racework-hook", "unreadable problem line", l)
				continue
			}
			goBad++
			if nprob++; nprob > 2 {
				continue
			}
			failProblem(c, p, "under the race detector: ", map[string]int{"quick": 6, "thorough": 14}[h.size])
		case strings.HasPrefix(l, "HOOK-TRACE "):
			traces = append(traces, strings.TrimPrefix(l, "HOOK-TRACE "))
		case strings.HasPrefix(l, "HOOK-COUNT "):
			f := strings.SplitN(strings.TrimPrefix(l, "HOOK-COUNT "), "\t", 2)
			var n int64
			if len(f) == 2 {
				_, _ = fmt.Sscan(f[1], &n)
				c.Count("race."+f[0], n)
			}
		case strings.HasPrefix(l, "HOOK-GENERATOR-ERROR"), strings.HasPrefix(l, "ERROR"):
			c.TieBroken("racework-hook", l, nil)
		case strings.HasPrefix(l, "DONE"):
			doneLine = l
		}
	}
	if doneLine == "" && nrep == 0 {
		c.TieBroken("racework-hook", "racework -hook did not finish: "+tail(h.se.String(), 1500), nil)
		return
	}
	c.Eval("race:hook", true)
	c.Count("race.run.hook(in-process bulk + cancellation workload)", 1)
	c.Note("race run -hook all: %s, %d reports (wall %.1fs, in the background)", doneLine, nrep, time.Since(h.t0).Seconds())
	// the acceptor on the traces observed under the race detector
	resps, err := c.Model(traces)
	if err != nil {
		c.TieBroken("model", err.Error(), nil)
		return
	}
	rejected := 0
	for i, r := range resps {
		c.Eval("", false)
		if r == "ok accept" {
			continue
		}
		rejected++
		if !strings.HasPrefix(r, "ok reject") {
			c.TieBroken("driver", "unexpected model answer: "+r, traces[i])
		}
	}
	c.Count("race.hook.bulk.streams-judged-by-the-acceptor", int64(len(resps)))
	if rejected > 0 && goBad == 0 {
		// the Go-side judge of racework demands everything the acceptor demands
		c.TieBroken("racework-hook", fmt.Sprintf("the acceptor rejects %d response streams observed under the race detector which the Go-side judge accepted", rejected), nil)
	}
}

func failProblem(c *core.Ctx, p conchook.Problem, prefix string, per int) {
	switch {
	case p.Stream != nil:
		c.Fail("", prefix+p.What, rcase{Kind: "hookbulk", Procs: p.Procs, Hook: hookRaw(hookCase{Stream: p.Stream})})
	case p.Cancel != nil:
		var cfg conchook.CancelCfg
		b, _ := json.Marshal(p.Cancel)
		_ = json.Unmarshal(b, &cfg)
		c.Fail("", prefix+p.What, rcase{Kind: "hookcancel", Procs: cfg.Procs, Seed: cfg.Seed, Hook: hookRaw(hookCase{Cancel: &cfg, OpsSeed: c.Seed, Per: per})})
	default:
		c.Fail("", prefix+p.What, rcase{Kind: "hookcancel", Hook: hookRaw(hookCase{})})
	}
}

/* ---------- (5) + (6) in this process ---------- */

func hookInProcess(c *core.Ctx, inputs, outputs []conc.Doc) {
	t0 := time.Now()
	per := hookPer(c)
	jobs, panics := conchook.Setup(c.Seed, inputs, outputs, per)
	c.Count("hook.ops.sequential-results", int64(len(jobs)))
	c.Count("hook.ops.panic-standalone(left out; C14 matter)", int64(panics))

	// (6) cancellation workload
	type cc struct {
		procs           int
		mode            string
		rounds, v, b, k int
	}
	cfgs := []cc{{1, "gated", 3, 8, 3, 5}, {2, "gated", 2, 8, 3, 5}, {16, "gated", 2, 16, 8, 4}, {16, "free", 2, 16, 8, 5}, {1, "free", 1, 8, 3, 4}}
	if c.Thorough() {
		cfgs = []cc{{1, "gated", 20, 8, 3, 8}, {2, "gated", 12, 12, 4, 8}, {16, "gated", 12, 24, 12, 8}, {16, "free", 20, 24, 12, 8}, {1, "free", 8, 8, 3, 6}, {2, "free", 8, 12, 4, 6}, {4, "free", 8, 16, 8, 6}}
	}
	nprob, nfill := 0, 0
	for i, cf := range cfgs {
		cfg := conchook.CancelCfg{Seed: c.Seed*1000 + 500 + int64(i), Procs: cf.procs, Mode: cf.mode, Rounds: cf.rounds, Victims: cf.v, Bystanders: cf.b, PerBy: cf.k}
		rep := conchook.CancelPhase(jobs, cfg)
		for k, v := range rep.Counters {
			c.Count(k, v)
			if strings.Contains(k, ".bystander.") {
				for n := int64(0); n < v; n++ {
					c.Eval("", false)
				}
			}
		}
		c.Eval(fmt.Sprintf("hookcancel:%d", i), true)
		for _, p := range rep.Problems {
			// at most two: core keeps five violations per run, other phases must get a line too
			if nprob++; nprob <= 2 {
				cfg1 := cfg
				p.Cancel = &cfg1
				failProblem(c, p, "", per)
			}
		}
	}

	// (5) bulk streams
	pool := conchook.Pool(jobs)
	for _, p := range conchook.FillFixed(pool) {
		if nfill++; nfill <= 1 {
			failProblem(c, p, "", per)
		}
	}
	for k, v := range conchook.Distribution(pool) {
		c.Count(k, v)
	}
	cfg := conchook.BulkCfg{Streams: 40, MaxN: 24, Sweeps: 3, SweepMax: 40, HeavyTail: 8, Procs: []int{1, 2, 16}, Par: 3}
	if c.Thorough() {
		cfg = conchook.BulkCfg{Streams: 400, MaxN: 60, Sweeps: 9, SweepMax: 400, HeavyTail: 12, Procs: []int{1, 2, 16}, Par: 4}
	}
	if c.Search {
		cfg.Streams *= 2
	}
	batch := conchook.BulkPhase(rand.New(rand.NewSource(c.Rng.Int63())), pool, cfg)
	for k, v := range batch.Counters {
		c.Count(k, v)
	}
	for _, e := range batch.GenErrs {
		c.TieBroken("hook-generator", e, nil)
	}
	reqs := make([]string, len(batch.Judged))
	for i, j := range batch.Judged {
		reqs[i] = j.V.ModelReq
	}
	resps, err := c.Model(reqs)
	if err != nil {
		c.TieBroken("model", err.Error(), nil)
		return
	}
	nfail := 0
	for i, j := range batch.Judged {
		n := len(j.St.Reqs)
		c.Eval(fmt.Sprintf("hookstream:%d:%d", j.Procs, i), n >= 2 && (j.V.Reordered || j.St.TailErr))
		if i < 2 {
			c.Sample(map[string]any{"in_process_bulk": true, "gomaxprocs": j.Procs, "complete_requests": n, "ending": j.St.End, "delivery": j.St.Arrangement, "lean": resps[i]})
		}
		lean := resps[i]
		if lean == "ok accept" && len(j.V.Problems) == 0 {
			continue
		}
		if !strings.HasPrefix(lean, "ok ") {
			c.TieBroken("driver", "unexpected model answer: "+lean, nil)
			continue
		}
		if nfail++; nfail > 1 {
			continue
		}
		what := fmt.Sprintf("in-process bulk stream (GOMAXPROCS=%d, %d complete requests, ending %s %s, delivery %s): ", j.Procs, n, j.St.End.Kind, j.St.End.CutClass, j.St.Arrangement)
		if lean != "ok accept" {
			what += "rejected by the acceptor (" + strings.TrimPrefix(lean, "ok reject ") + ")"
		} else {
			what += "accepted by the acceptor (pairing intact)"
		}
		if len(j.V.Problems) > 0 {
			what += "; " + j.V.Problems[0]
			if len(j.V.Problems) > 1 {
				what += fmt.Sprintf(" (and %d more)", len(j.V.Problems)-1)
			}
		}
		c.Fail("", what, rcase{Kind: "hookbulk", Procs: j.Procs, Hook: hookRaw(hookCase{Stream: j.St}), Detail: map[string]any{"lean": lean, "problems": j.V.Problems, "seq_order": hookSeqOrder(j.Obs)}})
	}
	c.Note("in-process phases (verifhook): %d operations with sequential results, %d cancellation configurations, %d bulk streams in %.1fs", len(jobs), len(cfgs), len(batch.Judged), time.Since(t0).Seconds())
}

func hookSeqOrder(o conchook.Obs) []int64 {
	var s []int64
	for _, r := range o.Resps {
		s = append(s, r.SeqID)
	}
	return s
}

/* ---------- replay ---------- */

func replayHook(c *core.Ctx, rc rcase, race string) {
	var h hookCase
	_ = json.Unmarshal(rc.Hook, &h)
	switch {
	case rc.Kind == "race":
		size := h.Size
		if size == "" {
			size = "quick"
		}
		cmd := exec.Command(race, "-hook", "all", "-repo", c.Repo, "-seed", fmt.Sprint(rc.Seed), "-size", size)
		cmd.Env = append(os.Environ(), "GORACE=halt_on_error=0 history_size=3")
		hr := &hookRace{done: make(chan struct{}), t0: time.Now(), seed: rc.Seed, size: size}
		cmd.Stdout, cmd.Stderr = &hr.so, &hr.se
		_ = cmd.Run()
		close(hr.done)
		hr.finish(c)
	case h.Stream != nil:
		st := h.Stream
		if err := st.Prepare(nil); err != nil {
			c.TieBroken("replay", err.Error(), nil)
			return
		}
		procs := rc.Procs
		if procs <= 0 {
			procs = 2
		}
		b := conchook.ReplayStream(st, procs, 20)
		for i, j := range b {
			c.Eval("replay", true)
			fmt.Fprintf(os.Stderr, "replay %d: seq order %v problems %v\n", i, hookSeqOrder(j.Obs), j.V.Problems)
			if len(j.V.Problems) > 0 {
				c.Fail("", "in-process bulk stream: "+j.V.Problems[0], rc)
				return
			}
		}
	case h.Cancel != nil:
		inputs, outputs, err := conc.LoadExamples(c.Repo)
		if err != nil {
			c.TieBroken("replay", err.Error(), nil)
			return
		}
		seed := h.OpsSeed
		if seed == 0 {
			seed = c.Seed
		}
		// the operations are those of the run that wrote the case
		tried := map[int]bool{0: true}
		for _, p := range []int{h.Per, 6, 14} {
			if tried[p] {
				continue
			}
			tried[p] = true
			jobs, _ := conchook.Setup(seed, inputs, outputs, p)
			cfg := *h.Cancel
			if cfg.Rounds < 5 {
				cfg.Rounds = 5
			}
			rep := conchook.CancelPhase(jobs, cfg)
			c.Eval("replay", true)
			if len(rep.Problems) > 0 {
				c.Fail("", rep.Problems[0].What, rc)
				return
			}
		}
	}
}
