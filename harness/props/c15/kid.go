package c15

// (8) SEVERAL PRIVATE KEYS UNDER ONE KEY ID.  "Any number of goroutines may …
// sign … independent documents at the same time … each result is identical
// to the one obtained sequentially", and in a bulk stream every response's
// "payload equals the standalone operation's output".  A signature is
// randomised, so "the standalone output" of a sign operation is judged by
// what it is for: the envelope verifies with the public half of the key the
// operation was GIVEN, and with no other key.  Which key that is, is a matter
// of the key material; the key id is a free-text label inside the JWK (two
// tenants name their key alike, a rotated key keeps its id) and a sign
// operation knows nothing of the operations before or beside it.
//
// Family: a set of distinct ES256 private keys is written under ONE key id
// (a fresh label, or the id one of them was generated with).  In one process
// every key signs the same unsigned envelopes — through Envelope.Sign,
// through cli.Sign (verifhook), through one in-process bulk stream and one
// POST /bulk stream to the real binary, whose `sign` requests each carry
// their own `privatekey` — sequentially in both orders and concurrently.
// Every signed envelope must verify with the public half of the key that was
// asked to sign it and fail with every other key of the set.  (The verifying
// side of the same question is C09's keys.go.)

import (
	"bytes"
	"context"
	"encoding/json"
	"fmt"
	"os"
	"path/filepath"
	"sync"

	"github.com/invopop/gobl"
	"github.com/invopop/gobl/dsig"
	"github.com/invopop/gobl/verifhook"

	"verifharness/internal/conc"
	"verifharness/internal/core"
)

type kidCase struct {
	Path       string            `json:"path"` // lib | cli | bulk-inprocess | bulk-http
	Kid        string            `json:"kid"`
	Keys       []json.RawMessage `json:"private_keys"` // JWKs, all under Kid
	Order      []int             `json:"order"`        // which key signs at each step
	Concurrent bool              `json:"concurrent,omitempty"`
	Name       string            `json:"name"`
	Data       string            `json:"data"` // the unsigned envelope
}

var kidSerial int

// sameKid: n fresh keys rewritten under one key id ("=0": the first key's own id).
func sameKid(n int, kid string) (string, []json.RawMessage, error) {
	var out []json.RawMessage
	for i := 0; i < n; i++ {
		k := dsig.NewES256Key()
		if kid == "=0" {
			kid = k.ID()
		}
		b, err := json.Marshal(k)
		if err != nil {
			return "", nil, err
		}
		var m map[string]any
		if err := json.Unmarshal(b, &m); err != nil {
			return "", nil, err
		}
		m["kid"] = kid
		b, _ = json.Marshal(m)
		out = append(out, b)
	}
	return kid, out, nil
}

func parseKeys(raw []json.RawMessage) ([]*dsig.PrivateKey, error) {
	var keys []*dsig.PrivateKey
	for _, r := range raw {
		k := new(dsig.PrivateKey)
		if err := json.Unmarshal(r, k); err != nil {
			return nil, err
		}
		keys = append(keys, k)
	}
	return keys, nil
}

// signOnce: one sign operation of the path with the given key; the signed envelope's JSON.
func signOnce(path string, data []byte, key *dsig.PrivateKey) (out []byte, err error) {
	if p := core.Protect(func() {
		switch path {
		case "lib":
			env := new(gobl.Envelope)
			if err = json.Unmarshal(data, env); err != nil {
				return
			}
			if err = env.Sign(key); err != nil {
				return
			}
			out, err = json.Marshal(env)
		case "cli":
			var env *gobl.Envelope
			env, err = verifhook.Sign(context.Background(), &verifhook.SignOptions{ParseOptions: &verifhook.ParseOptions{Input: bytes.NewReader(data)}, PrivateKey: key})
			if err != nil {
				return
			}
			out, err = json.Marshal(env)
		}
	}); p != "" {
		return nil, fmt.Errorf("panic: %s", p)
	}
	return out, err
}

// kidStream: one bulk stream, request i signs with key Order[i].
func kidStream(kc kidCase) []byte {
	var body bytes.Buffer
	for i, k := range kc.Order {
		p, _ := json.Marshal(map[string]any{"data": []byte(kc.Data), "privatekey": kc.Keys[k]})
		r, _ := json.Marshal(map[string]any{"action": "sign", "req_id": fmt.Sprintf("r%d", i), "payload": json.RawMessage(p)})
		body.Write(r)
		body.WriteByte('\n')
	}
	return body.Bytes()
}

// judgeSigned: the envelope signed at step i verifies with its own key only.
func judgeSigned(c *core.Ctx, kc kidCase, keys []*dsig.PrivateKey, step int, signed []byte, mu *sync.Mutex) {
	mu.Lock()
	defer mu.Unlock()
	own := kc.Order[step]
	env := new(gobl.Envelope)
	if err := json.Unmarshal(signed, env); err != nil || len(env.Signatures) == 0 {
		c.Fail("", fmt.Sprintf("%s: the sign operation %d (key %d of %d under the key id %q) did not return a signed envelope: %v", kc.Path, step, own, len(keys), kc.Kid, err), rcase{Kind: "kid", Kid: &kc})
		return
	}
	for j, k := range keys {
		var verr error
		if p := core.Protect(func() { verr = env.Verify(k.Public()) }); p != "" {
			verr = fmt.Errorf("panic: %s", p)
		}
		c.Count(fmt.Sprintf("kid.%s.verified-with-%s-key:%v", kc.Path, map[bool]string{true: "own", false: "another"}[j == own], verr == nil), 1)
		switch {
		case j == own && verr != nil:
			c.Fail("", fmt.Sprintf("%s: step %d of order %v (concurrent=%v) signed with private key %d of %d distinct keys that share the key id %q; the envelope does NOT verify with that key's public half: %v", kc.Path, step, kc.Order, kc.Concurrent, own, len(keys), kc.Kid, verr), rcase{Kind: "kid", Kid: &kc})
		case j != own && verr == nil:
			c.Fail("", fmt.Sprintf("%s: step %d of order %v (concurrent=%v) signed with private key %d of %d distinct keys that share the key id %q; the envelope verifies with the public half of key %d", kc.Path, step, kc.Order, kc.Concurrent, own, len(keys), kc.Kid, j), rcase{Kind: "kid", Kid: &kc})
		}
	}
}

func runKid(c *core.Ctx, kc kidCase, goblBin string, srv *server) {
	keys, err := parseKeys(kc.Keys)
	if err != nil {
		c.TieBroken("kid", "key set does not parse: "+err.Error(), kc)
		return
	}
	c.Eval(fmt.Sprintf("kid|%s|%v|%v|%s", kc.Path, kc.Order, kc.Concurrent, kc.Name), true)
	c.Count("kid.path:"+kc.Path+fmt.Sprintf(":concurrent=%v", kc.Concurrent), 1)
	var mu sync.Mutex
	switch kc.Path {
	case "lib", "cli":
		one := func(step int) {
			out, err := signOnce(kc.Path, []byte(kc.Data), keys[kc.Order[step]])
			if err != nil {
				mu.Lock()
				c.Count("kid."+kc.Path+".sign-refused(document, not key)", 1)
				mu.Unlock()
				return
			}
			judgeSigned(c, kc, keys, step, out, &mu)
		}
		if kc.Concurrent {
			var wg sync.WaitGroup
			for i := range kc.Order {
				wg.Add(1)
				go func(i int) { defer wg.Done(); one(i) }(i)
			}
			wg.Wait()
		} else {
			for i := range kc.Order {
				one(i)
			}
		}
	case "bulk-inprocess":
		var resps []obsResp
		if p := core.Protect(func() {
			for res := range verifhook.Bulk(context.Background(), &verifhook.BulkOptions{In: bytes.NewReader(kidStream(kc)), DefaultPrivateKey: keys[0]}) {
				o := obsResp{ReqID: res.ReqID, SeqID: res.SeqID, Payload: res.Payload, IsFinal: res.IsFinal}
				if res.Error != nil {
					o.Error, _ = json.Marshal(res.Error)
				}
				resps = append(resps, o)
			}
		}); p != "" {
			c.Fail("", "bulk panicked: "+p, rcase{Kind: "kid", Kid: &kc})
			return
		}
		judgeKidStream(c, kc, keys, resps, &mu)
	case "bulk-http":
		if srv == nil {
			home, _ := os.MkdirTemp("", "c15-kid-")
			defer os.RemoveAll(home) //nolint:errcheck
			runCLI(goblBin, home, nil, "keygen", filepath.Join(home, "key.jwk"))
			s, err := startServer(goblBin, home, 4)
			if err != nil {
				c.TieBroken("kid", err.Error(), nil)
				return
			}
			defer s.stop()
			srv = s
		}
		resps, _, err := srv.post(kidStream(kc), false, false, c.Rng)
		if err != nil {
			c.TieBroken("kid", "POST /bulk: "+err.Error(), kc)
			return
		}
		judgeKidStream(c, kc, keys, resps, &mu)
	}
}

func judgeKidStream(c *core.Ctx, kc kidCase, keys []*dsig.PrivateKey, resps []obsResp, mu *sync.Mutex) {
	seen := 0
	for _, o := range resps {
		if o.IsFinal {
			continue
		}
		step := int(o.SeqID) - 1
		if step < 0 || step >= len(kc.Order) || o.ReqID != fmt.Sprintf("r%d", step) {
			c.Fail("", fmt.Sprintf("%s: response with seq %d / request id %q does not pair up with a request", kc.Path, o.SeqID, o.ReqID), rcase{Kind: "kid", Kid: &kc})
			continue
		}
		seen++
		if len(o.Error) > 0 && string(o.Error) != "null" {
			c.Count("kid."+kc.Path+".sign-refused(document, not key)", 1)
			continue
		}
		judgeSigned(c, kc, keys, step, o.Payload, mu)
	}
	if seen != len(kc.Order) {
		c.Fail("", fmt.Sprintf("%s: %d sign requests, %d responses", kc.Path, len(kc.Order), seen), rcase{Kind: "kid", Kid: &kc})
	}
}

// sharedKeyIDs generates and runs the family.
func sharedKeyIDs(c *core.Ctx, goblBin string, outputs []conc.Doc) {
	// unsigned, valid envelopes of the examples
	var docs []conc.Doc
	for _, i := range c.Rng.Perm(len(outputs)) {
		d := outputs[i]
		env := new(gobl.Envelope)
		if json.Unmarshal(d.Data, env) != nil || env.Head == nil || env.Document == nil || len(env.Signatures) > 0 {
			continue
		}
		ok := false
		_ = core.Protect(func() { ok = env.Validate() == nil })
		if ok {
			docs = append(docs, d)
		}
		if len(docs) >= c.Pick(3, 12) {
			break
		}
	}
	if len(docs) == 0 {
		c.Count("kid.no-unsigned-valid-envelope(skipped)", 1)
		return
	}
	home, err := os.MkdirTemp("", "c15-kid-")
	if err != nil {
		return
	}
	defer os.RemoveAll(home) //nolint:errcheck
	var srv *server
	if r := runCLI(goblBin, home, nil, "keygen", filepath.Join(home, "key.jwk")); r.code == 0 {
		if s, err := startServer(goblBin, home, 4); err == nil {
			srv = s
			defer s.stop()
		}
	}
	if srv == nil {
		c.TieBroken("kid", "could not start `gobl serve` for the bulk-http path", nil)
	}
	nonce := fmt.Sprintf("%d-%d", os.Getpid(), c.Rng.Int63())
	orders := func(n int) [][]int {
		fw, bw, mix := []int{}, []int{}, []int{}
		for i := 0; i < n; i++ {
			fw = append(fw, i)
			bw = append(bw, n-1-i)
		}
		for r := 0; r < 4; r++ {
			mix = append(mix, c.Rng.Perm(n)...)
		}
		return [][]int{fw, bw, mix}
	}
	for di, d := range docs {
		for _, path := range []string{"lib", "cli", "bulk-inprocess", "bulk-http"} {
			if path == "bulk-http" && srv == nil {
				continue
			}
			n := 2 + (di+len(path))%3
			for oi, ord := range orders(n) {
				for _, concurrent := range []bool{false, true} {
					if concurrent && (path == "bulk-inprocess" || path == "bulk-http") {
						continue // a bulk stream is worked on concurrently by itself
					}
					// a key id of its own for every sequence: what a process did before under another id is not the question here
					kidSerial++
					kid := fmt.Sprintf("verif-%s-%d", nonce, kidSerial)
					if (di+oi)%4 == 3 {
						kid = "=0"
					}
					kid, raw, err := sameKid(n, kid)
					if err != nil {
						continue
					}
					runKid(c, kidCase{Path: path, Kid: kid, Keys: raw, Order: ord, Concurrent: concurrent, Name: d.Name, Data: string(d.Data)}, goblBin, srv)
				}
			}
		}
	}
}
