// Package c09 ties the Lean model of Header.Contains / Envelope.Verify /
// cli.Verify (Model/Header.lean, Model/Envelope.lean) and the specification
// "verification accepts exactly what was signed" (Spec/C09.lean) to the real
// code, on every path: Envelope.Verify in-process, the `gobl verify` command,
// the bulk `verify` action and `POST /verify` of `gobl serve` (binary built
// from the repository on every run).  Real ES256 keys.
package c09

import (
	"encoding/json"
	"fmt"
	"os"
	"path/filepath"
	"strings"

	"github.com/invopop/gobl/dsig"
	"github.com/invopop/gobl/head"
	"github.com/invopop/gobl/uuid"

	"verifharness/internal/core"
	"verifharness/internal/envh"
)

// tcase is a replayable history.
type tcase struct {
	ID   int        `json:"id"`
	Acts []envh.Act `json:"acts"`
	// the key relation (keys.go): the presentations made to one process of the path, in this order
	Seq  []pres `json:"seq,omitempty"`
	Path string `json:"path,omitempty"`
}

var keySets = [][]int{{1}, {2}, {}, {2, 1}}

type stepObs struct {
	out      string
	v        [4]string // Envelope.Verify with keySets[i]
	nilKey   string    // "" or how a nil key in the list changed the answer
	validate string
	hdr      envh.Hdr
	sigs     []envh.SigRec
}

type histObs struct {
	tc    tcase
	st    *envh.St
	steps []stepObs
	json  []byte
	// verdict classes of the external paths on the final state, by key index (1, 2, 0 = no key)
	cmd  map[int]string
	bulk map[int]string
	http map[int]string
}

type runner struct {
	c         *core.Ctx
	keys      []*dsig.PrivateKey
	stranger  *dsig.PublicKey // a key that never signs
	lookalike *dsig.PublicKey // other key material under key 1's key id
	relabeled []*dsig.PublicKey // key 1's own key material under another key id / without one
	dig       *envh.Digests
	quiet     bool // re-running candidates of the shrinker: no counters, no failures
	nfail     int
}

func histUUID(id int) string  { return fmt.Sprintf("0190f5c1-0001-7000-8000-%012x", id) }
func otherUUID(id int) string { return fmt.Sprintf("0190f5c1-0002-7000-8000-%012x", id) }
func alienUUID(id, i int) string {
	return fmt.Sprintf("0190f5c1-0003-7000-8%03x-%012x", i&0xfff, id)
}

// mkPool builds the signatures "made elsewhere" for one history:
//
//	0,1: another envelope (other identifier, same document), signed by k1 / k2
//	2,3: an envelope with this identifier around a different document, signed by k1 / k2
//	4:   a header holding only this identifier (no digest), signed by k1
//	5:   the history's own first signature (or 0 when there is none)
func (r *runner) mkPool(id, base int) func(*envh.St) []envh.Foreign {
	return func(st *envh.St) []envh.Foreign {
		var pool []envh.Foreign
		mk := func(uid string, edit int, what string) {
			o := envh.NewSt(uid, r.keys, r.dig)
			o.Do(envh.Act{K: "ins", Base: base})
			if edit != 0 {
				o.Do(envh.Act{K: "edit", N: edit})
				o.Do(envh.Act{K: "calc"})
			}
			o.Env.Head.AddLink(&head.Link{Key: "other", URL: "https://example.com/other"})
			for k := 1; k <= 2; k++ {
				sig, err := r.keys[k-1].Sign(o.Env.Head)
				if err != nil {
					panic("c09: signing the foreign header: " + err.Error())
				}
				pool = append(pool, envh.Foreign{Sig: sig, Signer: k, Hdr: envh.HdrOf(o.Env.Head), What: what})
			}
		}
		mk(otherUUID(id), 0, "another envelope, same document")
		mk(histUUID(id), 500000+id, "same identifier, different document")
		bare := &head.Header{UUID: uuid.UUID(histUUID(id))}
		sig, err := r.keys[0].Sign(bare)
		if err != nil {
			panic("c09: signing the bare header: " + err.Error())
		}
		pool = append(pool, envh.Foreign{Sig: sig, Signer: 1, Hdr: envh.HdrOf(bare), What: "identifier only"})
		if len(st.Env.Signatures) > 0 && st.Env.Signatures[0] != nil && !st.Sigs[0].Null {
			pool = append(pool, envh.Foreign{Sig: st.Env.Signatures[0], Signer: st.Sigs[0].Signer, Hdr: st.Sigs[0].Hdr, What: "own first signature"})
		} else {
			pool = append(pool, pool[0])
		}
		return pool
	}
}

type weighted struct {
	w int
	f func() envh.Act
}

func pickW(rng interface{ Intn(int) int }, opts []weighted) envh.Act {
	tot := 0
	for _, o := range opts {
		tot += o.w
	}
	x := rng.Intn(tot)
	for _, o := range opts {
		if x < o.w {
			return o.f()
		}
		x -= o.w
	}
	return opts[0].f()
}

// gen produces the next action of a history from the real state.
func (r *runner) gen(id int) (base int, next func(st *envh.St, i int) (envh.Act, bool)) {
	rng := r.c.Rng
	base = 0
	if rng.Intn(5) == 0 {
		base = 3
	}
	npre := rng.Intn(4)
	if rng.Intn(3) == 0 {
		npre = 0
	}
	nmod := 1 + rng.Intn(8)
	signer := 1
	if rng.Intn(10) == 0 {
		signer = 2
	}
	stale := false
	fresh := 0
	add := func(i int) []weighted {
		return []weighted{
			{8, func() envh.Act {
				fresh++
				return envh.Act{K: "stamp", A: fmt.Sprintf("prv-%d", fresh), B: fmt.Sprintf("val-%d", i)}
			}},
			{6, func() envh.Act {
				fresh++
				return envh.Act{K: "link", A: fmt.Sprintf("lnk-%d", fresh), B: fmt.Sprintf("https://example.com/doc/%d", i)}
			}},
			{5, func() envh.Act { fresh++; return envh.Act{K: "tag", A: fmt.Sprintf("tag-%d", fresh)} }},
			{5, func() envh.Act {
				fresh++
				return envh.Act{K: "meta", A: fmt.Sprintf("mk-%d", fresh), B: fmt.Sprintf("mv-%d", i)}
			}},
		}
	}
	var pending []envh.Act
	next = func(st *envh.St, i int) (envh.Act, bool) {
		h := st.Env.Head
		if len(pending) > 0 && i > npre+1 {
			a := pending[0]
			pending = pending[1:]
			return a, true
		}
		switch {
		case i == 0:
			return envh.Act{K: "ins", Base: base}, true
		case i <= npre:
			opts := add(i)
			opts = append(opts, weighted{3, func() envh.Act { return envh.Act{K: "notes", A: fmt.Sprintf("note %d", i)} }})
			return pickW(rng, opts), true
		case i == npre+1:
			return envh.Act{K: "sign", N: signer}, true
		case i > npre+1+nmod:
			return envh.Act{}, false
		}
		idx := func(n int) int {
			if n == 0 {
				return 0
			}
			return rng.Intn(n)
		}
		calcW := 8
		if stale {
			calcW = 30
		}
		opts := add(i)
		opts = append(opts,
			// alter each of the seven header fields
			weighted{4, func() envh.Act {
				if rng.Intn(3) == 0 {
					return envh.Act{K: "tuuid", A: histUUID(id)} // back to the original
				}
				return envh.Act{K: "tuuid", A: alienUUID(id, i)}
			}},
			weighted{3, func() envh.Act {
				if rng.Intn(2) == 0 && st.Env.Document != nil {
					if d, err := st.Env.Digest(); err == nil {
						return envh.Act{K: "tdigval", A: d.Value} // the right value, without Calculate
					}
				}
				return envh.Act{K: "tdigval", A: fmt.Sprintf("%064x", i+1)}
			}},
			weighted{2, func() envh.Act { return envh.Act{K: "tdigalg", A: []string{"sha512", "sha256"}[rng.Intn(2)]} }},
			weighted{4, func() envh.Act {
				if rng.Intn(2) == 0 {
					return envh.Act{K: "altstamp", A: fmt.Sprintf("alt-%d", i)}
				}
				return envh.Act{K: "tstampval", N: idx(len(h.Stamps)), A: fmt.Sprintf("alt-%d", i)}
			}},
			weighted{2, func() envh.Act {
				if len(h.Stamps) > 0 && rng.Intn(2) == 0 { // through the API: AddStamp with an existing provider
					return envh.Act{K: "stamp", A: string(h.Stamps[idx(len(h.Stamps))].Provider), B: fmt.Sprintf("re-%d", i)}
				}
				return envh.Act{K: "tdropstamp", N: idx(len(h.Stamps))}
			}},
			weighted{3, func() envh.Act {
				if len(h.Links) > 0 && rng.Intn(2) == 0 {
					return envh.Act{K: "link", A: string(h.Links[idx(len(h.Links))].Key), B: fmt.Sprintf("https://example.com/re/%d", i)}
				}
				return envh.Act{K: "tlinkurl", N: idx(len(h.Links)), A: fmt.Sprintf("https://example.com/alt/%d", i)}
			}},
			weighted{2, func() envh.Act { return envh.Act{K: "tdroplink", N: idx(len(h.Links))} }},
			weighted{2, func() envh.Act { return envh.Act{K: "ttag", N: idx(len(h.Tags)), A: fmt.Sprintf("alt-%d", i)} }},
			weighted{2, func() envh.Act { return envh.Act{K: "tdroptag", N: idx(len(h.Tags))} }},
			weighted{3, func() envh.Act {
				for k := range h.Meta {
					return envh.Act{K: "meta", A: string(k), B: fmt.Sprintf("alt-%d", i)}
				}
				return envh.Act{K: "meta", A: "mk-x", B: fmt.Sprintf("alt-%d", i)}
			}},
			weighted{2, func() envh.Act {
				ks := make([]string, 0, len(h.Meta))
				for k := range h.Meta {
					ks = append(ks, string(k))
				}
				if len(ks) == 0 {
					return envh.Act{K: "tdropmeta", A: "mk-x"}
				}
				// deterministic choice: smallest key
				m := ks[0]
				for _, k := range ks {
					if k < m {
						m = k
					}
				}
				return envh.Act{K: "tdropmeta", A: m}
			}},
			weighted{3, func() envh.Act {
				return envh.Act{K: "notes", A: []string{"", "changed note", fmt.Sprintf("note %d", i)}[rng.Intn(3)]}
			}},
			weighted{1, func() envh.Act {
				p := "prv-dup"
				if len(h.Stamps) > 0 {
					p = string(h.Stamps[0].Provider)
				}
				return envh.Act{K: "trawstamp", A: p, B: fmt.Sprintf("dup-%d", i)}
			}},
			// one entry replaced by an exact copy of another one of the same list (the list keeps its
			// length, every entry it shows was signed, yet a signed entry is gone)
			weighted{4, func() envh.Act {
				switch k := rng.Intn(3); {
				case k == 0 && len(h.Tags) >= 2:
					a, b := rng.Intn(len(h.Tags)), rng.Intn(len(h.Tags)-1)
					if b >= a {
						b++
					}
					return envh.Act{K: "ttag", N: a, A: h.Tags[b]}
				case k == 1 && len(h.Stamps) >= 2:
					a, b := rng.Intn(len(h.Stamps)), rng.Intn(len(h.Stamps)-1)
					if b >= a {
						b++
					}
					pending = append(pending, envh.Act{K: "trawstamp", A: string(h.Stamps[b].Provider), B: h.Stamps[b].Value})
					return envh.Act{K: "tdropstamp", N: a}
				case len(h.Links) >= 2:
					a, b := rng.Intn(len(h.Links)), rng.Intn(len(h.Links)-1)
					if b >= a {
						b++
					}
					pending = append(pending, envh.Act{K: "trawlink", A: string(h.Links[b].Key), B: h.Links[b].URL})
					return envh.Act{K: "tdroplink", N: a}
				}
				return envh.Act{K: "tdroptag", N: idx(len(h.Tags))}
			}},
			// the document
			weighted{7, func() envh.Act { return envh.Act{K: "edit", N: 1000 + i} }},
			weighted{calcW, func() envh.Act { return envh.Act{K: "calc"} }},
			// the signature list
			weighted{6, func() envh.Act {
				return envh.Act{K: "tsigs", Pool: [][]int{{0}, {1}, {2}, {3}, {4}, {5}, {5, 0}, {5, 4}, {5, 1}}[rng.Intn(9)]}
			}},
			weighted{6, func() envh.Act { return envh.Act{K: "sign", N: 1 + rng.Intn(2)} }},
			weighted{1, func() envh.Act { return envh.Act{K: "unsign"} }},
			weighted{2, func() envh.Act { return envh.Act{K: "rt", N: 0} }},
		)
		a := pickW(rng, opts)
		switch a.K {
		case "edit":
			stale = true
		case "calc", "ins":
			stale = false
		}
		return a, true
	}
	return
}

// baseOf finds the base document of a history (its first insert).
func baseOf(tc tcase) int {
	for _, a := range tc.Acts {
		if a.K == "ins" {
			return a.Base
		}
	}
	return 0
}

// run executes one history (generating it when next != nil), observing after
// every step the four in-process verdicts, Validate, the header and the
// harness's own record of the signature list.
func (r *runner) run(tc tcase, base int, next func(st *envh.St, i int) (envh.Act, bool)) *histObs {
	st := envh.NewSt(histUUID(tc.ID), r.keys, r.dig)
	st.MkPool = r.mkPool(tc.ID, base)
	h := &histObs{st: st}
	if next != nil {
		tc.Acts = nil
	}
	for i := 0; ; i++ {
		var a envh.Act
		if next != nil {
			var ok bool
			if a, ok = next(st, i); !ok {
				break
			}
			tc.Acts = append(tc.Acts, a)
		} else {
			if i >= len(tc.Acts) {
				break
			}
			a = tc.Acts[i]
		}
		var so stepObs
		cp := tcase{ID: tc.ID, Acts: append([]envh.Act{}, tc.Acts[:i+1]...)}
		if p := core.Protect(func() {
			so.out = st.Do(a)
			for q, ks := range keySets {
				so.v[q] = st.Verify(ks)
			}
			so.validate = envh.Class(st.Env.Validate())
			// a nil key in the list matches nothing: alone it behaves like a key that signed
			// nothing, next to a real key it changes nothing
			if len(st.Env.Signatures) > 0 {
				vn := envh.VerifyDetail(st.Env.Verify(nil, nil), len(st.Env.Signatures))
				vs := envh.VerifyDetail(st.Env.Verify(r.stranger), len(st.Env.Signatures))
				vk := envh.VerifyDetail(st.Env.Verify(nil, r.keys[0].Public()), len(st.Env.Signatures))
				if vn != vs {
					so.nilKey = fmt.Sprintf("Envelope.Verify(nil, nil) = %s but with a key that signed nothing = %s", vn, vs)
				} else if vk != so.v[0] {
					so.nilKey = fmt.Sprintf("Envelope.Verify(nil, key 1) = %s but Verify(key 1) = %s", vk, so.v[0])
				} else if r.lookalike != nil {
					// the answer depends on the key material and on the envelope, not on what this very
					// value was asked before: a key pair that merely carries key 1's id is a stranger —
					// also right after key 1 itself has been tried on the same value
					_ = st.Env.Verify(r.keys[0].Public())
					vl := envh.VerifyDetail(st.Env.Verify(r.lookalike), len(st.Env.Signatures))
					if vl != vs {
						so.nilKey = fmt.Sprintf("Envelope.Verify(other key material under key 1's id), asked after Verify(key 1) on the same value, = %s but a key that signed nothing gives %s", vl, vs)
					}
				}
				// ... and the converse: the key id is a label, the matching key is the key material
				for _, rk := range r.relabeled {
					if so.nilKey != "" {
						break
					}
					if vr := envh.VerifyDetail(st.Env.Verify(rk), len(st.Env.Signatures)); vr != so.v[0] {
						so.nilKey = fmt.Sprintf("Envelope.Verify(key 1's own key material under the key id %q) = %s but Verify(key 1) = %s", rk.ID(), vr, so.v[0])
					}
				}
			}
		}); p != "" {
			if !r.quiet {
				r.c.Fail("", "panic while executing / verifying "+a.String()+": "+p, cp)
			}
			so.out = "panic"
		}
		so.hdr = envh.HdrOf(st.Env.Head)
		so.sigs = append([]envh.SigRec{}, st.Sigs...)
		h.steps = append(h.steps, so)
		if !r.quiet {
			r.c.Count("action:"+a.K, 1)
		}
	}
	h.tc = tc
	h.json, _ = json.Marshal(st.Env)
	return h
}

// pathVerdict runs one external path on an envelope.
func pathVerdict(ext *paths, name string, env []byte, k int) string {
	switch name {
	case "gobl verify":
		return ext.cmdVerify(env, k)
	case "bulk verify":
		id := "s"
		if ext.bulkStdin {
			return ext.bulkProcess([]string{id}, [][]byte{ext.verifyPayload(env, k)})[id]
		}
		return ext.bulkHTTP([]string{id}, [][]byte{ext.verifyPayload(env, k)})[id]
	}
	return ext.httpVerify(env, k)
}

// shrink drops actions from a history as long as the path still reports
// success while the library (Validate + Verify with that key) rejects.
func (r *runner) shrink(ext *paths, tc tcase, name string, k int) tcase {
	r.quiet = true
	defer func() { r.quiet = false }()
	bad := func(t tcase) bool {
		if len(t.Acts) == 0 || t.Acts[0].K != "ins" {
			return false
		}
		h := r.run(t, baseOf(t), nil)
		last := h.steps[len(h.steps)-1]
		if last.out == "panic" {
			return false
		}
		libOK := k != 0 && last.validate == "ok" && last.v[k-1] == "ok"
		return !libOK && pathVerdict(ext, name, h.json, k) == "ok"
	}
	for pass := 0; pass < 3; pass++ {
		changed := false
		for i := len(tc.Acts) - 1; i >= 1; i-- {
			cand := tcase{ID: tc.ID, Acts: append(append([]envh.Act{}, tc.Acts[:i]...), tc.Acts[i+1:]...)}
			if bad(cand) {
				tc, changed = cand, true
			}
		}
		if !changed {
			break
		}
	}
	return tc
}

func (h *histObs) request() string {
	var sb strings.Builder
	sb.WriteString("hist ")
	sb.WriteString(core.Hex(histUUID(h.tc.ID)))
	for _, a := range h.tc.Acts {
		sb.WriteByte(' ')
		sb.WriteString(h.st.Token(a))
	}
	return sb.String()
}

func specRequest(so stepObs) string {
	var sb strings.Builder
	sb.WriteString("spec ")
	sb.WriteString(so.hdr.Tokens(nil))
	fmt.Fprintf(&sb, " %d", len(so.sigs))
	for _, s := range so.sigs {
		fmt.Fprintf(&sb, " %d %s", s.Signer, s.Hdr.Tokens(nil))
	}
	fmt.Fprintf(&sb, " %d", len(keySets))
	for _, ks := range keySets {
		fmt.Fprintf(&sb, " %d", len(ks))
		for _, k := range ks {
			fmt.Fprintf(&sb, " %d", k)
		}
	}
	return sb.String()
}

func keyName(k int) string {
	if k == 0 {
		return "no key"
	}
	return fmt.Sprintf("k%d", k)
}

// Run is the C09 correspondence and oracle run.
func Run(c *core.Ctx) int {
	r := &runner{c: c, keys: []*dsig.PrivateKey{dsig.NewES256Key(), dsig.NewES256Key()}, dig: envh.NewDigests()}
	r.stranger = dsig.NewES256Key().Public()
	// a different key pair that carries the key id of key 1 (the id is a free-text label)
	if jb, err := json.Marshal(dsig.NewES256Key().Public()); err == nil {
		var m map[string]any
		if json.Unmarshal(jb, &m) == nil {
			m["kid"] = r.keys[0].ID()
			jb, _ = json.Marshal(m)
			lk := new(dsig.PublicKey)
			if json.Unmarshal(jb, lk) == nil && lk.ID() == r.keys[0].ID() && lk.Thumbprint() != r.keys[0].Public().Thumbprint() {
				r.lookalike = lk
			}
		}
	}
	// key 1's own public key under another label and without one
	if jb, err := json.Marshal(r.keys[0].Public()); err == nil {
		for _, kid := range []any{"another-label", nil} {
			var m map[string]any
			if json.Unmarshal(jb, &m) != nil {
				continue
			}
			if kid == nil {
				delete(m, "kid")
			} else {
				m["kid"] = kid
			}
			b2, _ := json.Marshal(m)
			rk := new(dsig.PublicKey)
			if json.Unmarshal(b2, rk) == nil && rk.ID() != r.keys[0].ID() && rk.Thumbprint() == r.keys[0].Public().Thumbprint() {
				r.relabeled = append(r.relabeled, rk)
			}
		}
	}
	c.Count("relabelled-copies-of-key-1", int64(len(r.relabeled)))
	var hs []*histObs
	var rc tcase
	replaying := false
	if c.ReplayCase(&rc) {
		replaying = true
		hs = append(hs, r.run(rc, baseOf(rc), nil))
	} else {
		n := c.Pick(350, 12000)
		for id := 1; id <= n; id++ {
			base, next := r.gen(id)
			hs = append(hs, r.run(tcase{ID: id}, base, next))
		}
	}
	if r.dig.Conflict != "" {
		c.TieBroken("drive:C09/digest-table", r.dig.Conflict, nil)
	}

	// ---- the external paths on the final state of every history
	ext, err := startPaths(c, r.keys)
	if err != nil {
		c.TieBroken("drive:C09/paths", "cannot build / start the gobl binary: "+err.Error(), nil)
		return c.Finish("", nil)
	}
	defer ext.stop()
	ncmd := c.Pick(350, 2000)
	ext.runAll(hs, ncmd)
	if ext.note != "" {
		c.Note("%s", ext.note)
	}

	// ---- key material x key id x path x order of arrival
	r.keyRelation(ext, hs, replaying)

	// ---- model and specification
	var reqs []string
	type ref struct{ h, step int } // step = -1: hist request
	var refs []ref
	for i, h := range hs {
		reqs = append(reqs, h.request())
		refs = append(refs, ref{i, -1})
		for j, so := range h.steps {
			reqs = append(reqs, specRequest(so))
			refs = append(refs, ref{i, j})
		}
	}
	resp, err := c.Model(reqs)
	if err != nil {
		c.TieBroken("drive:C09/model", err.Error(), nil)
		return c.Finish("", nil)
	}
	model := make([][]string, len(hs)) // per history: per step the model's fields, then the header
	modelHdr := make([]string, len(hs))
	spec := make([][][]bool, len(hs))
	for k, rf := range refs {
		h := hs[rf.h]
		if rf.step < 0 {
			m := resp[k]
			i := strings.Index(m, " H ")
			if !strings.HasPrefix(m, "ok ") || i < 0 {
				c.TieBroken("drive:C09/protocol", "unexpected model response "+m, h.tc)
				continue
			}
			model[rf.h] = strings.Fields(m[3:i])
			modelHdr[rf.h] = m[i+3:]
			spec[rf.h] = make([][]bool, len(h.steps))
			continue
		}
		f := strings.Fields(resp[k])
		if len(f) < 2+len(keySets) || f[0] != "ok" {
			c.TieBroken("drive:C09/protocol", "unexpected spec response "+resp[k], h.tc)
			continue
		}
		bs := make([]bool, len(keySets))
		for q := range keySets {
			bs[q] = f[1+q] == "1"
		}
		if spec[rf.h] != nil {
			spec[rf.h][rf.step] = bs
		}
	}

	for i, h := range hs {
		if model[i] == nil || len(model[i]) != len(h.steps) {
			if model[i] != nil {
				c.TieBroken("drive:C09/protocol", "model answered a different number of steps", h.tc)
			}
			continue
		}
		nontrivial := false
		for j, so := range h.steps {
			upto := tcase{ID: h.tc.ID, Acts: h.tc.Acts[:j+1]}
			sp := spec[i][j]
			if sp == nil {
				continue
			}
			mf := strings.Split(model[i][j], "|") // outcome nsigs V1 V2 V0 V21 C1 C2 C0
			if len(mf) != 9 {
				c.TieBroken("drive:C09/protocol", "bad step "+model[i][j], upto)
				continue
			}
			// (P) the property on the Go output: Envelope.Verify accepts exactly what was signed
			c.Eval("", false)
			failed := false
			if so.nilKey != "" {
				failed = true
				c.Fail("", fmt.Sprintf("%s, after %v", so.nilKey, upto.Acts), map[string]any{"case": upto, "path": "library"})
			} else if len(so.sigs) > 0 {
				c.Count("lib.verify:nil-keys-consistent", 1)
			}
			for q, ks := range keySets {
				ok := so.v[q] == "ok"
				c.Count(fmt.Sprintf("lib.verify%v:%s", ks, envh.VerifyClass(so.v[q])), 1)
				if ok && !sp[q] {
					failed = true
					c.Fail("", fmt.Sprintf("Envelope.Verify(keys %v) succeeds for content the key holder did not sign, after %v", ks, upto.Acts),
						map[string]any{"case": upto, "go": so.v[q], "path": "library"})
				}
				if !ok && sp[q] {
					failed = true
					c.Fail("", fmt.Sprintf("Envelope.Verify(keys %v) = %s although every signature is by a given key and everything signed is still in the header, after %v", ks, so.v[q], upto.Acts),
						map[string]any{"case": upto, "go": so.v[q], "path": "library"})
				}
				if sp[q] {
					nontrivial = true
				}
			}
			if failed {
				continue
			}
			// (M) correspondence with the model
			if so.out != mf[0] || fmt.Sprint(len(so.sigs)) != mf[1] {
				c.TieBroken("drive:C09/step", fmt.Sprintf("outcome/len(sigs): Go %s/%d, model %s/%s after %v", so.out, len(so.sigs), mf[0], mf[1], upto.Acts), upto)
			}
			for q := range keySets {
				if so.v[q] != mf[2+q] {
					c.TieBroken("drive:C09/verify", fmt.Sprintf("Envelope.Verify(keys %v): Go %s, model %s after %v", keySets[q], so.v[q], mf[2+q], upto.Acts), upto)
				}
			}
			// Validate as the model of cli.Verify sees it
			mval := "ok"
			if strings.HasPrefix(mf[8], "inv:") {
				mval = mf[8][4:]
			}
			if so.validate != mval {
				c.TieBroken("drive:C09/validate", fmt.Sprintf("Validate: Go %s, model %s after %v", so.validate, mval, upto.Acts), upto)
			}
		}
		last := len(h.steps) - 1
		if last < 0 {
			continue
		}
		so := h.steps[last]
		if got := so.hdr.Tokens(r.dig.Render); got != modelHdr[i] {
			c.TieBroken("drive:C09/header", fmt.Sprintf("final header: Go %s, model %s", got, modelHdr[i]), h.tc)
		}
		sp := spec[i][last]
		mf := strings.Split(model[i][last], "|")
		if sp == nil || len(mf) != 9 {
			continue
		}
		// the external paths
		for _, p := range []struct {
			name string
			res  map[int]string
		}{{"gobl verify", h.cmd}, {"bulk verify", h.bulk}, {"POST /verify", h.http}} {
			for _, k := range []int{1, 2, 0} {
				got, ran := p.res[k]
				if !ran {
					continue
				}
				c.Count(p.name+":"+got, 1)
				c.Eval("", false)
				specOK := false
				libOK := false
				mcli := mf[8]
				switch k {
				case 1:
					specOK, libOK, mcli = sp[0], so.v[0] == "ok", mf[6]
				case 2:
					specOK, libOK, mcli = sp[1], so.v[1] == "ok", mf[7]
				}
				okGot := got == "ok"
				wit := map[string]any{"case": h.tc, "path": p.name, "key": keyName(k), "verdict": got,
					"library": map[string]string{"validate": so.validate, "verify": fmt.Sprint(so.v)}, "envelope": string(h.json)}
				switch {
				case okGot && !(specOK && so.validate == "ok"):
					small := h.tc
					if r.nfail < 5 && !(libOK && so.validate == "ok") {
						small = r.shrink(ext, h.tc, p.name, k)
						wit["case"] = small
						wit["shrunk_from"] = h.tc
					}
					r.nfail++
					c.Fail("", fmt.Sprintf("%s with %s reports success for content the key holder did not sign (library on the full history: Validate %s, Verify %v); minimised history %v",
						p.name, keyName(k), so.validate, so.v, small.Acts), wit)
				case okGot != (libOK && so.validate == "ok" && k != 0):
					c.Fail("", fmt.Sprintf("%s with %s says %q, the library says Validate %s / Verify %v, history %v",
						p.name, keyName(k), got, so.validate, so.v, h.tc.Acts), wit)
				default:
					want := mcli
					if p.name == "POST /verify" && want != "ok" {
						want = "fail" // the HTTP endpoint only tells success from failure
					}
					if got != want {
						c.TieBroken("drive:C09/"+strings.ReplaceAll(p.name, " ", "-"), fmt.Sprintf("%s with %s: got %s, model %s, history %v", p.name, keyName(k), got, want, h.tc.Acts), wit)
					}
				}
			}
		}
		c.Eval(fmt.Sprint(h.tc.Acts), nontrivial)
		c.Count(fmt.Sprintf("history.length:%02d", len(h.tc.Acts)), 1)
		c.Count("final.validate:"+so.validate, 1)
		if i%131 == 5 {
			c.Sample(map[string]any{"history": fmt.Sprint(h.tc.Acts), "verify[k1],[k2],[],[k2,k1]": so.v, "validate": so.validate,
				"gobl verify": h.cmd, "bulk": h.bulk, "http": h.http})
		}
	}
	return c.Finish("histories: insert, 0-3 header additions, sign, then 1-8 of {add stamp/link/tag/meta with a fresh key, alter or drop each of uuid, digest value/algorithm, stamp, link, tag, meta, notes, edit the document, recalculate, replace the signature list by signatures made on another envelope / on another document / over the identifier only, sign again with k1 or k2, unsign, JSON round trip}; after every step Envelope.Verify with [k1],[k2],[],[k2,k1] and Validate are judged against Spec/C09 and the model; on the final state `gobl verify`, the bulk verify action and POST /verify with k1, k2 and no key; non-trivial = a history with at least one step on which some key set must be accepted; distinct by action list",
		map[string]any{"paths": ext.describe(), "histories": len(hs)})
}

// ---- helpers shared with paths.go

func writeKeyFiles(dir string, keys []*dsig.PrivateKey) (pubs []string, priv string, err error) {
	for i, k := range keys {
		b, _ := json.Marshal(k.Public())
		p := filepath.Join(dir, fmt.Sprintf("k%d.pub.jwk", i+1))
		if err = os.WriteFile(p, b, 0o600); err != nil {
			return
		}
		pubs = append(pubs, p)
	}
	b, _ := json.Marshal(keys[0])
	priv = filepath.Join(dir, "serve.jwk")
	err = os.WriteFile(priv, b, 0o600)
	return
}
