package c09

// Key material × key id × arrival path × order of arrival.
//
// The statement: verification "succeeds with the matching public key … fails with any other key … identically
// through the library, the command line and the bulk/HTTP verify operations".  Which key is "the matching
// one" is a matter of the key MATERIAL; the key id is a free-text label chosen by whoever writes the JWK, and
// a verify request knows nothing of the requests before it.  So for every envelope, every path and every
// presentation (material of key pair M written as a JWK under the key id K) the verdict must be the one the
// library gives for key pair M built in process — whatever K is (a fresh label, the other pair's own id, no
// id at all) and whatever was presented to the same process before, in whatever order.
//
// Each selected history's final envelope is put, on every path, through one sequence of presentations to ONE
// process (successive POST /verify requests to the running server, one bulk stream, successive
// json.Unmarshal + Envelope.Verify in the harness process; `gobl verify -k` gets the same presentations as
// key files): key 1 under a fresh label, then key 2 under the SAME label, then key 1 again; the mirror image
// under a second label; each pair's material under the other pair's own id; both without an id.

import (
	"bytes"
	"encoding/json"
	"fmt"
	"os"
	"path/filepath"
	"sync/atomic"

	"github.com/invopop/gobl"
	"github.com/invopop/gobl/dsig"

	"verifharness/internal/core"
	"verifharness/internal/envh"
)

// pres is one presentation of a key: the public key material of key pair M (1 or 2) written as a JWK whose
// key id is Kid ("" = no key id, "=1" / "=2" = the id key pair 1 / 2 was generated with).
type pres struct {
	M   int    `json:"m"`
	Kid string `json:"kid"`
}

func (p pres) String() string {
	switch p.Kid {
	case "":
		return fmt.Sprintf("k%d without a key id", p.M)
	case "=1", "=2":
		return fmt.Sprintf("k%d under the key id of k%s", p.M, p.Kid[1:])
	}
	return fmt.Sprintf("k%d under the key id %q", p.M, p.Kid)
}

// defaultSeq: the presentations for one history (labels fresh per history and per run of the process).
func defaultSeq(id int, nonce string) []pres {
	a, b := fmt.Sprintf("verif-%s-%d-a", nonce, id), fmt.Sprintf("verif-%s-%d-b", nonce, id)
	return []pres{{1, a}, {2, a}, {1, a}, {2, b}, {1, b}, {2, b}, {2, "=1"}, {1, "=1"}, {1, "=2"}, {2, "=2"}, {1, ""}, {2, ""}}
}

// jwk writes the presentation as JSON.
func (r *runner) jwk(p pres) []byte {
	jb, err := json.Marshal(r.keys[p.M-1].Public())
	if err != nil {
		return nil
	}
	var m map[string]any
	if json.Unmarshal(jb, &m) != nil {
		return nil
	}
	switch p.Kid {
	case "":
		delete(m, "kid")
	case "=1":
		m["kid"] = r.keys[0].ID()
	case "=2":
		m["kid"] = r.keys[1].ID()
	default:
		m["kid"] = p.Kid
	}
	out, _ := json.Marshal(m)
	return out
}

func (p *paths) verifyPayloadKey(env, key []byte) []byte {
	b, _ := json.Marshal(map[string]any{"data": env, "publickey": json.RawMessage(key)})
	return b
}

// presentSeq gives the verdicts ("ok" or how it failed) of one path for a sequence of presentations of keys
// with one envelope, all within one process where the path has one.
func (r *runner) presentSeq(ext *paths, path string, env []byte, seq []pres) []string {
	out := make([]string, len(seq))
	switch path {
	case "library (key read from JSON)":
		for i, ps := range seq {
			i, ps := i, ps
			if p := core.Protect(func() {
				k := new(dsig.PublicKey)
				if err := json.Unmarshal(r.jwk(ps), k); err != nil {
					out[i] = "other(key refused: " + err.Error() + ")"
					return
				}
				e := new(gobl.Envelope)
				if err := json.Unmarshal(env, e); err != nil {
					out[i] = "other(envelope refused: " + err.Error() + ")"
					return
				}
				if c := envh.Class(e.Validate()); c != "ok" {
					out[i] = "inv:" + c
					return
				}
				out[i] = envh.VerifyClass(envh.VerifyDetail(e.Verify(k), len(e.Signatures)))
			}); p != "" {
				out[i] = "panic: " + p
			}
		}
	case "gobl verify":
		for i, ps := range seq {
			f := filepath.Join(ext.dir, fmt.Sprintf("pres-%d.jwk", atomic.AddInt64(&ext.nCmd, 1)))
			if os.WriteFile(f, r.jwk(ps), 0o600) != nil {
				out[i] = "other(cannot write the key file)"
				continue
			}
			out[i] = ext.cmdVerifyFile(env, f)
			_ = os.Remove(f)
		}
	case "POST /verify":
		for i, ps := range seq {
			atomic.AddInt64(&ext.nHTTP, 1)
			out[i] = ext.httpVerifyBody(ext.verifyPayloadKey(env, r.jwk(ps)))
		}
	case "bulk verify":
		// one stream; lines are answered as they come, the answers are matched by request id.  The HTTP
		// server may drop unread input once it starts answering: what is missing is asked again, alone.
		ids := make([]string, len(seq))
		pl := make([][]byte, len(seq))
		for i, ps := range seq {
			ids[i] = fmt.Sprintf("p%d", i)
			pl[i] = ext.verifyPayloadKey(env, r.jwk(ps))
		}
		atomic.AddInt64(&ext.nBulk, int64(len(seq)))
		var res map[string]string
		if ext.bulkStdin {
			res = ext.bulkProcess(ids, pl)
		} else {
			res = ext.bulkHTTP(ids, pl)
		}
		for i := range seq {
			v, ok := res[ids[i]]
			if !ok && !ext.bulkStdin {
				atomic.AddInt64(&ext.nBulkRetry, 1)
				v, ok = ext.bulkHTTP(ids[i:i+1], pl[i:i+1])[ids[i]]
			}
			if !ok {
				v = "other(no bulk response)"
			}
			out[i] = v
		}
	}
	return out
}

// cmdVerifyFile: `gobl verify -k <file>`.
func (p *paths) cmdVerifyFile(env []byte, file string) string { return p.cmdVerifyWith(env, file) }

func (p *paths) httpVerifyBody(body []byte) string {
	resp, err := p.client.Post(fmt.Sprintf("http://127.0.0.1:%d/verify", p.port), "application/json", bytes.NewReader(body))
	if err != nil {
		return "other(" + err.Error() + ")"
	}
	defer resp.Body.Close()
	var buf bytes.Buffer
	_, _ = buf.ReadFrom(resp.Body)
	if resp.StatusCode == 200 {
		var r struct {
			OK bool `json:"ok"`
		}
		if json.Unmarshal(buf.Bytes(), &r) == nil && r.OK {
			return "ok"
		}
		return "other(200 " + buf.String() + ")"
	}
	return "fail"
}

var keyPaths = []string{"library (key read from JSON)", "POST /verify", "bulk verify", "gobl verify"}

// keyRelation judges the presentations on the final envelope of the selected histories.
func (r *runner) keyRelation(ext *paths, hs []*histObs, replaying bool) {
	c := r.c
	nonce := fmt.Sprintf("%d-%d", os.Getpid(), c.Seed)
	nHist, nCmd := c.Pick(40, 400), c.Pick(4, 40)
	done := 0
	// three histories in four are ones whose final envelope some key still verifies (there a wrong success
	// and a wrong refusal can both show), the rest ones that no key verifies
	var sel []*histObs
	for pass := 0; pass < 2; pass++ {
		n := 0
		for _, h := range hs {
			if len(h.steps) == 0 {
				continue
			}
			l := h.steps[len(h.steps)-1]
			live := l.validate == "ok" && (l.v[0] == "ok" || l.v[1] == "ok")
			if (pass == 0) == live && (replaying || n < nHist*(3-2*pass)/4) {
				sel = append(sel, h)
				n++
			}
		}
	}
	for _, h := range sel {
		last := h.steps[len(h.steps)-1]
		if last.out == "panic" || (len(last.sigs) == 0 && !replaying) {
			continue // an unsigned envelope: no key verifies it, nothing to tell apart
		}
		seq := h.tc.Seq
		if len(seq) == 0 {
			seq = defaultSeq(h.tc.ID, nonce)
		}
		for _, ps := range seq {
			if ps.M < 1 || ps.M > len(r.keys) {
				return
			}
		}
		for _, path := range keyPaths {
			if path == "gobl verify" && done >= nCmd && !replaying {
				continue
			}
			if replaying && h.tc.Path != "" && h.tc.Path != path {
				continue
			}
			got := r.presentSeq(ext, path, h.json, seq)
			for i, ps := range seq {
				want := last.validate == "ok" && last.v[ps.M-1] == "ok" // Envelope.Verify with key pair M built in process
				c.Eval("", false)
				c.Count(fmt.Sprintf("key-presentation:%s:%v", path, got[i] == "ok"), 1)
				if (got[i] == "ok") == want {
					continue
				}
				tc := tcase{ID: h.tc.ID, Acts: h.tc.Acts, Seq: seq[:i+1], Path: path}
				how := "reports success for a key whose holder did not sign this"
				if want {
					how = "refuses the key that signed this"
				}
				c.Fail("", fmt.Sprintf("%s, presentation %d of %v to one process (%s): %s — verdict %q, while Envelope.Verify with key pair %d built in process says %s / Validate %s; history %v",
					path, i+1, seq[:i+1], ps, how, got[i], ps.M, last.v[ps.M-1], last.validate, h.tc.Acts),
					map[string]any{"case": tc, "path": path, "presentations": fmt.Sprint(seq[:i+1]), "verdicts": got[:i+1], "envelope": string(h.json)})
				break
			}
		}
		done++
	}
	c.Count("key-presentation:histories", int64(done))
}
