package c09

import (
	"bufio"
	"bytes"
	"encoding/json"
	"fmt"
	"io"
	"net"
	"net/http"
	"os"
	"os/exec"
	"path/filepath"
	"strings"
	"sync"
	"sync/atomic"
	"time"

	"github.com/invopop/gobl/dsig"

	"verifharness/internal/core"
)

// paths drives the real `gobl` binary: the verify command, the bulk verify
// action and POST /verify of `gobl serve` on a loopback port.
type paths struct {
	c         *core.Ctx
	bin       string
	dir       string
	pubFiles  []string
	pubJSON   []json.RawMessage
	srv       *exec.Cmd
	port      int
	bulkStdin bool // `gobl bulk` exists as a command (stdin/stdout)
	client    *http.Client
	note      string

	nCmd, nBulk, nHTTP, nBulkRetry int64
}

func startPaths(c *core.Ctx, keys []*dsig.PrivateKey) (*paths, error) {
	p := &paths{c: c, bin: filepath.Join(c.Root, "harness", "bin", "gobl"), client: &http.Client{Timeout: 30 * time.Second}}
	build := exec.Command("go", "build", "-o", p.bin, "./cmd/gobl")
	build.Dir = c.Repo
	if out, err := build.CombinedOutput(); err != nil {
		return nil, fmt.Errorf("go build ./cmd/gobl in %s: %v: %s", c.Repo, err, out)
	}
	dir, err := os.MkdirTemp("", "c09-")
	if err != nil {
		return nil, err
	}
	p.dir = dir
	var priv string
	if p.pubFiles, priv, err = writeKeyFiles(dir, keys); err != nil {
		p.stop()
		return nil, err
	}
	for _, k := range keys {
		b, _ := json.Marshal(k.Public())
		p.pubJSON = append(p.pubJSON, b)
	}
	// is there a `gobl bulk` command?
	probe := exec.Command(p.bin, "bulk")
	probe.Stdin = strings.NewReader(`{"action":"ping","req_id":"p"}` + "\n")
	if out, err := probe.Output(); err == nil && bytes.Contains(out, []byte("pong")) {
		p.bulkStdin = true
	} else {
		p.note = "this tree's cmd/gobl registers no `bulk` command (bulkOpts has no cmd()); the bulk verify action is driven through POST /bulk of `gobl serve`, which runs the same cli.Bulk / processRequest"
	}
	for attempt := 0; attempt < 4; attempt++ {
		l, err := net.Listen("tcp", "127.0.0.1:0")
		if err != nil {
			continue
		}
		p.port = l.Addr().(*net.TCPAddr).Port
		_ = l.Close()
		srv := exec.Command(p.bin, "serve", "-p", fmt.Sprint(p.port), "-k", priv)
		srv.Stdout, srv.Stderr = io.Discard, io.Discard
		if err := srv.Start(); err != nil {
			continue
		}
		p.srv = srv
		up := false
		for i := 0; i < 100; i++ {
			resp, err := p.client.Get(fmt.Sprintf("http://127.0.0.1:%d/", p.port))
			if err == nil {
				_, _ = io.Copy(io.Discard, resp.Body)
				_ = resp.Body.Close()
				up = resp.StatusCode == 200
				break
			}
			time.Sleep(50 * time.Millisecond)
		}
		if up {
			return p, nil
		}
		p.killServer()
	}
	p.stop()
	return nil, fmt.Errorf("gobl serve did not come up")
}

func (p *paths) killServer() {
	if p.srv != nil && p.srv.Process != nil {
		_ = p.srv.Process.Kill()
		_, _ = p.srv.Process.Wait()
	}
	p.srv = nil
}

func (p *paths) stop() {
	p.killServer()
	if p.dir != "" {
		_ = os.RemoveAll(p.dir)
		p.dir = ""
	}
}

func (p *paths) describe() map[string]any {
	return map[string]any{"gobl verify processes": p.nCmd, "bulk verify requests": p.nBulk, "POST /verify requests": p.nHTTP,
		"bulk requests retried alone": p.nBulkRetry, "bulk over stdin": p.bulkStdin}
}

type cliError struct {
	Code    int             `json:"code"`
	Key     string          `json:"key"`
	Message string          `json:"message"`
	Fields  json.RawMessage `json:"fields"`
}

// classify maps a structured cli.Error to the verdict class of the model.
func classify(e *cliError) string {
	if e == nil {
		return "ok"
	}
	switch {
	case e.Key == "validation" || e.Key == "digest":
		return "inv:" + e.Key
	case e.Message == "public key required":
		return "keyreq"
	case e.Message == "envelope is not signed":
		return "unsigned"
	case e.Message == "key mismatch":
		return "keymismatch"
	case e.Message == "header mismatch":
		return "headermismatch"
	}
	return fmt.Sprintf("other(%d %s %s)", e.Code, e.Key, e.Message)
}

// cmdVerify runs `gobl verify -k <public key file>` with the envelope on stdin.
func (p *paths) cmdVerify(env []byte, k int) string {
	atomic.AddInt64(&p.nCmd, 1)
	return p.cmdVerifyWith(env, p.pubFiles[k-1])
}

// cmdVerifyWith runs `gobl verify -k <file>` with the envelope on stdin.
func (p *paths) cmdVerifyWith(env []byte, file string) string {
	cmd := exec.Command(p.bin, "verify", "-k", file)
	cmd.Stdin = bytes.NewReader(env)
	var stderr bytes.Buffer
	cmd.Stderr = &stderr
	cmd.Stdout = io.Discard
	err := cmd.Run()
	if err == nil {
		return "ok"
	}
	var ce cliError
	if json.Unmarshal(stderr.Bytes(), &ce) != nil || (ce.Code == 0 && ce.Message == "" && ce.Key == "") {
		return "other(" + strings.TrimSpace(stderr.String()) + ")"
	}
	return classify(&ce)
}

func (p *paths) verifyPayload(env []byte, k int) []byte {
	m := map[string]any{"data": env} // []byte → base64
	if k != 0 {
		m["publickey"] = p.pubJSON[k-1]
	}
	b, _ := json.Marshal(m)
	return b
}

// httpVerify is POST /verify.
func (p *paths) httpVerify(env []byte, k int) string {
	atomic.AddInt64(&p.nHTTP, 1)
	resp, err := p.client.Post(fmt.Sprintf("http://127.0.0.1:%d/verify", p.port), "application/json", bytes.NewReader(p.verifyPayload(env, k)))
	if err != nil {
		return "other(" + err.Error() + ")"
	}
	body, _ := io.ReadAll(resp.Body)
	_ = resp.Body.Close()
	if resp.StatusCode == 200 {
		var r struct {
			OK bool `json:"ok"`
		}
		if json.Unmarshal(body, &r) == nil && r.OK {
			return "ok"
		}
		return "other(200 " + string(body) + ")"
	}
	return "fail"
}

type bulkResp struct {
	ReqID   string          `json:"req_id"`
	Payload json.RawMessage `json:"payload"`
	Error   *cliError       `json:"error"`
	IsFinal bool            `json:"is_final"`
}

func bulkLine(id string, payload []byte) []byte {
	b, _ := json.Marshal(map[string]any{"action": "verify", "req_id": id, "payload": json.RawMessage(payload)})
	return append(b, '\n')
}

func parseBulk(r io.Reader, into map[string]string) {
	sc := bufio.NewScanner(r)
	sc.Buffer(make([]byte, 1<<20), 1<<26)
	for sc.Scan() {
		var br bulkResp
		if json.Unmarshal(sc.Bytes(), &br) != nil || br.ReqID == "" {
			continue
		}
		if br.Error != nil {
			into[br.ReqID] = classify(br.Error)
		} else if bytes.Contains(br.Payload, []byte(`"ok":true`)) {
			into[br.ReqID] = "ok"
		} else {
			into[br.ReqID] = "other(" + string(br.Payload) + ")"
		}
	}
}

// bulkHTTP sends a few verify requests as one stream to POST /bulk.
func (p *paths) bulkHTTP(ids []string, payloads [][]byte) map[string]string {
	var body bytes.Buffer
	for i := range ids {
		body.Write(bulkLine(ids[i], payloads[i]))
	}
	out := map[string]string{}
	resp, err := p.client.Post(fmt.Sprintf("http://127.0.0.1:%d/bulk", p.port), "application/json", &body)
	if err != nil {
		return out
	}
	parseBulk(resp.Body, out)
	_ = resp.Body.Close()
	return out
}

// bulkProcess runs `gobl bulk` over stdin/stdout (when the command exists).
func (p *paths) bulkProcess(ids []string, payloads [][]byte) map[string]string {
	var body bytes.Buffer
	for i := range ids {
		body.Write(bulkLine(ids[i], payloads[i]))
	}
	cmd := exec.Command(p.bin, "bulk")
	cmd.Stdin = &body
	var stdout bytes.Buffer
	cmd.Stdout = &stdout
	cmd.Stderr = io.Discard
	_ = cmd.Run()
	out := map[string]string{}
	parseBulk(&stdout, out)
	return out
}

// runAll puts the final envelope of every history through the external paths.
func (p *paths) runAll(hs []*histObs, ncmd int) {
	type job struct{ i int }
	jobs := make(chan int, len(hs))
	for i := range hs {
		hs[i].cmd, hs[i].bulk, hs[i].http = map[int]string{}, map[int]string{}, map[int]string{}
		jobs <- i
	}
	close(jobs)
	var wg sync.WaitGroup
	for w := 0; w < 8; w++ {
		wg.Add(1)
		go func() {
			defer wg.Done()
			for i := range jobs {
				h := hs[i]
				if i < ncmd {
					for _, k := range []int{1, 2} {
						h.cmd[k] = p.cmdVerify(h.json, k)
					}
				}
				for _, k := range []int{1, 2, 0} {
					h.http[k] = p.httpVerify(h.json, k)
				}
				if !p.bulkStdin {
					ids := []string{fmt.Sprintf("%d/1", i), fmt.Sprintf("%d/2", i), fmt.Sprintf("%d/0", i)}
					pl := [][]byte{p.verifyPayload(h.json, 1), p.verifyPayload(h.json, 2), p.verifyPayload(h.json, 0)}
					atomic.AddInt64(&p.nBulk, 3)
					res := p.bulkHTTP(ids, pl)
					for j, k := range []int{1, 2, 0} {
						v, ok := res[ids[j]]
						if !ok { // the HTTP server may drop unread input once it starts answering: ask again, alone
							atomic.AddInt64(&p.nBulkRetry, 1)
							v, ok = p.bulkHTTP(ids[j:j+1], pl[j:j+1])[ids[j]]
							if !ok {
								v = "other(no bulk response)"
							}
						}
						h.bulk[k] = v
					}
				}
			}
		}()
	}
	wg.Wait()
	if p.bulkStdin {
		// one `gobl bulk` process per 600 requests
		var ids []string
		var pl [][]byte
		flush := func() {
			if len(ids) == 0 {
				return
			}
			res := p.bulkProcess(ids, pl)
			for _, id := range ids {
				var i, k int
				_, _ = fmt.Sscanf(id, "%d/%d", &i, &k)
				v, ok := res[id]
				if !ok {
					v = "other(no bulk response)"
				}
				hs[i].bulk[k] = v
			}
			ids, pl = nil, nil
		}
		for i, h := range hs {
			for _, k := range []int{1, 2, 0} {
				ids = append(ids, fmt.Sprintf("%d/%d", i, k))
				pl = append(pl, p.verifyPayload(h.json, k))
				p.nBulk++
			}
			if len(ids) >= 600 {
				flush()
			}
		}
		flush()
	}
}
