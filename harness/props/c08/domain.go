package c08

// Edits WITHIN the leaf's own domain, and the members that calculation derives.
//
// The property quantifies over "all single edits of the serialised document (every leaf value …)".  The
// edit kinds of c08.go alter a leaf to a neighbouring string, which for a leaf of an enumerated type is
// junk; the values most worth presenting are the other VALID members of the leaf's own domain and the
// defined-equivalent spellings of the value it has: those are the values a lenient reader, a migration or
// a normaliser that runs while the envelope is read or validated can map back onto the original.
//
// Domains are taken from what GOBL publishes, never from a hand list:
//   - regime codes: Country and AltCountryCodes of every tax.AllRegimeDefs() entry (the alternative codes
//     of one definition are equivalent spellings of one regime),
//   - country codes (l10n.Countries), currency codes (currency.Definitions),
//   - extension values: tax.ExtensionForKey(<the member's name>).Values for every member of every `ext`,
//   - every list of keyed / coded definitions that the JSON of the document's own regime definition and
//     addon definitions contains (tags, categories, rate keys, scenarios, corrections, identity keys, …):
//     a leaf whose value is a member of such a list is replaced by the list's other members,
//   - the values the other example documents have at a member of the same name (types, keys, units, …).
//
// Derived members: every member of examples/<cc>/out/<x>.json that examples/<cc>/<x>.{yaml,json} does not
// have or has with another value was put there by calculation (normalisers, addons, totals): exactly the
// members something could put there AGAIN.  Altering and removing each of them is always part of the
// sweep (never sampled away), as is every member of every `ext`.

import (
	"encoding/json"
	"fmt"
	"hash/fnv"
	"os"
	"path/filepath"
	"sort"
	"strings"

	"github.com/invopop/gobl/cbc"
	"github.com/invopop/gobl/currency"
	"github.com/invopop/gobl/l10n"
	"github.com/invopop/gobl/tax"
	"github.com/invopop/yaml"

	"verifharness/internal/core"
	"verifharness/props/c07"
)

type domains struct {
	regimes   []string            // every code under which a regime definition is known
	regimeEqv map[string][]string // code -> the other codes of the same definition
	countries []string
	currency  []string
	scoped    map[string]map[string][]string // regime code / addon key -> value -> the other members of the lists it is in
	byName    map[string][]string            // member name -> values the example documents have there
}

func uniqSorted(xs []string) []string {
	sort.Strings(xs)
	var out []string
	for i, x := range xs {
		if x != "" && (i == 0 || x != xs[i-1]) {
			out = append(out, x)
		}
	}
	return out
}

// listsOf collects, from the JSON of a definition, every array of objects that are identified by a
// `key`, a `code` or a `country` member: the list of those identifiers is a domain.
func listsOf(v *c07.JV, out *[][]string) {
	switch v.K {
	case c07.Obj:
		for _, m := range v.M {
			listsOf(m.V, out)
		}
	case c07.Arr:
		for _, id := range []string{"key", "code", "country"} {
			var l []string
			for _, x := range v.A {
				if x.K != c07.Obj {
					continue
				}
				if y, _ := member(x, id); y != nil && y.K == c07.Str {
					l = append(l, y.S)
				}
			}
			if l = uniqSorted(l); len(l) >= 2 {
				*out = append(*out, l)
			}
		}
		// a plain list of strings (keys, codes) is a domain as well
		var l []string
		for _, x := range v.A {
			if x.K == c07.Str {
				l = append(l, x.S)
			}
		}
		if l = uniqSorted(l); len(l) >= 2 {
			*out = append(*out, l)
		}
		for _, x := range v.A {
			listsOf(x, out)
		}
	}
}

func scopeOf(def any) map[string][]string {
	out := map[string][]string{}
	raw, err := json.Marshal(def)
	if err != nil {
		return out
	}
	tree, err := c07.ContentOf(string(raw))
	if err != nil {
		return out
	}
	var lists [][]string
	listsOf(tree, &lists)
	for _, l := range lists {
		if len(l) > 400 {
			continue
		}
		for _, x := range l {
			for _, y := range l {
				if y != x {
					out[x] = append(out[x], y)
				}
			}
		}
	}
	for k := range out {
		out[k] = uniqSorted(out[k])
	}
	return out
}

// identLike: a short code or key, not an amount, a date or an identifier of one object.
func identLike(s string) bool {
	if s == "" || len(s) > 32 || reAmount.MatchString(s) || reDate.MatchString(s) || reUUID.MatchString(s) {
		return false
	}
	for _, r := range s {
		if !(r >= 'a' && r <= 'z' || r >= 'A' && r <= 'Z' || r >= '0' && r <= '9' || r == '-' || r == '+' || r == '_' || r == '.') {
			return false
		}
	}
	return true
}

func buildDomains(bases []*base) *domains {
	d := &domains{regimeEqv: map[string][]string{}, scoped: map[string]map[string][]string{}, byName: map[string][]string{}}
	for _, rd := range tax.AllRegimeDefs() {
		codes := []string{rd.Country.String()}
		for _, a := range rd.AltCountryCodes {
			codes = append(codes, a.String())
		}
		sc := scopeOf(rd)
		for _, x := range codes {
			d.regimes = append(d.regimes, x)
			d.scoped[x] = sc
			for _, y := range codes {
				if y != x {
					d.regimeEqv[x] = append(d.regimeEqv[x], y)
				}
			}
		}
	}
	d.regimes = uniqSorted(d.regimes)
	for _, ad := range tax.AllAddonDefs() {
		d.scoped[ad.Key.String()] = scopeOf(ad)
	}
	for _, cd := range l10n.Countries() {
		d.countries = append(d.countries, string(cd.Code))
	}
	d.countries = uniqSorted(d.countries)
	for _, cd := range currency.Definitions() {
		d.currency = append(d.currency, string(cd.ISOCode))
	}
	d.currency = uniqSorted(d.currency)
	seen := map[string]map[string]bool{}
	for _, b := range bases {
		var ls []leafAt
		leavesOf(b.doc, nil, &ls)
		for _, l := range ls {
			if l.v.K != c07.Str || !identLike(l.v.S) {
				continue
			}
			n := lastName(l.path)
			if seen[n] == nil {
				seen[n] = map[string]bool{}
			}
			seen[n][l.v.S] = true
		}
	}
	for n, vs := range seen {
		if len(vs) < 2 || len(vs) > 40 {
			continue // a single value is no domain; many values: free text or identifiers
		}
		for v := range vs {
			d.byName[n] = append(d.byName[n], v)
		}
		d.byName[n] = uniqSorted(d.byName[n])
	}
	return d
}

// pickSome: at most n of xs without `not`, starting at a place that depends on the leaf so that the leaves
// of the sweep between them see every value (n <= 0: all).
func pickSome(xs []string, not string, n int, salt string) []string {
	var ys []string
	for _, x := range xs {
		if x != not {
			ys = append(ys, x)
		}
	}
	if n <= 0 || len(ys) <= n {
		return ys
	}
	h := fnv.New32a()
	h.Write([]byte(salt))
	off := int(h.Sum32() % uint32(len(ys)))
	step := len(ys) / n
	var out []string
	for i := 0; i < n; i++ {
		out = append(out, ys[(off+i*step)%len(ys)])
	}
	return out
}

// domainEdits: every string leaf of the document replaced by other valid members of its domain.
// Equivalent spellings and the values of `ext` members are always all there; the others are all there in
// the thorough tier and a leaf-dependent selection in the quick one.
func (d *domains) domainEdits(c *core.Ctx, b *base) []*edit {
	var scopes []string
	if r, _ := member(b.doc, "$regime"); r != nil && r.K == c07.Str {
		scopes = append(scopes, r.S)
	}
	if a, _ := member(b.doc, "$addons"); a != nil {
		for _, x := range a.A {
			if x.K == c07.Str {
				scopes = append(scopes, x.S)
			}
		}
	}
	var ls []leafAt
	leavesOf(b.doc, nil, &ls)
	var out []*edit
	for _, l := range ls {
		if l.v.K != c07.Str || l.v.S == "" {
			continue
		}
		was := l.v.S
		n := lastName(l.path)
		salt := b.name + "/" + strings.Join(l.path, "/")
		cands := map[string]string{} // value -> why
		add := func(why string, vs []string) {
			for _, v := range vs {
				if v != was && v != "" {
					if _, ok := cands[v]; !ok {
						cands[v] = why
					}
				}
			}
		}
		// equivalent spellings first: the other codes of the same regime definition
		if n == "$regime" || n == "country" {
			add("equivalent", d.regimeEqv[was])
		}
		switch {
		case n == "$regime":
			add("regime", pickSome(d.regimes, was, c.Pick(6, 0), salt))
		case n == "country":
			add("country", pickSome(d.countries, was, c.Pick(2, 25), salt))
		case n == "currency":
			add("currency", pickSome(d.currency, was, c.Pick(2, 25), salt))
		}
		if len(l.path) >= 2 && l.path[len(l.path)-2] == "ext" {
			if def := tax.ExtensionForKey(cbc.Key(n)); def != nil {
				var vs []string
				for _, v := range def.Values {
					if v.Code != "" {
						vs = append(vs, v.Code.String())
					}
					if v.Key != "" {
						vs = append(vs, v.Key.String())
					}
				}
				add("ext-value", pickSome(uniqSorted(vs), was, c.Pick(4, 60), salt))
			}
		}
		for _, s := range scopes {
			if sc := d.scoped[s]; sc != nil {
				add("defined:"+s, pickSome(sc[was], was, c.Pick(2, 40), salt))
			}
		}
		if identLike(was) {
			add("example", pickSome(d.byName[n], was, c.Pick(1, 40), salt))
		}
		vs := make([]string, 0, len(cands))
		for v := range cands {
			vs = append(vs, v)
		}
		sort.Strings(vs)
		for _, v := range vs {
			out = append(out, &edit{Kind: "set-leaf", Path: append([]string(nil), l.path...), Was: was, Now: v, Dom: cands[v]})
		}
	}
	return out
}

// derivedPaths: the members of the calculated document that its source lacks or has with another value
// (joined paths).  A member absent from the source is derived with everything beneath it.
func derivedPaths(out, src *c07.JV, path []string, acc map[string]bool) {
	all := func(v *c07.JV, p []string) {
		var rec func(v *c07.JV, p []string)
		rec = func(v *c07.JV, p []string) {
			acc[strings.Join(p, "/")] = true
			switch v.K {
			case c07.Obj:
				for _, m := range v.M {
					rec(m.V, append(append([]string(nil), p...), m.K))
				}
			case c07.Arr:
				for i, x := range v.A {
					rec(x, append(append([]string(nil), p...), fmt.Sprintf("#%d", i)))
				}
			}
		}
		rec(v, p)
	}
	text := func(v *c07.JV) string {
		switch v.K {
		case c07.Str:
			return v.S
		case c07.Int:
			return fmt.Sprint(v.I)
		case c07.Flt:
			return fmt.Sprint(v.F)
		case c07.Bool:
			return fmt.Sprint(v.B)
		}
		return ""
	}
	switch {
	case src == nil:
		all(out, path)
	case out.K == c07.Obj && src.K == c07.Obj:
		for _, m := range out.M {
			s, _ := member(src, m.K)
			derivedPaths(m.V, s, append(append([]string(nil), path...), m.K), acc)
		}
	case out.K == c07.Arr && src.K == c07.Arr && len(out.A) == len(src.A):
		for i, x := range out.A {
			derivedPaths(x, src.A[i], append(append([]string(nil), path...), fmt.Sprintf("#%d", i)), acc)
		}
	case out.K == c07.Obj || out.K == c07.Arr || src.K == c07.Obj || src.K == c07.Arr:
		all(out, path)
	default:
		if text(out) != text(src) {
			acc[strings.Join(path, "/")] = true
		}
	}
}

// sourceOf reads the source of an example: examples/<cc>/<x>.yaml or .json for examples/<cc>/out/<x>.json
// (the document itself, or an envelope around it).
func sourceOf(repo, name string) *c07.JV {
	if !strings.HasPrefix(name, "examples/") {
		return nil
	}
	dir := filepath.Dir(filepath.Dir(filepath.Join(repo, name)))
	stem := strings.TrimSuffix(filepath.Base(name), ".json")
	for _, ext := range []string{".yaml", ".yml", ".json"} {
		raw, err := os.ReadFile(filepath.Join(dir, stem+ext))
		if err != nil {
			continue
		}
		js, err := yaml.YAMLToJSON(raw)
		if err != nil {
			continue
		}
		tree, err := c07.ContentOf(string(js))
		if err != nil || tree.K != c07.Obj {
			continue
		}
		if doc, _ := member(tree, "doc"); doc != nil && doc.K == c07.Obj {
			if h, _ := member(tree, "head"); h != nil {
				return doc
			}
		}
		return tree
	}
	return nil
}

// mustSweep: the edits that are never sampled away in the quick tier: those of members that calculation
// derives (a regular third of the plain amounts among them: the sums are what the sampled sweep and the
// calculation properties look at anyway) and those of every member of every `ext`.
func mustSweep(b *base, derived map[string]bool, e *edit, n int) bool {
	if e.Kind != "alter-leaf" && e.Kind != "remove-member" {
		return false
	}
	for i, p := range e.Path {
		if p == "ext" && i < len(e.Path)-1 {
			return true
		}
	}
	if e.Kind == "remove-member" && lastName(e.Path) == "ext" && !strings.HasPrefix(e.Path[len(e.Path)-1], "#") {
		return true
	}
	if !derived[strings.Join(e.Path, "/")] {
		return false
	}
	if x := atSafe(b.doc, e.Path); x != nil && (x.K == c07.Int || x.K == c07.Flt || (x.K == c07.Str && reAmount.MatchString(x.S))) {
		return n%3 == 0
	}
	return true
}
