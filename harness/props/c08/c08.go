// Package c08 sweeps every single edit of the serialised document of every
// example envelope (and a few generated ones) and checks that the header
// digest makes it evident; it also ties the Lean digest model
// (digest = SHA-256 of the model's canonical bytes) to Envelope.Digest.
package c08

import (
	"bytes"
	"crypto/sha256"
	"encoding/hex"
	"encoding/json"
	"errors"
	"fmt"
	"github.com/invopop/gobl/c14n"
	"math/rand"
	"os"
	"path/filepath"
	"regexp"
	"runtime"
	"sort"
	"strings"
	"sync"

	"github.com/invopop/gobl"
	"github.com/invopop/gobl/bill"
	"github.com/invopop/gobl/cbc"
	"github.com/invopop/gobl/note"
	"github.com/invopop/gobl/org"

	"verifharness/internal/core"
	"verifharness/props/c07"
)

// classifier of known_findings.json: the edit removes a member that
// UnmarshalJSON re-derives from other content (named predicate over the edit).
const clsRederived = "c08.memberRederivedAtUnmarshal"

// the edit removes `tax` from an invoice that uses the gr-mydata-v1 addon (Validate panics)
const clsGrTax = "c08.grMydataInvoiceWithoutTax"

func usesAddon(doc *c07.JV, addon string) bool {
	a, _ := member(doc, "$addons")
	if a == nil {
		return false
	}
	for _, x := range a.A {
		if x.K == c07.Str && x.S == addon {
			return true
		}
	}
	return false
}

// rederivedAtUnmarshal: members that a custom UnmarshalJSON fills in from other
// content when absent (bill.Invoice.UnmarshalJSON: `$regime` from the
// supplier's tax country).
func rederivedAtUnmarshal(e *edit) bool {
	return e.Kind == "remove-member" && len(e.Path) == 1 && e.Path[0] == "$regime"
}

type edit struct {
	Kind string   `json:"kind"` // alter-leaf | remove-member | swap-first-two | drop-first | drop-last | add-unknown-member
	Path []string `json:"path"`
	Was  string   `json:"was,omitempty"`
	Now  string   `json:"now,omitempty"`
}

// ecase is a replayable case: one base envelope and one edit (or a re-encoding).
type ecase struct {
	Base string `json:"base"` // name of the base envelope
	Text string `json:"text"` // the edited / re-encoded envelope text
	Edit *edit  `json:"edit,omitempty"`
}

type base struct {
	name   string
	env    *c07.JV // whole envelope as an ordered tree (numbers keep their literal)
	doc    *c07.JV // its doc member
	docIdx int
	digest string  // head.dig.val
	gdoc   *c07.JV // json.Marshal(e.Document) as GOBL sees it, normalised
	text   string  // the genuine envelope text
}

var (
	reAmount = regexp.MustCompile(`^-?[0-9]+(\.[0-9]+)?%?$`)
	reDate   = regexp.MustCompile(`^[0-9]{4}-[0-9]{2}-[0-9]{2}$`)
)

var reUUID = regexp.MustCompile(`^[0-9a-fA-F]{8}-[0-9a-fA-F]{4}-[0-9a-fA-F]{4}-[0-9a-fA-F]{4}-[0-9a-fA-F]{12}$`)

// alterString changes a string within its apparent type.
func alterString(s string) string {
	switch {
	case s == "":
		return "x"
	case reDate.MatchString(s):
		d := s[len(s)-1]
		nd := byte('1')
		if d == '1' {
			nd = '2'
		}
		return s[:len(s)-2] + "0" + string(nd)
	case reAmount.MatchString(s):
		// change the last digit
		i := len(s) - 1
		if s[i] == '%' {
			i--
		}
		d := s[i]
		nd := byte('0' + (d-'0'+1)%10)
		return s[:i] + string(nd) + s[i+1:]
	}
	b := []byte(s)
	i := len(b) - 1
	switch c := b[i]; {
	case c >= 'a' && c < 'z', c >= 'A' && c < 'Z', c >= '0' && c < '9':
		b[i] = c + 1
	case c == 'z':
		b[i] = 'a'
	case c == 'Z':
		b[i] = 'A'
	case c == '9':
		b[i] = '0'
	default:
		return s + "x"
	}
	return string(b)
}

// clone copies a tree.
func clone(v *c07.JV) *c07.JV {
	o := *v
	o.A = nil
	o.M = nil
	for _, x := range v.A {
		o.A = append(o.A, clone(x))
	}
	for _, m := range v.M {
		o.M = append(o.M, c07.Member{K: m.K, V: clone(m.V)})
	}
	return &o
}

// at walks a path (member names, array indices as "#3").
func at(v *c07.JV, path []string) *c07.JV {
	for _, p := range path {
		if strings.HasPrefix(p, "#") {
			var i int
			fmt.Sscanf(p, "#%d", &i)
			v = v.A[i]
		} else {
			for _, m := range v.M {
				if m.K == p {
					v = m.V
					break
				}
			}
		}
	}
	return v
}

// enumerate lists every single edit of the document.
func enumerate(doc *c07.JV) []*edit {
	var out []*edit
	var rec func(v *c07.JV, path []string)
	rec = func(v *c07.JV, path []string) {
		p := append([]string(nil), path...)
		switch v.K {
		case c07.Obj:
			for _, m := range v.M {
				out = append(out, &edit{Kind: "remove-member", Path: append(append([]string(nil), p...), m.K)})
				rec(m.V, append(p, m.K))
			}
		case c07.Arr:
			if len(v.A) >= 2 {
				out = append(out, &edit{Kind: "swap-first-two", Path: p}, &edit{Kind: "drop-first", Path: p})
			}
			if len(v.A) >= 1 {
				out = append(out, &edit{Kind: "drop-last", Path: p})
			}
			for i, x := range v.A {
				rec(x, append(p, fmt.Sprintf("#%d", i)))
			}
		case c07.Null:
			// null has a single value: nothing to alter within its type
		default:
			out = append(out, &edit{Kind: "alter-leaf", Path: p})
			// smallest meaningful changes within the type: the sign of a
			// non-integer number, a carriage return against a line feed
			if v.K == c07.Flt && v.F != 0 {
				out = append(out, &edit{Kind: "negate-leaf", Path: p})
			}
			if v.K == c07.Str && strings.ContainsAny(v.S, "\r\n") {
				out = append(out, &edit{Kind: "swap-cr-lf", Path: p})
			}
			// the smallest extensions a lenient reader might strip again: a trailing slash or a
			// fragment on identifiers and URLs, trailing white space, the case of the first letter
			if v.K == c07.Str && v.S != "" {
				if strings.Contains(v.S, "/") || (len(p) > 0 && p[len(p)-1] == "$schema") {
					out = append(out, &edit{Kind: "append-slash", Path: p}, &edit{Kind: "append-fragment", Path: p})
				}
				out = append(out, &edit{Kind: "append-space", Path: p})
				// (the hex digits of a UUID are case-insensitive: another spelling of the same value, not an edit)
				if r := v.S[0]; ((r >= 'a' && r <= 'z') || (r >= 'A' && r <= 'Z')) && !reUUID.MatchString(v.S) {
					out = append(out, &edit{Kind: "toggle-case", Path: p})
				}
			}
		}
	}
	rec(doc, nil)
	return out
}

// apply performs the edit on a copy of the document.
func apply(doc *c07.JV, e *edit) *c07.JV {
	d := clone(doc)
	switch e.Kind {
	case "alter-leaf":
		x := at(d, e.Path)
		switch x.K {
		case c07.Str:
			e.Was = x.S
			x.S = alterString(x.S)
			e.Now = x.S
		case c07.Int:
			e.Was = fmt.Sprint(x.I)
			x.I++
			e.Now = fmt.Sprint(x.I)
		case c07.Flt:
			e.Was = fmt.Sprint(x.F)
			x.F = x.F + 1
			x.Raw = ""
			e.Now = fmt.Sprint(x.F)
		case c07.Bool:
			e.Was = fmt.Sprint(x.B)
			x.B = !x.B
			e.Now = fmt.Sprint(x.B)
		}
	case "negate-leaf":
		x := at(d, e.Path)
		e.Was = fmt.Sprint(x.F)
		x.F = -x.F
		x.Raw = ""
		e.Now = fmt.Sprint(x.F)
	case "swap-cr-lf":
		x := at(d, e.Path)
		e.Was = x.S
		x.S = strings.Map(func(r rune) rune {
			switch r {
			case '\r':
				return '\n'
			case '\n':
				return '\r'
			}
			return r
		}, x.S)
		e.Now = x.S
	case "append-slash", "append-fragment", "append-space", "toggle-case":
		x := at(d, e.Path)
		e.Was = x.S
		switch e.Kind {
		case "append-slash":
			x.S += "/"
		case "append-fragment":
			x.S += "#x"
		case "append-space":
			x.S += " "
		default:
			x.S = string(x.S[0]^0x20) + x.S[1:]
		}
		e.Now = x.S
	case "remove-member":
		par := at(d, e.Path[:len(e.Path)-1])
		k := e.Path[len(e.Path)-1]
		for i, m := range par.M {
			if m.K == k {
				par.M = append(par.M[:i:i], par.M[i+1:]...)
				break
			}
		}
	case "add-unknown-member":
		par := at(d, e.Path)
		par.M = append(par.M, c07.Member{K: "x_verif_unknown", V: &c07.JV{K: c07.Str, S: "added"}})
	case "swap-first-two":
		a := at(d, e.Path)
		a.A[0], a.A[1] = a.A[1], a.A[0]
	case "drop-first":
		a := at(d, e.Path)
		a.A = a.A[1:]
	case "drop-last":
		a := at(d, e.Path)
		a.A = a.A[:len(a.A)-1]
	}
	return d
}

func withDoc(b *base, doc *c07.JV) *c07.JV {
	e := clone(b.env)
	e.M[b.docIdx].V = doc
	return e
}

// outcome of presenting an envelope text to GOBL.
type outcome struct {
	class        string // parse-error | digest-error | validation-error:<key> | validates | panic
	detail       string
	digestSame   bool   // Envelope.Digest() equals head.dig
	gdocSame     bool   // json.Marshal(e.Document) has the base's content
	calcErr      string // error of Calculate on the edited envelope
	newDigest    string // head.dig.val after Calculate
	newSameAsOld bool   // … equals the base digest
	newDocSame   bool   // the recalculated document has the base's content
	marshalled   string // json.Marshal(e.Document) before Calculate
	reload       string // "" or how the verdict differs when the text is read into a value that held the genuine envelope before
}

func present(b *base, text string, recalc bool) (o outcome) {
	env := new(gobl.Envelope)
	p := core.Protect(func() {
		if err := json.Unmarshal([]byte(text), env); err != nil {
			o.class, o.detail = "parse-error", err.Error()
			return
		}
		err := env.Validate()
		var ge *gobl.Error
		switch {
		case err == nil:
			o.class = "validates"
		case errors.Is(err, gobl.ErrDigest):
			o.class, o.detail = "digest-error", err.Error()
		case errors.As(err, &ge):
			o.class, o.detail = "validation-error:"+ge.Key().String(), err.Error()
		default:
			o.class, o.detail = "validation-error:other", err.Error()
		}
	})
	if p != "" {
		o.class, o.detail = "panic", "json.Unmarshal/Envelope.Validate: "+p
		return
	}
	if o.class == "parse-error" {
		return
	}
	// the verdict belongs to the text: a value that held the genuine envelope before (a reused,
	// pooled or cached object) must judge the text exactly like a fresh one
	if b.text != "" && b.text != text {
		_ = core.Protect(func() {
			reused := new(gobl.Envelope)
			if json.Unmarshal([]byte(b.text), reused) != nil {
				return
			}
			if err := json.Unmarshal([]byte(text), reused); err != nil {
				o.reload = "a reused value refuses the text a fresh one reads: " + err.Error()
				return
			}
			ok2 := reused.Validate() == nil
			if ok2 != (o.class == "validates") {
				o.reload = fmt.Sprintf("a fresh value says %s, a value that held the genuine envelope before says validates=%v", o.class, ok2)
			}
		})
	}
	p = core.Protect(func() {
		if env.Head != nil && env.Head.Digest != nil && env.Document != nil {
			if d2, derr := env.Digest(); derr == nil {
				o.digestSame = env.Head.Digest.Equals(d2) == nil
			}
			if m, merr := json.Marshal(env.Document); merr == nil {
				o.marshalled = string(m)
				if g, gerr := c07.ContentOf(string(m)); gerr == nil {
					o.gdocSame = c07.Equal(c07.Norm(g), b.gdoc)
				}
			}
		}
	})
	if p != "" {
		o.class, o.detail = "panic", "Envelope.Digest: "+p
		return
	}
	if recalc {
		p = core.Protect(func() {
			if err := env.Calculate(); err != nil {
				o.calcErr = err.Error()
				return
			}
			o.newDigest = env.Head.Digest.Value
			o.newSameAsOld = o.newDigest == b.digest
			if m, merr := json.Marshal(env.Document); merr == nil {
				if g, gerr := c07.ContentOf(string(m)); gerr == nil {
					o.newDocSame = c07.Equal(c07.Norm(g), b.gdoc)
				}
			}
		})
		if p != "" {
			o.calcErr = "panic: " + p
		}
	}
	return
}

func member(v *c07.JV, k string) (*c07.JV, int) {
	for i, m := range v.M {
		if m.K == k {
			return m.V, i
		}
	}
	return nil, -1
}

// loadBase reads an envelope text; ok is false when it is not a valid calculated envelope.
func loadBase(name, text string) (*base, string) {
	tree, err := c07.ContentOfKeep(text)
	if err != nil || tree.K != c07.Obj {
		return nil, "not a JSON object"
	}
	doc, di := member(tree, "doc")
	head, _ := member(tree, "head")
	if doc == nil || head == nil || doc.K != c07.Obj {
		return nil, "not an envelope"
	}
	env := new(gobl.Envelope)
	if err := json.Unmarshal([]byte(text), env); err != nil {
		return nil, "unmarshal: " + err.Error()
	}
	if err := env.Validate(); err != nil {
		return nil, "does not validate: " + short(err.Error())
	}
	m, err := json.Marshal(env.Document)
	if err != nil {
		return nil, "marshal: " + err.Error()
	}
	g, err := c07.ContentOf(string(m))
	if err != nil {
		return nil, err.Error()
	}
	return &base{name: name, env: tree, doc: doc, docIdx: di, digest: env.Head.Digest.Value, gdoc: c07.Norm(g), text: text}, ""
}

func lastName(path []string) string {
	for i := len(path) - 1; i >= 0; i-- {
		if !strings.HasPrefix(path[i], "#") {
			return path[i]
		}
	}
	return ""
}

func short(s string) string {
	if len(s) > 240 {
		return s[:240] + "…"
	}
	return s
}

func f64(x float64) *float64 { return &x }

// generated builds a few documents of other kinds with awkward strings.
func generated() map[string]string {
	out := map[string]string{}
	add := func(name string, doc any) {
		env, err := gobl.Envelop(doc)
		if err != nil {
			return
		}
		b, err := json.Marshal(env)
		if err != nil {
			return
		}
		out["generated/"+name] = string(b)
	}
	add("message", &note.Message{Title: "Tab\there \"quoted\" \\ back/slash", Content: "line1\nline2 \u00e9 \u20ac \U0001f600 \u2028 end\u007f",
		Meta: cbc.Meta{"k1": "v</script>", "k0": "&"}})
	add("message-min", &note.Message{Content: "x"})
	add("party", &org.Party{Name: "Caf\u00e9 \u4e2d\u6587 Ltd", Alias: "a\u0001b",
		Addresses:  []*org.Address{{Locality: "Z\u00fcrich", Country: "CH", Street: "Bahnhofstrasse", Number: "1"}},
		Emails:     []*org.Email{{Address: "a@example.com"}, {Address: "b@example.com"}},
		Telephones: []*org.Telephone{{Number: "+41446681800"}}})
	add("party-min", &org.Party{Name: "N"})
	add("party-coords", &org.Party{Name: "Geo", Addresses: []*org.Address{{Locality: "Madrid", Country: "ES", Street: "Gran V\u00eda", Number: "1",
		Coordinates: &org.Coordinates{Latitude: f64(40.4168), Longitude: f64(-3.7038)}}}})
	add("message-crlf", &note.Message{Content: "Payment due within 30 days.\r\nLate payments accrue interest.\nThanks"})
	_ = bill.Invoice{}
	// documents whose canonical form has a length at, just below and just above the sizes at which a
	// hash implementation changes gear (SHA-256 block and padding boundaries, buffer and chunk sizes)
	for _, n := range []int{119, 120, 128, 4096, 65536, 131072} {
		for _, dl := range []int{-1, 0, 1} {
			if msg := sizedMessage(n + dl); msg != nil {
				add(fmt.Sprintf("message-canonical-size-%d", n+dl), msg)
			}
		}
	}
	return out
}

// canonicalDocSize is the length of the canonical JSON of a document as the digest sees it.
func canonicalDocSize(doc any) int {
	env, err := gobl.Envelop(doc)
	if err != nil {
		return -1
	}
	b, err := json.Marshal(env.Document)
	if err != nil {
		return -1
	}
	cb, err := c14n.CanonicalJSON(bytes.NewReader(b))
	if err != nil {
		return -1
	}
	return len(cb)
}

// sizedMessage builds a note/message whose canonical form is exactly n bytes long (nil when n is too small).
func sizedMessage(n int) *note.Message {
	m := &note.Message{Title: "Invoice 1001 is due", Content: "x"}
	m.UUID = "0190f5c1-0003-7000-8000-000000000001"
	base := canonicalDocSize(m)
	if base < 0 || base > n {
		return nil
	}
	m.Content = strings.Repeat("x", 1+n-base)
	if canonicalDocSize(m) != n {
		return nil
	}
	return m
}

// Run is the C08 sweep.
func Run(c *core.Ctx) int {
	var rc ecase
	replaying := c.ReplayCase(&rc)

	// ---- base envelopes
	texts := map[string]string{}
	files, _ := filepath.Glob(filepath.Join(c.Repo, "examples", "*", "out", "*.json"))
	sort.Strings(files)
	for _, f := range files {
		b, err := os.ReadFile(f)
		if err != nil {
			continue
		}
		rel, _ := filepath.Rel(c.Repo, f)
		texts[rel] = string(b)
	}
	for k, v := range generated() {
		texts[k] = v
	}
	names := make([]string, 0, len(texts))
	for k := range texts {
		names = append(names, k)
	}
	sort.Strings(names)
	var bases []*base
	for _, n := range names {
		b, why := loadBase(n, texts[n])
		if b == nil {
			c.Count("base:skipped", 1)
			c.Note("base %s skipped: %s", n, why)
			continue
		}
		c.Count("base:used", 1)
		bases = append(bases, b)
	}
	if len(bases) == 0 {
		c.TieBroken("drive:C08/bases", "no valid base envelope found under "+c.Repo+"/examples", nil)
		return c.Finish("", nil)
	}
	byName := map[string]*base{}
	for _, b := range bases {
		byName[b.name] = b
	}

	if replaying {
		b := byName[rc.Base]
		if b == nil {
			fmt.Println("replay: unknown base", rc.Base)
			return 2
		}
		judgeOne(c, b, &rc, present(b, rc.Text, rc.Edit != nil))
		return c.Finish("replay", nil)
	}

	// ---- a calculated envelope validates (after its own Calculate as well)
	for _, b := range bases {
		p := core.Protect(func() {
			env := new(gobl.Envelope)
			_ = json.Unmarshal([]byte(texts[b.name]), env)
			if err := env.Calculate(); err != nil {
				c.Count("base:recalculate_error", 1)
				return
			}
			c.Eval("calc:"+b.name, true)
			if err := env.Validate(); err != nil {
				c.Fail("", fmt.Sprintf("%s: envelope does not validate right after Calculate: %s", b.name, short(err.Error())),
					&ecase{Base: b.name, Text: texts[b.name]})
			}
		})
		if p != "" {
			c.Fail("", fmt.Sprintf("%s: Calculate/Validate panicked: %s", b.name, p), &ecase{Base: b.name, Text: texts[b.name]})
		}
	}

	// ---- every single edit
	type job struct {
		b *base
		e *edit
		t string
	}
	var jobs []job
	total := 0
	for _, b := range bases {
		es := enumerate(b.doc)
		// plus one unknown member added at the top of the document and in every object one level down
		es = append(es, &edit{Kind: "add-unknown-member", Path: nil})
		for _, m := range b.doc.M {
			if m.V.K == c07.Obj {
				es = append(es, &edit{Kind: "add-unknown-member", Path: []string{m.K}})
			}
		}
		total += len(es)
		for _, e := range es {
			jobs = append(jobs, job{b: b, e: e})
		}
	}
	c.Count("edits:enumerated", int64(total))
	if !c.Thorough() {
		want := c.Pick(5000, 0)
		if len(jobs) > want {
			c.Rng.Shuffle(len(jobs), func(i, j int) { jobs[i], jobs[j] = jobs[j], jobs[i] })
			// keep every edit of the root members (cheap, and where migrations live), sample the rest
			var keep []job
			for _, j := range jobs {
				// also every edit of the small generated bases and every sign / line-ending edit
				if len(j.e.Path) <= 1 || strings.HasPrefix(j.b.name, "generated/") || j.e.Kind == "negate-leaf" || j.e.Kind == "swap-cr-lf" || len(keep) < want {
					keep = append(keep, j)
				}
			}
			jobs = keep
		}
	}
	outs := make([]outcome, len(jobs))
	skip := make([]bool, len(jobs))
	var wg sync.WaitGroup
	ch := make(chan int, 256)
	for w := 0; w < runtime.NumCPU(); w++ {
		wg.Add(1)
		go func() {
			defer wg.Done()
			r := rand.New(rand.NewSource(1))
			for i := range ch {
				j := &jobs[i]
				d2 := apply(j.b.doc, j.e)
				if c07.Equal(c07.Norm(d2), c07.Norm(j.b.doc)) {
					skip[i] = true // e.g. swapping two equal elements: not a change of content
					continue
				}
				t, _ := c07.Render(withDoc(j.b, d2), c07.Style{}, r)
				j.t = t
				outs[i] = present(j.b, t, true)
			}
		}()
	}
	for i := range jobs {
		ch <- i
	}
	close(ch)
	wg.Wait()
	for i := range jobs {
		if skip[i] {
			c.Count("edits:content_preserving_skipped", 1)
			continue
		}
		judgeOne(c, jobs[i].b, &ecase{Base: jobs[i].b.name, Text: jobs[i].t, Edit: jobs[i].e}, outs[i])
	}

	// ---- content-preserving re-encodings keep validating
	nre := c.Pick(7, 28)
	for _, b := range bases {
		for k := 0; k < nre; k++ {
			st := c07.Style{WS: k % 3, Shuffle: k%2 == 1, Esc: k % 7}
			if k >= 7 {
				st = c07.Style{WS: c.Rng.Intn(3), Shuffle: c.Rng.Intn(2) == 0, Esc: c.Rng.Intn(7)}
			}
			t, _ := c07.Render(b.env, st, c.Rng)
			o := present(b, t, false)
			c.Count(fmt.Sprintf("reencode:esc-style-%d:%s", st.Esc, o.class), 1)
			c.Eval(fmt.Sprintf("reenc:%s:%d", b.name, k), true)
			if o.class != "validates" {
				c.Fail("", fmt.Sprintf("%s re-serialised (member order / whitespace / escapes, style %+v) no longer validates: %s %s", b.name, st, o.class, short(o.detail)),
					&ecase{Base: b.name, Text: t})
			}
		}
	}

	// ---- the model: digest = SHA-256 of the model's canonical bytes of json.Marshal(e.Document)
	var reqs []string
	var ref []string
	var wantDig []string
	addTie := func(name, marshalled, digest string) {
		g, err := c07.ContentOf(marshalled)
		if err != nil || c07.HasBig(g) {
			return
		}
		reqs = append(reqs, "doc "+g.EncString())
		ref = append(ref, name)
		wantDig = append(wantDig, digest)
	}
	for _, b := range bases {
		env := new(gobl.Envelope)
		if json.Unmarshal([]byte(texts[b.name]), env) == nil {
			if m, err := json.Marshal(env.Document); err == nil {
				addTie(b.name, string(m), b.digest)
			}
		}
	}
	step := len(jobs)/c.Pick(300, 3000) + 1
	for i := 0; i < len(jobs); i += step {
		if skip[i] || outs[i].marshalled == "" || outs[i].class == "parse-error" {
			continue
		}
		// the digest GOBL computes for the edited document, via the public API
		env := new(gobl.Envelope)
		if json.Unmarshal([]byte(jobs[i].t), env) != nil || env.Document == nil {
			continue
		}
		if d, err := env.Digest(); err == nil {
			addTie(jobs[i].b.name+" "+jobs[i].e.Kind+" "+strings.Join(jobs[i].e.Path, "/"), outs[i].marshalled, d.Value)
		}
	}
	resp, err := c.Model(reqs)
	if err != nil {
		c.TieBroken("drive:C08/model", err.Error(), nil)
	} else {
		for i, r := range resp {
			c.Count("model_tie", 1)
			f := strings.Fields(r)
			if len(f) != 2 || f[0] != "ok" {
				if r == "undef" {
					c.Count("skipped_outside_model", 1)
					continue
				}
				c.TieBroken("drive:C08/digest", fmt.Sprintf("model has no canonical form for the document of %s (%s)", ref[i], short(r)), ref[i])
				continue
			}
			raw, _ := hex.DecodeString(f[1])
			sum := sha256.Sum256(raw)
			if hex.EncodeToString(sum[:]) != wantDig[i] {
				c.TieBroken("drive:C08/digest", fmt.Sprintf("SHA-256 of the model's canonical bytes differs from Envelope.Digest for %s", ref[i]), ref[i])
			}
		}
	}

	c.Note("members unknown to GOBL's structs that are added to the document are dropped by encoding/json before any GOBL code runs, so the envelope keeps validating: %d of %d such additions (counted under unknown_member_added:*, not judged: DESIGN.md C08 'Not covered')",
		c.Counters["unknown_member_added:validates"], c.Counters["edit:add-unknown-member"])
	if n := c.Counters["recalc:panic"]; n > 0 {
		c.Note("Envelope.Calculate panicked on %d edited documents (after Validate had already returned its verdict; a C14 matter): see the 'recalc:panic at …' counters", n)
	}
	return c.Finish("every single edit of the serialised document of every valid example envelope and of a few generated documents (every leaf altered within its type, every member removed, first two array elements swapped, first/last element dropped, an unknown member added), presented to json.Unmarshal + Envelope.Validate without recalculating, then Calculate; outcomes classified; content-preserving re-encodings (member order, whitespace, escape styles incl. \\/) must validate; model tie: SHA-256 of the Lean model's canonical bytes of json.Marshal(e.Document) = Envelope.Digest; non-trivial = every edit; distinct by base, edit kind and path",
		map[string]any{"bases": len(bases), "edits_enumerated": total, "edits_run": len(jobs)})
}

// judgeOne applies the property oracle to one presented envelope.
func judgeOne(c *core.Ctx, b *base, ec *ecase, o outcome) {
	if ec.Edit == nil {
		if o.class != "validates" {
			c.Fail("", fmt.Sprintf("%s re-serialised no longer validates: %s %s", b.name, o.class, short(o.detail)), ec)
		}
		return
	}
	e := ec.Edit
	key := b.name + " " + e.Kind + " " + strings.Join(e.Path, "/")
	c.Eval(key, true)
	c.Count("edit:"+e.Kind, 1)
	where := fmt.Sprintf("%s: %s at doc/%s", b.name, e.Kind, strings.Join(e.Path, "/"))
	if e.Was != "" || e.Now != "" {
		where += fmt.Sprintf(" (%q -> %q)", short(e.Was), short(e.Now))
	}
	if e.Kind == "add-unknown-member" {
		// members GOBL does not know are dropped by encoding/json before any GOBL code runs;
		// counted separately (DESIGN.md, C08 "Not covered"), not judged
		c.Count("unknown_member_added:"+o.class, 1)
		return
	}
	c.Count("outcome:"+strings.SplitN(o.class, ":", 2)[0], 1)
	if o.class != "digest-error" || len(e.Path) > 2 {
		c.Sample(map[string]any{"edit": where, "validate": o.class, "detail": short(o.detail), "digest_unchanged": o.digestSame,
			"after_calculate": map[string]any{"error": short(o.calcErr), "digest_same_as_before": o.newSameAsOld, "content_same_as_before": o.newDocSame}})
	}
	if o.reload != "" {
		c.Fail("", where+": "+o.reload, ec)
		return
	}
	switch {
	case o.class == "panic":
		cls := ""
		if e.Kind == "remove-member" && len(e.Path) == 1 && e.Path[0] == "tax" && usesAddon(b.doc, "gr-mydata-v1") {
			cls = clsGrTax
		}
		c.Fail(cls, where+": panicked: "+short(o.detail), ec)
		return
	case o.class == "parse-error":
		// the edited text cannot even be loaded: evident
	case o.class == "digest-error":
		// what the property asks for
	case o.class == "validates":
		cls := ""
		if rederivedAtUnmarshal(e) {
			cls = clsRederived
		}
		why := "the digest did not change although GOBL's view of the document did"
		if o.gdocSame {
			why = "the edit is lost when the document is unmarshalled (json.Marshal(e.Document) is unchanged), so the digest cannot see it"
		}
		c.Fail(cls, where+": the envelope still validates without recalculating: "+why, ec)
	default: // a validation error raised before verifyDigest is reached
		if o.digestSame {
			// the change was caught by validation only; the digest itself is blind to it
			c.Count("validation_error_but_digest_unchanged", 1)
			cls := ""
			if rederivedAtUnmarshal(e) {
				cls = clsRederived
			}
			c.Fail(cls, where+": validation fails ("+short(o.detail)+") but the digest is unchanged: the digest does not see this edit", ec)
		} else {
			c.Count("validation_error_and_digest_differs", 1)
		}
	}
	// after recalculating: the digest changes iff the recalculated content differs
	switch {
	case o.class == "parse-error" || o.class == "panic":
	case strings.HasPrefix(o.calcErr, "panic: "):
		// Calculate crashed on the edited document: no recalculated digest to look at (a C14 matter)
		c.Count("recalc:panic", 1)
		c.Count("recalc:panic at "+e.Kind+" "+lastName(e.Path), 1)
	case o.calcErr != "":
		c.Count("recalc:error", 1)
	case o.newDocSame && o.newSameAsOld:
		c.Count("recalc:edit_undone_by_calculate_same_digest", 1)
	case !o.newDocSame && !o.newSameAsOld:
		c.Count("recalc:new_digest_differs", 1)
	case !o.newDocSame && o.newSameAsOld:
		c.Fail("", where+": after Calculate the document differs from the original but the digest is the same", ec)
	default:
		c.Fail("", where+": after Calculate the document has the original content but the digest differs", ec)
	}
}
