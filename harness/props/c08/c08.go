// Package c08 sweeps every single edit of the serialised document of every
// example envelope (and a few generated ones) and checks that the header
// digest makes it evident; it also ties the Lean digest model
// (digest = SHA-256 of the model's canonical bytes) to Envelope.Digest.
package c08

import (
	"reflect"

	"golang.org/x/text/unicode/norm"

	"bytes"
	"crypto/sha256"
	"encoding/hex"
	"encoding/json"
	"errors"
	"fmt"
	"github.com/invopop/gobl/c14n"
	"math/rand"
	"os"
	"path/filepath"
	"regexp"
	"runtime"
	"sort"
	"strings"
	"sync"
	"syscall"

	"github.com/invopop/gobl"
	"github.com/invopop/gobl/bill"
	"github.com/invopop/gobl/cbc"
	"github.com/invopop/gobl/dsig"
	"github.com/invopop/gobl/note"
	"github.com/invopop/gobl/org"

	"verifharness/internal/core"
	"verifharness/props/c07"
)

// classifier of known_findings.json: the edit removes a member that
// UnmarshalJSON re-derives from other content (named predicate over the edit).
const clsRederived = "c08.memberRederivedAtUnmarshal"

// the edit removes `tax` from an invoice that uses the gr-mydata-v1 addon (Validate panics)
const clsGrTax = "c08.grMydataInvoiceWithoutTax"

func usesAddon(doc *c07.JV, addon string) bool {
	a, _ := member(doc, "$addons")
	if a == nil {
		return false
	}
	for _, x := range a.A {
		if x.K == c07.Str && x.S == addon {
			return true
		}
	}
	return false
}

// rederivedAtUnmarshal: members that a custom UnmarshalJSON fills in from other
// content when absent (bill.Invoice.UnmarshalJSON: `$regime` from the
// supplier's tax country).
func rederivedAtUnmarshal(e *edit) bool {
	return e.Kind == "remove-member" && len(e.Path) == 1 && e.Path[0] == "$regime"
}

// classifier of known_findings.json: the edit removes a member whose value is the zero value of its kind
// ("0", "", 0, false): for a member GOBL always writes, absence and the zero value are the same document
// once read (named predicate over the edit and the base document).
const clsZeroMember = "c08.zeroValuedMemberRemoved"

func removesZeroValued(b *base, e *edit) bool {
	if e.Kind != "remove-member" {
		return false
	}
	x := atSafe(b.doc, e.Path)
	if x == nil {
		return false
	}
	switch x.K {
	case c07.Str:
		return x.S == "0" || x.S == ""
	case c07.Int:
		return x.I == 0
	case c07.Flt:
		return x.F == 0
	case c07.Bool:
		return !x.B
	}
	return false
}

type edit struct {
	// alter-leaf | negate-leaf | swap-cr-lf | append-slash | append-fragment | append-space | toggle-case |
	// remove-member | add-unknown-member | add-member | add-sibling-member |
	// swap-first-two | swap-distinct | rotate | reverse | drop-first | drop-last |
	// respell-int | respell-int-exp | respell-float | add-null-member | add-null-sibling-member
	Kind string   `json:"kind"`
	Path []string `json:"path"`
	Was  string   `json:"was,omitempty"`
	Now  string   `json:"now,omitempty"`
	I    int      `json:"i,omitempty"` // swap-distinct: the two positions
	J    int      `json:"j,omitempty"`
	Key  string   `json:"key,omitempty"` // add-member, add-sibling-member: the name of the new member
	Dom  string   `json:"dom,omitempty"` // set-leaf: where the new value (Now) comes from (domain.go)
	val  *c07.JV  // add-sibling-member: its value (a copy of the sibling's)
}

// the name of the member that `add-member` puts into every nested object: a valid cbc.Key, so that the
// maps of the documents (meta, ext) take it as an entry, and unknown to every struct
const addedKey = "verif-added"

// rewriting: edits of the TEXT that need not be edits of the document — a number written in another way, a
// member whose value is null added (null members are no content) — judged by judgeRewritten
func rewriting(kind string) bool {
	return strings.HasPrefix(kind, "respell-") || strings.HasPrefix(kind, "add-null-")
}

// ecase is a replayable case: one base envelope and one edit (or a re-encoding).
type ecase struct {
	Base string `json:"base"` // name of the base envelope
	Text string `json:"text"` // the edited / re-encoded envelope text
	Edit *edit  `json:"edit,omitempty"`
	// "calculated-validates": Text holds a document that is calculated and put through the first clause
	Clause string `json:"clause,omitempty"`
	// the text of a derived base (bases.go), so that the replay need not derive it again
	BaseText string `json:"base_text,omitempty"`
}

type base struct {
	name   string
	env    *c07.JV // whole envelope as an ordered tree (numbers keep their literal)
	doc    *c07.JV // its doc member
	docIdx int
	digest string  // head.dig.val
	gdoc   *c07.JV // json.Marshal(e.Document) as GOBL sees it, normalised
	text   string  // the genuine envelope text
	focus  [][]string // a derived base: where its new content is (nil: an example, every edit is swept)
	// the document as GOBL holds it after reading the genuine text (nil: reading it twice does not
	// give deeply equal values, so values cannot be compared for this base)
	payload any
}

var (
	reAmount = regexp.MustCompile(`^-?[0-9]+(\.[0-9]+)?%?$`)
	reDate   = regexp.MustCompile(`^[0-9]{4}-[0-9]{2}-[0-9]{2}$`)
)

var reUUID = regexp.MustCompile(`^[0-9a-fA-F]{8}-[0-9a-fA-F]{4}-[0-9a-fA-F]{4}-[0-9a-fA-F]{4}-[0-9a-fA-F]{12}$`)

// alterString changes a string within its apparent type.
func alterString(s string) string {
	switch {
	case s == "":
		return "x"
	case reDate.MatchString(s):
		d := s[len(s)-1]
		nd := byte('1')
		if d == '1' {
			nd = '2'
		}
		return s[:len(s)-2] + "0" + string(nd)
	case reAmount.MatchString(s):
		// change the last digit
		i := len(s) - 1
		if s[i] == '%' {
			i--
		}
		d := s[i]
		nd := byte('0' + (d-'0'+1)%10)
		return s[:i] + string(nd) + s[i+1:]
	}
	b := []byte(s)
	i := len(b) - 1
	switch c := b[i]; {
	case c >= 'a' && c < 'z', c >= 'A' && c < 'Z', c >= '0' && c < '9':
		b[i] = c + 1
	case c == 'z':
		b[i] = 'a'
	case c == 'Z':
		b[i] = 'A'
	case c == '9':
		b[i] = '0'
	default:
		return s + "x"
	}
	return string(b)
}

// clone copies a tree.
func clone(v *c07.JV) *c07.JV {
	o := *v
	o.A = nil
	o.M = nil
	for _, x := range v.A {
		o.A = append(o.A, clone(x))
	}
	for _, m := range v.M {
		o.M = append(o.M, c07.Member{K: m.K, V: clone(m.V)})
	}
	return &o
}

// at walks a path (member names, array indices as "#3").
func at(v *c07.JV, path []string) *c07.JV {
	for _, p := range path {
		if strings.HasPrefix(p, "#") {
			var i int
			fmt.Sscanf(p, "#%d", &i)
			v = v.A[i]
		} else {
			for _, m := range v.M {
				if m.K == p {
					v = m.V
					break
				}
			}
		}
	}
	return v
}

// enumerate lists every single edit of the document.
func enumerate(doc *c07.JV) []*edit {
	var out []*edit
	var rec func(v *c07.JV, path []string)
	rec = func(v *c07.JV, path []string) {
		p := append([]string(nil), path...)
		switch v.K {
		case c07.Obj:
			// a member with a fresh name added to every nested object (the root and its members' objects get
			// `add-unknown-member` in Run): kept where the object is a map of the document, dropped by
			// encoding/json where it is a struct
			if len(p) >= 2 {
				if _, i := member(v, addedKey); i < 0 {
					out = append(out, &edit{Kind: "add-member", Path: p, Key: addedKey}, &edit{Kind: "add-empty-member", Path: p, Key: addedKey})
				}
			}
			// … and the complement: a member whose value is null is no content
			if _, i := member(v, addedKey); i < 0 {
				out = append(out, &edit{Kind: "add-null-member", Path: p, Key: addedKey})
			}
			for _, m := range v.M {
				out = append(out, &edit{Kind: "remove-member", Path: append(append([]string(nil), p...), m.K)})
				rec(m.V, append(p, m.K))
			}
		case c07.Arr:
			if len(v.A) >= 2 {
				out = append(out, &edit{Kind: "swap-first-two", Path: p}, &edit{Kind: "drop-first", Path: p})
			}
			if len(v.A) >= 1 {
				out = append(out, &edit{Kind: "drop-last", Path: p})
			}
			// two elements of DIFFERENT content exchanged (other than the first two), the whole array
			// rotated and reversed: arrays are ordered at every depth
			if i, j, ok := distinctPair(v.A); ok {
				out = append(out, &edit{Kind: "swap-distinct", Path: p, I: i, J: j})
			}
			if len(v.A) >= 3 {
				out = append(out, &edit{Kind: "rotate", Path: p}, &edit{Kind: "reverse", Path: p})
			}
			// a member that one element of the array has and another lacks, added to the one that lacks it:
			// a fresh name in that object which GOBL knows
			for i, x := range v.A {
				if k, val := siblingMember(v.A, i); k != "" {
					_ = x
					pi := append(append([]string(nil), p...), fmt.Sprintf("#%d", i))
					out = append(out, &edit{Kind: "add-sibling-member", Path: pi, Key: k, val: val},
						&edit{Kind: "add-null-sibling-member", Path: pi, Key: k})
				}
			}
			for i, x := range v.A {
				rec(x, append(p, fmt.Sprintf("#%d", i)))
			}
		case c07.Null:
			// null has a single value: nothing to alter within its type
		default:
			out = append(out, &edit{Kind: "alter-leaf", Path: p})
			// the same number written as a number of another kind (`1` is an integer for c14n, `1.0` and
			// `1e0` are the float64 1), and a float64 in another spelling (the same float64)
			if v.K == c07.Int && v.I > -(1<<53) && v.I < 1<<53 {
				out = append(out, &edit{Kind: "respell-int", Path: p}, &edit{Kind: "respell-int-exp", Path: p})
			}
			if v.K == c07.Flt {
				out = append(out, &edit{Kind: "respell-float", Path: p})
			}
			// smallest meaningful changes within the type: the sign of a
			// non-integer number, a carriage return against a line feed
			if v.K == c07.Flt && v.F != 0 {
				out = append(out, &edit{Kind: "negate-leaf", Path: p})
			}
			if v.K == c07.Str && strings.ContainsAny(v.S, "\r\n") {
				out = append(out, &edit{Kind: "swap-cr-lf", Path: p})
			}
			// the smallest changes within the leaf's own type: a fraction of a second on a date-time or
			// time, a zone suffix, one more decimal on an amount
			for _, k := range typedEdits(v) {
				out = append(out, &edit{Kind: k, Path: p})
			}
			// the smallest extensions a lenient reader might strip again: a trailing slash or a
			// fragment on identifiers and URLs, trailing white space, the case of the first letter
			if v.K == c07.Str && v.S != "" {
				if strings.Contains(v.S, "/") || (len(p) > 0 && p[len(p)-1] == "$schema") {
					out = append(out, &edit{Kind: "append-slash", Path: p}, &edit{Kind: "append-fragment", Path: p})
				}
				out = append(out, &edit{Kind: "append-space", Path: p})
				// (the hex digits of a UUID are case-insensitive: another spelling of the same value, not an edit)
				if r := v.S[0]; ((r >= 'a' && r <= 'z') || (r >= 'A' && r <= 'Z')) && !reUUID.MatchString(v.S) {
					out = append(out, &edit{Kind: "toggle-case", Path: p})
				}
				// another sequence of code points that renders the same (canonically equivalent Unicode):
				// a different string all the same
				if norm.NFD.String(v.S) != v.S {
					out = append(out, &edit{Kind: "unicode-nfd", Path: p})
				}
				if norm.NFC.String(v.S) != v.S {
					out = append(out, &edit{Kind: "unicode-nfc", Path: p})
				}
			}
		}
	}
	rec(doc, nil)
	return out
}

// distinctPair finds two positions i < j, other than (0, 1), whose elements differ in content.
func distinctPair(a []*c07.JV) (int, int, bool) {
	if len(a) < 3 {
		return 0, 0, false
	}
	ns := make([]*c07.JV, len(a))
	for i, x := range a {
		ns[i] = c07.Norm(x)
	}
	for j := len(a) - 1; j >= 1; j-- {
		for i := 0; i < j; i++ {
			if (i != 0 || j != 1) && !c07.Equal(ns[i], ns[j]) {
				return i, j, true
			}
		}
	}
	return 0, 0, false
}

// siblingMember: the first member (name and a copy of its value) that another object of the array has and
// element i — an object — lacks.
func siblingMember(a []*c07.JV, i int) (string, *c07.JV) {
	if a[i].K != c07.Obj {
		return "", nil
	}
	for j, y := range a {
		if j == i || y.K != c07.Obj {
			continue
		}
		for _, m := range y.M {
			if _, k := member(a[i], m.K); k < 0 && m.V.K != c07.Null {
				return m.K, clone(m.V)
			}
		}
	}
	return "", nil
}

// respelled writes the float64 f in a spelling json.Marshal and strconv would not choose:
// all digits as an integer mantissa with an exponent.
func respelled(f float64) string {
	neg, ds, e := c07.FloatDigits(f)
	sign := ""
	if neg {
		sign = "-"
	}
	return fmt.Sprintf("%s%se%d", sign, ds, e-len(ds)+1)
}

// apply performs the edit on a copy of the document.
func apply(doc *c07.JV, e *edit) *c07.JV {
	d := clone(doc)
	switch e.Kind {
	case "alter-leaf":
		x := at(d, e.Path)
		switch x.K {
		case c07.Str:
			e.Was = x.S
			x.S = alterString(x.S)
			e.Now = x.S
		case c07.Int:
			e.Was = fmt.Sprint(x.I)
			x.I++
			e.Now = fmt.Sprint(x.I)
		case c07.Flt:
			e.Was = fmt.Sprint(x.F)
			x.F = x.F + 1
			x.Raw = ""
			e.Now = fmt.Sprint(x.F)
		case c07.Bool:
			e.Was = fmt.Sprint(x.B)
			x.B = !x.B
			e.Now = fmt.Sprint(x.B)
		}
	case "set-leaf": // another valid member of the leaf's own domain (domain.go)
		x := at(d, e.Path)
		x.S = e.Now
	case "negate-leaf":
		x := at(d, e.Path)
		e.Was = fmt.Sprint(x.F)
		x.F = -x.F
		x.Raw = ""
		e.Now = fmt.Sprint(x.F)
	case "swap-cr-lf":
		x := at(d, e.Path)
		e.Was = x.S
		x.S = strings.Map(func(r rune) rune {
			switch r {
			case '\r':
				return '\n'
			case '\n':
				return '\r'
			}
			return r
		}, x.S)
		e.Now = x.S
	case "append-slash", "append-fragment", "append-space", "toggle-case":
		x := at(d, e.Path)
		e.Was = x.S
		switch e.Kind {
		case "append-slash":
			x.S += "/"
		case "append-fragment":
			x.S += "#x"
		case "append-space":
			x.S += " "
		default:
			x.S = string(x.S[0]^0x20) + x.S[1:]
		}
		e.Now = x.S
	case "fraction-tenth", "fraction-nano", "zone-suffix", "trailing-zero":
		x := at(d, e.Path)
		e.Was = x.S
		x.S = applyTyped(e.Kind, x.S)
		e.Now = x.S
	case "remove-member":
		par := at(d, e.Path[:len(e.Path)-1])
		k := e.Path[len(e.Path)-1]
		for i, m := range par.M {
			if m.K == k {
				par.M = append(par.M[:i:i], par.M[i+1:]...)
				break
			}
		}
	case "add-unknown-member":
		par := at(d, e.Path)
		par.M = append(par.M, c07.Member{K: "x_verif_unknown", V: &c07.JV{K: c07.Str, S: "added"}})
	case "add-member":
		par := at(d, e.Path)
		par.M = append(par.M, c07.Member{K: e.Key, V: &c07.JV{K: c07.Str, S: "added"}})
	case "add-empty-member": // the smallest value a member can have that is not null
		par := at(d, e.Path)
		par.M = append(par.M, c07.Member{K: e.Key, V: &c07.JV{K: c07.Str, S: ""}})
	case "unicode-nfd", "unicode-nfc":
		x := at(d, e.Path)
		e.Was = x.S
		if e.Kind == "unicode-nfd" {
			x.S = norm.NFD.String(x.S)
		} else {
			x.S = norm.NFC.String(x.S)
		}
		e.Now = x.S
	case "add-sibling-member":
		par := at(d, e.Path)
		par.M = append(par.M, c07.Member{K: e.Key, V: clone(e.val)})
	case "add-null-member", "add-null-sibling-member":
		par := at(d, e.Path)
		par.M = append(par.M, c07.Member{K: e.Key, V: &c07.JV{K: c07.Null}})
	case "respell-int", "respell-int-exp":
		x := at(d, e.Path)
		e.Was = fmt.Sprint(x.I)
		f := float64(x.I)
		raw := fmt.Sprintf("%d.0", x.I)
		if e.Kind == "respell-int-exp" {
			raw = fmt.Sprintf("%de0", x.I)
		}
		*x = c07.JV{K: c07.Flt, F: f, Raw: raw}
		e.Now = raw
	case "respell-float":
		x := at(d, e.Path)
		e.Was = x.Raw
		if e.Was == "" {
			e.Was = fmt.Sprint(x.F)
		}
		x.Raw = respelled(x.F)
		e.Now = x.Raw
	case "swap-first-two":
		a := at(d, e.Path)
		a.A[0], a.A[1] = a.A[1], a.A[0]
	case "swap-distinct":
		a := at(d, e.Path)
		a.A[e.I], a.A[e.J] = a.A[e.J], a.A[e.I]
	case "rotate":
		a := at(d, e.Path)
		a.A = append(append([]*c07.JV(nil), a.A[1:]...), a.A[0])
	case "reverse":
		a := at(d, e.Path)
		for i, j := 0, len(a.A)-1; i < j; i, j = i+1, j-1 {
			a.A[i], a.A[j] = a.A[j], a.A[i]
		}
	case "drop-first":
		a := at(d, e.Path)
		a.A = a.A[1:]
	case "drop-last":
		a := at(d, e.Path)
		a.A = a.A[:len(a.A)-1]
	}
	return d
}

func withDoc(b *base, doc *c07.JV) *c07.JV {
	e := clone(b.env)
	e.M[b.docIdx].V = doc
	return e
}

// outcome of presenting an envelope text to GOBL.
type outcome struct {
	class        string // parse-error | digest-error | validation-error:<key> | validates | panic
	detail       string
	digestSame   bool   // Envelope.Digest() equals head.dig
	gdocSame     bool   // json.Marshal(e.Document) has the base's content
	valueSame    bool   // the document GOBL holds after reading the text is deeply equal to the base's (true when unknown)
	calcErr      string // error of Calculate on the edited envelope
	newDigest    string // head.dig.val after Calculate
	newSameAsOld bool   // … equals the base digest
	newDocSame   bool   // the recalculated document has the base's content
	marshalled   string // json.Marshal(e.Document) before Calculate
	reload       string // "" or how the verdict differs when the text is read into a value that held the genuine envelope before
	mutated      string // "" or how json.Marshal(env) differs before and after Envelope.Validate (validating is not an edit)
}

func present(b *base, text string, recalc bool) (o outcome) {
	env := new(gobl.Envelope)
	p := core.Protect(func() {
		if err := json.Unmarshal([]byte(text), env); err != nil {
			o.class, o.detail = "parse-error", err.Error()
			return
		}
		before, berr := json.Marshal(env)
		err := env.Validate()
		if after, aerr := json.Marshal(env); berr == nil && aerr == nil && !bytes.Equal(before, after) {
			o.mutated = firstDifference(string(before), string(after))
		}
		var ge *gobl.Error
		switch {
		case err == nil:
			o.class = "validates"
		case errors.Is(err, gobl.ErrDigest):
			o.class, o.detail = "digest-error", err.Error()
		case errors.As(err, &ge):
			o.class, o.detail = "validation-error:"+ge.Key().String(), err.Error()
		default:
			o.class, o.detail = "validation-error:other", err.Error()
		}
	})
	if p != "" {
		o.class, o.detail = "panic", "json.Unmarshal/Envelope.Validate: "+p
		return
	}
	if o.class == "parse-error" {
		return
	}
	o.valueSame = true
	if b.payload != nil && env.Document != nil {
		_ = core.Protect(func() { o.valueSame = reflect.DeepEqual(env.Extract(), b.payload) })
	}
	// the verdict belongs to the text: a value that held the genuine envelope before (a reused,
	// pooled or cached object) must judge the text exactly like a fresh one
	if b.text != "" && b.text != text {
		_ = core.Protect(func() {
			reused := new(gobl.Envelope)
			if json.Unmarshal([]byte(b.text), reused) != nil {
				return
			}
			if err := json.Unmarshal([]byte(text), reused); err != nil {
				o.reload = "a reused value refuses the text a fresh one reads: " + err.Error()
				return
			}
			ok2 := reused.Validate() == nil
			if ok2 != (o.class == "validates") {
				o.reload = fmt.Sprintf("a fresh value says %s, a value that held the genuine envelope before says validates=%v", o.class, ok2)
			}
		})
	}
	p = core.Protect(func() {
		if env.Head != nil && env.Head.Digest != nil && env.Document != nil {
			if d2, derr := env.Digest(); derr == nil {
				o.digestSame = env.Head.Digest.Equals(d2) == nil
			}
			if m, merr := json.Marshal(env.Document); merr == nil {
				o.marshalled = string(m)
				if g, gerr := c07.ContentOf(string(m)); gerr == nil {
					o.gdocSame = c07.Equal(c07.Norm(g), b.gdoc)
				}
			}
		}
	})
	if p != "" {
		o.class, o.detail = "panic", "Envelope.Digest: "+p
		return
	}
	if recalc {
		p = core.Protect(func() {
			if err := env.Calculate(); err != nil {
				o.calcErr = err.Error()
				return
			}
			o.newDigest = env.Head.Digest.Value
			o.newSameAsOld = o.newDigest == b.digest
			if m, merr := json.Marshal(env.Document); merr == nil {
				if g, gerr := c07.ContentOf(string(m)); gerr == nil {
					o.newDocSame = c07.Equal(c07.Norm(g), b.gdoc)
				}
			}
		})
		if p != "" {
			o.calcErr = "panic: " + p
		}
	}
	return
}

// firstDifference: the place where two texts part, with a little of what follows in each.
func firstDifference(a, b string) string {
	i := 0
	for i < len(a) && i < len(b) && a[i] == b[i] {
		i++
	}
	from := i - 40
	if from < 0 {
		from = 0
	}
	cut := func(s string) string {
		to := i + 40
		if to > len(s) {
			to = len(s)
		}
		return s[from:to]
	}
	return fmt.Sprintf("before Validate …%s… after …%s…", cut(a), cut(b))
}

func member(v *c07.JV, k string) (*c07.JV, int) {
	for i, m := range v.M {
		if m.K == k {
			return m.V, i
		}
	}
	return nil, -1
}

// loadBase reads an envelope text; ok is false when it is not a valid calculated envelope.
func loadBase(name, text string) (*base, string) {
	tree, err := c07.ContentOfKeep(text)
	if err != nil || tree.K != c07.Obj {
		return nil, "not a JSON object"
	}
	doc, di := member(tree, "doc")
	head, _ := member(tree, "head")
	if doc == nil || head == nil || doc.K != c07.Obj {
		return nil, "not an envelope"
	}
	env := new(gobl.Envelope)
	if err := json.Unmarshal([]byte(text), env); err != nil {
		return nil, "unmarshal: " + err.Error()
	}
	if err := env.Validate(); err != nil {
		return nil, "does not validate: " + short(err.Error())
	}
	m, err := json.Marshal(env.Document)
	if err != nil {
		return nil, "marshal: " + err.Error()
	}
	g, err := c07.ContentOf(string(m))
	if err != nil {
		return nil, err.Error()
	}
	bs := &base{name: name, env: tree, doc: doc, docIdx: di, digest: env.Head.Digest.Value, gdoc: c07.Norm(g), text: text}
	env2 := new(gobl.Envelope)
	if json.Unmarshal([]byte(text), env2) == nil && reflect.DeepEqual(env.Extract(), env2.Extract()) {
		bs.payload = env.Extract()
	}
	return bs, ""
}

func lastName(path []string) string {
	for i := len(path) - 1; i >= 0; i-- {
		if !strings.HasPrefix(path[i], "#") {
			return path[i]
		}
	}
	return ""
}

func short(s string) string {
	if len(s) > 240 {
		return s[:240] + "…"
	}
	return s
}

func f64(x float64) *float64 { return &x }

// generated builds a few documents of other kinds with awkward strings.
func generated() map[string]string {
	out := map[string]string{}
	add := func(name string, doc any) {
		env, err := gobl.Envelop(doc)
		if err != nil {
			return
		}
		b, err := json.Marshal(env)
		if err != nil {
			return
		}
		out["generated/"+name] = string(b)
	}
	add("message", &note.Message{Title: "Tab\there \"quoted\" \\ back/slash", Content: "line1\nline2 \u00e9 \u20ac \U0001f600 \u2028 end\u007f",
		Meta: cbc.Meta{"k1": "v</script>", "k0": "&"}})
	add("message-min", &note.Message{Content: "x"})
	add("party", &org.Party{Name: "Caf\u00e9 \u4e2d\u6587 Ltd", Alias: "a\u0001b",
		Addresses:  []*org.Address{{Locality: "Z\u00fcrich", Country: "CH", Street: "Bahnhofstrasse", Number: "1"}},
		Emails:     []*org.Email{{Address: "a@example.com"}, {Address: "b@example.com"}},
		Telephones: []*org.Telephone{{Number: "+41446681800"}}})
	add("party-min", &org.Party{Name: "N"})
	add("party-coords", &org.Party{Name: "Geo", Addresses: []*org.Address{{Locality: "Madrid", Country: "ES", Street: "Gran V\u00eda", Number: "1",
		Coordinates: &org.Coordinates{Latitude: f64(40.4168), Longitude: f64(-3.7038)}}}})
	add("message-crlf", &note.Message{Content: "Payment due within 30 days.\r\nLate payments accrue interest.\nThanks"})
	_ = bill.Invoice{}
	// documents whose canonical form has a length at, just below and just above the sizes at which a
	// hash implementation changes gear (SHA-256 block and padding boundaries, buffer and chunk sizes)
	for _, n := range []int{119, 120, 128, 4096, 65536, 131072} {
		for _, dl := range []int{-1, 0, 1} {
			if msg := sizedMessage(n + dl); msg != nil {
				add(fmt.Sprintf("message-canonical-size-%d", n+dl), msg)
			}
		}
	}
	return out
}

// canonicalDocSize is the length of the canonical JSON of a document as the digest sees it.
func canonicalDocSize(doc any) int {
	env, err := gobl.Envelop(doc)
	if err != nil {
		return -1
	}
	b, err := json.Marshal(env.Document)
	if err != nil {
		return -1
	}
	cb, err := c14n.CanonicalJSON(bytes.NewReader(b))
	if err != nil {
		return -1
	}
	return len(cb)
}

// sizedMessage builds a note/message whose canonical form is exactly n bytes long (nil when n is too small).
func sizedMessage(n int) *note.Message {
	m := &note.Message{Title: "Invoice 1001 is due", Content: "x"}
	m.UUID = "0190f5c1-0003-7000-8000-000000000001"
	base := canonicalDocSize(m)
	if base < 0 || base > n {
		return nil
	}
	m.Content = strings.Repeat("x", 1+n-base)
	if canonicalDocSize(m) != n {
		return nil
	}
	return m
}

// job is one edit of one base envelope; t is the edited envelope text.
type job struct {
	b *base
	e *edit
	t string
	// an edit of a member that calculation derives or of an `ext` member: never sampled away (domain.go)
	must bool
}

// Run is the C08 sweep.
func Run(c *core.Ctx) int {
	var rc ecase
	replaying := c.ReplayCase(&rc)

	// ---- base envelopes
	texts := map[string]string{}
	files, _ := filepath.Glob(filepath.Join(c.Repo, "examples", "*", "out", "*.json"))
	sort.Strings(files)
	for _, f := range files {
		b, err := os.ReadFile(f)
		if err != nil {
			continue
		}
		rel, _ := filepath.Rel(c.Repo, f)
		texts[rel] = string(b)
	}
	for k, v := range generated() {
		texts[k] = v
	}
	names := make([]string, 0, len(texts))
	for k := range texts {
		names = append(names, k)
	}
	sort.Strings(names)
	var bases []*base
	for _, n := range names {
		b, why := loadBase(n, texts[n])
		if b == nil {
			c.Count("base:skipped", 1)
			c.Note("base %s skipped: %s", n, why)
			continue
		}
		c.Count("base:used", 1)
		bases = append(bases, b)
	}
	if len(bases) == 0 {
		c.TieBroken("drive:C08/bases", "no valid base envelope found under "+c.Repo+"/examples", nil)
		return c.Finish("", nil)
	}
	byName := map[string]*base{}
	for _, b := range bases {
		byName[b.name] = b
	}

	if replaying && rc.Clause != "" {
		if r := clause1(rc.Text); r.fail != "" {
			c.Fail("", rc.Base+": "+r.fail, &rc)
		}
		c.Eval("clause1:"+rc.Base, true)
		return c.Finish("replay", nil)
	}
	if replaying && rc.BaseText != "" {
		b, why := loadBase(rc.Base, rc.BaseText)
		if b == nil {
			// the base itself — a calculated envelope of a valid document — no longer loads or validates
			c.Fail("", rc.Base+": the base envelope of this case is refused: "+why, &rc)
			return c.Finish("replay", nil)
		}
		judgeOne(c, b, &rc, present(b, rc.Text, rc.Edit != nil))
		return c.Finish("replay", nil)
	}
	if replaying {
		b := byName[rc.Base]
		if b == nil {
			fmt.Println("replay: unknown base", rc.Base)
			return 2
		}
		judgeOne(c, b, &rc, present(b, rc.Text, rc.Edit != nil))
		return c.Finish("replay", nil)
	}

	// ---- a calculated envelope validates (after its own Calculate as well)
	for _, b := range bases {
		p := core.Protect(func() {
			env := new(gobl.Envelope)
			_ = json.Unmarshal([]byte(texts[b.name]), env)
			if err := env.Calculate(); err != nil {
				c.Count("base:recalculate_error", 1)
				return
			}
			c.Eval("calc:"+b.name, true)
			if err := env.Validate(); err != nil {
				c.Fail("", fmt.Sprintf("%s: envelope does not validate right after Calculate: %s", b.name, short(err.Error())),
					&ecase{Base: b.name, Text: texts[b.name]})
			}
		})
		if p != "" {
			c.Fail("", fmt.Sprintf("%s: Calculate/Validate panicked: %s", b.name, p), &ecase{Base: b.name, Text: texts[b.name]})
		}
	}

	cpu0 := cpuSeconds()
	lapCPU := func(what string) {
		now := cpuSeconds()
		c.Count("cpu_seconds:"+what, int64(now-cpu0+0.5))
		cpu0 = now
	}
	// ---- the first clause in full on every base: straight after Calculate, after Validate has run once,
	// after a serialise / read round (bases.go)
	for _, b := range bases {
		r := clause1(b.text)
		c.Eval("clause1:"+b.name, true)
		switch {
		case r.fail != "":
			c.Fail("", b.name+": "+r.fail, &ecase{Base: b.name, Text: b.text, Clause: "calculated-validates"})
		case !r.valid:
			c.Count("base:recalculated_not_valid:"+r.note, 1)
		}
	}

	lapCPU("bases")
	derivedList := deriveBases(c, bases)
	lapCPU("derive")
	// ---- derived bases: members the examples leave empty filled, references tied, lists in every order
	nExamples := len(bases)
	for _, dv := range derivedList {
		b, why := loadBase(dv.name, dv.text)
		if b == nil {
			c.Fail("", dv.name+": a calculated envelope that validated a moment ago is refused when read as a base: "+why,
				&ecase{Base: dv.name, Text: dv.text, Clause: "calculated-validates"})
			continue
		}
		b.focus = dv.focus
		if os.Getenv("VERIF_C08_DUMP") != "" {
			fmt.Fprintln(os.Stderr, "derived:", dv.name)
		}
		c.Count("base:derived:"+dv.stage, 1)
		bases = append(bases, b)
		texts[b.name] = b.text
	}
	c.Count("base:derived", int64(len(bases)-nExamples))
	lapCPU("load-derived")

	// ---- every single edit
	var jobs []job
	total := 0
	var derivedJobs []job
	doms := buildDomains(bases[:nExamples])
	mustSet := map[*edit]bool{}
	for _, b := range bases {
		es := enumerate(b.doc)
		if b.focus != nil {
			// a derived base: the edits of its new content (the rest is swept on the example it comes from)
			var in []*edit
			for _, e := range es {
				for _, f := range b.focus {
					if hasPrefix(e.Path, f) {
						in = append(in, e)
						break
					}
				}
			}
			total += len(in)
			for _, e := range in {
				// quick tier: the date-time / time edits on every derived base, a regular sample of the others
				if (typedKind(e.Kind) && e.Kind != "trailing-zero") {
					jobs = append(jobs, job{b: b, e: e})
				} else {
					derivedJobs = append(derivedJobs, job{b: b, e: e})
				}
			}
			continue
		}
		// the members calculation derives (source of the example against its output) are always swept
		derivedAt := map[string]bool{}
		if src := sourceOf(c.Repo, b.name); src != nil {
			derivedPaths(b.doc, src, nil, derivedAt)
			c.Count("base:with_source", 1)
		}
		nMust := 0
		for _, e := range es {
			if mustSweep(b, derivedAt, e, nMust) {
				mustSet[e] = true
			}
			if derivedAt[strings.Join(e.Path, "/")] && (e.Kind == "alter-leaf" || e.Kind == "remove-member") {
				nMust++
			}
		}
		// every string leaf replaced by other valid members of its own domain
		des := doms.domainEdits(c, b)
		c.Count("edits:domain", int64(len(des)))
		es = append(es, des...)
		// plus one unknown member added at the top of the document and in every object one level down
		es = append(es, &edit{Kind: "add-unknown-member", Path: nil})
		for _, m := range b.doc.M {
			if m.V.K == c07.Obj {
				es = append(es, &edit{Kind: "add-unknown-member", Path: []string{m.K}})
			}
		}
		total += len(es)
		for _, e := range es {
			jobs = append(jobs, job{b: b, e: e, must: mustSet[e]})
		}
	}
	c.Count("edits:enumerated", int64(total))
	c.Count("edits:derived_or_ext_member_always_swept", int64(len(mustSet)))
	for i, step := 0, len(derivedJobs)/c.Pick(3000, 40000)+1; i < len(derivedJobs); i += step {
		jobs = append(jobs, derivedJobs[i])
	}
	if !c.Thorough() {
		want := c.Pick(5000, 0)
		if len(jobs) > want {
			c.Rng.Shuffle(len(jobs), func(i, j int) { jobs[i], jobs[j] = jobs[j], jobs[i] })
			// keep every edit of the root members (cheap, and where migrations live), sample the rest
			var keep []job
			for _, j := range jobs {
				// also every edit of the small generated bases and every sign / line-ending edit
				if (len(j.e.Path) <= 1 && j.b.focus == nil) || strings.HasPrefix(j.b.name, "generated/") || j.b.focus != nil || (typedKind(j.e.Kind) && j.e.Kind != "trailing-zero") || j.e.Kind == "negate-leaf" || j.e.Kind == "swap-cr-lf" ||
					j.e.Kind == "swap-distinct" || j.e.Kind == "respell-float" || j.e.Kind == "unicode-nfd" || j.e.Kind == "unicode-nfc" || j.e.Kind == "add-empty-member" || j.e.Kind == "add-null-sibling-member" || j.must || j.e.Kind == "set-leaf" || len(keep) < want {
					keep = append(keep, j)
				}
			}
			jobs = keep
		}
	}
	outs := make([]outcome, len(jobs))
	skip := make([]bool, len(jobs))
	var wg sync.WaitGroup
	ch := make(chan int, 256)
	for w := 0; w < runtime.NumCPU(); w++ {
		wg.Add(1)
		go func() {
			defer wg.Done()
			r := rand.New(rand.NewSource(1))
			for i := range ch {
				j := &jobs[i]
				d2 := apply(j.b.doc, j.e)
				if c07.Equal(c07.Norm(d2), c07.Norm(j.b.doc)) && !rewriting(j.e.Kind) {
					skip[i] = true // e.g. swapping two equal elements: not a change of content
					continue
				}
				t, _ := c07.Render(withDoc(j.b, d2), c07.Style{}, r)
				j.t = t
				outs[i] = present(j.b, t, true)
			}
		}()
	}
	for i := range jobs {
		ch <- i
	}
	close(ch)
	wg.Wait()
	for i := range jobs {
		if skip[i] {
			c.Count("edits:content_preserving_skipped", 1)
			continue
		}
		ec := &ecase{Base: jobs[i].b.name, Text: jobs[i].t, Edit: jobs[i].e}
		if jobs[i].b.focus != nil {
			ec.BaseText = jobs[i].b.text
		}
		judgeOne(c, jobs[i].b, ec, outs[i])
	}

	lapCPU("edit-sweep")
	// ---- content-preserving re-encodings keep validating
	nre := c.Pick(7, 28)
	for _, b := range bases {
		for k := 0; k < nre; k++ {
			if b.focus != nil && k >= c.Pick(1, 7) {
				break
			}
			st := c07.Style{WS: k % 3, Shuffle: k%2 == 1, Esc: k % 7}
			if b.focus != nil { // a derived base gets fewer styles: start with one that changes something
				st = c07.Style{WS: (k + 1) % 3, Shuffle: true, Esc: (k + len(b.name)) % 7}
			}
			if k >= 7 {
				st = c07.Style{WS: c.Rng.Intn(3), Shuffle: c.Rng.Intn(2) == 0, Esc: c.Rng.Intn(7)}
			}
			t, _ := c07.Render(b.env, st, c.Rng)
			o := present(b, t, false)
			c.Count(fmt.Sprintf("reencode:esc-style-%d:%s", st.Esc, o.class), 1)
			c.Eval(fmt.Sprintf("reenc:%s:%d", b.name, k), true)
			if o.class != "validates" {
				c.Fail("", fmt.Sprintf("%s re-serialised (member order / whitespace / escapes, style %+v) no longer validates: %s %s", b.name, st, o.class, short(o.detail)),
					&ecase{Base: b.name, Text: t})
			}
		}
	}

	lapCPU("re-encodings")
	// ---- the model: digest = SHA-256 of the model's canonical bytes of json.Marshal(e.Document)
	var reqs []string
	var ref []string
	var wantDig []string
	addTie := func(name, marshalled, digest string) {
		g, err := c07.ContentOf(marshalled)
		if err != nil || c07.HasBig(g) {
			return
		}
		reqs = append(reqs, "doc "+g.EncString())
		ref = append(ref, name)
		wantDig = append(wantDig, digest)
	}
	for _, b := range bases {
		env := new(gobl.Envelope)
		if json.Unmarshal([]byte(texts[b.name]), env) == nil {
			if m, err := json.Marshal(env.Document); err == nil {
				addTie(b.name, string(m), b.digest)
			}
		}
	}
	step := len(jobs)/c.Pick(300, 3000) + 1
	for i := 0; i < len(jobs); i += step {
		if skip[i] || outs[i].marshalled == "" || outs[i].class == "parse-error" {
			continue
		}
		// the digest GOBL computes for the edited document, via the public API
		env := new(gobl.Envelope)
		if json.Unmarshal([]byte(jobs[i].t), env) != nil || env.Document == nil {
			continue
		}
		if d, err := env.Digest(); err == nil {
			addTie(jobs[i].b.name+" "+jobs[i].e.Kind+" "+strings.Join(jobs[i].e.Path, "/"), outs[i].marshalled, d.Value)
		}
	}
	resp, err := c.Model(reqs)
	if err != nil {
		c.TieBroken("drive:C08/model", err.Error(), nil)
	} else {
		for i, r := range resp {
			c.Count("model_tie", 1)
			f := strings.Fields(r)
			if len(f) != 2 || f[0] != "ok" {
				if r == "undef" {
					c.Count("skipped_outside_model", 1)
					continue
				}
				c.TieBroken("drive:C08/digest", fmt.Sprintf("model has no canonical form for the document of %s (%s)", ref[i], short(r)), ref[i])
				continue
			}
			raw, _ := hex.DecodeString(f[1])
			sum := sha256.Sum256(raw)
			if hex.EncodeToString(sum[:]) != wantDig[i] {
				c.TieBroken("drive:C08/digest", fmt.Sprintf("SHA-256 of the model's canonical bytes differs from Envelope.Digest for %s", ref[i]), ref[i])
			}
		}
	}

	lapCPU("model-tie")
	// ---- the edit calculus: the Lean oracle performs the same edit on the same document
	editTie(c, jobs)
	lapCPU("edit-tie")

	c.Note("members unknown to GOBL's structs that are added to the document are dropped by encoding/json before any GOBL code runs, so the envelope keeps validating: %d of %d such additions (counted under unknown_member_added:*, not judged: DESIGN.md C08 'Not covered')",
		c.Counters["unknown_member_added:validates"], c.Counters["edit:add-unknown-member"])
	if n := c.Counters["recalc:panic"]; n > 0 {
		c.Note("Envelope.Calculate panicked on %d edited documents (after Validate had already returned its verdict; a C14 matter): see the 'recalc:panic at …' counters", n)
	}
	c.Note("text edits that need not be edits of the document (a number respelled, a null member added): %d presented; GOBL's view of the document and the digest unchanged in %d, both changed in %d (an integer field refuses `1.0`: %d parse errors; a null entry in a map of the document becomes an empty entry)",
		c.Counters["edit:respell-int"]+c.Counters["edit:respell-int-exp"]+c.Counters["edit:respell-float"]+c.Counters["edit:add-null-member"]+c.Counters["edit:add-null-sibling-member"],
		c.Counters["rewritten:same_document_same_digest"], c.Counters["rewritten:read_as_another_document_digest_differs"],
		c.Counters["rewritten:respell-int:parse-error"]+c.Counters["rewritten:respell-int-exp:parse-error"])
	return c.Finish("every single edit of the serialised document of every valid example envelope and of a few generated documents (every leaf altered within its type, every member removed, first two array elements swapped, two elements of different content swapped, arrays rotated and reversed, first/last element dropped, a member added: unknown, under a fresh name in every nested object, under a name a sibling element has), presented to json.Unmarshal + Envelope.Validate without recalculating, then Calculate; outcomes classified; text edits that need not be edits of the document (a number respelled as a number of another kind or in another spelling, a null member added) judged by GOBL's view of the document: digest changes iff the view changes; content-preserving re-encodings (member order, whitespace, escape styles incl. \\/) must validate; model tie: SHA-256 of the Lean model's canonical bytes of json.Marshal(e.Document) = Envelope.Digest; edit tie: a sample of every edit kind performed by the Lean edit functions on the same document, oracle verdict (content changes) = canonical bytes differ = dsig digests of the two texts differ, canonical bytes = c14n.CanonicalJSON of the edited text; non-trivial = every edit; distinct by base, edit kind and path",
		map[string]any{"bases": len(bases), "edits_enumerated": total, "edits_run": len(jobs)})
}

// pathToks writes a path for the `edit` request of the driver: the number of steps, then `k <hexkey>` / `x <index>`.
func pathToks(path []string) string {
	var sb strings.Builder
	fmt.Fprintf(&sb, "%d", len(path))
	for _, p := range path {
		if strings.HasPrefix(p, "#") {
			sb.WriteString(" x " + p[1:])
		} else {
			sb.WriteString(" k " + encKey(p))
		}
	}
	return sb.String()
}

func encKey(k string) string {
	if k == "" {
		return "-"
	}
	return hex.EncodeToString([]byte(k))
}

// editRequest states the edit in the terms of Spec/C08.lean `applyOp` (set / ins / del / swap at the end of a
// path); d2 is the document as the harness edited it.
func editRequest(doc, d2 *c07.JV, e *edit) (string, bool) {
	if c07.HasBig(doc) || c07.HasBig(d2) {
		return "", false
	}
	tail := " " + doc.EncString()
	switch e.Kind {
	case "remove-member":
		n := len(e.Path) - 1
		return "edit del " + pathToks(e.Path[:n]) + " " + encKey(e.Path[n]) + tail, true
	case "add-unknown-member", "add-member", "add-empty-member", "add-sibling-member", "add-null-member", "add-null-sibling-member":
		par := at(d2, e.Path)
		m := par.M[len(par.M)-1]
		return fmt.Sprintf("edit ins %s %d %s %s", pathToks(e.Path), len(par.M)-1, encKey(m.K), m.V.EncString()) + tail, true
	case "swap-first-two":
		return "edit swap " + pathToks(e.Path) + " 0 1" + tail, true
	case "swap-distinct":
		return fmt.Sprintf("edit swap %s %d %d", pathToks(e.Path), e.I, e.J) + tail, true
	default: // a leaf replaced by another one; for drop-first / drop-last / rotate / reverse: the array by the rearranged one
		return "edit set " + pathToks(e.Path) + " " + at(d2, e.Path).EncString() + tail, true
	}
}

// editTie sends a sample of the swept edits — every kind, content-preserving ones included — to the Lean
// side, which performs the edit itself (Model/JsonEdit.lean through Spec/C08.lean `applyOp`) and answers with
// the oracle's verdict "the content changes" (proved right: Props/C08 `edit_verdict_sound`) and with the
// canonical bytes of the edited document.  Compared, on the serialised documents as texts (no GOBL struct in
// between): the canonical bytes with c14n.CanonicalJSON of the text the harness edited, their SHA-256 with
// dsig.NewSHA256Digest, and the verdict with "the digest of the edited text differs from the digest of the text".
func editTie(c *core.Ctx, jobs []job) {
	perKind := c.Pick(40, 400)
	byKind := map[string][]int{}
	var kinds []string
	for i := range jobs {
		k := jobs[i].e.Kind
		if _, ok := byKind[k]; !ok {
			kinds = append(kinds, k)
		}
		byKind[k] = append(byKind[k], i)
	}
	sort.Strings(kinds)
	type tcase struct {
		job    int
		d0, d2 string // digests GOBL's functions give for the two texts
		c2     []byte
		goErr  string
	}
	var reqs []string
	var tcs []tcase
	r := rand.New(rand.NewSource(1))
	for _, k := range kinds {
		idx := byKind[k]
		step := len(idx)/perKind + 1
		for n := 0; n < len(idx); n += step {
			j := &jobs[idx[n]]
			d2 := apply(j.b.doc, j.e)
			req, ok := editRequest(j.b.doc, d2, j.e)
			if !ok {
				c.Count("edit_tie:skipped_number_beyond_float64", 1)
				continue
			}
			t0, _ := c07.Render(j.b.doc, c07.Style{}, r)
			t2, _ := c07.Render(d2, c07.Style{}, r)
			tc := tcase{job: idx[n]}
			c0, err0 := c14n.CanonicalJSON(strings.NewReader(t0))
			c2, err2 := c14n.CanonicalJSON(strings.NewReader(t2))
			switch {
			case err0 != nil:
				tc.goErr = err0.Error()
			case err2 != nil:
				tc.goErr = err2.Error()
			default:
				tc.d0, tc.d2, tc.c2 = dsig.NewSHA256Digest(c0).Value, dsig.NewSHA256Digest(c2).Value, c2
			}
			reqs = append(reqs, req)
			tcs = append(tcs, tc)
		}
	}
	resp, err := c.Model(reqs)
	if err != nil {
		c.TieBroken("drive:C08/model", err.Error(), nil)
		return
	}
	for i, rs := range resp {
		tc := &tcs[i]
		j := &jobs[tc.job]
		where := fmt.Sprintf("%s: %s at doc/%s", j.b.name, j.e.Kind, strings.Join(j.e.Path, "/"))
		detail := map[string]any{"base": j.b.name, "edit": j.e}
		f := strings.Fields(rs)
		c.Count("edit_tie", 1)
		if len(f) != 4 || f[0] != "ok" {
			switch {
			case rs == "undef":
				c.Count("edit_tie:skipped_outside_model", 1)
			case rs == "err" && tc.goErr != "":
				c.Count("edit_tie:both_refuse", 1)
			default:
				c.TieBroken("drive:C08/edit", fmt.Sprintf("%s: the Lean side cannot perform the edit (%s)", where, short(rs)), detail)
			}
			continue
		}
		if tc.goErr != "" {
			c.TieBroken("drive:C08/edit", where+": c14n.CanonicalJSON refuses a text the model canonicalises: "+short(tc.goErr), detail)
			continue
		}
		predicted, differs := f[1] == "1", f[2] == "1"
		raw, _ := hex.DecodeString(strings.TrimPrefix(f[3], "-"))
		sum := sha256.Sum256(raw)
		c.Count(fmt.Sprintf("edit_tie:%s:content_changes=%v", j.e.Kind, predicted), 1)
		c.Eval("edit-tie:"+where, true)
		switch {
		case predicted != differs:
			c.TieBroken("drive:C08/edit-oracle", fmt.Sprintf("%s: the oracle says content changes=%v, the canonical bytes of the model differ=%v", where, predicted, differs), detail)
		case !bytes.Equal(raw, tc.c2):
			c.TieBroken("drive:C08/edit-canon", where+": the canonical bytes of the document edited by the Lean functions differ from c14n.CanonicalJSON of the text edited by the harness", detail)
		case hex.EncodeToString(sum[:]) != tc.d2:
			c.TieBroken("drive:C08/edit-digest", where+": SHA-256 of the model's canonical bytes differs from dsig.NewSHA256Digest of the same bytes", detail)
		case predicted != (tc.d0 != tc.d2):
			c.TieBroken("drive:C08/edit-verdict", fmt.Sprintf("%s: the oracle says content changes=%v, the digests of the two texts differ=%v", where, predicted, tc.d0 != tc.d2), detail)
		}
	}
}

// judgeRewritten: an edit of the serialised TEXT that need not be an edit of the document.
//   - A number written in another way: an integer as `N.0` / `Ne0` (for c14n and for `norm` a number of
//     another kind: the content of the text changes), a float64 in another spelling (the same float64: the
//     content of the text does not change).
//   - A member whose value is null added, under a name GOBL does not know or under the name of a member
//     that a sibling has (for `norm` no change of content: null members are none).
//
// GOBL reads the text into typed fields first and the digest is taken of what it writes back, so whether
// this is a change of the document is decided by GOBL's view of it (json.Marshal(e.Document)), not by the
// text: a field of an integer type refuses `1.0` (parse error: evident), a float64 field reads the same
// number, a null leaves a field as it is.  Judged: the digest changes iff GOBL's view of the document
// changes, and the envelope validates only when it does not.
func judgeRewritten(c *core.Ctx, ec *ecase, where string, o outcome) {
	c.Count("rewritten:"+ec.Edit.Kind+":"+strings.SplitN(o.class, ":", 2)[0], 1)
	switch {
	case o.class == "panic":
		c.Fail("", where+": panicked: "+short(o.detail), ec)
	case o.class == "parse-error":
		// the text is refused: evident
	case o.reload != "":
		c.Fail("", where+": "+o.reload, ec)
	case !o.gdocSame && o.digestSame:
		c.Fail("", where+": GOBL's view of the document changed but the digest did not", ec)
	case o.gdocSame && !o.digestSame:
		c.TieBroken("drive:C08/rewritten", where+": GOBL's view of the document is unchanged but Envelope.Digest differs from head.dig", ec)
	case o.class == "validates" && !o.gdocSame:
		c.Fail("", where+": the envelope still validates although GOBL's view of the document changed", ec)
	case o.gdocSame:
		c.Count("rewritten:same_document_same_digest", 1)
	default:
		c.Count("rewritten:read_as_another_document_digest_differs", 1)
		c.Count("rewritten:read_as_another_document at "+ec.Edit.Kind+" "+lastName(ec.Edit.Path), 1)
	}
}

// judgeOne applies the property oracle to one presented envelope.
func judgeOne(c *core.Ctx, b *base, ec *ecase, o outcome) {
	if ec.Edit == nil {
		if o.class != "validates" {
			c.Fail("", fmt.Sprintf("%s re-serialised no longer validates: %s %s", b.name, o.class, short(o.detail)), ec)
		}
		return
	}
	e := ec.Edit
	key := b.name + " " + e.Kind + " " + strings.Join(e.Path, "/")
	if e.Kind == "set-leaf" {
		key += " " + e.Now
		c.Count("edit:set-leaf:"+strings.SplitN(e.Dom, ":", 2)[0], 1)
	}
	c.Eval(key, true)
	c.Count("edit:"+e.Kind, 1)
	where := fmt.Sprintf("%s: %s at doc/%s", b.name, e.Kind, strings.Join(e.Path, "/"))
	if e.Was != "" || e.Now != "" {
		where += fmt.Sprintf(" (%q -> %q)", short(e.Was), short(e.Now))
	}
	if e.Kind == "add-unknown-member" {
		// members GOBL does not know are dropped by encoding/json before any GOBL code runs;
		// counted separately (DESIGN.md, C08 "Not covered"), not judged
		c.Count("unknown_member_added:"+o.class, 1)
		return
	}
	if (e.Kind == "add-member" || e.Kind == "add-empty-member" || e.Kind == "add-sibling-member") && o.class != "parse-error" && o.class != "panic" && o.gdocSame && o.digestSame && o.valueSame {
		// the new member does not reach GOBL's view of the document (a name the struct at that place
		// does not have is dropped by encoding/json; for a sibling's name: the two elements are of
		// different types, as the complements of a document are): counted, not judged, like the
		// unknown member above
		c.Count("member_added_not_seen_by_gobl:"+e.Kind+":"+o.class, 1)
		return
	}
	if rewriting(e.Kind) {
		judgeRewritten(c, ec, where, o)
		return
	}
	c.Count("outcome:"+strings.SplitN(o.class, ":", 2)[0], 1)
	if o.mutated != "" {
		// not what C08 states (C04 does: validating never changes an envelope; harness/props/c04 judges it on
		// edited envelopes too): counted here, and part of the message when the verdict is wrong
		c.Count("validate_changed_the_envelope", 1)
		c.Count("validate_changed_the_envelope at "+e.Kind+" "+lastName(e.Path), 1)
	}
	if o.class != "digest-error" || len(e.Path) > 2 {
		c.Sample(map[string]any{"edit": where, "validate": o.class, "detail": short(o.detail), "digest_unchanged": o.digestSame,
			"after_calculate": map[string]any{"error": short(o.calcErr), "digest_same_as_before": o.newSameAsOld, "content_same_as_before": o.newDocSame}})
	}
	if o.reload != "" {
		c.Fail("", where+": "+o.reload, ec)
		return
	}
	switch {
	case o.class == "panic":
		cls := ""
		if e.Kind == "remove-member" && len(e.Path) == 1 && e.Path[0] == "tax" && usesAddon(b.doc, "gr-mydata-v1") {
			cls = clsGrTax
		}
		c.Fail(cls, where+": panicked: "+short(o.detail), ec)
		return
	case o.class == "parse-error":
		// the edited text cannot even be loaded: evident
	case o.class == "digest-error":
		// what the property asks for
	case o.class == "validates":
		cls := ""
		if rederivedAtUnmarshal(e) {
			cls = clsRederived
		} else if removesZeroValued(b, e) {
			cls = clsZeroMember
		}
		why := "the digest did not change although GOBL's view of the document did"
		if o.gdocSame {
			why = "the edit is lost when the document is unmarshalled (json.Marshal(e.Document) is unchanged), so the digest cannot see it"
			if !o.valueSame {
				why = "the document GOBL holds after reading the text differs from the genuine one, but json.Marshal(e.Document) writes the same bytes for both: what the digest is computed from hides the change"
			}
		}
		if o.mutated != "" {
			why += "; Envelope.Validate changed the document it was validating (" + o.mutated + ")"
		}
		c.Fail(cls, where+": the envelope still validates without recalculating: "+why, ec)
	default: // a validation error raised before verifyDigest is reached
		if o.digestSame {
			// the change was caught by validation only; the digest itself is blind to it
			c.Count("validation_error_but_digest_unchanged", 1)
			cls := ""
			if rederivedAtUnmarshal(e) {
				cls = clsRederived
			} else if removesZeroValued(b, e) {
				cls = clsZeroMember
			}
			c.Fail(cls, where+": validation fails ("+short(o.detail)+") but the digest is unchanged: the digest does not see this edit", ec)
		} else {
			c.Count("validation_error_and_digest_differs", 1)
		}
	}
	// after recalculating: the digest changes iff the recalculated content differs
	switch {
	case o.class == "parse-error" || o.class == "panic":
	case strings.HasPrefix(o.calcErr, "panic: "):
		// Calculate crashed on the edited document: no recalculated digest to look at (a C14 matter)
		c.Count("recalc:panic", 1)
		c.Count("recalc:panic at "+e.Kind+" "+lastName(e.Path), 1)
	case o.calcErr != "":
		c.Count("recalc:error", 1)
	case o.newDocSame && o.newSameAsOld:
		c.Count("recalc:edit_undone_by_calculate_same_digest", 1)
	case !o.newDocSame && !o.newSameAsOld:
		c.Count("recalc:new_digest_differs", 1)
	case !o.newDocSame && o.newSameAsOld:
		c.Fail("", where+": after Calculate the document differs from the original but the digest is the same", ec)
	default:
		c.Fail("", where+": after Calculate the document has the original content but the digest differs", ec)
	}
}

// cpuSeconds: user+system CPU time of this process so far.
func cpuSeconds() float64 {
	var ru syscall.Rusage
	if syscall.Getrusage(syscall.RUSAGE_SELF, &ru) != nil {
		return 0
	}
	return float64(ru.Utime.Sec+ru.Stime.Sec) + float64(ru.Utime.Usec+ru.Stime.Usec)/1e6
}
