package c08

// Derived base documents.
//
// The statement quantifies over "all envelopes built from any valid document" and over every leaf, member
// and array of it.  The example documents leave whole kinds of content out (optional members nobody set, leaf
// types that occur once or never, lists whose elements happen to be in one order).  Three generic stages
// build further valid documents from the examples; the only filter is the real code's own verdict "this
// document calculates and validates":
//
//	A  fill:   every member that the Go type of the document has and the example leaves empty is set once —
//	           a leaf to a value of its type, an absent object to an object with its leaves filled, an absent
//	           list to a list of one and of two such objects (found by reflection over the value GOBL holds);
//	B  refer:  in a filled document every identifier-like leaf outside the new content is set to the value of
//	           a leaf of the same shape inside it (two places of the document naming the same thing);
//	C  order:  every list of objects gets its last element twice, the copy differing in one scalar member:
//	           ascending, descending, exact duplicate, member absent in one of the two.
//
// Every candidate goes through the first clause of the property (clause1): Calculate, then Validate must not
// report a digest error, must not change what the digest is taken of, must say the same when asked twice, and
// the calculated envelope written out and read back must validate with the same digest.  The valid ones
// become bases of the single-edit sweep (edits within the new content only).

import (
	"encoding"
	"encoding/json"
	"errors"
	"fmt"
	"reflect"
	"regexp"
	"runtime"
	"sort"
	"strings"
	"sync"
	"time"

	"github.com/invopop/gobl"

	"verifharness/internal/core"
	"verifharness/props/c07"
)

var (
	reDateTime = regexp.MustCompile(`^[0-9]{4}-[0-9]{2}-[0-9]{2}T[0-9]{2}:[0-9]{2}:[0-9]{2}(\.[0-9]+)?$`)
	reTime     = regexp.MustCompile(`^[0-9]{2}:[0-9]{2}:[0-9]{2}(\.[0-9]+)?$`)
	reUpper    = regexp.MustCompile(`^[A-Z][A-Z0-9]{1,5}$`)
	reKeyLike  = regexp.MustCompile(`^[a-z0-9]+([-+][a-z0-9]+)*$`)
)

// shapeOf: the apparent type of a string leaf, from its text.
func shapeOf(s string) string {
	switch {
	case reDateTime.MatchString(s):
		return "date-time"
	case reDate.MatchString(s):
		return "date"
	case reTime.MatchString(s):
		return "time"
	case reUUID.MatchString(s):
		return "uuid"
	case reAmount.MatchString(s):
		return "amount"
	case reUpper.MatchString(s):
		return "upper-code"
	case reKeyLike.MatchString(s):
		return "key"
	}
	return "text"
}

// ---- the first clause

type c1result struct {
	calcText string // the calculated envelope as written out ("" when Calculate fails)
	valid    bool   // Calculate succeeds and Validate accepts the document
	fail     string // a violation of the first clause
	note     string
}

// clause1 runs the first clause of the property on an envelope text: `text` holds a document (calculated or
// not) under any header.
func clause1(text string) (r c1result) {
	p := core.Protect(func() {
		env := new(gobl.Envelope)
		if err := json.Unmarshal([]byte(text), env); err != nil {
			r.note = "unreadable"
			return
		}
		if err := env.Calculate(); err != nil {
			r.note = "calculate-error"
			return
		}
		if env.Head == nil || env.Head.Digest == nil {
			r.fail = "Calculate leaves the header without a digest"
			return
		}
		d0 := env.Head.Digest.Value
		b0, err := json.Marshal(env)
		if err != nil {
			r.note = "marshal-error"
			return
		}
		r.calcText = string(b0)
		// straight after Calculate
		err1 := env.Validate()
		if errors.Is(err1, gobl.ErrDigest) {
			r.fail = "the envelope does not validate straight after Calculate: " + short(err1.Error())
			return
		}
		r.valid = err1 == nil
		// Validate is a question, not an operation: what the digest is taken of is still the same
		if d1, err := env.Digest(); err != nil {
			r.fail = "Envelope.Digest fails after Validate: " + err.Error()
			return
		} else if d1.Value != d0 {
			r.fail = "Validate changed the document: the digest taken after Validate differs from the one Calculate put in the header"
			return
		}
		// after Validate has run once
		err2 := env.Validate()
		if errors.Is(err2, gobl.ErrDigest) || (err1 == nil) != (err2 == nil) {
			r.fail = fmt.Sprintf("Validate asked twice on the same calculated envelope answers differently: first %s, then %s", errText(err1), errText(err2))
			return
		}
		// after a serialise / read round
		env2 := new(gobl.Envelope)
		if err := json.Unmarshal(b0, env2); err != nil {
			if r.valid {
				r.fail = "the calculated envelope, written out, cannot be read back: " + short(err.Error())
			}
			return
		}
		err3 := env2.Validate()
		switch {
		case errors.Is(err3, gobl.ErrDigest):
			r.fail = "the calculated envelope no longer validates after being written out and read back: " + short(err3.Error())
			return
		case r.valid && err3 != nil:
			r.fail = "the calculated envelope validates in memory but not after being written out and read back: " + short(err3.Error())
			return
		}
		if d3, err := env2.Digest(); err == nil && d3.Value != d0 {
			r.fail = "the digest of the calculated envelope read back differs from the one in its header"
			return
		}
		// ... and once more after that Validate
		if err4 := env2.Validate(); errors.Is(err4, gobl.ErrDigest) || (err3 == nil) != (err4 == nil) {
			r.fail = fmt.Sprintf("Validate asked twice on the envelope read back answers differently: first %s, then %s", errText(err3), errText(err4))
		}
	})
	if p != "" {
		r.note = "panic"
		r.valid = false
	}
	return
}

func errText(err error) string {
	if err == nil {
		return "valid"
	}
	return short(err.Error())
}

// ---- stage A: fill what the Go type has and the document leaves empty

var (
	tJSONMarshaler = reflect.TypeOf((*json.Marshaler)(nil)).Elem()
	tTextMarshaler = reflect.TypeOf((*encoding.TextMarshaler)(nil)).Elem()
)

// isLeafType: a type that is written as one JSON scalar.
func isLeafType(t reflect.Type) bool {
	for t.Kind() == reflect.Ptr {
		t = t.Elem()
	}
	if t.Implements(tJSONMarshaler) || reflect.PtrTo(t).Implements(tJSONMarshaler) ||
		t.Implements(tTextMarshaler) || reflect.PtrTo(t).Implements(tTextMarshaler) {
		return t.Kind() != reflect.Map && t.Kind() != reflect.Slice || t.Elem().Kind() == reflect.Uint8
	}
	switch t.Kind() {
	case reflect.String, reflect.Bool, reflect.Int, reflect.Int8, reflect.Int16, reflect.Int32, reflect.Int64,
		reflect.Uint, reflect.Uint8, reflect.Uint16, reflect.Uint32, reflect.Uint64, reflect.Float32, reflect.Float64:
		return true
	case reflect.Slice:
		return t.Elem().Kind() == reflect.Uint8
	}
	return false
}

// literals a leaf may be written as, one pair per leaf type that the formats of JSON Schema and the num, cal,
// cbc, currency, l10n and uuid packages know; which of them a Go type takes is decided by that type's own
// UnmarshalJSON and Validate.
var leafLiterals = []string{
	`"USD"`, `"EUR"`, `"GBP"`, `"ES"`, `"FR"`, `"US"`, `"VERIF1"`, `"VERIF2"`, `"verif-key-a"`, `"verif-key-b"`,
	`"2024-02-28"`, `"2024-03-01"`, `"2024-05-08T17:00:00"`, `"2024-05-09T08:30:15.250"`, `"17:00:00"`, `"08:30:15"`,
	`"0190f5c1-0008-7000-8000-0000000000a1"`, `"0190f5c1-0008-7000-8000-0000000000a2"`,
	`"10.00"`, `"12.50"`, `"5.0%"`, `"7.5%"`, `"dmVyaWYtYQ=="`, `"dmVyaWYtYg=="`,
	`true`, `3`, `7`, `1.5`, `2.25`,
}

var (
	litMu    sync.Mutex
	litCache = map[reflect.Type][]reflect.Value{}
)

// litsFor: the values of leaf type t (pointers stripped) that the literals give.
func litsFor(t reflect.Type, tag string) []reflect.Value {
	for t.Kind() == reflect.Ptr {
		t = t.Elem()
	}
	if t.Kind() == reflect.String && t.PkgPath() == "" {
		// a plain string: any text, or what the schema tag asks for
		var ss []string
		switch {
		case strings.Contains(tag, "format=email"):
			ss = []string{"verif.a@example.com", "verif.b@example.com"}
		case strings.Contains(tag, "format=uri"):
			ss = []string{"https://example.com/verif/a", "https://example.com/verif/b"}
		default:
			ss = []string{"Verif text A", "Verif text B"}
		}
		var out []reflect.Value
		for _, s := range ss {
			out = append(out, reflect.ValueOf(s))
		}
		return out
	}
	litMu.Lock()
	defer litMu.Unlock()
	if v, ok := litCache[t]; ok {
		return v
	}
	var out []reflect.Value
	for _, lit := range leafLiterals {
		p := reflect.New(t)
		ok := false
		_ = core.Protect(func() {
			if json.Unmarshal([]byte(lit), p.Interface()) != nil || p.Elem().IsZero() {
				return
			}
			if v, is := p.Interface().(interface{ Validate() error }); is && v.Validate() != nil {
				return
			}
			// what is written back is the literal's content (an integer type takes `3`, not a string type)
			ok = true
		})
		if ok {
			out = append(out, p.Elem())
		}
		if len(out) >= 4 {
			break
		}
	}
	litCache[t] = out
	return out
}

func jsonName(sf reflect.StructField) (name string, omitempty, skip bool) {
	tag, has := sf.Tag.Lookup("json")
	if tag == "-" {
		return "", false, true
	}
	parts := strings.Split(tag, ",")
	name = sf.Name
	if has && parts[0] != "" {
		name = parts[0]
	}
	for _, p := range parts[1:] {
		if p == "omitempty" {
			omitempty = true
		}
	}
	return
}

// site: an empty member of the document as GOBL holds it.
type site struct {
	acc   []int // the way to it: field index, or -(i+1) for the element i of a list
	jpath []string
	key   string // Go struct type and field
	sf    reflect.StructField
}

func walkSites(v reflect.Value, acc []int, jpath []string, depth int, out *[]site) {
	for v.Kind() == reflect.Ptr || v.Kind() == reflect.Interface {
		if v.IsNil() {
			return
		}
		v = v.Elem()
	}
	if depth > 12 || isLeafType(v.Type()) {
		return
	}
	switch v.Kind() {
	case reflect.Struct:
		t := v.Type()
		for i := 0; i < t.NumField(); i++ {
			sf := t.Field(i)
			if sf.PkgPath != "" {
				continue
			}
			name, _, skip := jsonName(sf)
			if skip {
				continue
			}
			a2 := append(append([]int(nil), acc...), i)
			if sf.Anonymous {
				if _, has := sf.Tag.Lookup("json"); !has {
					walkSites(v.Field(i), a2, jpath, depth+1, out)
					continue
				}
			}
			j2 := append(append([]string(nil), jpath...), name)
			fv := v.Field(i)
			if fv.IsZero() || ((fv.Kind() == reflect.Slice || fv.Kind() == reflect.Map) && fv.Len() == 0) {
				*out = append(*out, site{acc: a2, jpath: j2, key: t.String() + "." + sf.Name, sf: sf})
				continue
			}
			walkSites(fv, a2, j2, depth+1, out)
		}
	case reflect.Slice:
		for i := 0; i < v.Len(); i++ {
			walkSites(v.Index(i), append(append([]int(nil), acc...), -(i + 1)),
				append(append([]string(nil), jpath...), fmt.Sprintf("#%d", i)), depth+1, out)
		}
	}
}

func navigate(v reflect.Value, acc []int) (reflect.Value, bool) {
	for _, a := range acc {
		for v.Kind() == reflect.Ptr || v.Kind() == reflect.Interface {
			if v.IsNil() {
				return v, false
			}
			v = v.Elem()
		}
		switch {
		case a >= 0 && v.Kind() == reflect.Struct && a < v.NumField():
			v = v.Field(a)
		case a < 0 && v.Kind() == reflect.Slice && -a-1 < v.Len():
			v = v.Index(-a - 1)
		default:
			return v, false
		}
	}
	return v, v.CanSet()
}

// builder fills values of a type: successive leaves of one type get successive values of it.
type builder struct {
	rot  int
	mode int // 0 everything, 1 leaves only, 2 only members that are always written (no omitempty)
	used map[reflect.Type]int
}

func (b *builder) leaf(t reflect.Type, tag string) (reflect.Value, bool) {
	lits := litsFor(t, tag)
	if len(lits) == 0 {
		return reflect.Value{}, false
	}
	base := t
	for base.Kind() == reflect.Ptr {
		base = base.Elem()
	}
	n := b.used[base]
	b.used[base] = n + 1
	v := lits[(n+b.rot)%len(lits)]
	return wrap(v, t), true
}

// wrap gives v (of the pointer-free type) the type t (pointers added).
func wrap(v reflect.Value, t reflect.Type) reflect.Value {
	if t.Kind() != reflect.Ptr {
		return v.Convert(t)
	}
	inner := wrap(v, t.Elem())
	p := reflect.New(t.Elem())
	p.Elem().Set(inner)
	return p
}

func (b *builder) value(t reflect.Type, tag string, depth int) (reflect.Value, bool) {
	if isLeafType(t) {
		return b.leaf(t, tag)
	}
	switch t.Kind() {
	case reflect.Ptr:
		inner, ok := b.value(t.Elem(), tag, depth)
		if !ok {
			return reflect.Value{}, false
		}
		p := reflect.New(t.Elem())
		p.Elem().Set(inner)
		return p, true
	case reflect.Struct:
		if depth <= 0 {
			return reflect.Value{}, false
		}
		s := reflect.New(t).Elem()
		any := false
		for i := 0; i < t.NumField(); i++ {
			sf := t.Field(i)
			if sf.PkgPath != "" {
				continue
			}
			_, omit, skip := jsonName(sf)
			if skip || (b.mode == 2 && omit) || (b.mode == 1 && !isLeafType(sf.Type)) {
				continue
			}
			if fv, ok := b.value(sf.Type, string(sf.Tag), depth-1); ok {
				s.Field(i).Set(fv)
				any = true
			}
		}
		return s, any
	case reflect.Slice:
		if depth <= 0 {
			return reflect.Value{}, false
		}
		e, ok := b.value(t.Elem(), tag, depth-1)
		if !ok {
			return reflect.Value{}, false
		}
		return reflect.Append(reflect.MakeSlice(t, 0, 1), e), true
	}
	return reflect.Value{}, false
}

// fill is one value to try at an empty member.
type fill struct {
	variant string
	v       reflect.Value
}

// fills: the values to try at an empty member, grouped by variant; within a variant the most complete first.
// An absent list is filled with one element and with two: the second element takes the next value of every
// leaf type ("ascending" — in every member at once), the two the other way round ("descending"), the same
// element twice ("duplicate").
func fills(sf reflect.StructField) []fill {
	t := sf.Type
	tag := string(sf.Tag)
	var out []fill
	if isLeafType(t) {
		for rot := 0; rot < 2; rot++ {
			b := &builder{rot: rot, used: map[reflect.Type]int{}}
			if v, ok := b.leaf(t, tag); ok {
				out = append(out, fill{fmt.Sprintf("value%d", rot), v})
			}
		}
		return out
	}
	if t.Kind() == reflect.Map {
		return nil
	}
	for _, mode := range []int{0, 1, 2} {
		b := &builder{mode: mode, used: map[reflect.Type]int{}}
		v, ok := b.value(t, tag, 3)
		if !ok {
			continue
		}
		out = append(out, fill{"one", v})
		if t.Kind() == reflect.Slice && t.Elem().Kind() != reflect.Uint8 {
			e0 := v.Index(0)
			if e1, ok := b.value(t.Elem(), tag, 2); ok { // the same builder goes on: the next values
				out = append(out,
					fill{"ascending", reflect.Append(reflect.Append(reflect.MakeSlice(t, 0, 2), e0), e1)},
					fill{"descending", reflect.Append(reflect.Append(reflect.MakeSlice(t, 0, 2), e1), e0)},
					fill{"duplicate", reflect.Append(reflect.Append(reflect.MakeSlice(t, 0, 2), e0), e0)})
			}
		}
	}
	return out
}

// derived is one derived base before it is loaded.
type derived struct {
	name   string
	text   string     // the calculated envelope
	focus  [][]string // where the new content is
	stage  string
	key    string
	acc    []int        // stage A: the member that was filled
	refT   reflect.Type // stage B: the leaf type tied, and the leaf of the new content that took a value from elsewhere
	refAcc []int
}

type deriver struct {
	c    *core.Ctx
	mu   sync.Mutex
	out  []derived
	seen map[string]bool // digests of documents already kept
}

// try runs the first clause on a candidate; a violation is reported with the candidate as the witness.
func (d *deriver) try(nd derived, cand string) bool {
	name, stage := nd.name, nd.stage
	r := clause1(cand)
	d.mu.Lock()
	defer d.mu.Unlock()
	d.c.Count("derive:"+stage+":tried", 1)
	if r.fail != "" {
		d.c.Fail("", fmt.Sprintf("%s: %s", name, r.fail), &ecase{Base: name, Text: cand, Clause: "calculated-validates"})
		return false
	}
	if !r.valid {
		if r.note == "" {
			r.note = "document-invalid"
		}
		d.c.Count("derive:"+stage+":discarded:"+r.note, 1)
		return false
	}
	d.c.Eval("clause1:"+name, true)
	d.c.Count("derive:"+stage+":valid", 1)
	nd.text = r.calcText
	d.out = append(d.out, nd)
	return true
}

type keyed struct {
	key   string
	tasks []func() bool // each: one attempt, true when a base came of it
}

// runKeyed: for every key the attempts in order until `want` succeeded or `maxTry` were made; keys in parallel.
func runKeyed(ks []keyed, want, maxTry int) {
	ch := make(chan int, len(ks))
	for i := range ks {
		ch <- i
	}
	close(ch)
	var wg sync.WaitGroup
	for w := 0; w < runtime.NumCPU(); w++ {
		wg.Add(1)
		go func() {
			defer wg.Done()
			for i := range ch {
				got, tried := 0, 0
				for _, t := range ks[i].tasks {
					if got >= want || tried >= maxTry {
						break
					}
					tried++
					if t() {
						got++
					}
				}
			}
		}()
	}
	wg.Wait()
}

func group(m map[string][]func() bool) []keyed {
	var ks []keyed
	for k, t := range m {
		ks = append(ks, keyed{k, t})
	}
	sort.Slice(ks, func(i, j int) bool { return ks[i].key < ks[j].key })
	return ks
}

// stageA: per (struct type, field, variant) that some base leaves empty.
func (d *deriver) stageA(bases []*base, want, maxTry int) {
	tasks := map[string][]func() bool{}
	for _, b := range bases {
		env := new(gobl.Envelope)
		if json.Unmarshal([]byte(b.text), env) != nil || env.Document == nil {
			continue
		}
		var sites []site
		_ = core.Protect(func() { walkSites(reflect.ValueOf(env.Extract()), nil, nil, 0, &sites) })
		for _, s := range sites {
			s, b := s, b
			var fs []fill
			_ = core.Protect(func() { fs = fills(s.sf) })
			for k, f := range fs {
				k, f := k, f
				key := s.key + " " + f.variant
				tasks[key] = append(tasks[key], func() bool {
					var cand string
					_ = core.Protect(func() {
						e2 := new(gobl.Envelope)
						if json.Unmarshal([]byte(b.text), e2) != nil {
							return
						}
						fv, ok := navigate(reflect.ValueOf(e2.Extract()), s.acc)
						if !ok {
							return
						}
						fv.Set(fills(s.sf)[k].v)
						if out, err := json.Marshal(e2); err == nil {
							cand = string(out)
						}
					})
					if cand == "" {
						return false
					}
					return d.try(derived{name: fmt.Sprintf("derived/fill/%s/%s:%s#%d", b.name, strings.Join(s.jpath, "/"), f.variant, k), stage: "fill", key: key,
						focus: [][]string{s.jpath}, acc: s.acc}, cand)
				})
			}
		}
	}
	runKeyed(group(tasks), want, maxTry)
}

// gleaf: an identifier-like leaf (a named string type: a code, a key) of the document as GOBL holds it.
type gleaf struct {
	acc   []int
	jpath []string
	t     reflect.Type
	s     string
}

func walkLeaves(v reflect.Value, acc []int, jpath []string, depth int, out *[]gleaf) {
	for v.Kind() == reflect.Ptr || v.Kind() == reflect.Interface {
		if v.IsNil() {
			return
		}
		v = v.Elem()
	}
	if depth > 12 {
		return
	}
	if isLeafType(v.Type()) {
		if v.Kind() == reflect.String && v.Type().PkgPath() != "" && v.String() != "" {
			*out = append(*out, gleaf{acc, jpath, v.Type(), v.String()})
		}
		return
	}
	switch v.Kind() {
	case reflect.Struct:
		t := v.Type()
		for i := 0; i < t.NumField(); i++ {
			sf := t.Field(i)
			if sf.PkgPath != "" {
				continue
			}
			name, _, skip := jsonName(sf)
			if skip {
				continue
			}
			a2 := append(append([]int(nil), acc...), i)
			if sf.Anonymous {
				if _, has := sf.Tag.Lookup("json"); !has {
					walkLeaves(v.Field(i), a2, jpath, depth+1, out)
					continue
				}
			}
			walkLeaves(v.Field(i), a2, append(append([]string(nil), jpath...), name), depth+1, out)
		}
	case reflect.Slice:
		for i := 0; i < v.Len(); i++ {
			walkLeaves(v.Index(i), append(append([]int(nil), acc...), -(i + 1)),
				append(append([]string(nil), jpath...), fmt.Sprintf("#%d", i)), depth+1, out)
		}
	}
}

func accPrefix(a, pre []int) bool {
	if len(a) < len(pre) {
		return false
	}
	for i := range pre {
		if a[i] != pre[i] {
			return false
		}
	}
	return true
}

type referCand struct {
	rarity int
	key    string
	run    func() bool
}

// stageB: two places of a document naming the same thing.  inward: an identifier-like leaf of the new
// content takes the value of a leaf of the same Go type elsewhere in the document; outward (on the results of
// inward, for the same Go type): a leaf elsewhere takes the value of another leaf of the new content.
// The leaf types with the fewest places in the document go first (budget).
func (d *deriver) stageB(from []derived, outward bool, budget int) {
	var cands []referCand
	for _, dv := range from {
		dv := dv
		env := new(gobl.Envelope)
		if json.Unmarshal([]byte(dv.text), env) != nil || env.Document == nil {
			continue
		}
		var ls []gleaf
		_ = core.Protect(func() { walkLeaves(reflect.ValueOf(env.Extract()), nil, nil, 0, &ls) })
		nOut := map[reflect.Type]int{}
		for _, l := range ls {
			if !accPrefix(l.acc, dv.acc) {
				nOut[l.t]++
			}
		}
		set := func(at gleaf, val string, stage, key, what string) func() bool {
			return func() bool {
				var cand string
				_ = core.Protect(func() {
					e2 := new(gobl.Envelope)
					if json.Unmarshal([]byte(dv.text), e2) != nil {
						return
					}
					fv, ok := navigate(reflect.ValueOf(e2.Extract()), at.acc)
					for ok && fv.Kind() == reflect.Ptr && !fv.IsNil() {
						fv = fv.Elem()
					}
					if !ok || fv.Kind() != reflect.String || !fv.CanSet() {
						return
					}
					fv.SetString(val)
					if out, err := json.Marshal(e2); err == nil {
						cand = string(out)
					}
				})
				if cand == "" {
					return false
				}
				nd := derived{name: "derived/" + stage + "/" + strings.TrimPrefix(dv.name, "derived/") + "/" + what, stage: stage, key: key,
					focus: append(append([][]string(nil), dv.focus...), at.jpath), acc: dv.acc, refT: at.t, refAcc: at.acc}
				if outward {
					nd.refAcc = dv.refAcc
				}
				return d.try(nd, cand)
			}
		}
		for _, in := range ls {
			if !accPrefix(in.acc, dv.acc) {
				continue
			}
			if !outward {
				seen := map[string]bool{in.s: true}
				for _, o := range ls {
					if accPrefix(o.acc, dv.acc) || o.t != in.t || seen[o.s] {
						continue
					}
					seen[o.s] = true
					key := dv.key + " " + lastName(in.jpath) + ":=" + lastName(o.jpath)
					cands = append(cands, referCand{nOut[in.t], key,
						set(in, o.s, "refer-inward", key, strings.Join(in.jpath, "/")+":="+strings.Join(o.jpath, "/"))})
				}
				continue
			}
			// outward: another leaf of the new content, of the type that was tied inward
			if in.t != dv.refT || reflect.DeepEqual(in.acc, dv.refAcc) {
				continue
			}
			for _, o := range ls {
				if accPrefix(o.acc, dv.acc) || o.t != in.t || o.s == in.s {
					continue
				}
				key := dv.key + " " + lastName(o.jpath) + ":=" + lastName(in.jpath)
				cands = append(cands, referCand{nOut[in.t], key,
					set(o, in.s, "refer-outward", key, strings.Join(o.jpath, "/")+":="+strings.Join(in.jpath, "/"))})
			}
		}
	}
	sort.SliceStable(cands, func(i, j int) bool {
		if cands[i].rarity != cands[j].rarity {
			return cands[i].rarity < cands[j].rarity
		}
		return cands[i].key < cands[j].key
	})
	// one base per key, first come; the budget counts attempts
	tasks := map[string][]func() bool{}
	var order []string
	n := 0
	for _, cd := range cands {
		if n >= budget {
			d.c.Count("derive:refer:beyond_budget", 1)
			continue
		}
		if _, ok := tasks[cd.key]; !ok {
			order = append(order, cd.key)
		}
		if len(tasks[cd.key]) < 3 {
			tasks[cd.key] = append(tasks[cd.key], cd.run)
			n++
		}
	}
	runKeyed(group(tasks), 1, 3)
}

// atSafe walks a path; nil when it does not exist.
func atSafe(v *c07.JV, path []string) *c07.JV {
	for _, p := range path {
		if v == nil {
			return nil
		}
		if strings.HasPrefix(p, "#") {
			var i int
			if _, err := fmt.Sscanf(p, "#%d", &i); err != nil || v.K != c07.Arr || i < 0 || i >= len(v.A) {
				return nil
			}
			v = v.A[i]
		} else {
			if v.K != c07.Obj {
				return nil
			}
			x, _ := member(v, p)
			v = x
		}
	}
	return v
}

type leafAt struct {
	path []string
	v    *c07.JV
}

func leavesOf(v *c07.JV, path []string, out *[]leafAt) {
	switch v.K {
	case c07.Obj:
		for _, m := range v.M {
			leavesOf(m.V, append(append([]string(nil), path...), m.K), out)
		}
	case c07.Arr:
		for i, x := range v.A {
			leavesOf(x, append(append([]string(nil), path...), fmt.Sprintf("#%d", i)), out)
		}
	case c07.Null:
	default:
		*out = append(*out, leafAt{path, v})
	}
}

func hasPrefix(p, pre []string) bool {
	if len(p) < len(pre) {
		return false
	}
	for i := range pre {
		if p[i] != pre[i] {
			return false
		}
	}
	return true
}

func envText(tree *c07.JV) string {
	t, _ := c07.Render(tree, c07.Style{}, nil)
	return t
}

// docOf parses an envelope text into its tree and the index of doc.
func docOf(text string) (*c07.JV, *c07.JV, int) {
	tree, err := c07.ContentOfKeep(text)
	if err != nil || tree.K != c07.Obj {
		return nil, nil, -1
	}
	doc, di := member(tree, "doc")
	if doc == nil || doc.K != c07.Obj {
		return nil, nil, -1
	}
	return tree, doc, di
}

// greater: another value of the same apparent type, later / larger where the type has an order.
func greater(v *c07.JV) *c07.JV {
	o := clone(v)
	switch v.K {
	case c07.Int:
		o.I++
	case c07.Flt:
		o.F++
		o.Raw = ""
	case c07.Str:
		switch shapeOf(v.S) {
		case "date":
			if t, err := time.Parse("2006-01-02", v.S); err == nil {
				o.S = t.AddDate(0, 0, 1).Format("2006-01-02")
				return o
			}
		case "date-time":
			if t, err := time.Parse("2006-01-02", v.S[:10]); err == nil {
				o.S = t.AddDate(0, 0, 1).Format("2006-01-02") + v.S[10:]
				return o
			}
		}
		o.S = alterString(v.S)
	}
	return o
}

// stageC: the last element of a list twice, the two differing in one scalar member, in every order.
func (d *deriver) stageC(name, text string, within [][]string, keyPrefix string, tasks map[string][]func() bool) {
	tree, doc, di := docOf(text)
	if tree == nil {
		return
	}
	var rec func(v *c07.JV, path []string)
	rec = func(v *c07.JV, path []string) {
		switch v.K {
		case c07.Obj:
			for _, m := range v.M {
				rec(m.V, append(append([]string(nil), path...), m.K))
			}
		case c07.Arr:
			for i, x := range v.A {
				rec(x, append(append([]string(nil), path...), fmt.Sprintf("#%d", i)))
			}
			if len(v.A) == 0 || v.A[len(v.A)-1].K != c07.Obj {
				return
			}
			if within != nil {
				ok := false
				for _, w := range within {
					if hasPrefix(w, path) || hasPrefix(path, w) {
						ok = true
					}
				}
				if !ok {
					return
				}
			}
			last := v.A[len(v.A)-1]
			p := append([]string(nil), path...)
			for _, m := range last.M {
				if m.V.K != c07.Str && m.V.K != c07.Int && m.V.K != c07.Flt {
					continue
				}
				mk := m.K
				for _, variant := range []string{"ascending", "descending", "duplicate", "absent-first", "absent-last"} {
					variant := variant
					key := keyPrefix + lastName(p) + "[]." + mk + " " + variant
					tasks[key] = append(tasks[key], func() bool {
						t2 := clone(tree)
						arr := atSafe(t2.M[di].V, p)
						if arr == nil || len(arr.A) == 0 {
							return false
						}
						e := arr.A[len(arr.A)-1]
						e2 := clone(e)
						old, k := member(e2, mk)
						if old == nil {
							return false
						}
						switch variant {
						case "ascending", "descending":
							e2.M[k].V = greater(old)
						case "absent-first", "absent-last":
							e2.M = append(e2.M[:k:k], e2.M[k+1:]...)
						}
						switch variant {
						case "ascending", "duplicate", "absent-last":
							arr.A = append(arr.A, e2)
						default:
							arr.A = append(arr.A[:len(arr.A)-1:len(arr.A)-1], e2, e)
						}
						return d.try(derived{name: fmt.Sprintf("derived/order/%s/%s.%s:%s", strings.TrimPrefix(name, "derived/"), strings.Join(p, "/"), mk, variant),
							stage: "order", key: key, focus: [][]string{p}}, envText(t2))
					})
				}
			}
		}
	}
	_ = di
	rec(doc, nil)
}

// deriveBases runs the stages over the example bases.
func deriveBases(c *core.Ctx, bases []*base) []derived {
	d := &deriver{c: c}
	var ex []*base
	for _, b := range bases {
		if !strings.HasPrefix(b.name, "generated/message-canonical-size") {
			ex = append(ex, b)
		}
	}
	t0 := time.Now()
	lap := func(what string) {
		c.Count("derive:ms:"+what, time.Since(t0).Milliseconds())
		t0 = time.Now()
	}
	d.stageA(ex, c.Pick(1, 3), c.Pick(6, 24))
	lap("fill")
	sortDerived(d.out)
	a := append([]derived(nil), d.out...)
	d.stageB(a, false, c.Pick(1500, 8000))
	lap("refer-inward")
	sortDerived(d.out)
	var b1 []derived
	for _, dv := range d.out {
		if dv.stage == "refer-inward" {
			b1 = append(b1, dv)
		}
	}
	d.stageB(b1, true, c.Pick(1500, 8000))
	lap("refer-outward")
	tasks := map[string][]func() bool{}
	for _, b := range ex {
		d.stageC(b.name, b.text, nil, "", tasks)
	}
	runKeyed(group(tasks), c.Pick(1, 3), c.Pick(4, 12))
	lap("order")
	sortDerived(d.out)
	return d.out
}

func sortDerived(ds []derived) {
	sort.SliceStable(ds, func(i, j int) bool { return ds[i].name < ds[j].name })
}

// typed edits: the smallest changes of a leaf that stay within its apparent type.
func typedEdits(v *c07.JV) []string {
	if v.K != c07.Str {
		return nil
	}
	switch shapeOf(v.S) {
	case "date-time", "time":
		return []string{"fraction-tenth", "fraction-nano", "zone-suffix"}
	case "amount":
		return []string{"trailing-zero"}
	}
	return nil
}

func applyTyped(kind, s string) string {
	switch kind {
	case "fraction-tenth": // half a second later, or the fraction a digit longer
		if strings.Contains(s, ".") {
			if len(s)-strings.Index(s, ".") > 9 {
				return alterString(s)
			}
			return s + "5"
		}
		return s + ".5"
	case "fraction-nano": // a nanosecond later
		if i := strings.Index(s, "."); i >= 0 {
			frac := (s[i+1:] + "000000000")[:9]
			if frac[8] == '9' {
				return s[:i+1] + frac[:8] + "8"
			}
			return s[:i+1] + frac[:8] + string(frac[8]+1)
		}
		return s + ".000000001"
	case "zone-suffix":
		return s + "Z"
	case "trailing-zero": // the same quantity to one more decimal
		pct := strings.HasSuffix(s, "%")
		n := strings.TrimSuffix(s, "%")
		if strings.Contains(n, ".") {
			n += "0"
		} else {
			n += ".0"
		}
		if pct {
			n += "%"
		}
		return n
	}
	return s
}

func typedKind(k string) bool {
	switch k {
	case "fraction-tenth", "fraction-nano", "zone-suffix", "trailing-zero":
		return true
	}
	return false
}
