// Package c02: the tax summary partitions taxable amounts and sums them
// correctly.  Grouping structure and figures are judged on the real output;
// the same documents are compared with the Lean model for which
// Props/C02.lean proves the partition and summation theorems.
package c02

import (
	"encoding/json"
	"strings"

	"github.com/invopop/gobl/l10n"
	"github.com/invopop/gobl/tax"

	"verifharness/internal/calcproto"
	"verifharness/internal/core"
	"verifharness/props/c01"
)

func effectiveRule(d *calcproto.Doc) string {
	if d.Rule != "" {
		return d.Rule
	}
	return string(tax.RegimeDefFor(l10n.TaxCountryCode(d.Country).Code()).GetRoundingRule())
}

// Run is the C02 check.
func Run(c *core.Ctx) int {
	var docs []*calcproto.Doc
	var rc c01.Case
	if c.ReplayCase(&rc) {
		docs = []*calcproto.Doc{rc.Doc}
	} else {
		n := c.Pick(4000, 300000)
		for len(docs) < n {
			o := calcproto.GenOpts{NoBreakdown: true, NoForeign: len(docs)%3 != 0, ZeroRates: true}
			if c.Thorough() && len(docs)%10 == 0 {
				o.MaxLines = 40
			}
			docs = append(docs, calcproto.Gen(c.Rng, o))
		}
	}
	res, err := c01.RunDocs(c, docs)
	if err != nil {
		c.TieBroken("drive:C02/model", err.Error(), nil)
		return c.Finish("", nil)
	}
	// every real output also goes through the Lean oracle Spec.C02.summaryOk (the statement of C02 as one
	// executable function over the input document and its calculated output, proved of the model by
	// Props.C02.tax_summary_spec)
	var leanReqs []string
	var leanDocs []*calcproto.Doc
	for i, d := range docs {
		r := res[i]
		inv := d.Invoice()
		var cerr error
		if pan := core.Protect(func() { cerr = inv.Calculate() }); pan != "" || cerr != nil {
			c.Count("go:error", 1)
			continue
		}
		sub := uint32(2)
		if def := inv.Currency.Def(); def != nil {
			sub = def.Subunits
		}
		rule := effectiveRule(d)
		c.Count("rule:"+rule, 1)
		if d.Includes != "" {
			c.Count("tax-included", 1)
		}
		ngroups, ncats, nret, nsur, nexempt := 0, 0, 0, 0, 0
		if inv.Totals != nil && inv.Totals.Taxes != nil {
			for _, ct := range inv.Totals.Taxes.Categories {
				ncats++
				if ct.Retained {
					nret++
				}
				for _, rt := range ct.Rates {
					ngroups++
					if rt.Surcharge != nil {
						nsur++
					}
					if rt.Percent == nil {
						nexempt++
					}
				}
			}
		}
		c.Count("categories", int64(ncats))
		c.Count("groups", int64(ngroups))
		c.Count("retained-categories", int64(nret))
		c.Count("surcharge-groups", int64(nsur))
		c.Count("exempt-groups", int64(nexempt))
		if !r.Agree {
			c.Count("skipped:outside-2^52-domain", 1)
			continue
		}
		c.Eval(r.Req, ngroups > 1)
		if i%997 == 0 {
			c.Sample(map[string]any{"doc": d, "go": r.GoOut})
		}
		if strings.HasPrefix(r.Req, "calc ") {
			leanReqs = append(leanReqs, "summary "+strings.TrimPrefix(r.Req, "calc ")+" "+calcproto.EncodeOut(inv))
			leanDocs = append(leanDocs, d)
		}
		for k, n := range calcproto.Families(d) {
			c.Count("family:"+k, int64(n))
		}
		errs := calcproto.TaxSummaryOracle(inv, sub, rule == "currency", d.Includes)
		// groups are distinguished by the country the issuer wrote on the combo
		errs = append(errs, calcproto.WrittenCountries(d, inv)...)
		if len(errs) > 0 {
			c.Fail("", "tax summary: "+strings.Join(errs, "; "), c01.Case{Doc: d})
			continue
		}
		if r.Agree && r.Skipped == "" && r.GoErr == "" && r.GoOut != r.Model {
			c.TieBroken("drive:C02/calc", "Go output differs from the model although the summary oracle holds", c01.Case{Doc: d})
		}
	}
	verdicts, err := c.ModelProp("C02", leanReqs)
	if err != nil {
		c.TieBroken("drive:C02/oracle", err.Error(), nil)
		return c.Finish("", nil)
	}
	noted := false
	for k, v := range verdicts {
		switch {
		case v == "1":
			c.Count("lean-oracle:summaryOk-holds", 1)
		case strings.HasPrefix(v, "0"):
			c.Count("lean-oracle:summaryOk-fails", 1)
			if !noted {
				// kept in the evidence even when the five printed violations are taken by the Go-side oracle
				noted = true
				js, _ := json.Marshal(leanDocs[k])
				c.Note("first document refused by the Lean oracle Spec.C02.summaryOk (failing clauses:%s): %s", v[1:], js)
			}
			c.Fail("", "Spec.C02.summaryOk is false on the calculated document as the real code presents it; failing clauses:"+v[1:], c01.Case{Doc: leanDocs[k]})
		default:
			c.TieBroken("drive:C02/oracle", "the Lean driver did not understand the request: "+v, c01.Case{Doc: leanDocs[k]})
		}
	}
	return c.Finish("random documents with 0-3 tax combos per row (ordinary and retained categories, explicit percentages, rate keys resolved by the regime, exempt combos, surcharges, extension-qualified combos, per-combo country overrides: by another regime, by a country without one, by every other code the document's own regime is registered under, next to the same rate without override; rows sharing a rate key the regime defines without values under different percentages; every registered regime and documents without one), zero and negative totals, with and without a tax-included category, both rules; judged by the Go-side oracle (math/big, with the stated rounding slack) and exactly by the Lean oracle Spec.C02.summaryOk on the encoded output, group countries judged against the countries WRITTEN on the combos (calcproto.WrittenCountries); non-trivial = more than one rate group; distinct by encoded document", nil)
}
