// Package c20 ties the Lean model of tax.Total.Merge / Negate / Clone /
// RateTotal.Matches / Total.Calculate (Model/Merge.lean) and of the payment
// totals (Model/Payment.lean) to the real code, judges the specification of
// C20 (Spec/C20.lean) on the Go outputs, and checks on the real objects the
// half of the property a functional model cannot express: neither operation
// alters its operands (bytes of the JSON and every field, exported or not,
// before / after the operation and after recalculating the result in place).
package c20

import (
	"crypto/sha1"
	"encoding/json"
	"fmt"
	"math/big"
	"math/rand"
	"reflect"
	"sort"
	"strings"

	"github.com/invopop/gobl/bill"
	"github.com/invopop/gobl/cbc"
	"github.com/invopop/gobl/currency"
	"github.com/invopop/gobl/l10n"
	"github.com/invopop/gobl/num"
	"github.com/invopop/gobl/org"
	_ "github.com/invopop/gobl/regimes" // registers the regime definitions (GR: currency rounding)
	"github.com/invopop/gobl/tax"

	"verifharness/internal/core"
)

// ---------- serialisable input description ----------

type amt struct {
	V int64
	E uint32
}

type rateIn struct {
	Key     string
	Country string
	Ext     map[string]string
	Base    amt
	Percent *amt
	SurPct  *amt
	SurAmt  *amt
	Amount  amt
}

type catIn struct {
	Code      string
	Retained  bool
	Rates     []rateIn
	Amount    amt
	Surcharge *amt
}

type totalIn struct {
	Categories []catIn
	Sum        amt
	// when set, the summary is passed through Total.Calculate(Cur, rule) first
	Calc     bool
	Cur      string
	Currency bool // rounding rule "currency"
}

type rateX struct {
	From, To string
	Amount   amt
}

type lineIn struct {
	Currency string
	Debit    *amt
	Credit   *amt
	HasDoc   bool
	DocCur   string
	Tax      *totalIn
}

type payIn struct {
	Regime   string // "" or "EL"
	Currency string
	Total    amt
	Rates    []rateX
	Lines    []lineIn
	// a tax summary the payment carries BEFORE the calculation (as the total
	// above: figures that arrived with a stored document or were left by an
	// earlier calculation); the property makes the result a function of the lines
	PrevTax *totalIn `json:",omitempty"`
}

// editIn is one in-memory edit of a calculated payment (recalculation relation).
type editIn struct {
	Op     string // drop-line add-line drop-doc-tax drop-doc set-doc-tax currency line-amounts line-currency doc-currency clear-lines swap rates
	I, J   int
	Line   *lineIn  `json:",omitempty"`
	Tax    *totalIn `json:",omitempty"`
	Cur    string   `json:",omitempty"`
	Debit  *amt     `json:",omitempty"`
	Credit *amt     `json:",omitempty"`
	Rates  []rateX  `json:",omitempty"`
}

type tcase struct {
	Op     string // merge negate seq pay matches calc
	A, B   *totalIn
	Seq    []totalIn
	Pay    *payIn
	RA, RB *rateIn
	Stream string
	// Op "repay": Pay is calculated, then every round of edits is applied to the
	// in-memory payment and it is calculated again
	Rounds [][]editIn `json:",omitempty"`
}

func mk(a amt) num.Amount { return num.MakeAmount(a.V, a.E) }

func (r rateIn) build() *tax.RateTotal {
	rt := &tax.RateTotal{Key: cbc.Key(r.Key), Country: l10n.TaxCountryCode(r.Country), Base: mk(r.Base), Amount: mk(r.Amount)}
	if len(r.Ext) > 0 {
		rt.Ext = tax.Extensions{}
		for k, v := range r.Ext {
			rt.Ext[cbc.Key(k)] = cbc.Code(v)
		}
	}
	if r.Percent != nil {
		p := num.MakePercentage(r.Percent.V, r.Percent.E)
		rt.Percent = &p
	}
	if r.SurPct != nil && r.SurAmt != nil {
		rt.Surcharge = &tax.RateTotalSurcharge{Percent: num.MakePercentage(r.SurPct.V, r.SurPct.E), Amount: mk(*r.SurAmt)}
	}
	return rt
}

func (t *totalIn) build() *tax.Total {
	if t == nil {
		return nil
	}
	out := &tax.Total{Sum: mk(t.Sum)}
	for _, c := range t.Categories {
		ct := &tax.CategoryTotal{Code: cbc.Code(c.Code), Retained: c.Retained, Amount: mk(c.Amount)}
		if c.Surcharge != nil {
			s := mk(*c.Surcharge)
			ct.Surcharge = &s
		}
		for _, r := range c.Rates {
			ct.Rates = append(ct.Rates, r.build())
		}
		out.Categories = append(out.Categories, ct)
	}
	if t.Calc {
		rr := tax.RoundingRulePrecise
		if t.Currency {
			rr = tax.RoundingRuleCurrency
		}
		out.Calculate(currency.Code(t.Cur), rr)
	}
	return out
}

// ---------- canonical text of a *tax.Total, unexported fields included ----------

func sA(a num.Amount) string { return fmt.Sprintf("%d:%d", a.Value(), a.Exp()) }

func unexportedAmount(v reflect.Value, field string) string {
	f := v.FieldByName(field)
	return fmt.Sprintf("%d:%d", f.FieldByName("value").Int(), f.FieldByName("exp").Uint())
}

func serRate(rt *tax.RateTotal) string {
	var sb strings.Builder
	fmt.Fprintf(&sb, "R %s %s %d", core.Hex(string(rt.Key)), core.Hex(string(rt.Country)), len(rt.Ext))
	keys := make([]string, 0, len(rt.Ext))
	for k := range rt.Ext {
		keys = append(keys, string(k))
	}
	sort.Strings(keys)
	for _, k := range keys {
		fmt.Fprintf(&sb, " %s %s", core.Hex(k), core.Hex(string(rt.Ext[cbc.Key(k)])))
	}
	fmt.Fprintf(&sb, " %s", sA(rt.Base))
	if rt.Percent != nil {
		fmt.Fprintf(&sb, " %d:%d", rt.Percent.Value(), rt.Percent.Exp())
	} else {
		sb.WriteString(" -")
	}
	if rt.Surcharge != nil {
		fmt.Fprintf(&sb, " %d:%d %s", rt.Surcharge.Percent.Value(), rt.Surcharge.Percent.Exp(), sA(rt.Surcharge.Amount))
	} else {
		sb.WriteString(" - -")
	}
	fmt.Fprintf(&sb, " %s", sA(rt.Amount))
	return sb.String()
}

func serTotal(t *tax.Total) string {
	if t == nil {
		return "N"
	}
	tv := reflect.ValueOf(t).Elem()
	var sb strings.Builder
	fmt.Fprintf(&sb, "T %s %s %d", sA(t.Sum), unexportedAmount(tv, "sum"), len(t.Categories))
	for _, ct := range t.Categories {
		cv := reflect.ValueOf(ct).Elem()
		sur := "-"
		if ct.Surcharge != nil {
			sur = sA(*ct.Surcharge)
		}
		r := 0
		if ct.Retained {
			r = 1
		}
		fmt.Fprintf(&sb, " C %s %d %s %s %s %d", core.Hex(string(ct.Code)), r, sA(ct.Amount), sur, unexportedAmount(cv, "amount"), len(ct.Rates))
		for _, rt := range ct.Rates {
			sb.WriteString(" " + serRate(rt))
		}
	}
	return sb.String()
}

func jsonOf(v any) string {
	b, err := json.Marshal(v)
	if err != nil {
		return "marshal-error:" + err.Error()
	}
	return string(b)
}

// state captures everything observable of an operand: JSON bytes and the
// canonical text with unexported fields.
func state(t *tax.Total) string { return jsonOf(t) + " | " + serTotal(t) }

// ---------- independent oracle in Go ----------

func ratStr(v int64, e uint32) string {
	den := new(big.Int).Exp(big.NewInt(10), big.NewInt(int64(e)), nil)
	return new(big.Rat).SetFrac(big.NewInt(v), den).RatString()
}

// groupKey: extensions, country, percentage value (or exempt), surcharge percentage value
func groupKey(rt *tax.RateTotal) string {
	keys := make([]string, 0, len(rt.Ext))
	for k, v := range rt.Ext {
		keys = append(keys, string(k)+"="+string(v))
	}
	sort.Strings(keys)
	s := strings.Join(keys, ",") + "|" + string(rt.Country) + "|"
	if rt.Percent == nil {
		return s + "exempt"
	}
	s += ratStr(rt.Percent.Value(), rt.Percent.Exp())
	if rt.Surcharge != nil {
		s += "+" + ratStr(rt.Surcharge.Percent.Value(), rt.Surcharge.Percent.Exp())
	}
	return s
}

type figures map[string][3]*big.Int // key "code/group" -> base, amount, surcharge ; "code" -> amount, surcharge, rows

func addTo(m figures, k string, a, b, c int64) {
	cur, ok := m[k]
	if !ok {
		cur = [3]*big.Int{new(big.Int), new(big.Int), new(big.Int)}
	}
	cur[0].Add(cur[0], big.NewInt(a))
	cur[1].Add(cur[1], big.NewInt(b))
	cur[2].Add(cur[2], big.NewInt(c))
	m[k] = cur
}

// figuresOf sums the figures per category code and per rate group; ok=false when
// the summary is not at one common precision e.
func figuresOf(t *tax.Total, e uint32) (figures, bool) {
	m := figures{}
	ok := t.Sum.Exp() == e
	for _, ct := range t.Categories {
		var sur int64
		if ct.Surcharge != nil {
			sur = ct.Surcharge.Value()
			ok = ok && ct.Surcharge.Exp() == e
		}
		ok = ok && ct.Amount.Exp() == e
		addTo(m, "cat:"+string(ct.Code), ct.Amount.Value(), sur, int64(len(ct.Rates)))
		for _, rt := range ct.Rates {
			var rs int64
			if rt.Surcharge != nil {
				rs = rt.Surcharge.Amount.Value()
				ok = ok && rt.Surcharge.Amount.Exp() == e
			}
			ok = ok && rt.Base.Exp() == e && rt.Amount.Exp() == e
			addTo(m, "grp:"+string(ct.Code)+"/"+groupKey(rt), rt.Base.Value(), rt.Amount.Value(), rs)
		}
	}
	return m, ok
}

func figEq(a, b figures, skipRows bool) string {
	for k, x := range a {
		y, ok := b[k]
		if !ok {
			y = [3]*big.Int{new(big.Int), new(big.Int), new(big.Int)}
		}
		for i := 0; i < 3; i++ {
			if skipRows && i == 2 && strings.HasPrefix(k, "cat:") {
				continue
			}
			if x[i].Cmp(y[i]) != 0 {
				return fmt.Sprintf("%s figure %d: %s vs %s", k, i, x[i], y[i])
			}
		}
	}
	for k, y := range b {
		if _, ok := a[k]; !ok {
			for i := 0; i < 3; i++ {
				if skipRows && i == 2 && strings.HasPrefix(k, "cat:") {
					continue
				}
				if y[i].Sign() != 0 {
					return fmt.Sprintf("%s figure %d: 0 vs %s", k, i, y[i])
				}
			}
		}
	}
	return ""
}

func figSum(a, b figures) figures {
	m := figures{}
	for _, src := range []figures{a, b} {
		for k, x := range src {
			addTo(m, k, 0, 0, 0)
			for i := 0; i < 3; i++ {
				m[k][i].Add(m[k][i], x[i])
			}
		}
	}
	return m
}

// input classifiers (predicates over the operands only)

func hasDuplicates(t *tax.Total) bool {
	seen := map[string]bool{}
	for _, ct := range t.Categories {
		if seen[string(ct.Code)] {
			return true
		}
		seen[string(ct.Code)] = true
		g := map[string]bool{}
		for _, rt := range ct.Rates {
			k := groupKey(rt)
			if g[k] {
				return true
			}
			g[k] = true
		}
	}
	return false
}

func hasExemptSurcharge(t *tax.Total) bool {
	for _, ct := range t.Categories {
		for _, rt := range ct.Rates {
			if rt.Percent == nil && rt.Surcharge != nil {
				return true
			}
		}
	}
	return false
}

func uniformExp(t *tax.Total) (uint32, bool) {
	e := t.Sum.Exp()
	_, ok := figuresOf(t, e)
	return e, ok
}

// ---------- generators ----------

var catCodes = []string{"VAT", "IRPF", "IGIC", "GST"}
var rateKeys = []string{"standard", "reduced", "exempt", "zero", "", "super-reduced"}
var pctPool = []*amt{{210, 3}, {21, 2}, {100, 3}, {10, 2}, {200, 3}, {20, 2}, {2, 1}, {0, 2}, {0, 3}, {4, 2}, {15, 2}, nil, nil}
var surPool = []*amt{{52, 3}, {14, 3}, {5, 3}, {520, 4}}
var extPool = []map[string]string{nil, nil, nil, {"es-tbai-exemption": "E1"}, {"es-tbai-exemption": "E2"}, {"x-a": "1", "x-b": "2"}, {"x-a": "1"}}
var countryPool = []string{"", "", "", "PT", "FR"}
var curPool = []string{"EUR", "EUR", "USD", "JPY", "KWD", "CLF"}

func randAmt(r *rand.Rand, e uint32) amt {
	bits := 1 + r.Intn(34)
	v := r.Int63() >> (63 - uint(bits))
	switch r.Intn(12) {
	case 0:
		v = 0
	case 1:
		v = -v
	case 2:
		v = -v
	}
	return amt{v, e}
}

func genRate(r *rand.Rand, e uint32, weird bool) rateIn {
	rt := rateIn{Key: rateKeys[r.Intn(len(rateKeys))], Country: countryPool[r.Intn(len(countryPool))], Ext: extPool[r.Intn(len(extPool))],
		Base: randAmt(r, e), Amount: randAmt(r, e)}
	if p := pctPool[r.Intn(len(pctPool))]; p != nil {
		q := *p
		rt.Percent = &q
		if r.Intn(4) == 0 {
			s := *surPool[r.Intn(len(surPool))]
			a := randAmt(r, e)
			rt.SurPct, rt.SurAmt = &s, &a
		}
	} else if weird && r.Intn(3) == 0 {
		// an exempt group carrying a surcharge: schema-valid JSON can say this (Merge
		// used to dereference nil when only the second operand's group had one)
		s := *surPool[r.Intn(len(surPool))]
		a := randAmt(r, e)
		rt.SurPct, rt.SurAmt = &s, &a
	}
	return rt
}

type shape struct {
	exp    uint32
	mixed  bool // different precisions inside the summary
	weird  bool // exempt groups with surcharges
	dups   bool // duplicate categories / rate groups
	calc   bool
	cur    string
	rrCurr bool
}

func groupID(rt rateIn) string { return groupKey(rt.build()) }

func genTotal(r *rand.Rand, sh shape) *totalIn {
	t := &totalIn{Calc: sh.calc, Cur: sh.cur, Currency: sh.rrCurr}
	nc := r.Intn(4)
	if r.Intn(10) == 0 {
		nc = 0
	}
	used := map[string]bool{}
	e := func() uint32 {
		if sh.mixed && r.Intn(3) == 0 {
			return uint32(r.Intn(5))
		}
		return sh.exp
	}
	for i := 0; i < nc; i++ {
		code := catCodes[r.Intn(len(catCodes))]
		if used[code] && !sh.dups {
			continue
		}
		used[code] = true
		c := catIn{Code: code, Retained: code == "IRPF" || r.Intn(8) == 0, Amount: randAmt(r, e())}
		if r.Intn(3) == 0 {
			a := randAmt(r, e())
			c.Surcharge = &a
		}
		nr := r.Intn(4)
		seen := map[string]bool{}
		for j := 0; j < nr; j++ {
			rt := genRate(r, e(), sh.weird)
			rt.Base.E, rt.Amount.E = e(), e()
			id := groupID(rt)
			if seen[id] && !sh.dups {
				continue
			}
			seen[id] = true
			c.Rates = append(c.Rates, rt)
		}
		t.Categories = append(t.Categories, c)
	}
	t.Sum = randAmt(r, e())
	return t
}

// related derives a second summary sharing categories and rate groups with the
// first, with asymmetric shapes: different figures, rows dropped or added,
// surcharge on one side only, another key or percentage spelling for the same group.
func related(r *rand.Rand, a *totalIn, sh shape) *totalIn {
	b := &totalIn{Calc: a.Calc, Cur: a.Cur, Currency: a.Currency, Sum: randAmt(r, sh.exp)}
	e := func() uint32 {
		if sh.mixed && r.Intn(3) == 0 {
			return uint32(r.Intn(5))
		}
		return sh.exp
	}
	for _, c := range a.Categories {
		if r.Intn(5) == 0 {
			continue
		}
		nc := catIn{Code: c.Code, Retained: c.Retained, Amount: randAmt(r, e())}
		if r.Intn(12) == 0 {
			nc.Retained = !nc.Retained
		}
		switch r.Intn(3) {
		case 0:
			x := randAmt(r, e())
			nc.Surcharge = &x
		case 1:
			if c.Surcharge != nil {
				x := randAmt(r, e())
				nc.Surcharge = &x
			}
		}
		seen := map[string]bool{}
		for _, rt := range c.Rates {
			if r.Intn(5) == 0 {
				continue
			}
			n := rt
			n.Key = rateKeys[r.Intn(len(rateKeys))]
			n.Base, n.Amount = randAmt(r, e()), randAmt(r, e())
			if n.Percent != nil && r.Intn(3) == 0 {
				// same value, other spelling: 20% = 20.0%
				q := amt{n.Percent.V * 10, n.Percent.E + 1}
				n.Percent = &q
			}
			if n.SurAmt != nil {
				x := randAmt(r, e())
				n.SurAmt = &x
				if r.Intn(4) == 0 {
					n.SurPct, n.SurAmt = nil, nil // surcharge on one side only
				}
			} else if n.Percent != nil && r.Intn(5) == 0 {
				s := *surPool[r.Intn(len(surPool))]
				x := randAmt(r, e())
				n.SurPct, n.SurAmt = &s, &x
			} else if n.Percent == nil && sh.weird && r.Intn(3) == 0 {
				s := *surPool[r.Intn(len(surPool))]
				x := randAmt(r, e())
				n.SurPct, n.SurAmt = &s, &x
			}
			id := groupID(n)
			if seen[id] && !sh.dups {
				continue
			}
			seen[id] = true
			nc.Rates = append(nc.Rates, n)
		}
		for k := r.Intn(3); k > 0; k-- {
			n := genRate(r, e(), sh.weird)
			id := groupID(n)
			if seen[id] && !sh.dups {
				continue
			}
			seen[id] = true
			nc.Rates = append(nc.Rates, n)
		}
		b.Categories = append(b.Categories, nc)
	}
	if r.Intn(2) == 0 {
		x := genTotal(r, sh)
		have := map[string]bool{}
		for _, c := range b.Categories {
			have[c.Code] = true
		}
		for _, c := range x.Categories {
			if !have[c.Code] || sh.dups {
				b.Categories = append(b.Categories, c)
				have[c.Code] = true
			}
		}
	}
	if r.Intn(2) == 0 {
		r.Shuffle(len(b.Categories), func(i, j int) { b.Categories[i], b.Categories[j] = b.Categories[j], b.Categories[i] })
	}
	return b
}

func genShape(r *rand.Rand) (shape, string) {
	switch k := r.Intn(20); {
	case k < 9:
		return shape{exp: 2}, "uniform"
	case k < 11:
		return shape{exp: []uint32{0, 3, 4}[r.Intn(3)]}, "uniform"
	case k < 15:
		cur := curPool[r.Intn(len(curPool))]
		return shape{exp: 2 + uint32(r.Intn(3)), calc: true, cur: cur, rrCurr: r.Intn(3) == 0}, "calculated"
	case k < 17:
		return shape{exp: 2, dups: true}, "duplicates"
	case k < 19:
		return shape{exp: 2, weird: true}, "exempt-surcharge"
	default:
		return shape{exp: 2, mixed: true}, "mixed-precision"
	}
}

func curExp(code string) (uint32, bool) {
	d := currency.Get(currency.Code(code))
	if d == nil {
		return 0, false
	}
	return d.Subunits, true
}

func genPay(r *rand.Rand) *payIn {
	curs := []string{"EUR", "USD", "JPY", "KWD", "MXN", "CLF"}
	p := &payIn{Currency: curs[r.Intn(len(curs))]}
	if r.Intn(3) == 0 {
		p.Currency = "EUR"
	}
	if r.Intn(5) == 0 {
		p.Regime = "EL"
	}
	pe, _ := curExp(p.Currency)
	if r.Intn(3) == 0 {
		p.Total = randAmt(r, pe)
	}
	big := r.Intn(8) == 0
	rateAmt := func() amt {
		if big { // a rate written with many digits, as rates of exchange are
			return amt{1 + r.Int63n(10000000000), uint32(6 + r.Intn(4))}
		}
		return amt{1 + r.Int63n(3000000), uint32(2 + r.Intn(5))}
	}
	ncur := 1 + r.Intn(3)
	others := []string{}
	for len(others) < ncur-1 {
		c := curs[r.Intn(len(curs))]
		if c != p.Currency {
			others = append(others, c)
		}
	}
	for _, o := range others {
		if r.Intn(10) == 0 {
			continue // missing rate: error path
		}
		p.Rates = append(p.Rates, rateX{From: o, To: p.Currency, Amount: rateAmt()})
		if r.Intn(4) == 0 { // a second rate for the same pair: the first wins
			p.Rates = append(p.Rates, rateX{From: o, To: p.Currency, Amount: rateAmt()})
		}
		if r.Intn(4) == 0 {
			p.Rates = append(p.Rates, rateX{From: p.Currency, To: o, Amount: amt{1 + r.Int63n(3000000), 4}})
		}
	}
	nl := r.Intn(11)
	for i := 0; i < nl; i++ {
		l := lineIn{}
		lc := p.Currency
		switch r.Intn(4) {
		case 0:
			l.Currency = p.Currency
		case 1, 2:
			if len(others) > 0 {
				lc = others[r.Intn(len(others))]
				l.Currency = lc
			}
		case 3:
			if r.Intn(40) == 0 {
				lc = "XXX" // not a currency: no exchange rate, error path
				l.Currency = lc
			}
		}
		le, _ := curExp(lc)
		ae := le
		switch r.Intn(10) {
		case 0:
			ae = le + 1 + uint32(r.Intn(2)) // finer than the currency
		case 1:
			if le > 0 {
				ae = le - 1
			}
		}
		small := func() amt {
			a := randAmt(r, ae)
			if big {
				// beyond the exact domain of the float64 product (but far from the int64 range of the
				// result): only closeness to the exact sum is judged there
				a.V = r.Int63n(1 << 36)
				if r.Intn(2) == 0 {
					a.V = -a.V
				}
				return a
			}
			// Convert raises an amount coarser than the payment currency to that
			// precision before multiplying: keep the raised value below 2^26 so that
			// the product with the rate stays inside the float-exact domain
			lim := int64(1 << 26)
			for e := ae; e < pe; e++ {
				lim /= 10
			}
			a.V %= lim
			return a
		}
		switch r.Intn(6) {
		case 0:
			c := small()
			l.Credit = &c
		case 1:
			d, c := small(), small()
			l.Debit, l.Credit = &d, &c
		case 2:
			if r.Intn(4) == 0 {
				break // neither (invalid, but calculate accepts it)
			}
			fallthrough
		default:
			d := small()
			l.Debit = &d
		}
		if r.Intn(2) == 0 {
			l.HasDoc = true
			if r.Intn(4) == 0 {
				l.DocCur = curs[r.Intn(len(curs))]
			}
			if r.Intn(60) == 0 {
				l.DocCur = "XXX" // not a currency: error path
			}
			if r.Intn(5) != 0 {
				dc := l.DocCur
				if dc == "" {
					dc = p.Currency
				}
				de, _ := curExp(dc)
				sh := shape{exp: de + uint32(r.Intn(3))}
				if r.Intn(12) == 0 {
					sh.weird = true
				}
				l.Tax = genTotal(r, sh)
				if i > 0 && r.Intn(2) == 0 {
					for j := i - 1; j >= 0; j-- {
						if p.Lines[j].Tax != nil {
							l.Tax = related(r, p.Lines[j].Tax, sh)
							break
						}
					}
				}
			}
		}
		p.Lines = append(p.Lines, l)
	}
	if r.Intn(3) == 0 {
		// figures present before the calculation, like p.Total: own ones or those of a line's document
		sh := shape{exp: pe}
		p.PrevTax = genTotal(r, sh)
		for _, l := range p.Lines {
			if l.Tax != nil && r.Intn(2) == 0 {
				p.PrevTax = related(r, l.Tax, sh)
				break
			}
		}
	}
	return p
}

// ---------- Run ----------

// Run is the C20 correspondence and oracle run.
func Run(c *core.Ctx) int {
	var rc tcase
	if c.ReplayCase(&rc) {
		return runCases(c, []tcase{rc})
	}
	r := c.Rng
	var cases []tcase
	n := c.Pick(15000, 150000)
	for i := 0; i < n; i++ {
		sh, stream := genShape(r)
		a := genTotal(r, sh)
		var b *totalIn
		if r.Intn(4) == 0 {
			b = genTotal(r, sh)
			b.Calc, b.Cur, b.Currency = a.Calc, a.Cur, a.Currency
		} else {
			b = related(r, a, sh)
		}
		cases = append(cases, tcase{Op: "merge", A: a, B: b, Stream: stream})
		cases = append(cases, tcase{Op: "negate", A: a, Stream: stream})
		if r.Intn(4) == 0 {
			seq := []totalIn{*a, *b}
			for k := r.Intn(4); k > 0; k-- {
				seq = append(seq, *related(r, &seq[r.Intn(len(seq))], sh))
			}
			cases = append(cases, tcase{Op: "seq", Seq: seq, Stream: stream})
		}
		if r.Intn(3) == 0 {
			x, y := genRate(r, 2, true), genRate(r, 2, true)
			if r.Intn(2) == 0 {
				y = x
				y.Key = "other"
				if y.Percent != nil && r.Intn(2) == 0 {
					q := amt{y.Percent.V * 100, y.Percent.E + 2}
					y.Percent = &q
				}
				if r.Intn(4) == 0 {
					y.SurPct, y.SurAmt = nil, nil
				}
				if r.Intn(6) == 0 {
					y.Country = "DE"
				}
			}
			cases = append(cases, tcase{Op: "matches", RA: &x, RB: &y, Stream: "matches"})
		}
		if r.Intn(3) == 0 {
			raw := *a
			raw.Calc = false
			cur := curPool[r.Intn(len(curPool))]
			raw.Cur, raw.Currency = cur, r.Intn(3) == 0
			cases = append(cases, tcase{Op: "calc", A: &raw, Stream: "calculate"})
		}
	}
	np := c.Pick(10000, 100000)
	for i := 0; i < np; i++ {
		cases = append(cases, tcase{Op: "pay", Pay: genPay(r), Stream: "payment"})
	}
	nr := c.Pick(4000, 40000)
	for i := 0; i < nr; i++ {
		cases = append(cases, genRepay(r))
	}
	return runCases(c, cases)
}

type goOut struct {
	pan       string
	res       string   // canonical text of the result
	aux       []string // further results (comm: the other order; zero: merge with negation; seq: permuted fold)
	alias     string   // non-empty: an operand changed
	note      string
	req       []string
	expectTax string
	payErr    string
	fam       map[string]int
}

func ptrShared(a, b *tax.Total) (pct, ext int) {
	seenP := map[*num.Percentage]bool{}
	seenE := map[uintptr]bool{}
	for _, ct := range a.Categories {
		for _, rt := range ct.Rates {
			if rt.Percent != nil {
				seenP[rt.Percent] = true
			}
			if rt.Ext != nil {
				seenE[reflect.ValueOf(rt.Ext).Pointer()] = true
			}
		}
	}
	for _, ct := range b.Categories {
		for _, rt := range ct.Rates {
			if rt.Percent != nil && seenP[rt.Percent] {
				pct++
			}
			if rt.Ext != nil && seenE[reflect.ValueOf(rt.Ext).Pointer()] {
				ext++
			}
		}
	}
	return
}

// checkUnchanged compares operands with their state before the operation.
func checkUnchanged(what string, ops []*tax.Total, before []string, copies []*tax.Total) string {
	for i, o := range ops {
		if o == nil {
			continue
		}
		if s := state(o); s != before[i] {
			return fmt.Sprintf("%s: operand %d changed from %s to %s", what, i+1, before[i], s)
		}
		// Clone normalises nil / empty slices, so compare clone with clone
		if !reflect.DeepEqual(o.Clone(), copies[i]) {
			return fmt.Sprintf("%s: operand %d is no longer deeply equal (unexported fields included) to the copy taken before", what, i+1)
		}
	}
	return ""
}

var calcCurs = []string{"EUR", "JPY", "KWD"}

// disturb recalculates and overwrites the result in place: nothing of it may reach the operands.
func disturb(res *tax.Total, k int) {
	if res == nil {
		return
	}
	res.Calculate(currency.Code(calcCurs[k%len(calcCurs)]), []cbc.Key{tax.RoundingRulePrecise, tax.RoundingRuleCurrency}[k%2])
	for _, ct := range res.Categories {
		ct.Amount = num.MakeAmount(777, 1)
		if ct.Surcharge != nil {
			*ct.Surcharge = num.MakeAmount(888, 1)
		}
		for _, rt := range ct.Rates {
			rt.Base = num.MakeAmount(999, 1)
			rt.Amount = num.MakeAmount(999, 1)
			rt.Key = "disturbed"
			if rt.Surcharge != nil {
				rt.Surcharge.Amount = num.MakeAmount(555, 1)
				rt.Surcharge.Percent = num.MakePercentage(1, 1)
			}
		}
		ct.Rates = append(ct.Rates, &tax.RateTotal{Key: "extra"})
	}
	res.Categories = append(res.Categories, &tax.CategoryTotal{Code: "EXTRA"})
}

func runCases(c *core.Ctx, cases []tcase) int {
	const chunk = 20000
	for lo := 0; lo < len(cases); lo += chunk {
		hi := lo + chunk
		if hi > len(cases) {
			hi = len(cases)
		}
		if !runChunk(c, cases[lo:hi], lo) {
			break
		}
	}
	return c.Finish(ruleText, nil)
}

func runChunk(c *core.Ctx, cases []tcase, base int) bool {
	outs := make([]goOut, len(cases))
	var reqs []string
	first := make([]int, len(cases))
	for i, t := range cases {
		first[i] = len(reqs)
		outs[i] = goEval(c, t, base+i)
		reqs = append(reqs, outs[i].req...)
	}
	resp, err := c.Model(reqs)
	if err != nil {
		c.TieBroken("drive:C20/model", err.Error(), nil)
		return false
	}
	for i, t := range cases {
		c.Count("op:"+t.Op, 1)
		c.Count("stream:"+t.Stream, 1)
		judge(c, t, outs[i], resp[first[i]:first[i]+len(outs[i].req)], base+i)
	}
	return true
}

const ruleText = ("pairs and sequences of tax summaries: uniform precision (raw figures and Total.Calculate output in EUR/USD/JPY/KWD/CLF under both rounding rules), second operand derived from the first (figures changed, rows dropped/added/reordered, surcharge on one side only, other key or percentage spelling for the same group, retained flag flipped) or independent; streams with duplicate categories / rate groups, exempt groups carrying surcharges, mixed precisions; RateTotal.Matches pairs; Total.Calculate; payments with 0..10 debit/credit lines in 1..3 currencies (a previous total and/or tax summary on the payment, missing and duplicate exchange rates, amounts finer/coarser than their currency, documents in other currencies, with and without tax summaries, GR currency rounding rule); recalculation: a calculated payment edited in memory (lines dropped/added/swapped/cleared, a document or its tax summary dropped or replaced, amounts, line/document/payment currency, exchange rates) over 1..3 rounds and calculated again, against a fresh parse of its JSON with and without the previous results; non-trivial = operands share at least one category (merge), non-empty summary (negate), at least one line (payment); distinct by canonical input text")

func fieldStr(resp string, name string) string {
	toks := strings.Fields(resp)
	for i := 0; i+1 < len(toks); i++ {
		if toks[i] == name {
			return toks[i+1]
		}
	}
	return ""
}

// modelPart returns the text between "m " and the next " <marker> " field.
func modelPart(resp string, marker string) (string, bool) {
	if !strings.HasPrefix(resp, "m ") {
		return "", false
	}
	i := strings.LastIndex(resp, " "+marker+" ")
	if i < 0 {
		return "", false
	}
	return resp[2:i], true
}

func goEval(c *core.Ctx, t tcase, idx int) (o goOut) {
	switch t.Op {
	case "merge":
		a, b := t.A.build(), t.B.build()
		ops := []*tax.Total{a, b}
		before := []string{state(a), state(b)}
		copies := []*tax.Total{a.Clone(), b.Clone()}
		if s := checkUnchanged("Clone", ops, before, copies); s != "" {
			o.alias = s
		}
		var ab, ba, z *tax.Total
		o.pan = core.Protect(func() { ab = a.Merge(b) })
		if o.alias == "" {
			o.alias = checkUnchanged("Merge", ops, before, copies)
		}
		panBA := core.Protect(func() { ba = b.Merge(a) })
		if o.alias == "" {
			o.alias = checkUnchanged("Merge (reversed)", ops, before, copies)
		}
		o.res = "panic"
		if o.pan == "" {
			o.res = serTotal(ab)
		}
		sba := "panic"
		if panBA == "" {
			sba = serTotal(ba)
		}
		var na *tax.Total
		panZ := core.Protect(func() { na = a.Negate(); z = a.Merge(na) })
		if o.alias == "" {
			o.alias = checkUnchanged("Merge with Negate", ops, before, copies)
		}
		sz := "panic"
		if panZ == "" {
			sz = serTotal(z)
		}
		o.aux = []string{sba, sz}
		sa, sb := serTotal(a), serTotal(b)
		o.req = []string{
			fmt.Sprintf("merge %s %s %s", sa, sb, o.res),
			fmt.Sprintf("comm %s %s %s %s", sa, sb, o.res, sba),
			fmt.Sprintf("zero %s %s", sa, sz),
		}
		if ab != nil {
			p, e := ptrShared(a, ab)
			p2, e2 := ptrShared(b, ab)
			if p+p2 > 0 {
				c.Count("info:result-shares-percent-pointer-with-operand", 1)
			}
			if e+e2 > 0 {
				c.Count("info:result-shares-ext-map-with-operand", 1)
			}
		}
		// nothing done to the results may reach the operands
		for k, res := range []*tax.Total{ab, ba, z, na, copies[0], copies[1]} {
			disturb(res, idx+k)
		}
		if o.alias == "" {
			o.alias = checkUnchanged("recalculating / overwriting the result of Merge, Negate or Clone", ops, before, []*tax.Total{a.Clone(), b.Clone()})
			if o.alias == "" && (state(a) != before[0] || state(b) != before[1]) {
				o.alias = "operands changed after the results were overwritten"
			}
		}
	case "negate":
		a := t.A.build()
		before := []string{state(a)}
		copies := []*tax.Total{a.Clone()}
		var n *tax.Total
		o.pan = core.Protect(func() { n = a.Negate() })
		o.alias = checkUnchanged("Negate", []*tax.Total{a}, before, copies)
		if o.pan == "" {
			o.res = serTotal(n)
			o.req = []string{fmt.Sprintf("negate %s %s", serTotal(a), o.res)}
			var nn *tax.Total
			if p := core.Protect(func() { nn = n.Negate() }); p != "" || serTotal(nn) != serTotal(a) {
				o.note = "negating twice does not give the original back"
			}
		}
		disturb(n, idx)
		if o.alias == "" && state(a) != before[0] {
			o.alias = "operand changed after the negated summary was recalculated / overwritten"
		}
	case "seq":
		ts := make([]*tax.Total, len(t.Seq))
		before := make([]string, len(t.Seq))
		copies := make([]*tax.Total, len(t.Seq))
		for i := range t.Seq {
			ts[i] = t.Seq[i].build()
			before[i] = state(ts[i])
			copies[i] = ts[i].Clone()
		}
		fold := func(order []int) (s string, res *tax.Total) {
			pan := core.Protect(func() {
				res = ts[order[0]].Clone()
				for _, k := range order[1:] {
					res = res.Merge(ts[k])
				}
			})
			if pan != "" {
				return "panic", nil
			}
			return serTotal(res), res
		}
		id := make([]int, len(ts))
		for i := range id {
			id[i] = i
		}
		perm := append([]int{}, id...)
		rr := rand.New(rand.NewSource(int64(idx)))
		rr.Shuffle(len(perm), func(i, j int) { perm[i], perm[j] = perm[j], perm[i] })
		s1, r1 := fold(id)
		s2, r2 := fold(perm)
		o.res = s1
		o.aux = []string{s2}
		o.alias = checkUnchanged("a sequence of Merges", ts, before, copies)
		// comm on the two folds: first operand/second operand play no role for the oracle except domain
		sa := serTotal(ts[0])
		sb := serTotal(ts[len(ts)-1])
		o.req = []string{fmt.Sprintf("comm %s %s %s %s", sa, sb, s1, s2)}
		disturb(r1, idx)
		disturb(r2, idx+1)
		if o.alias == "" {
			o.alias = checkUnchanged("recalculating the merged sequence", ts, before, copies)
		}
	case "matches":
		a, b := t.RA.build(), t.RB.build()
		var m, m2 bool
		o.pan = core.Protect(func() { m = a.Matches(b); m2 = b.Matches(a) })
		o.res = fmt.Sprint(b2i(m))
		o.aux = []string{fmt.Sprint(b2i(m2))}
		o.req = []string{fmt.Sprintf("matches %s %s", serRate(a), serRate(b))}
	case "calc":
		in := *t.A
		in.Calc = false
		a := in.build()
		sa := serTotal(a)
		e, ok := curExp(t.A.Cur)
		if !ok {
			return
		}
		rr := tax.RoundingRulePrecise
		if t.A.Currency {
			rr = tax.RoundingRuleCurrency
		}
		o.pan = core.Protect(func() { a.Calculate(currency.Code(t.A.Cur), rr) })
		o.res = serTotal(a)
		o.req = []string{fmt.Sprintf("calc %d %d %s", e, b2i(t.A.Currency), sa)}
	case "pay":
		o = payEval(t.Pay)
	case "repay":
		o = repayEval(t)
	}
	return
}

func b2i(b bool) int {
	if b {
		return 1
	}
	return 0
}

func payEval(p *payIn) (o goOut) {
	pm := &bill.Payment{Currency: currency.Code(p.Currency), Total: mk(p.Total)}
	if p.Regime != "" {
		pm.Regime = tax.WithRegime(l10n.TaxCountryCode(p.Regime))
	}
	pe, _ := curExp(p.Currency)
	var sb strings.Builder
	fmt.Fprintf(&sb, "pay %s %d %d %s %d", core.Hex(p.Currency), pe, b2i(p.Regime == "EL"), sA(mk(p.Total)), len(p.Rates))
	for _, x := range p.Rates {
		pm.ExchangeRates = append(pm.ExchangeRates, &currency.ExchangeRate{From: currency.Code(x.From), To: currency.Code(x.To), Amount: mk(x.Amount)})
		te, _ := curExp(x.To)
		fmt.Fprintf(&sb, " %s %s %s %d", core.Hex(x.From), core.Hex(x.To), sA(mk(x.Amount)), te)
	}
	if p.PrevTax != nil {
		pm.Tax = p.PrevTax.build()
	}
	fmt.Fprintf(&sb, " %d", len(p.Lines))
	var docTaxes []*tax.Total
	for _, l := range p.Lines {
		pl := &bill.PaymentLine{Currency: currency.Code(l.Currency)}
		d, cr := "-", "-"
		if l.Debit != nil {
			a := mk(*l.Debit)
			pl.Debit = &a
			d = sA(a)
		}
		if l.Credit != nil {
			a := mk(*l.Credit)
			pl.Credit = &a
			cr = sA(a)
		}
		fmt.Fprintf(&sb, " L %s %s %s", core.Hex(l.Currency), d, cr)
		if l.HasDoc {
			dr := &org.DocumentRef{Code: "DOC-1", Currency: currency.Code(l.DocCur), Tax: l.Tax.build()}
			pl.Document = dr
			dc := l.DocCur
			if dc == "" {
				dc = p.Currency
			}
			de, ok := curExp(dc)
			fmt.Fprintf(&sb, " D %d %d %s", b2i(ok), de, serTotal(dr.Tax))
			docTaxes = append(docTaxes, dr.Tax)
		} else {
			sb.WriteString(" -")
		}
		pm.Lines = append(pm.Lines, pl)
	}
	o.req = []string{sb.String()}
	var err error
	o.pan = core.Protect(func() { err = pm.Calculate() })
	if o.pan != "" {
		return
	}
	if err != nil {
		o.res = "err"
		o.payErr = err.Error()
		return
	}
	var rs strings.Builder
	fmt.Fprintf(&rs, "ok %d", len(pm.Lines))
	for _, pl := range pm.Lines {
		fmt.Fprintf(&rs, " %s", sA(pl.Total))
	}
	fmt.Fprintf(&rs, " %s %s", sA(pm.Total), serTotal(pm.Tax))
	o.res = rs.String()
	// "its tax summary is the merge of its lines' document summaries": refold with the real Merge
	var tt *tax.Total
	pan := core.Protect(func() {
		for _, dt := range docTaxes {
			if dt == nil {
				continue
			}
			if tt == nil {
				tt = dt.Clone()
			} else {
				tt = tt.Merge(dt)
			}
		}
	})
	if pan == "" {
		o.expectTax = jsonOf(tt)
		if got := jsonOf(pm.Tax); got != o.expectTax {
			o.note = fmt.Sprintf("payment.tax %s is not the merge of the lines' document summaries %s", got, o.expectTax)
		}
	}
	// the payment's summary must be independent of the documents' summaries
	before := make([]string, len(docTaxes))
	for i, dt := range docTaxes {
		before[i] = state(dt)
	}
	disturb(pm.Tax, len(p.Lines))
	for i, dt := range docTaxes {
		if dt != nil && state(dt) != before[i] {
			o.alias = fmt.Sprintf("recalculating payment.tax changed the tax summary of document %d", i+1)
		}
	}
	return
}

// ---------- judgement ----------

func sharesCategory(a, b *totalIn) bool {
	for _, x := range a.Categories {
		for _, y := range b.Categories {
			if x.Code == y.Code {
				return true
			}
		}
	}
	return false
}

func judge(c *core.Ctx, t tcase, o goOut, resp []string, idx int) {
	key := fmt.Sprintf("%x", sha1.Sum([]byte(jsonOf(t))))
	if o.alias != "" {
		c.Eval(key, true)
		c.Fail("", "an operand was altered: "+o.alias, t)
		return
	}
	switch t.Op {
	case "merge":
		judgeMerge(c, t, o, resp, key)
	case "negate":
		c.Eval(key, len(t.A.Categories) > 0)
		if o.pan != "" {
			c.Fail("", "Total.Negate panicked: "+o.pan, t)
			return
		}
		if len(resp) != 1 {
			return
		}
		m, ok := modelPart(resp[0], "P")
		if !ok {
			c.TieBroken("drive:C20/protocol", "unexpected model response "+resp[0], t)
			return
		}
		// independent check in Go: every figure flipped
		a := t.A.build()
		n := a.Negate()
		bad := goNegated(a, n)
		if (bad == "") != (fieldStr(resp[0], "P") == "1") {
			c.TieBroken("drive:C20/isNegationOf", fmt.Sprintf("Lean oracle %s vs Go oracle %q", fieldStr(resp[0], "P"), bad), t)
			return
		}
		if bad != "" {
			c.Fail("", "Total.Negate does not flip every amount: "+bad, t)
			return
		}
		if o.note != "" {
			c.Fail("", o.note, t)
			return
		}
		if m == "undef" {
			c.Count("skipped:model-undef", 1)
		} else if m != o.res {
			c.TieBroken("drive:C20/negate", fmt.Sprintf("model %s vs Go %s", m, o.res), t)
		}
	case "seq":
		c.Eval(key, true)
		c.Count(fmt.Sprintf("seq-length:%d", len(t.Seq)), 1)
		if len(resp) != 1 {
			return
		}
		dup, weird, uniform := false, false, true
		var e0 uint32
		for i := range t.Seq {
			b := t.Seq[i].build()
			dup = dup || hasDuplicates(b)
			weird = weird || hasExemptSurcharge(b)
			e, ok := uniformExp(b)
			if i == 0 {
				e0 = e
			}
			uniform = uniform && ok && e == e0
		}
		if weird {
			c.Count("seq:exempt-with-surcharge", 1)
		}
		if o.res == "panic" || o.aux[0] == "panic" {
			c.Fail("", "Total.Merge panicked while folding a sequence of summaries", t)
			return
		}
		if !uniform {
			c.Count("skipped:mixed-precision", 1)
			return
		}
		if fieldStr(resp[0], "P") != "1" {
			class := ""
			if dup {
				class = "duplicate-groups-in-summary"
			}
			c.Fail(class, fmt.Sprintf("merging a sequence of %d summaries in two different orders gives different figures: %s vs %s", len(t.Seq), o.res, o.aux[0]), t)
		}
	case "matches":
		c.Eval(key, true)
		if o.pan != "" {
			c.Fail("", "RateTotal.Matches panicked: "+o.pan, t)
			return
		}
		if len(resp) != 1 || !strings.HasPrefix(resp[0], "m ") {
			c.TieBroken("drive:C20/protocol", "unexpected model response", t)
			return
		}
		m, s := fieldStr(resp[0], "m"), fieldStr(resp[0], "s")
		c.Count("matches:"+o.res, 1)
		if o.res != o.aux[0] {
			c.Fail("", "RateTotal.Matches is not symmetric", t)
			return
		}
		if o.res != s {
			c.Fail("", fmt.Sprintf("RateTotal.Matches = %s but the rows are %s the same rate group (extensions, country, percentage value, surcharge percentage value)", o.res, map[string]string{"1": "", "0": "not"}[s]), t)
			return
		}
		if o.res != m {
			c.TieBroken("drive:C20/matches", fmt.Sprintf("model %s vs Go %s", m, o.res), t)
		}
	case "calc":
		c.Eval(key, len(t.A.Categories) > 0)
		if o.pan != "" {
			c.Fail("", "Total.Calculate panicked: "+o.pan, t)
			return
		}
		if len(resp) != 1 {
			return
		}
		m := strings.TrimPrefix(resp[0], "m ")
		if m == "undef" {
			c.Count("skipped:model-undef", 1)
		} else if m != o.res {
			c.TieBroken("drive:C20/calculate", fmt.Sprintf("model %s vs Go %s", m, o.res), t)
		}
	case "pay":
		judgePay(c, t, o, resp, key)
	case "repay":
		c.Eval(key, len(t.Rounds) > 0)
		for k, n := range o.fam {
			c.Count(k, int64(n))
		}
		if o.pan != "" {
			c.Fail("", "Payment.Calculate panicked on a recalculation: "+o.pan, t)
			return
		}
		if o.note != "" {
			c.Fail("", o.note, t)
		}
	}
}

func goNegated(a, n *tax.Total) string {
	neg := func(x, y num.Amount) bool { return y.Value() == -x.Value() && y.Exp() == x.Exp() }
	if !neg(a.Sum, n.Sum) {
		return "sum"
	}
	if len(a.Categories) != len(n.Categories) {
		return "number of categories"
	}
	for i, ct := range a.Categories {
		nt := n.Categories[i]
		if ct.Code != nt.Code || ct.Retained != nt.Retained || !neg(ct.Amount, nt.Amount) || len(ct.Rates) != len(nt.Rates) {
			return fmt.Sprintf("category %s amount", ct.Code)
		}
		if (ct.Surcharge == nil) != (nt.Surcharge == nil) || (ct.Surcharge != nil && !neg(*ct.Surcharge, *nt.Surcharge)) {
			return fmt.Sprintf("category %s surcharge", ct.Code)
		}
		for j, rt := range ct.Rates {
			rn := nt.Rates[j]
			if serRateKey(rt) != serRateKey(rn) {
				return fmt.Sprintf("category %s rate %d key fields", ct.Code, j)
			}
			if !neg(rt.Base, rn.Base) || !neg(rt.Amount, rn.Amount) {
				return fmt.Sprintf("category %s rate %d base/amount", ct.Code, j)
			}
			if (rt.Surcharge == nil) != (rn.Surcharge == nil) || (rt.Surcharge != nil && (!neg(rt.Surcharge.Amount, rn.Surcharge.Amount) || rt.Surcharge.Percent != rn.Surcharge.Percent)) {
				return fmt.Sprintf("category %s rate %d surcharge", ct.Code, j)
			}
		}
	}
	return ""
}

func serRateKey(rt *tax.RateTotal) string {
	p := "-"
	if rt.Percent != nil {
		p = fmt.Sprintf("%d:%d", rt.Percent.Value(), rt.Percent.Exp())
	}
	return fmt.Sprintf("%s|%s|%v|%s", rt.Key, rt.Country, rt.Ext, p)
}

func judgeMerge(c *core.Ctx, t tcase, o goOut, resp []string, key string) {
	c.Eval(key, sharesCategory(t.A, t.B))
	if sharesCategory(t.A, t.B) {
		c.Sample(map[string]any{"kind": "merge", "case": t, "go": o})
	}
	a, b := t.A.build(), t.B.build()
	dup := hasDuplicates(a) || hasDuplicates(b)
	weird := hasExemptSurcharge(a) || hasExemptSurcharge(b)
	ea, oka := uniformExp(a)
	eb, okb := uniformExp(b)
	uniform := oka && okb && ea == eb
	if len(resp) != 3 {
		return
	}
	mm, ok := modelPart(resp[0], "dom")
	if !ok {
		c.TieBroken("drive:C20/protocol", "unexpected model response "+resp[0], t)
		return
	}
	// domain predicates must agree between the two oracle implementations
	if (fieldStr(resp[0], "dom") != "-") != uniform || (fieldStr(resp[0], "dup") == "1") != dup || (fieldStr(resp[0], "wf") == "0") != weird {
		c.TieBroken("drive:C20/domain", fmt.Sprintf("domain predicates differ: Lean %q vs Go uniform=%v dup=%v weird=%v", resp[0][len(mm)+2:], uniform, dup, weird), t)
		return
	}
	if dup {
		c.Count("merge:with-duplicates", 1)
	}
	if weird {
		c.Count("merge:exempt-with-surcharge", 1)
	}
	if !uniform {
		c.Count("merge:mixed-precision", 1)
	}
	// --- the property on the Go outputs
	// Merge is total for every pair of summaries (the model has no panic to predict)
	if o.pan != "" || o.aux[0] == "panic" || o.aux[1] == "panic" {
		what := "t1.Merge(t2) panicked: " + o.pan
		if o.pan == "" && o.aux[0] == "panic" {
			what = "t2.Merge(t1) panicked (t1.Merge(t2) did not)"
		} else if o.pan == "" {
			what = "t1.Merge(t1.Negate()) panicked"
		}
		c.Fail("", "Total.Merge: "+what, t)
		return
	}
	if uniform {
		c.Count("merge:in-domain", 1)
		ab := parseBack(a, b)
		fa, _ := figuresOf(a, ea)
		fb, _ := figuresOf(b, ea)
		fo, okU := figuresOf(ab, ea)
		bad := ""
		if !okU {
			bad = "the merged summary is not at the operands' precision"
		} else if ab.Sum.Value() != a.Sum.Value()+b.Sum.Value() {
			bad = "sum is not the sum of the operands' sums"
		} else {
			bad = figEq(figSum(fa, fb), fo, true)
		}
		lean := fieldStr(resp[0], "P") == "1"
		if (bad == "") != lean {
			c.TieBroken("drive:C20/mergeOracle", fmt.Sprintf("Lean oracle %v vs Go oracle %q", lean, bad), t)
			return
		}
		if bad != "" {
			c.Fail("", "Total.Merge: figures are not the sums of the operands': "+bad, t)
			return
		}
		// order independence
		if fieldStr(resp[1], "P") != "1" {
			class := ""
			if dup {
				class = "duplicate-groups-in-summary"
			}
			c.Fail(class, fmt.Sprintf("t1.Merge(t2) and t2.Merge(t1) differ beyond row order: %s vs %s", o.res, o.aux[0]), t)
			return
		}
	}
	// zero law (any precision: a + (-a) needs no rescaling)
	if fieldStr(resp[2], "P") != "1" {
		class := ""
		if hasDuplicates(a) {
			class = "duplicate-groups-in-summary"
		}
		c.Fail(class, "t.Merge(t.Negate()) is not zero everywhere: "+o.aux[1], t)
		return
	}
	// --- model vs Go
	if mm == "undef" {
		c.Count("skipped:model-undef", 1)
	} else if mm != o.res {
		c.TieBroken("drive:C20/merge", fmt.Sprintf("model %s vs Go %s", mm, o.res), t)
		return
	}
	if mz, ok := modelPart(resp[2], "dup"); ok && mz != "undef" && mz != o.aux[1] {
		c.TieBroken("drive:C20/merge-negate", fmt.Sprintf("model %s vs Go %s", mz, o.aux[1]), t)
	}
}

// parseBack recomputes the merge (operands are rebuilt, the first result was disturbed).
func parseBack(a, b *tax.Total) *tax.Total { return a.Merge(b) }

func judgePay(c *core.Ctx, t tcase, o goOut, resp []string, key string) {
	p := t.Pay
	c.Eval(key, len(p.Lines) > 0)
	if len(p.Lines) > 1 {
		c.Sample(map[string]any{"kind": "payment", "case": t, "go": o})
	}
	c.Count(fmt.Sprintf("pay-lines:%d", len(p.Lines)), 1)
	curs := map[string]bool{p.Currency: true}
	weird := false
	for _, l := range p.Lines {
		if l.Currency != "" {
			curs[l.Currency] = true
		}
		if l.Tax != nil && hasExemptSurcharge(l.Tax.build()) {
			weird = true
		}
	}
	c.Count(fmt.Sprintf("pay-currencies:%d", len(curs)), 1)
	if weird {
		c.Count("pay:document-summary-with-exempt-surcharge", 1)
	}
	if p.PrevTax != nil {
		nsum := 0
		for _, l := range p.Lines {
			if l.HasDoc && l.Tax != nil {
				nsum++
			}
		}
		c.Count("pay:previous-summary-given:document-summaries="+bucket(nsum), 1)
	}
	if o.pan != "" {
		c.Fail("", "Payment.Calculate panicked: "+o.pan, t)
		return
	}
	if len(resp) != 1 || !strings.HasPrefix(resp[0], "m ") {
		c.TieBroken("drive:C20/protocol", "unexpected model response", t)
		return
	}
	mm, _ := modelPart(resp[0], "s")
	spec := fieldStr(resp[0], "s")
	if o.res == "err" {
		c.Count("pay:error", 1)
		if !strings.HasPrefix(mm, "err") {
			c.TieBroken("drive:C20/pay", fmt.Sprintf("Go error %q, model %s", o.payErr, mm), t)
		}
		return
	}
	// --- the property on the Go output
	pe, _ := curExp(p.Currency)
	toks := strings.Fields(o.res)
	goTotal := toks[2+len(p.Lines)]
	if len(p.Lines) == 0 {
		// the empty sum: zero, whatever total the payment carried before
		var v int64
		var e uint32
		if n, _ := fmt.Sscanf(goTotal, "%d:%d", &v, &e); n != 2 || v != 0 {
			c.Fail("", fmt.Sprintf("a payment without lines has total %s (given before the calculation: %s) instead of zero", goTotal, sA(mk(p.Total))), t)
			return
		}
		if p.Total.V != 0 {
			c.Count("pay:no-lines-previous-total-reset", 1)
		}
	} else {
		want, inDomain, fam := specTotal(p, pe)
		for k, n := range fam {
			c.Count(k, int64(n))
		}
		if want != spec {
			c.TieBroken("drive:C20/payment-spec", fmt.Sprintf("Lean spec total %s vs Go spec total %s", spec, want), t)
			return
		}
		if !inDomain && specMagnitude.BitLen() >= 60 {
			// converted figures near or beyond the int64 range: overflow, outside every domain
			c.Count("pay:skipped-int64-range", 1)
			return
		}
		// line totals add up to the total
		sum := big.NewInt(0)
		for i := range p.Lines {
			var v int64
			var e uint32
			fmt.Sscanf(toks[2+i], "%d:%d", &v, &e)
			if e != pe {
				c.Fail("", fmt.Sprintf("line %d total %s is not at the payment currency's precision", i+1, toks[2+i]), t)
				return
			}
			sum.Add(sum, big.NewInt(v))
		}
		if goTotal != fmt.Sprintf("%s:%d", sum, pe) {
			c.Fail("", fmt.Sprintf("payment total %s is not the sum of its line totals %s", goTotal, sum), t)
			return
		}
		if !inDomain {
			// a product beyond 2^52: Multiply's float64 detour is not exact there (C05's domain); never guessed
			c.Count("pay:skipped-spec-outside-float-exact-domain", 1)
			// ... but a product through float64 is still within a few units of the last place of a
			// 53-bit significand of the exact one: while every figure stays far below 2^62 the total is
			// close to the exact sum (a wrapped or truncated product is not)
			if specMagnitude.BitLen() < 60 {
				var gv, wv int64
				var ge, we uint32
				if n1, _ := fmt.Sscanf(goTotal, "%d:%d", &gv, &ge); n1 == 2 {
					if n2, _ := fmt.Sscanf(want, "%d:%d", &wv, &we); n2 == 2 && ge == we {
						diff := new(big.Int).Sub(big.NewInt(gv), big.NewInt(wv))
						tol := new(big.Int).Rsh(specMagnitude, 46)
						tol.Add(tol, big.NewInt(int64(2*len(p.Lines)+1)))
						c.Count("pay:outside-exact-domain:closeness-judged", 1)
						if diff.Abs(diff).Cmp(tol) > 0 {
							c.Fail("", fmt.Sprintf("payment total %s is far from the sum over the lines of debit minus credit converted with the declared rates, %s (beyond the exact domain of the float64 product, but no float64 error explains a difference of %s units)", goTotal, want, diff), t)
							return
						}
					}
				}
			}
		} else if goTotal != want {
			c.Fail("", fmt.Sprintf("payment total %s, but the sum over the lines of debit minus credit converted with the declared rates (exact product rounded once to the payment currency) is %s", goTotal, want), t)
			return
		}
	}
	if o.note != "" {
		c.Fail("", o.note, t)
		return
	}
	if mm == "undef" {
		c.Count("skipped:model-undef", 1)
	} else if mm != o.res {
		c.TieBroken("drive:C20/pay", fmt.Sprintf("model %s vs Go %s", mm, o.res), t)
	}
}

// specTotal: Σ over the lines of round(debit·rate) − round(credit·rate), exact
// product rounded half away from zero once, to the payment currency's
// precision, whatever the precision of the amount (ExchangeRate.Convert as
// repaired by 6f2aa78; a difference is a violation).  The second result says
// whether every conversion stays inside the float-exact domain of
// Props/C20 `convert_is_exact_rounding`: |value·10^max(pe−e,0)·rate value| < 2^52
// and rate decimals + max(e−pe,0) ≤ 22.
// specMagnitude: sum of the absolute converted amounts of the last specTotal call (judgement is sequential).
var specMagnitude = big.NewInt(0)

func specTotal(p *payIn, pe uint32) (string, bool, map[string]int) {
	total := big.NewInt(0)
	inDomain := true
	fam := map[string]int{}
	scale := new(big.Int).Exp(big.NewInt(10), big.NewInt(int64(pe)), nil)
	lim := new(big.Int).Lsh(big.NewInt(1), 52)
	specMagnitude = big.NewInt(0)
	for _, l := range p.Lines {
		rate := big.NewRat(1, 1)
		var rx *rateX
		if l.Currency != "" && l.Currency != p.Currency && (l.Debit != nil || l.Credit != nil) {
			for i, x := range p.Rates {
				if x.From == l.Currency && x.To == p.Currency {
					den := new(big.Int).Exp(big.NewInt(10), big.NewInt(int64(x.Amount.E)), nil)
					rate = new(big.Rat).SetFrac(big.NewInt(x.Amount.V), den)
					rx = &p.Rates[i]
					break
				}
			}
			if rx == nil {
				return "-", true, fam
			}
		}
		side := func(a *amt, sign int64) {
			if a == nil {
				return
			}
			den := new(big.Int).Exp(big.NewInt(10), big.NewInt(int64(a.E)), nil)
			q := new(big.Rat).SetFrac(big.NewInt(a.V), den)
			q.Mul(q, rate)
			q.Mul(q, new(big.Rat).SetInt(scale))
			// round half away from zero
			n, d := new(big.Int).Set(q.Num()), q.Denom()
			neg := n.Sign() < 0
			n.Abs(n)
			n.Mul(n, big.NewInt(2)).Add(n, d)
			n.Div(n, new(big.Int).Mul(d, big.NewInt(2)))
			if neg {
				n.Neg(n)
			}
			specMagnitude.Add(specMagnitude, new(big.Int).Abs(n))
			total.Add(total, n.Mul(n, big.NewInt(sign)))
			if rx != nil {
				switch {
				case a.E < pe:
					fam["pay:converted-amount-coarser-than-target"]++
				case a.E > pe:
					fam["pay:converted-amount-finer-than-target"]++
				default:
					fam["pay:converted-amount-at-target-precision"]++
				}
				up, extra := int64(0), int64(0)
				if a.E < pe {
					up = int64(pe - a.E)
				} else {
					extra = int64(a.E - pe)
				}
				prod := new(big.Int).Mul(big.NewInt(a.V), new(big.Int).Exp(big.NewInt(10), big.NewInt(up), nil))
				prod.Mul(prod, big.NewInt(rx.Amount.V)).Abs(prod)
				if prod.Cmp(lim) >= 0 || int64(rx.Amount.E)+extra > 22 {
					inDomain = false
				}
			}
		}
		side(l.Debit, 1)
		side(l.Credit, -1)
	}
	return fmt.Sprintf("%s:%d", total, pe), inDomain, fam
}
