package c20

// Recalculation relation for payments (the one C03/C04 have for invoices).
//
// The statement makes a payment's total and tax summary FUNCTIONS of its
// lines (with the payment currency and the declared exchange rates): "total
// is the sum over its lines …, its tax summary is the merge of its lines'
// document summaries".  Nothing the payment held before a calculation may
// therefore survive it.  A calculated payment is edited in memory as a caller
// would (only input members are touched; `tax`, `total` and the lines'
// `total` stay as the previous calculation left them) and calculated again;
// after every calculation
//   (1) the summary is the fold with the real Merge of the CURRENT lines'
//       document summaries (none left → no summary) and the total is the sum
//       of the line totals;
//   (2) total, summary and line totals equal those of a fresh parse of the
//       payment's JSON taken just before the calculation, once as it is and
//       once with the previous results removed.

import (
	"encoding/json"
	"fmt"
	"math/rand"

	"github.com/invopop/gobl/bill"
	"github.com/invopop/gobl/currency"
	"github.com/invopop/gobl/l10n"
	"github.com/invopop/gobl/num"
	"github.com/invopop/gobl/org"
	"github.com/invopop/gobl/tax"

	"verifharness/internal/core"
)

func buildLine(l lineIn) *bill.PaymentLine {
	pl := &bill.PaymentLine{Currency: currency.Code(l.Currency)}
	if l.Debit != nil {
		a := mk(*l.Debit)
		pl.Debit = &a
	}
	if l.Credit != nil {
		a := mk(*l.Credit)
		pl.Credit = &a
	}
	if l.HasDoc {
		pl.Document = &org.DocumentRef{Code: "DOC-1", Currency: currency.Code(l.DocCur), Tax: l.Tax.build()}
	}
	return pl
}

func buildRates(rs []rateX) []*currency.ExchangeRate {
	var out []*currency.ExchangeRate
	for _, x := range rs {
		out = append(out, &currency.ExchangeRate{From: currency.Code(x.From), To: currency.Code(x.To), Amount: mk(x.Amount)})
	}
	return out
}

func buildPayment(p *payIn) *bill.Payment {
	pm := &bill.Payment{Currency: currency.Code(p.Currency), Total: mk(p.Total)}
	if p.Regime != "" {
		pm.Regime = tax.WithRegime(l10n.TaxCountryCode(p.Regime))
	}
	pm.ExchangeRates = buildRates(p.Rates)
	if p.PrevTax != nil {
		pm.Tax = p.PrevTax.build()
	}
	for _, l := range p.Lines {
		pm.Lines = append(pm.Lines, buildLine(l))
	}
	return pm
}

// applyEdit changes input members of the in-memory payment only; it reports
// whether the edit applied.
func applyEdit(pm *bill.Payment, e editIn) bool {
	n := len(pm.Lines)
	idx := func(i int) int {
		if i < 0 {
			i = -i
		}
		return i % n
	}
	switch e.Op {
	case "drop-line":
		if n == 0 {
			return false
		}
		i := idx(e.I)
		pm.Lines = append(pm.Lines[:i:i], pm.Lines[i+1:]...)
	case "add-line":
		if e.Line == nil {
			return false
		}
		i := e.I
		if i < 0 {
			i = -i
		}
		i %= n + 1
		ls := append([]*bill.PaymentLine{}, pm.Lines[:i]...)
		ls = append(ls, buildLine(*e.Line))
		pm.Lines = append(ls, pm.Lines[i:]...)
	case "drop-doc-tax":
		if n == 0 || pm.Lines[idx(e.I)].Document == nil || pm.Lines[idx(e.I)].Document.Tax == nil {
			return false
		}
		pm.Lines[idx(e.I)].Document.Tax = nil
	case "drop-doc":
		if n == 0 || pm.Lines[idx(e.I)].Document == nil {
			return false
		}
		pm.Lines[idx(e.I)].Document = nil
	case "set-doc-tax":
		if n == 0 || e.Tax == nil {
			return false
		}
		l := pm.Lines[idx(e.I)]
		if l.Document == nil {
			l.Document = &org.DocumentRef{Code: "DOC-2"}
		}
		l.Document.Tax = e.Tax.build()
	case "currency":
		pm.Currency = currency.Code(e.Cur)
	case "line-amounts":
		if n == 0 {
			return false
		}
		l := pm.Lines[idx(e.I)]
		l.Debit, l.Credit = nil, nil
		if e.Debit != nil {
			a := mk(*e.Debit)
			l.Debit = &a
		}
		if e.Credit != nil {
			a := mk(*e.Credit)
			l.Credit = &a
		}
	case "line-currency":
		if n == 0 {
			return false
		}
		pm.Lines[idx(e.I)].Currency = currency.Code(e.Cur)
	case "doc-currency":
		if n == 0 || pm.Lines[idx(e.I)].Document == nil {
			return false
		}
		pm.Lines[idx(e.I)].Document.Currency = currency.Code(e.Cur)
	case "clear-lines":
		if n == 0 {
			return false
		}
		pm.Lines = nil
	case "swap":
		if n < 2 || idx(e.I) == idx(e.J) {
			return false
		}
		i, j := idx(e.I), idx(e.J)
		pm.Lines[i], pm.Lines[j] = pm.Lines[j], pm.Lines[i]
	case "rates":
		pm.ExchangeRates = buildRates(e.Rates)
	default:
		return false
	}
	return true
}

// payView is what the property speaks about: total, summary, line totals.
func payView(pm *bill.Payment) string {
	var lt []string
	for _, l := range pm.Lines {
		lt = append(lt, sA(l.Total))
	}
	return fmt.Sprintf("total %s lines %v tax %s", sA(pm.Total), lt, jsonOf(pm.Tax))
}

func summaries(pm *bill.Payment) int {
	n := 0
	for _, l := range pm.Lines {
		if l.Document != nil && l.Document.Tax != nil {
			n++
		}
	}
	return n
}

func calcProtected(pm *bill.Payment) (string, string) {
	var err error
	pan := core.Protect(func() { err = pm.Calculate() })
	if pan != "" {
		return "", pan
	}
	if err != nil {
		return "err " + err.Error(), ""
	}
	return "", ""
}

func repayEval(t tcase) (o goOut) {
	o.fam = map[string]int{}
	pm := buildPayment(t.Pay)
	step := func(round int, edits []editIn) bool {
		where := "the first calculation"
		if round > 0 {
			where = fmt.Sprintf("recalculation %d after the in-memory edits %s", round, jsonOf(edits))
		}
		js, jerr := json.Marshal(pm)
		if jerr != nil {
			o.fam["repay:skipped-not-serialisable"]++
			return false
		}
		fresh := func(strip bool) (*bill.Payment, bool) {
			f := new(bill.Payment)
			if err := json.Unmarshal(js, f); err != nil {
				return nil, false
			}
			if strip {
				f.Tax = nil
				f.Total = num.AmountZero
				for _, l := range f.Lines {
					l.Total = num.AmountZero
				}
			}
			return f, true
		}
		withPrev, ok1 := fresh(false)
		without, ok2 := fresh(true)
		if !ok1 || !ok2 {
			o.fam["repay:skipped-json-not-parsed"]++
			return false
		}
		before := summaries(pm)
		hadTax := pm.Tax != nil
		e0, pan := calcProtected(pm)
		if pan != "" {
			o.pan = where + ": " + pan
			return false
		}
		e1, pan1 := calcProtected(withPrev)
		e2, pan2 := calcProtected(without)
		if pan1 != "" || pan2 != "" {
			o.pan = where + " (fresh parse): " + pan1 + pan2
			return false
		}
		if e0 != e1 || e0 != e2 {
			o.note = fmt.Sprintf("%s: the payment in memory gives %q, a fresh parse of its JSON %q, the same without the previous results %q", where, e0, e1, e2)
			return false
		}
		if e0 != "" {
			o.fam["repay:calculation-error"]++
			return true // refused alike; later rounds may repair it
		}
		o.fam["repay:calculations"]++
		if round > 0 {
			o.fam[fmt.Sprintf("repay:recalculated:previous-summary=%v:document-summaries-now=%s", hadTax, bucket(before))]++
		}
		// (1) the statement on the result
		var tt *tax.Total
		pan = core.Protect(func() {
			for _, l := range pm.Lines {
				if l.Document == nil || l.Document.Tax == nil {
					continue
				}
				if tt == nil {
					tt = l.Document.Tax.Clone()
				} else {
					tt = tt.Merge(l.Document.Tax)
				}
			}
		})
		if pan == "" {
			if got, want := jsonOf(pm.Tax), jsonOf(tt); got != want {
				o.note = fmt.Sprintf("%s: payment.tax %s is not the merge of its lines' document summaries %s (%d lines, %d with a summary)", where, got, want, len(pm.Lines), before)
				return false
			}
		}
		sum := pm.Currency.Def().Zero()
		for i, l := range pm.Lines {
			if i == 0 {
				sum = l.Total
			} else {
				sum = sum.Add(l.Total)
			}
		}
		if len(pm.Lines) == 0 {
			sum = num.AmountZero
		}
		if !sum.Equals(pm.Total) || (len(pm.Lines) > 0 && sum.Exp() != pm.Total.Exp()) {
			o.note = fmt.Sprintf("%s: payment total %s is not the sum of its line totals %s", where, sA(pm.Total), sA(sum))
			return false
		}
		// (2) a function of the current lines: equal to fresh parses
		v0, v1, v2 := payView(pm), payView(withPrev), payView(without)
		if v0 != v1 || v0 != v2 {
			o.note = fmt.Sprintf("%s: the payment in memory gives %s; a fresh parse of its JSON gives %s; the same without the previous total and summary gives %s", where, v0, v1, v2)
			return false
		}
		return true
	}
	if !step(0, nil) {
		return
	}
	for k, edits := range t.Rounds {
		applied := 0
		for _, e := range edits {
			if applyEdit(pm, e) {
				applied++
				o.fam["repay-edit:"+e.Op]++
			} else {
				o.fam["repay-edit:not-applicable"]++
			}
		}
		if !step(k+1, edits) {
			return
		}
	}
	return
}

func bucket(n int) string {
	switch {
	case n == 0:
		return "0"
	case n == 1:
		return "1"
	}
	return "2+"
}

func genLine(r *rand.Rand, p *payIn) lineIn {
	// a line as genPay makes them: take one from a sibling payment in the same currency
	for k := 0; k < 8; k++ {
		q := genPay(r)
		if len(q.Lines) == 0 {
			continue
		}
		l := q.Lines[r.Intn(len(q.Lines))]
		if l.Currency != "" && l.Currency != p.Currency && r.Intn(4) != 0 {
			l.Currency = "" // mostly convertible without a new rate
		}
		return l
	}
	d := amt{100, 2}
	return lineIn{Debit: &d}
}

func genRepay(r *rand.Rand) tcase {
	p := genPay(r)
	for k := 0; k < 4 && len(p.Lines) == 0; k++ {
		p = genPay(r)
	}
	t := tcase{Op: "repay", Pay: p, Stream: "payment-recalculation"}
	n := len(p.Lines)
	curs := []string{"EUR", "USD", "JPY", "KWD", "MXN", "CLF"}
	pe, _ := curExp(p.Currency)
	one := func() editIn {
		switch r.Intn(14) {
		case 0, 1:
			return editIn{Op: "drop-line", I: r.Intn(n + 1)}
		case 2, 3:
			l := genLine(r, p)
			return editIn{Op: "add-line", I: r.Intn(n + 2), Line: &l}
		case 4, 5:
			return editIn{Op: "drop-doc-tax", I: r.Intn(n + 1)}
		case 6:
			return editIn{Op: "drop-doc", I: r.Intn(n + 1)}
		case 7:
			return editIn{Op: "set-doc-tax", I: r.Intn(n + 1), Tax: genTotal(r, shape{exp: pe + uint32(r.Intn(2))})}
		case 8:
			return editIn{Op: "currency", Cur: curs[r.Intn(len(curs))]}
		case 9:
			e := editIn{Op: "line-amounts", I: r.Intn(n + 1)}
			a, b := randAmt(r, pe), randAmt(r, pe)
			a.V %= 1 << 20
			b.V %= 1 << 20
			if r.Intn(3) != 0 {
				e.Debit = &a
			}
			if r.Intn(3) == 0 {
				e.Credit = &b
			}
			return e
		case 10:
			c := ""
			if r.Intn(2) == 0 {
				c = curs[r.Intn(len(curs))]
			}
			return editIn{Op: "line-currency", I: r.Intn(n + 1), Cur: c}
		case 11:
			c := ""
			if r.Intn(2) == 0 {
				c = curs[r.Intn(len(curs))]
			}
			return editIn{Op: "doc-currency", I: r.Intn(n + 1), Cur: c}
		case 12:
			if r.Intn(2) == 0 {
				return editIn{Op: "clear-lines"}
			}
			return editIn{Op: "swap", I: r.Intn(n + 1), J: r.Intn(n + 1)}
		default:
			q := genPay(r)
			return editIn{Op: "rates", Rates: append(append([]rateX{}, p.Rates...), q.Rates...)}
		}
	}
	rounds := 1 + r.Intn(3)
	for k := 0; k < rounds; k++ {
		var edits []editIn
		if r.Intn(3) == 0 {
			// every line loses its summary, each in one of the ways a line can lose it
			for i := 0; i < n+3*rounds; i++ {
				edits = append(edits, editIn{Op: []string{"drop-doc-tax", "drop-doc", "drop-doc-tax"}[r.Intn(3)], I: i})
			}
			for j := r.Intn(3); j > 0; j-- {
				edits = append(edits, editIn{Op: "drop-line", I: r.Intn(n + 1)})
			}
		} else {
			for j := 1 + r.Intn(3); j > 0; j-- {
				edits = append(edits, one())
			}
		}
		t.Rounds = append(t.Rounds, edits)
	}
	return t
}
