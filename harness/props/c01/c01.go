// Package c01 ties the Lean calculation model (Model/Calc.lean, exact
// rounding-half-away arithmetic at the documented points) to the real
// bill.Invoice.Calculate, and judges Go's presented totals against exact
// rational arithmetic.
package c01

import (
	"fmt"
	"math/big"
	"strconv"
	"strings"

	"github.com/invopop/gobl/l10n"
	"github.com/invopop/gobl/num"
	"github.com/invopop/gobl/tax"

	"verifharness/internal/calcproto"
	"verifharness/internal/core"
)

// Case is one generated document (also the replay format).
type Case struct {
	Doc *calcproto.Doc `json:"doc"`
}

// Result of running one document through Go and the model.
type Result struct {
	GoErr   string
	GoOut   string
	Req     string
	Model   string
	Agree   bool
	Skipped string
}

// RunDocs evaluates the documents through the real code and the model.
func RunDocs(c *core.Ctx, docs []*calcproto.Doc) ([]Result, error) {
	res := make([]Result, len(docs))
	reqs := make([]string, 0, len(docs))
	idx := make([]int, 0, len(docs))
	for i, d := range docs {
		inv := d.Invoice()
		var err error
		pan := core.Protect(func() { err = inv.Calculate() })
		if pan != "" {
			res[i].GoErr = "panic: " + pan
			continue
		}
		if err != nil {
			res[i].GoErr = err.Error()
		} else {
			res[i].GoOut = "ok " + calcproto.Output(inv)
		}
		ok := true
		if pan := core.Protect(func() { res[i].Req = "calc " + d.Encode(inv) }); pan != "" {
			ok = false
			res[i].Skipped = "encode: " + pan
		}
		if ok {
			reqs = append(reqs, res[i].Req)
			idx = append(idx, i)
		}
	}
	out, err := c.ModelProp("C01", reqs)
	if err != nil {
		return nil, err
	}
	for k, i := range idx {
		r := out[k]
		if len(r) < 2 || (r[0] != '0' && r[0] != '1') {
			res[i].Model = r
			continue
		}
		res[i].Agree = r[0] == '1'
		res[i].Model = r[2:]
	}
	return res, nil
}

func errClass(goErr string) string {
	switch {
	case strings.Contains(goErr, "no exchange rate"):
		return "err no-exchange-rate"
	case strings.Contains(goErr, "cannot include retained"):
		return "err retained-included"
	}
	return "err other"
}

// Run is the C01 check.
func Run(c *core.Ctx) int {
	var docs []*calcproto.Doc
	var rc Case
	if c.ReplayCase(&rc) {
		docs = []*calcproto.Doc{rc.Doc}
	} else {
		n := c.Pick(4000, 300000)
		for i := 0; i < n; i++ {
			o := calcproto.GenOpts{}
			if c.Thorough() && i%10 == 0 {
				o.MaxLines = 40
			}
			docs = append(docs, calcproto.Gen(c.Rng, o))
		}
	}
	res, err := RunDocs(c, docs)
	if err != nil {
		c.TieBroken("drive:C01/model", err.Error(), nil)
		return c.Finish("", nil)
	}
	for i, r := range res {
		d := docs[i]
		switch {
		case strings.HasPrefix(r.GoErr, "panic"):
			c.Count("go:panic", 1)
			c.Fail("", "Calculate panicked: "+r.GoErr, Case{d})
			continue
		case r.Skipped != "":
			c.Count("skipped:"+r.Skipped, 1)
			continue
		case !r.Agree:
			c.Count("skipped:outside-2^52-domain", 1)
			c.Eval(r.Req, false)
			continue
		}
		if r.GoErr != "" {
			cl := errClass(r.GoErr)
			c.Count("go:"+cl, 1)
			c.Eval(r.Req, false)
			if cl == "err other" {
				// errors from rate-key resolution etc.: outside the calculation model
				c.Count("skipped:go-error-outside-model", 1)
				continue
			}
			if r.Model != cl {
				c.TieBroken("drive:C01/calc", fmt.Sprintf("Go error %q, model %q", r.GoErr, r.Model), Case{d})
			}
			continue
		}
		c.Count("go:ok", 1)
		c.Count(fmt.Sprintf("lines:%d", min(len(d.Lines), 9)), 1)
		c.Count("rule:"+d.Rule, 1)
		c.Count("cur:"+d.Cur, 1)
		c.Count("regime:"+regimeName(d), 1)
		for k, n := range calcproto.Families(d) {
			c.Count("family:"+k, int64(n))
		}
		c.Eval(r.Req, len(d.Lines) > 0)
		if i%997 == 0 {
			c.Sample(map[string]any{"doc": d, "go": r.GoOut})
		}
		if r.GoOut != r.Model {
			c.Fail("", "document totals differ from exact decimal arithmetic rounded half away from zero at the documented points: "+firstDiff(r.GoOut, r.Model), Case{d})
		}
	}
	errorBound(c, docs, res)
	taxRows(c, docs, res)
	// every other public operation that hands back a calculated document (see internal/calcproto/ops.go)
	var replayDoc *calcproto.Doc
	if len(docs) == 1 && rc.Doc != nil {
		replayDoc = rc.Doc
	}
	OpsFamily(c, true, c.Pick(1500, 30000), calcproto.GenOpts{}, nil, replayDoc)
	return c.Finish("random billing documents (lines 0-8, thorough up to 40; breakdowns, line and document discounts/charges by percentage with and without base, fixed, rate x quantity; foreign-currency items with exchange rates or alternative prices; advances and due dates; tax-included prices; both rounding rules; currencies with 0/2/3 decimals; regimes ES, EL, PT, IT, FR from the hand table and, read from the registry at run time, every other registered regime, suppliers under a regime's alternative code, and documents without a regime; rows sharing a rate key whose percentage the issuer supplies under different percentages; a combo repeated with a country override by an alternative code of the document's own regime, by another regime, by a country without one); non-trivial = at least one line; distinct by encoded document", nil)
}

func regimeName(d *calcproto.Doc) string {
	if t := calcproto.DocTaxCountry(d.Country); t != "" {
		return t
	}
	return "none"
}

func firstDiff(a, b string) string {
	x, y := strings.Fields(a), strings.Fields(b)
	for i := 0; i < len(x) && i < len(y); i++ {
		if x[i] != y[i] {
			lo := max(0, i-6)
			return fmt.Sprintf("token %d: Go …%s vs model …%s", i, strings.Join(x[lo:min(len(x), i+3)], " "), strings.Join(y[lo:min(len(y), i+3)], " "))
		}
	}
	return fmt.Sprintf("lengths %d vs %d", len(x), len(y))
}

// effectiveRule resolves the rounding rule of a document.
func effectiveRule(d *calcproto.Doc) string {
	if d.Rule != "" {
		return d.Rule
	}
	return string(tax.RegimeDefFor(l10n.TaxCountryCode(d.Country).Code()).GetRoundingRule())
}

// ordinary documents for the error bound: every percentage within -100%..100%
// (a 7935% charge multiplies any rounding error of its base by 79) and every
// line priced (with no priced line the running totals stay at the currency's
// precision).
func ordinary(d *calcproto.Doc) bool {
	okp := func(p *calcproto.Amt) bool {
		if p == nil {
			return true
		}
		lim := int64(1)
		for i := uint32(0); i < p.E; i++ {
			lim *= 10
		}
		return p.V <= lim && p.V >= -lim
	}
	combos := func(cs []calcproto.Combo) bool {
		for _, c := range cs {
			if !okp(c.Percent) || !okp(c.Surcharge) {
				return false
			}
		}
		return true
	}
	adjs := func(as []calcproto.LineAdj) bool {
		for _, a := range as {
			if !okp(a.Percent) {
				return false
			}
		}
		return true
	}
	for _, l := range d.Lines {
		if l.Item == nil || (l.Item.Price == nil && len(l.Breakdown) == 0) {
			return false
		}
		if !adjs(l.Discounts) || !adjs(l.Charges) || !combos(l.Taxes) {
			return false
		}
		for _, s := range l.Breakdown {
			if !adjs(s.Discounts) || !adjs(s.Charges) {
				return false
			}
		}
	}
	for _, x := range append(append([]calcproto.DocAdj{}, d.Discounts...), d.Charges...) {
		if !okp(x.Percent) || !combos(x.Taxes) {
			return false
		}
	}
	for _, x := range append(append([]calcproto.Adv{}, d.Advances...), d.Dues...) {
		if !okp(x.Percent) {
			return false
		}
	}
	return true
}

func hasForeignConversion(d *calcproto.Doc) bool {
	conv := func(it *calcproto.Item) bool { return it != nil && it.Cur != "" && it.Cur != d.Cur }
	for _, l := range d.Lines {
		if conv(l.Item) {
			return true
		}
		for _, s := range l.Breakdown {
			if conv(s.Item) {
				return true
			}
		}
	}
	return false
}

// a rate x quantity line charge whose rate has fewer decimals than the working precision
func hasCoarseChargeRate(d *calcproto.Doc, c uint32) bool {
	for _, l := range d.Lines {
		for _, x := range l.Charges {
			if x.Rate != nil && x.Rate.E < c+2 {
				return true
			}
		}
	}
	return false
}

func hasBreakdown(d *calcproto.Doc) bool {
	for _, l := range d.Lines {
		if len(l.Breakdown) > 0 {
			return true
		}
	}
	return false
}

// errorBound judges the second clause of C01 on the real output: under
// 'precise', no presented total of an ordinary-sized document is a full minor
// currency unit away from the unrounded exact value (Spec/C01.lean `exactQ`,
// plain rational arithmetic with no rounding anywhere, evaluated by the Lean
// driver).  Ordinary-sized here: at most 10 lines.
func errorBound(c *core.Ctx, docs []*calcproto.Doc, res []Result) {
	var reqs []string
	var idx []int
	// documents of more than 10 lines are outside the "ordinary-sized" claim of
	// the oracle below; they are still sent to the driver so that those in the
	// proved class are held to the proved bound (which has no size condition)
	var large []bool
	for i, d := range docs {
		r := res[i]
		if r.GoErr != "" || r.Skipped != "" || !r.Agree || effectiveRule(d) != "precise" || len(d.Lines) == 0 {
			continue
		}
		if !ordinary(d) {
			if len(d.Lines) <= 10 {
				c.Count("error-bound:skipped-not-ordinary", 1)
			}
			continue
		}
		reqs = append(reqs, "exactq "+strings.TrimPrefix(r.Req, "calc "))
		idx = append(idx, i)
		large = append(large, len(d.Lines) > 10)
	}
	out, err := c.ModelProp("C01", reqs)
	if err != nil {
		c.TieBroken("drive:C01/exactq", err.Error(), nil)
		return
	}
	// the document class for which Props/C01 (calc_eq_spec, decided_class_bound)
	// proves an explicit bound, decided by the driver (Spec/C01.lean inDocC,
	// docWeight): on those documents the real output is also held to the
	// proved bound  half a unit + weight/200 units.
	creqs := make([]string, len(reqs))
	for k, r := range reqs {
		creqs[k] = "class " + strings.TrimPrefix(r, "exactq ")
	}
	cout, err := c.ModelProp("C01", creqs)
	if err != nil {
		c.TieBroken("drive:C01/class", err.Error(), nil)
		return
	}
	names := []string{"sum", "discount", "charge", "tax_included", "total", "tax", "total_with_tax", "payable", "advance", "due"}
	for k, i := range idx {
		d := docs[i]
		f := strings.Fields(out[k])
		if len(f) != 11 || f[0] != "ok" {
			c.TieBroken("drive:C01/exactq", "unexpected answer "+out[k], Case{d})
			continue
		}
		cf := strings.Fields(cout[k])
		if len(cf) != 4 || cf[0] != "ok" {
			c.TieBroken("drive:C01/class", "unexpected answer "+cout[k], Case{d})
			continue
		}
		// "1": class of decided_class_bound; "2": class of decided_class_bound_included
		// (prices including one tax category; tax_included is held to the bound too)
		inClass := cf[1] == "1" || cf[1] == "2"
		included := cf[1] == "2"
		weight, _ := strconv.ParseInt(cf[2], 10, 64)
		inv := d.Invoice()
		if inv.Calculate() != nil || inv.Totals == nil {
			continue
		}
		t := inv.Totals
		sub := uint32(2)
		if def := inv.Currency.Def(); def != nil {
			sub = def.Subunits
		}
		unit := new(big.Rat).SetFrac(big.NewInt(1), new(big.Int).Exp(big.NewInt(10), big.NewInt(int64(sub)), nil))
		got := []*num.Amount{&t.Sum, t.Discount, t.Charge, t.TaxIncluded, &t.Total, &t.Tax, &t.TotalWithTax, &t.Payable, t.Advances, t.Due}
		if large[k] && !inClass {
			continue
		}
		if large[k] {
			c.Count("error-bound:in-proved-class-over-10-lines", 1)
		} else {
			c.Count("error-bound:documents", 1)
		}
		var proved *big.Rat
		provedBy := ""
		if inClass {
			c.Count("error-bound:in-proved-class", 1)
			if weight < 100 {
				c.Count("error-bound:in-proved-class-weight<100", 1)
			}
			if included {
				c.Count("error-bound:in-proved-class-included", 1)
				if weight < 100 {
					c.Count("error-bound:in-proved-class-included-weight<100", 1)
				}
			}
			proved = new(big.Rat).Mul(unit, new(big.Rat).Add(big.NewRat(1, 2), big.NewRat(weight, 200)))
			// the tight weight (actual percentages, Props.C01.decided_class_bound_tight): a
			// rational; when given, the real output is held to this smaller bound
			if tw, ok := new(big.Rat).SetString(cf[3]); ok && cf[3] != "-" {
				c.Count("error-bound:in-proved-class-tight", 1)
				if tw.Cmp(big.NewRat(100, 1)) < 0 {
					c.Count("error-bound:in-proved-class-tight-weight<100", 1)
				}
				tight := new(big.Rat).Mul(unit, new(big.Rat).Add(big.NewRat(1, 2), new(big.Rat).Quo(tw, big.NewRat(200, 1))))
				if tight.Cmp(proved) < 0 {
					proved = tight
					provedBy = "theorem:C01/decided_class_bound_tight"
				}
			}
		}
		worst := new(big.Rat)
		for j, a := range got {
			if a == nil {
				continue
			}
			want, ok := new(big.Rat).SetString(f[j+1])
			if !ok {
				continue
			}
			den := new(big.Int).Exp(big.NewInt(10), big.NewInt(int64(a.Exp())), nil)
			diff := new(big.Rat).Sub(new(big.Rat).SetFrac(big.NewInt(a.Value()), den), want)
			diff.Abs(diff)
			if diff.Cmp(worst) > 0 {
				worst.Set(diff)
			}
			if proved != nil && diff.Cmp(proved) > 0 {
				thm := "theorem:C01/decided_class_bound"
				if included {
					thm = "theorem:C01/decided_class_bound_included"
				}
				if provedBy != "" {
					thm = provedBy
				}
				c.TieBroken(thm, fmt.Sprintf("totals.%s = %s is further from the unrounded exact value %s than the bound proved for the document class (weight %d, tight weight %s)", names[j], a.String(), want.FloatString(int(sub)+6), weight, cf[3]), Case{d})
			}
			if diff.Cmp(unit) >= 0 && !large[k] {
				cls := ""
				switch {
				case hasForeignConversion(d):
					cls = "c01.unitPriceConvertedAtCurrencyPrecision"
				case hasBreakdown(d):
					cls = "c01.breakdownPriceAtSubPricePrecision"
				case hasCoarseChargeRate(d, sub):
					cls = "c01.chargeRateAtRatePrecision"
				}
				c.Fail(cls, fmt.Sprintf("under precise, totals.%s = %s is a full minor unit or more away from the unrounded exact value %s", names[j], a.String(), want.FloatString(int(sub)+4)), Case{d})
				break
			}
		}
		half := new(big.Rat).Mul(unit, big.NewRat(1, 2))
		if worst.Cmp(half) > 0 && !large[k] {
			c.Count("error-bound:over-half-unit", 1)
		}
	}
}

// taxRows holds the rows of the real tax summary (category amount and
// surcharge; rate-group base, amount and surcharge) of every generated
// document of the decided class (Spec/C01.lean inDocI) to the bounds of
// Props.C01.tax_rows_decided: half a minor unit plus weight/200 units from the
// exact rational value the driver computes (Spec/C01.lean catAmountQ,
// catSurchargeQ, groupBaseQ).  Rows are matched by position; the whole output
// is compared with the model elsewhere, so a different shape is only counted.
func taxRows(c *core.Ctx, docs []*calcproto.Doc, res []Result) {
	var reqs []string
	var idx []int
	for i, d := range docs {
		r := res[i]
		if r.GoErr != "" || r.Skipped != "" || !r.Agree || effectiveRule(d) != "precise" || len(d.Lines) == 0 {
			continue
		}
		reqs = append(reqs, "taxrows "+strings.TrimPrefix(r.Req, "calc "))
		idx = append(idx, i)
	}
	out, err := c.ModelProp("C01", reqs)
	if err != nil {
		c.TieBroken("drive:C01/taxrows", err.Error(), nil)
		return
	}
	for k, i := range idx {
		d := docs[i]
		f := strings.Fields(out[k])
		if len(f) < 2 || f[0] != "ok" {
			c.TieBroken("drive:C01/taxrows", "unexpected answer "+out[k], Case{d})
			continue
		}
		if f[1] != "1" {
			continue
		}
		inv := d.Invoice()
		if inv.Calculate() != nil || inv.Totals == nil || inv.Totals.Taxes == nil {
			continue
		}
		sub := uint32(2)
		if def := inv.Currency.Def(); def != nil {
			sub = def.Subunits
		}
		unit := new(big.Rat).SetFrac(big.NewInt(1), new(big.Int).Exp(big.NewInt(10), big.NewInt(int64(sub)), nil))
		rat := func(v int64, e uint32) *big.Rat {
			return new(big.Rat).SetFrac(big.NewInt(v), new(big.Int).Exp(big.NewInt(10), big.NewInt(int64(e)), nil))
		}
		// bound = unit x (1/2 + w/200)
		bound := func(w *big.Rat) *big.Rat {
			return new(big.Rat).Mul(unit, new(big.Rat).Add(big.NewRat(1, 2), new(big.Rat).Quo(w, big.NewRat(200, 1))))
		}
		held := func(what string, got num.Amount, want, w *big.Rat) {
			c.Count("tax-rows:figures", 1)
			diff := new(big.Rat).Sub(rat(got.Value(), got.Exp()), want)
			diff.Abs(diff)
			if diff.Cmp(bound(w)) > 0 {
				c.TieBroken("theorem:C01/tax_rows_decided", fmt.Sprintf("%s = %s is further from the exact value %s than the proved bound (weight %s)", what, got.String(), want.FloatString(int(sub)+6), w.FloatString(3)), Case{d})
			}
		}
		cats := inv.Totals.Taxes.Categories
		n, _ := strconv.Atoi(f[2])
		if n != len(cats) {
			c.Count("tax-rows:shape-differs", 1)
			continue
		}
		c.Count("tax-rows:documents", 1)
		pos := 3
		ok := true
		for _, ct := range cats {
			if pos+7 > len(f) || f[pos] != "k" {
				ok = false
				break
			}
			first := f[pos+2] == "1"
			amtQ, ok1 := new(big.Rat).SetString(f[pos+3])
			surQ, ok2 := new(big.Rat).SetString(f[pos+4])
			w, ok3 := new(big.Rat).SetString(f[pos+5])
			ng, _ := strconv.Atoi(f[pos+6])
			pos += 7
			if !ok1 || !ok2 || !ok3 || ng != len(ct.Rates) {
				ok = false
				break
			}
			if first {
				c.Count("tax-rows:categories", 1)
				held("category "+ct.Code.String()+" amount", ct.Amount, amtQ, w)
				if ct.Surcharge != nil {
					held("category "+ct.Code.String()+" surcharge", *ct.Surcharge, surQ, w)
				}
			}
			for _, rt := range ct.Rates {
				if pos+3 > len(f) || f[pos] != "g" {
					ok = false
					break
				}
				baseQ, ok4 := new(big.Rat).SetString(f[pos+1])
				wb, ok5 := new(big.Rat).SetString(f[pos+2])
				pos += 3
				if !ok4 || !ok5 {
					ok = false
					break
				}
				c.Count("tax-rows:groups", 1)
				name := "category " + ct.Code.String() + " group " + rt.Key.String()
				held(name+" base", rt.Base, baseQ, wb)
				if rt.Percent != nil {
					p := rat(rt.Percent.Value(), rt.Percent.Exp())
					pa := new(big.Rat).Abs(p)
					held(name+" amount", rt.Amount, new(big.Rat).Mul(baseQ, p), new(big.Rat).Add(big.NewRat(1, 1), new(big.Rat).Mul(pa, wb)))
					if rt.Surcharge != nil {
						sp := rat(rt.Surcharge.Percent.Value(), rt.Surcharge.Percent.Exp())
						spa := new(big.Rat).Abs(sp)
						held(name+" surcharge", rt.Surcharge.Amount, new(big.Rat).Mul(baseQ, sp), new(big.Rat).Add(big.NewRat(1, 1), new(big.Rat).Mul(spa, wb)))
					}
				}
			}
			if !ok {
				break
			}
		}
		if !ok {
			c.Count("tax-rows:shape-differs", 1)
		}
	}
}
