// Package c01 ties the Lean calculation model (Model/Calc.lean, exact
// rounding-half-away arithmetic at the documented points) to the real
// bill.Invoice.Calculate, and judges Go's presented totals against exact
// rational arithmetic.
package c01

import (
	"fmt"
	"strings"

	"verifharness/internal/calcproto"
	"verifharness/internal/core"
)

// Case is one generated document (also the replay format).
type Case struct {
	Doc *calcproto.Doc `json:"doc"`
}

// Result of running one document through Go and the model.
type Result struct {
	GoErr   string
	GoOut   string
	Req     string
	Model   string
	Agree   bool
	Skipped string
}

// RunDocs evaluates the documents through the real code and the model.
func RunDocs(c *core.Ctx, docs []*calcproto.Doc) ([]Result, error) {
	res := make([]Result, len(docs))
	reqs := make([]string, 0, len(docs))
	idx := make([]int, 0, len(docs))
	for i, d := range docs {
		inv := d.Invoice()
		var err error
		pan := core.Protect(func() { err = inv.Calculate() })
		if pan != "" {
			res[i].GoErr = "panic: " + pan
			continue
		}
		if err != nil {
			res[i].GoErr = err.Error()
		} else {
			res[i].GoOut = "ok " + calcproto.Output(inv)
		}
		ok := true
		if pan := core.Protect(func() { res[i].Req = "calc " + d.Encode(inv) }); pan != "" {
			ok = false
			res[i].Skipped = "encode: " + pan
		}
		if ok {
			reqs = append(reqs, res[i].Req)
			idx = append(idx, i)
		}
	}
	out, err := c.ModelProp("C01", reqs)
	if err != nil {
		return nil, err
	}
	for k, i := range idx {
		r := out[k]
		if len(r) < 2 || (r[0] != '0' && r[0] != '1') {
			res[i].Model = r
			continue
		}
		res[i].Agree = r[0] == '1'
		res[i].Model = r[2:]
	}
	return res, nil
}

func errClass(goErr string) string {
	switch {
	case strings.Contains(goErr, "no exchange rate"):
		return "err no-exchange-rate"
	case strings.Contains(goErr, "cannot include retained"):
		return "err retained-included"
	}
	return "err other"
}

// Run is the C01 check.
func Run(c *core.Ctx) int {
	var docs []*calcproto.Doc
	var rc Case
	if c.ReplayCase(&rc) {
		docs = []*calcproto.Doc{rc.Doc}
	} else {
		n := c.Pick(4000, 300000)
		for i := 0; i < n; i++ {
			o := calcproto.GenOpts{}
			if c.Thorough() && i%10 == 0 {
				o.MaxLines = 40
			}
			docs = append(docs, calcproto.Gen(c.Rng, o))
		}
	}
	res, err := RunDocs(c, docs)
	if err != nil {
		c.TieBroken("drive:C01/model", err.Error(), nil)
		return c.Finish("", nil)
	}
	for i, r := range res {
		d := docs[i]
		switch {
		case strings.HasPrefix(r.GoErr, "panic"):
			c.Count("go:panic", 1)
			c.Fail("", "Calculate panicked: "+r.GoErr, Case{d})
			continue
		case r.Skipped != "":
			c.Count("skipped:"+r.Skipped, 1)
			continue
		case !r.Agree:
			c.Count("skipped:outside-2^52-domain", 1)
			c.Eval(r.Req, false)
			continue
		}
		if r.GoErr != "" {
			cl := errClass(r.GoErr)
			c.Count("go:"+cl, 1)
			c.Eval(r.Req, false)
			if cl == "err other" {
				// errors from rate-key resolution etc.: outside the calculation model
				c.Count("skipped:go-error-outside-model", 1)
				continue
			}
			if r.Model != cl {
				c.TieBroken("drive:C01/calc", fmt.Sprintf("Go error %q, model %q", r.GoErr, r.Model), Case{d})
			}
			continue
		}
		c.Count("go:ok", 1)
		c.Count(fmt.Sprintf("lines:%d", min(len(d.Lines), 9)), 1)
		c.Count("rule:"+d.Rule, 1)
		c.Count("cur:"+d.Cur, 1)
		c.Eval(r.Req, len(d.Lines) > 0)
		if i%997 == 0 {
			c.Sample(map[string]any{"doc": d, "go": r.GoOut})
		}
		if r.GoOut != r.Model {
			c.Fail("", "document totals differ from exact decimal arithmetic rounded half away from zero at the documented points: "+firstDiff(r.GoOut, r.Model), Case{d})
		}
	}
	return c.Finish("random billing documents (lines 0-8, thorough up to 40; breakdowns, line and document discounts/charges by percentage with and without base, fixed, rate x quantity; foreign-currency items with exchange rates or alternative prices; advances and due dates; tax-included prices; both rounding rules; currencies with 0/2/3 decimals; regimes ES, EL, PT, IT, FR); non-trivial = at least one line; distinct by encoded document", nil)
}

func firstDiff(a, b string) string {
	x, y := strings.Fields(a), strings.Fields(b)
	for i := 0; i < len(x) && i < len(y); i++ {
		if x[i] != y[i] {
			lo := max(0, i-6)
			return fmt.Sprintf("token %d: Go …%s vs model …%s", i, strings.Join(x[lo:min(len(x), i+3)], " "), strings.Join(y[lo:min(len(y), i+3)], " "))
		}
	}
	return fmt.Sprintf("lengths %d vs %d", len(x), len(y))
}
