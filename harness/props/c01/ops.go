package c01

import (
	"fmt"
	"strings"

	"github.com/invopop/gobl/bill"

	"verifharness/internal/calcproto"
	"verifharness/internal/core"
)

// Presented is a calculated document some public operation other than
// Calculate handed to the caller (or left with the caller): the statements of
// C01 and C03 speak of it as of any other calculated document.
type Presented struct {
	Doc  *calcproto.Doc
	What string
	Inv  *bill.Invoice
	Sub  uint32
	Op   calcproto.OpOutcome
	// FixedLineRows: lines of Inv carrying a fixed (not percentage) line discount or charge whose
	// amount the operation converted (known-finding classifier of C03, over the input)
	FixedLineRows map[int]bool
}

func nonZero(a *calcproto.Amt) bool { return a != nil && a.V != 0 }

// fixedLineRows: priced lines of the description with a row that states an
// amount of money (not a percentage of the line sum): a fixed discount or charge
// amount, the base of a percentage, the rate of a rate × quantity charge, the
// prices and rows of a breakdown.
func fixedLineRows(d *calcproto.Doc) map[int]bool {
	out := map[int]bool{}
	for i, l := range d.Lines {
		if l.Item == nil || (l.Item.Price == nil && len(l.Breakdown) == 0) {
			continue
		}
		if len(l.Breakdown) > 0 {
			out[i] = true // sub-line prices and rows: amounts of money too
		}
		for _, x := range l.Discounts {
			if x.Base != nil || (!nonZero(x.Percent) && x.Amount.V != 0) {
				out[i] = true
			}
		}
		for _, x := range l.Charges {
			// a rate × quantity charge is a fixed amount too: the rate is an amount of money per unit,
			// carried over as it is (with the decimals of the source currency)
			if x.Rate != nil || x.Base != nil || (!nonZero(x.Percent) && x.Amount.V != 0) {
				out[i] = true
			}
		}
	}
	return out
}

func hasFixedDocRow(d *calcproto.Doc) bool {
	for _, x := range append(append([]calcproto.DocAdj{}, d.Discounts...), d.Charges...) {
		if !nonZero(x.Percent) && x.Amount.V != 0 {
			return true
		}
	}
	return false
}

// hasUnpricedLine: a line without an item or whose item has no price.
func hasUnpricedLine(d *calcproto.Doc) bool {
	for _, l := range d.Lines {
		if l.Item == nil || l.Item.Price == nil {
			return true
		}
	}
	return false
}

// hasManyAltPrices: a line item with three or more alternative prices.
func hasManyAltPrices(d *calcproto.Doc) bool {
	for _, l := range d.Lines {
		if l.Item != nil && len(l.Item.Alts) >= 3 {
			return true
		}
	}
	return false
}

// HasFixedAdvance: an advance given as an amount.
func HasFixedAdvance(d *calcproto.Doc) bool {
	for _, a := range d.Advances {
		if d.HasPayment && !nonZero(a.Percent) && a.Amount.V != 0 {
			return true
		}
	}
	return false
}

// SharedWithReceiver names, by a predicate over the description, which part of
// a receiver a conversion is known to share with the document it returns ("" =
// none known).
func SharedWithReceiver(d *calcproto.Doc) string {
	switch {
	case hasBreakdownRows(d):
		return "convertIntoSharesBreakdownRows"
	case hasUnpricedLine(d):
		return "convertIntoSharesUnpricedLines"
	case d.HasPayment && len(d.Dues) > 0:
		return "convertIntoSharesPaymentTerms"
	case hasManyAltPrices(d):
		return "convertIntoShiftsAltPrices"
	}
	return ""
}

func hasBreakdownRows(d *calcproto.Doc) bool {
	for _, l := range d.Lines {
		if len(l.Breakdown) > 0 {
			return true
		}
	}
	return false
}

// OpsFamily generates n descriptions, runs every public operation other than
// Calculate that returns or rewrites a calculated document on each, judges what
// C01 says of the outcome (the document handed back is what a calculation of its
// own presented inputs gives; a receiver documented to be left alone still is
// what it was; converted inputs are exact products rounded once) when judge is
// set, and returns the documents so presented for the judges of the other
// calculation properties.
func OpsFamily(c *core.Ctx, judge bool, n int, o calcproto.GenOpts, fix func(*calcproto.Doc), replay *calcproto.Doc) []Presented {
	var docs []*calcproto.Doc
	if replay != nil {
		docs = []*calcproto.Doc{replay}
	} else {
		for len(docs) < n {
			d := calcproto.GenOps(c.Rng, o)
			if fix != nil {
				fix(d)
			}
			docs = append(docs, d)
		}
	}
	res, err := RunDocs(c, docs)
	if err != nil {
		c.TieBroken("drive:ops/model", err.Error(), nil)
		return nil
	}
	var out []Presented
	for i, d := range docs {
		r := res[i]
		if r.GoErr != "" || r.Skipped != "" {
			c.Count("ops:skipped-receiver-does-not-calculate", 1)
			continue
		}
		if !r.Agree {
			c.Count("ops:skipped-outside-2^52-domain", 1)
			continue
		}
		failed := false
		fail := func(cls, what string) {
			if !judge {
				c.Count("ops:left-to-C01", 1) // the caller judges another property; C01's own run raises this
				return
			}
			if !failed {
				failed = true
				c.Fail(cls, what, Case{d})
			}
		}
		for _, op := range calcproto.RunOps(d, c.Rng) {
			kind := op.Op
			if k := strings.Index(kind, "("); k > 0 && op.Convert {
				kind = kind[:k]
			}
			switch {
			case op.Panic != "":
				c.Count("ops:"+kind+":panic", 1)
				fail("", op.Op+" panics on a document that calculates: "+op.Panic)
				continue
			case op.Skipped != "":
				c.Count("ops:"+kind+":refused:"+op.Skipped, 1)
				continue
			}
			c.Count("ops:"+kind, 1)
			c.Eval("ops "+op.Op+" "+r.Req, len(d.Lines) > 0)
			if op.Stale != "" {
				cls := ""
				// a conversion or a removal of included taxes rescales every fixed amount at two extra decimals
				rescales := op.Convert || strings.HasPrefix(op.Op, "invoice.RemoveIncludedTaxes")
				if calcproto.FixedFinerThanPresented(d, op.Sub) || (rescales && (hasFixedDocRow(d) || len(fixedLineRows(d)) > 0 || HasFixedAdvance(d))) {
					cls = "c01.opLeavesFixedAmountFinerThanPresented"
				}
				fail(cls, fmt.Sprintf("the document %s hands back is not what a calculation of its own presented inputs gives: %s", op.Op, op.Stale))
			}
			if op.Conv != "" {
				cls := ""
				if i := op.ConvLine; i >= 0 && i < len(d.Lines) && d.Lines[i].Item != nil && d.Lines[i].Item.Cur != "" {
					cls = "c01.convertIntoItemWithStatedCurrency"
				}
				fail(cls, fmt.Sprintf("%s: a converted input is not the exact product with the exchange rate rounded half away from zero once: %s", op.Op, op.Conv))
			}
			if op.Convert {
				shared := SharedWithReceiver(d)
				if shared != "" {
					shared = "c01." + shared
				}
				if op.ReceiverDiff != "" {
					fail(shared, fmt.Sprintf("%s is documented to return a new document, but the receiver (a calculated document) reads differently %s: %s", op.Op, op.ReceiverWhen, op.ReceiverDiff))
					if op.ReceiverStale != "" {
						fail(shared, fmt.Sprintf("after %s the receiver's presented totals are no longer what a calculation of its presented inputs gives: %s", op.Op, op.ReceiverStale))
					}
				} else {
					c.Count("ops:receiver-untouched", 1)
				}
			}
			if op.Result != nil {
				out = append(out, Presented{Doc: d, What: "the document handed back by " + op.Op, Inv: op.Result, Sub: op.Sub, Op: op, FixedLineRows: fixedLineRows(d)})
			}
			if op.Receiver != nil {
				out = append(out, Presented{Doc: d, What: "the receiver after " + op.Op, Inv: op.Receiver, Sub: op.ReceiverSub, Op: op})
			}
		}
	}
	return out
}
