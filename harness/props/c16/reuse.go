package c16

// (3) REUSED OPTION VALUES.  The statement quantifies over "every correction
// type and option combination": the outcome of a call is a function of the
// source and of the option values given, and a call never changes its source.
// A caller builds its option list once and corrects several sources with it.
// Relation: the option list built once is used for a first source — as it
// is, as a prefix of the caller's slice, or together with raw options data
// that set the same options, possibly naming the first source's own header
// stamps as the stamp option — and then for the judged source; the second
// result must equal the one obtained with freshly built options on a fresh
// parse, and neither source may change (during either call, nor when the
// first result is edited afterwards).

import (
	"encoding/json"
	"fmt"
	"strings"

	"github.com/invopop/gobl"
	"github.com/invopop/gobl/bill"
	"github.com/invopop/gobl/schema"

	"verifharness/internal/conc"
	"verifharness/internal/core"
)

type reuseIn struct {
	Name0       string          `json:"first_name"`
	Source0     string          `json:"first_source"`
	StampsHead0 bool            `json:"first_stamps_header"` // the first source's header holds the stamps its definition names
	HeadStamps0 [][2]string     `json:"first_head_stamps,omitempty"`
	First       string          `json:"first"` // same | prefix | plus-data
	Prefix      int             `json:"prefix,omitempty"`
	Data0       json.RawMessage `json:"first_data,omitempty"`
	OwnStamps   bool            `json:"own_stamps,omitempty"` // the first call names the first source's own header stamps as its stamp option
}

func firstHasHeaderStamps(t tcase) bool {
	t0 := tcase{Source: t.Reuse.Source0, Opts: optSet{StampsHead: t.Reuse.StampsHead0}, HeadStamps: t.Reuse.HeadStamps0}
	env, _, err := prepare(t0)
	return err == nil && len(env.Head.Stamps) > 0
}

func dataHas(d json.RawMessage, name string) bool {
	var m map[string]json.RawMessage
	if json.Unmarshal(d, &m) != nil {
		return false
	}
	for k := range m {
		if strings.EqualFold(k, name) {
			return true
		}
	}
	return false
}

// Classifiers of the listed findings: predicates over the INPUT only.

// the stamp option of the first call is the first source's own header stamps
func ownStampsClassifier(t tcase) string {
	if t.Reuse.OwnStamps && t.Reuse.First != "prefix" && firstHasHeaderStamps(t) {
		return "c16.optionStampsAreSourceHeaderStamps"
	}
	return ""
}

// a proper prefix of the caller's option slice was given for a source with header stamps
func prefixClassifier(t tcase, nOpts int) string {
	if t.Reuse.First == "prefix" && t.Reuse.Prefix < nOpts && firstHasHeaderStamps(t) {
		return "c16.reuse.prefixOfCallerSliceOverwritten"
	}
	return ""
}

// the first call combined the reused values with raw data that set an option held by pointer (date, stamps)
func rawDataClassifier(t tcase) string {
	if t.Reuse.First != "plus-data" {
		return ""
	}
	if (t.Opts.Date && dataHas(t.Reuse.Data0, "issue_date")) || (t.Opts.StampsOpt && dataHas(t.Reuse.Data0, "stamps")) {
		return "c16.reuse.rawDataRewritesReusedOptionValue"
	}
	return ""
}

func runReuse(c *core.Ctx, t tcase) {
	if t.Reuse == nil {
		return
	}
	envB, mB, err := prepare(t)
	if err != nil {
		c.Count("skipped.unparsable-source", 1)
		return
	}
	t0 := tcase{Source: t.Reuse.Source0, Opts: optSet{StampsHead: t.Reuse.StampsHead0}, HeadStamps: t.Reuse.HeadStamps0}
	envA, _, err := prepare(t0)
	if err != nil {
		c.Count("skipped.unparsable-source", 1)
		return
	}
	o := t.Opts
	o.ViaData = false
	opts := optionFuncs(o, mB) // built once by the caller
	nOpts := len(opts)
	first := opts
	switch t.Reuse.First {
	case "prefix":
		k := t.Reuse.Prefix
		if k > len(opts) {
			k = len(opts)
		}
		first = opts[:k]
	case "plus-data":
		first = append(append(make([]schema.Option, 0, len(opts)+2), opts...), bill.WithData(t.Reuse.Data0))
	}
	if t.Reuse.OwnStamps && t.Reuse.First != "prefix" {
		first = append([]schema.Option{bill.WithStamps(envA.Head.Stamps)}, first...)
	}
	c.Eval(fmt.Sprintf("reuse|%s|%s|%v|%v|%d", t.Reuse.First, t.Name, t.Reuse.OwnStamps, t.Opts, t.Reuse.Prefix), true)
	c.Count("reuse.first:"+t.Reuse.First, 1)
	if t.Reuse.OwnStamps {
		c.Count("reuse.first-call-names-its-source's-header-stamps", 1)
	}
	gA, gB := guard(envA), guard(envB)
	var resA, resB, resF *gobl.Envelope
	var errA, errB, errF error
	if p := core.Protect(func() { resA, errA = envA.Correct(first...) }); p != "" {
		c.Fail("", "correct panicked: "+p, t)
		return
	}
	if what, diff := gA.changed(envA); what != "" {
		c.Fail(ownStampsClassifier(t), fmt.Sprintf("correct changed its source envelope (%s): %s", what, strings.Join(diff, " ;; ")), t)
		gA = guard(envA)
	}
	c.Count("reuse.first-outcome:"+strings.SplitN(errClass(errA), ":", 2)[0], 1)
	if p := core.Protect(func() { resB, errB = envB.Correct(opts...) }); p != "" {
		c.Fail("", "correct panicked: "+p, t)
		return
	}
	if what, diff := gB.changed(envB); what != "" {
		c.Fail("", fmt.Sprintf("correct changed its source envelope (%s): %s", what, strings.Join(diff, " ;; ")), t)
	}
	if what, diff := gA.changed(envA); what != "" {
		c.Fail(ownStampsClassifier(t), fmt.Sprintf("correcting a second source with the same option values changed the FIRST source envelope (%s): %s", what, strings.Join(diff, " ;; ")), t)
		gA = guard(envA)
	}
	// reference: fresh parse, freshly built options
	envF, mF, _ := prepare(t)
	if p := core.Protect(func() { resF, errF = envF.Correct(optionFuncs(o, mF)...) }); p != "" {
		return
	}
	c.Count("reuse.second-outcome:"+strings.SplitN(errClass(errF), ":", 2)[0], 1)
	class := prefixClassifier(t, nOpts)
	if class == "" {
		class = rawDataClassifier(t)
	}
	if errClass(errB) != errClass(errF) {
		c.Fail(class, fmt.Sprintf("option values used before for another source (%s) give %s, freshly built ones %s", t.Reuse.First, errClass(errB), errClass(errF)), t)
	} else if errB == nil {
		a, _ := json.Marshal(resB)
		b, _ := json.Marshal(resF)
		if ca, cb := canonResult(a), canonResult(b); ca != cb {
			c.Fail(class, fmt.Sprintf("option values used before for another source (%s) give another correction than freshly built ones: %s", t.Reuse.First, firstDiff(ca, cb)), t)
		}
	}
	// editing the first result must not reach its source
	if errA == nil && resA != nil {
		conc.Scramble(resA)
		if what, diff := gA.changed(envA); what != "" {
			c.Fail(ownStampsClassifier(t), fmt.Sprintf("mutating the result changed the source envelope (%s): shared memory between result and source: %s", what, strings.Join(diff, " ;; ")), t)
		}
	}
}

func reuseCases(c *core.Ctx, invoices []source) []tcase {
	var out []tcase
	n := c.Pick(60, 600)
	for i := 0; i < n; i++ {
		a, b := invoices[c.Rng.Intn(len(invoices))], invoices[c.Rng.Intn(len(invoices))]
		if i%3 == 0 {
			a = b // the same document, parsed twice
		}
		envB, err := parseEnv(b.data)
		if err != nil {
			continue
		}
		m := goDef(envB)
		ty := "credit-note"
		if len(m.types) > 0 {
			ty = m.types[c.Rng.Intn(len(m.types))]
		}
		bits := c.Rng.Intn(256)
		o := optSet{Type: ty, Reason: bits&1 != 0 || m.reason, Ext: bits&2 != 0 || len(m.exts) > 0, StampsOpt: bits&4 != 0, StampsHead: bits&8 != 0, Series: bits&16 != 0, Date: bits&32 != 0, CopyTax: bits&64 != 0}
		if !o.StampsOpt && !o.StampsHead {
			o.StampsHead = true
		}
		r := &reuseIn{Name0: a.name, Source0: string(a.data), StampsHead0: c.Rng.Intn(3) != 0, First: []string{"same", "prefix", "plus-data"}[i%3]}
		if c.Rng.Intn(2) == 0 {
			r.HeadStamps0 = [][2]string{{"stamp-a", "A-0001"}}
		}
		nOpts := len(optionFuncs(o, m))
		if r.First == "prefix" {
			r.Prefix = c.Rng.Intn(nOpts + 1)
		}
		if r.First == "plus-data" {
			// raw data setting the same options to other values
			d := map[string]any{"type": ty}
			if c.Rng.Intn(2) == 0 {
				d["issue_date"] = "2031-02-03"
			}
			if c.Rng.Intn(2) == 0 {
				d["series"] = "OTHER"
			}
			if c.Rng.Intn(2) == 0 {
				d["reason"] = "another reason"
			}
			if c.Rng.Intn(2) == 0 {
				var st []map[string]string
				for _, p := range m.stamps {
					st = append(st, map[string]string{"prv": p, "val": "FROM-RAW-DATA"})
				}
				st = append(st, map[string]string{"prv": "stamp-a", "val": "FROM-RAW-DATA"})
				d["stamps"] = st
			}
			if c.Rng.Intn(3) == 0 {
				if k, v := extFor(m); k != "" {
					d["ext"] = map[string]string{k: v}
				}
			}
			if c.Rng.Intn(3) == 0 {
				d["copy_tax"] = true
			}
			r.Data0, _ = json.Marshal(d)
		}
		r.OwnStamps = r.First != "prefix" && c.Rng.Intn(3) == 0
		out = append(out, tcase{Op: "reuse", Name: b.name, Source: string(b.data), Opts: o, Via: "lib", Reuse: r})
	}
	return out
}
