package c16

// (5) AFTER THE CALL.  "A correction is a freshly calculated, unsigned
// envelope …", "a replica keeps the business content but has a new
// identifier …": what Correct / Replicate hand out is a document of its own.
// The existing aliasing step edits the RESULT and watches the source; this
// family looks the other way round and later in time: once the call has
// returned, the caller goes on using everything it handed in — the option
// struct given with bill.WithOptions (its extension map, its stamps, its
// date), the stamps given to bill.WithStamps, the raw option bytes given to
// bill.WithData, the source envelope itself — and edits it in place, one
// value after the other.  After every edit the result already handed out
// must be byte-identical (json.Marshal), identical in deep structure, give
// the same Validate verdict and still match the digest in its header.
// Before the edits: the call itself must have left the caller's option values
// as they were (the outcome is a function of the source and the option
// values: a value rewritten by one call changes the caller's next call).

import (
	"bytes"
	"encoding/json"
	"fmt"
	"strings"

	"github.com/invopop/gobl"
	"github.com/invopop/gobl/bill"
	"github.com/invopop/gobl/cal"
	"github.com/invopop/gobl/cbc"
	"github.com/invopop/gobl/head"
	"github.com/invopop/gobl/schema"

	"verifharness/internal/conc"
	"verifharness/internal/core"
)

type afterIn struct {
	Replicate bool `json:"replicate,omitempty"`
}

type resultGuard struct {
	bytes  []byte
	dump   *conc.Snapshot
	valid  string
	digest string
}

func guardResult(res *gobl.Envelope) resultGuard {
	var g resultGuard
	g.bytes, _ = json.Marshal(res)
	g.dump = conc.Dump("result", res)
	_ = core.Protect(func() {
		if err := res.Validate(); err != nil {
			g.valid = err.Error()
		}
	})
	_ = core.Protect(func() {
		g.digest = "header digest matches the document"
		d, err := res.Digest()
		if err != nil {
			g.digest = "digest error: " + err.Error()
		} else if res.Head.Digest == nil || d.Value != res.Head.Digest.Value {
			g.digest = "header digest does NOT match the document"
		}
	})
	return g
}

func (g resultGuard) changed(res *gobl.Envelope) (string, []string) {
	n := guardResult(res)
	var what []string
	if !bytes.Equal(n.bytes, g.bytes) {
		what = append(what, "json.Marshal bytes")
	}
	if n.dump.Digest != g.dump.Digest {
		what = append(what, "deep structure")
	}
	if n.valid != g.valid {
		what = append(what, fmt.Sprintf("Validate verdict %q → %q", g.valid, n.valid))
	}
	if n.digest != g.digest {
		what = append(what, fmt.Sprintf("%s → %s", g.digest, n.digest))
	}
	if len(what) == 0 {
		return "", nil
	}
	return strings.Join(what, ", "), g.dump.Diff(n.dump, 6)
}

func onlyPrecedingStamps(diff []string) bool {
	if len(diff) == 0 {
		return false
	}
	for _, l := range diff {
		if !strings.Contains(l, "Preceding[0].Stamps[") {
			return false
		}
	}
	return true
}

func listHasRequired(ps [][2]string, m mergedDef) bool {
	for _, p := range ps {
		for _, k := range m.stamps {
			if p[0] == k {
				return true
			}
		}
	}
	return false
}

// Classifiers of the listed findings: predicates over the INPUT (plus, for
// the first, that nothing but the shared stamps is affected).

// the options were given as a struct (bill.WithOptions) with stamps, and a
// required provider is among them or among the raw data stamps (which are
// decoded into the caller's stamp values)
func afterSharedStampsClassifier(t tcase, m mergedDef, diff []string) string {
	s := t.Stamps
	if s == nil || s.FuncVia != "WithOptions" || s.FuncKind != "list" || !onlyPrecedingStamps(diff) {
		return ""
	}
	if listHasRequired(s.FuncList, m) || (s.DataKind == "list" && listHasRequired(s.DataList, m)) {
		return "c16.after.withOptionsStampsSharedWithResult"
	}
	return ""
}

// coState: the members of the caller's option struct, one text each.
func coState(co *bill.CorrectionOptions) map[string]string {
	st := map[string]string{
		"type": co.Type.String(), "reason": co.Reason, "series": co.Series.String(), "copy_tax": fmt.Sprint(co.CopyTax),
	}
	if co.IssueDate != nil {
		st["issue_date"] = co.IssueDate.String()
	}
	if co.Ext != nil {
		b, _ := json.Marshal(co.Ext) // sorted keys
		st["ext"] = string(b)
	}
	var sb strings.Builder
	for _, s := range co.Stamps[:cap(co.Stamps)] {
		if s == nil {
			sb.WriteString("<nil>;")
		} else {
			fmt.Fprintf(&sb, "%p %s=%s;", s, s.Provider, s.Value)
		}
	}
	st["stamps"] = sb.String()
	return st
}

// afterRewrittenClassifier: the options were given as a struct
// (bill.WithOptions); what the call changed in it is (a) members held by
// reference that the raw data given beside it names as well, or (b) nothing
// but the extension map (no raw `ext`): the corrected document's own
// normalisation worked on the caller's map.
func afterRewrittenClassifier(t tcase, keep *callerOptions, changed []string) string {
	s := t.Stamps
	if s == nil || s.FuncVia != "WithOptions" || keep == nil || keep.co == nil || len(changed) == 0 {
		return ""
	}
	byData := true
	for _, f := range changed {
		if !(f == "stamps" || f == "ext" || f == "issue_date") || !dataHas(keep.data, f) {
			byData = false
		}
	}
	if byData {
		return "c16.after.withOptionsValuesRewrittenByRawData"
	}
	if len(changed) == 1 && changed[0] == "ext" && !dataHas(keep.data, "ext") && t.Opts.Ext {
		return "c16.after.withOptionsExtSharedWithDocument"
	}
	return ""
}

func runAfter(c *core.Ctx, t tcase) {
	if t.After == nil {
		return
	}
	env, m, err := prepare(t)
	if err != nil {
		c.Count("skipped.unparsable-source", 1)
		return
	}
	var opts []schema.Option
	keep := &callerOptions{}
	if !t.After.Replicate {
		if t.Stamps == nil {
			t.Stamps = &stampShape{DataKind: "no-data"}
		}
		opts, keep = stampOptions(t, m)
		if t.Stamps.FuncVia == "WithOptions" && t.Stamps.DataKind != "no-data" && keep.co != nil {
			// raw data naming the members the struct holds by reference as well
			j := map[string]any{}
			_ = json.Unmarshal(keep.data, &j)
			if keep.co.Ext != nil {
				j["ext"] = keep.co.Ext
			}
			if keep.co.IssueDate != nil {
				j["issue_date"] = "2031-02-03"
			}
			keep.data, _ = json.Marshal(j)
			opts[len(opts)-1] = bill.WithData(keep.data)
		}
	}
	via := "replicate"
	if !t.After.Replicate {
		via = fmt.Sprintf("correct:%s:%s:data=%s", orDash(t.Stamps.FuncVia), orDash(t.Stamps.FuncKind+labelOf(t.Stamps.FuncList, m)), t.Stamps.DataKind+labelOf(t.Stamps.DataList, m))
	}
	c.Eval("after|"+t.Name+"|"+via+fmt.Sprint(t.Opts, t.HeadStamps), true)
	var callerBefore map[string]string
	var dataBefore []byte
	if keep.co != nil {
		callerBefore = coState(keep.co)
	}
	stBefore := conc.Dump("stamps", keep.st)
	dataBefore = append(dataBefore, keep.data...)
	var res *gobl.Envelope
	var cerr error
	if p := core.Protect(func() {
		if t.After.Replicate {
			res, cerr = env.Replicate()
		} else {
			res, cerr = env.Correct(opts...)
		}
	}); p != "" {
		c.Fail("", "panicked: "+p, t)
		return
	}
	// the call itself leaves the caller's values alone
	if keep.co != nil {
		now := coState(keep.co)
		var changed, lines []string
		for _, f := range []string{"type", "reason", "series", "copy_tax", "issue_date", "ext", "stamps"} {
			if now[f] != callerBefore[f] {
				changed = append(changed, f)
				lines = append(lines, fmt.Sprintf("%s: %s → %s", f, callerBefore[f], now[f]))
			}
		}
		if len(changed) > 0 {
			c.Fail(afterRewrittenClassifier(t, keep, changed), "Correct changed the option struct the caller gave with bill.WithOptions: "+strings.Join(lines, " ;; "), t)
		}
	}
	if now := conc.Dump("stamps", keep.st); keep.co == nil && now.Digest != stBefore.Digest {
		c.Fail("", "Correct changed the stamps the caller gave with bill.WithStamps: "+strings.Join(stBefore.Diff(now, 6), " ;; "), t)
	}
	if !bytes.Equal(dataBefore, keep.data) {
		c.Fail("", "Correct changed the raw option bytes the caller gave with bill.WithData", t)
	}
	c.Count("after."+via+".outcome:"+strings.SplitN(errClass(cerr), ":", 2)[0], 1)
	if cerr != nil || res == nil {
		return
	}
	g := guardResult(res)
	c.Count("after.result-"+g.digest, 1)
	step := func(name string, edit func()) {
		edit()
		c.Count("after.edit:"+name, 1)
		if what, diff := g.changed(res); what != "" {
			c.Fail(afterSharedStampsClassifier(t, m, diff), fmt.Sprintf("after %s returned, %s — and the result already handed out changed (%s): %s", map[bool]string{true: "Replicate", false: "Correct"}[t.After.Replicate], name, what, strings.Join(diff, " ;; ")), t)
			g = guardResult(res)
		}
	}
	if co := keep.co; co != nil {
		if co.Ext != nil {
			step("the caller changed the values of its options' extension map (bill.WithOptions)", func() {
				for k := range co.Ext {
					co.Ext[k] = "ZZ"
				}
			})
			step("the caller added a key to and emptied its options' extension map (bill.WithOptions)", func() {
				co.Ext[cbc.Key("another-key")] = "1"
				for k := range co.Ext {
					if k != "another-key" {
						delete(co.Ext, k)
					}
				}
			})
		}
		if co.IssueDate != nil {
			step("the caller changed its options' issue date through the pointer (bill.WithOptions)", func() {
				*co.IssueDate = cal.MakeDate(1999, 12, 31)
			})
		}
		step("the caller changed type, reason and series of its option struct (bill.WithOptions)", func() {
			co.Type, co.Reason, co.Series, co.CopyTax = "other-type", "other reason", "OTHER", !co.CopyTax
		})
	}
	if len(keep.st) > 0 {
		step("the caller changed provider and value of the stamps it gave", func() {
			for _, s := range keep.st {
				if s != nil {
					s.Provider, s.Value = s.Provider+"-x", s.Value+"-x"
				}
			}
		})
		step("the caller replaced the elements of the stamp slice it gave", func() {
			full := keep.st[:cap(keep.st)]
			for i := range full {
				full[i] = &head.Stamp{Provider: "replaced", Value: "replaced"}
			}
		})
	}
	if len(keep.data) > 0 {
		step("the caller overwrote the raw option bytes it gave (bill.WithData)", func() {
			for i := range keep.data {
				keep.data[i] = 'x'
			}
		})
	}
	step("the caller edited every leaf of the source envelope", func() {
		c.Count("after.source-leaves-mutated", int64(conc.Scramble(env)))
	})
}

// afterCases: complete requests on sources of every kind, the options given in every way.
func afterCases(c *core.Ctx, invoices []source) []tcase {
	var out []tcase
	n := c.Pick(96, 800)
	for i := 0; i < n; i++ {
		s := invoices[c.Rng.Intn(len(invoices))]
		env, err := parseEnv(s.data)
		if err != nil {
			continue
		}
		if i%8 == 7 {
			out = append(out, tcase{Op: "after-call", Name: "after/" + s.name, Source: string(s.data), Via: "lib", HeadStamps: [][2]string{{otherProvider, "H-OTHER"}}, After: &afterIn{Replicate: true}})
			continue
		}
		m := goDef(env)
		ty := "credit-note"
		if len(m.types) > 0 {
			ty = m.types[c.Rng.Intn(len(m.types))]
		}
		bits := c.Rng.Intn(8)
		o := optSet{Type: ty, Reason: true, Ext: true, Series: bits&1 != 0, Date: bits&2 != 0 || i%3 == 0, CopyTax: bits&4 != 0}
		fl, fo := stampLists(m, "E")
		dl, do := stampLists(m, "D")
		hl, ho := stampLists(m, "H")
		sh := stampShape{DataKind: []string{"no-data", "no-data", "absent", "list"}[c.Rng.Intn(4)]}
		if sh.DataKind == "list" {
			sh.DataList = dl[do[c.Rng.Intn(len(do))]]
		}
		sh.FuncVia = []string{"WithOptions", "WithOptions", "WithStamps", ""}[i%4]
		if sh.FuncVia != "" {
			sh.FuncKind = "list"
			sh.FuncList = fl[fo[c.Rng.Intn(len(fo))]]
			if len(m.stamps) > 0 && c.Rng.Intn(2) == 0 {
				sh.FuncList = fl["required+other"]
			}
		}
		var h [][2]string
		if c.Rng.Intn(2) == 0 || (sh.FuncVia == "" && !sh.dataHasStamps()) {
			h = hl[ho[len(ho)-1]]
			if l, ok := hl["required+other"]; ok {
				h = l
			}
		}
		sh.Label = "after-call"
		out = append(out, tcase{Op: "after-call", Name: "after/" + s.name, Source: string(s.data), Opts: o, Via: "lib", HeadStamps: h, Stamps: &sh, After: &afterIn{}})
	}
	return out
}
