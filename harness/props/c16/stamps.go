package c16

// (4) STAMP-OPTION SHAPES.  "…whose first preceding reference carries … the
// stamps the regime requires - otherwise it is refused", for "every option
// combination (… stamps …)".  A stamp can reach a correction from three
// places: the source envelope's header (any envelope may have been stamped,
// with any providers), the caller's explicit stamps (bill.WithStamps, the
// Stamps member of a bill.WithOptions struct) and the `stamps` member of raw
// options data (bill.WithData, `gobl correct -d`, bulk).  The family sweeps
// the product
//
//	header  ∈ {nothing, required, other, required+other, other+required}
//	explicit∈ {not given} ∪ {WithStamps, WithOptions} × {nil, empty, other,
//	          required, required+other, other+required, nil element+required,
//	          first required provider only}
//	data    ∈ {no data, data without `stamps`, null, [], other, required,
//	          other+required}
//
// on sources of every definition that requires stamps (and a few that do
// not), the rest of the request being complete.  Every place carries its own
// value, so the result shows which one was used.
//
// Precedence the unchanged code implements (prepareCorrectionOptions,
// validatePrecedingData), stated here as the rule of the oracle:
//
//   - raw data "overrides any of the other options": when the data has a
//     `stamps` member (whatever its value), the stamps on offer are exactly
//     that list — explicit stamps and header stamps are no longer visible;
//   - otherwise the stamps on offer are the explicit ones followed by the
//     header's;
//   - for every required provider, in the definition's order, the FIRST stamp
//     on offer with that provider goes into preceding[0].stamps; a provider
//     without one refuses the correction with `missing stamp`; nothing else
//     goes into preceding[0].stamps.
//
// Judged on the Go output (refused although every required stamp is on
// offer; produced although one is missing; preceding stamps other than the
// first on offer per required provider), then compared with the model
// (`Envelope.correct`: option stamps ++ header stamps, `collectStamps`).

import (
	"encoding/json"
	"fmt"
	"strings"

	"github.com/invopop/gobl"
	"github.com/invopop/gobl/bill"
	"github.com/invopop/gobl/cal"
	"github.com/invopop/gobl/cbc"
	"github.com/invopop/gobl/head"
	"github.com/invopop/gobl/schema"
	"github.com/invopop/gobl/tax"

	"verifharness/internal/core"
)

const otherProvider = "stamp-other"

// stampShape: where the stamps of one case come from.  A nil element of an
// explicit list is written as the pair {"<nil>", ""}.
type stampShape struct {
	Label    string      `json:"label"`
	FuncVia  string      `json:"explicit_via"`  // "" | WithStamps | WithOptions
	FuncKind string      `json:"explicit_kind"` // nil | empty | list
	FuncList [][2]string `json:"explicit,omitempty"`
	DataKind string      `json:"data_kind"` // no-data | absent | null | empty | list
	DataList [][2]string `json:"data_stamps,omitempty"`
}

func stampPtrs(ps [][2]string) []*head.Stamp {
	out := make([]*head.Stamp, 0, len(ps))
	for _, p := range ps {
		if p[0] == "<nil>" {
			out = append(out, nil)
			continue
		}
		out = append(out, &head.Stamp{Provider: cbc.Key(p[0]), Value: p[1]})
	}
	return out
}

func (s *stampShape) funcStamps() []*head.Stamp {
	switch s.FuncKind {
	case "nil":
		return nil
	case "empty":
		return []*head.Stamp{}
	}
	return stampPtrs(s.FuncList)
}

func (s *stampShape) dataHasStamps() bool {
	return s.DataKind == "null" || s.DataKind == "empty" || s.DataKind == "list"
}

// offered: the stamps on offer under the stated precedence, and the two parts
// of the model request (explicit list, header list).
func (s *stampShape) offered(header [][2]string) (all, explicit, hdr [][2]string) {
	if s.dataHasStamps() {
		if s.DataKind == "list" {
			explicit = s.DataList
		}
		return explicit, explicit, nil
	}
	if s.FuncVia != "" && s.FuncKind == "list" {
		for _, p := range s.FuncList {
			if p[0] != "<nil>" {
				explicit = append(explicit, p)
			}
		}
	}
	all = append(append(all, explicit...), header...)
	return all, explicit, header
}

func stampsJSON(ps [][2]string) []map[string]string {
	out := []map[string]string{}
	for _, p := range ps {
		out = append(out, map[string]string{"prv": p[0], "val": p[1]})
	}
	return out
}

// stampData: the raw options of the case (the documented members given in
// `with`, plus the `stamps` member in the case's shape).
func (s *stampShape) stampData(o optSet, m mergedDef, with bool) []byte {
	j := map[string]any{}
	if with {
		o.StampsOpt = false
		_ = json.Unmarshal(optionsJSON(o, m), &j)
	}
	switch s.DataKind {
	case "null":
		j["stamps"] = nil
	case "empty":
		j["stamps"] = []any{}
	case "list":
		j["stamps"] = stampsJSON(s.DataList)
	}
	b, _ := json.Marshal(j)
	return b
}

// callerOptions: the values a caller keeps after the call (option struct, raw data bytes).
type callerOptions struct {
	co   *bill.CorrectionOptions
	data []byte
	st   []*head.Stamp
}

// stampOptions builds the option list of a stamp-shape case.
func stampOptions(t tcase, m mergedDef) ([]schema.Option, *callerOptions) {
	s := t.Stamps
	o := t.Opts
	o.StampsOpt, o.ViaData = false, false
	keep := &callerOptions{}
	if s.FuncVia == "WithOptions" {
		co := &bill.CorrectionOptions{Type: cbc.Key(o.Type), CopyTax: o.CopyTax}
		if o.Reason {
			co.Reason = optReason
		}
		if o.Ext {
			if k, v := extFor(m); k != "" {
				co.Ext = tax.Extensions{cbc.Key(k): cbc.Code(v)}
			}
		}
		if o.Series {
			co.Series = optSeries
		}
		if o.Date {
			d := cal.MakeDate(2030, 1, 15)
			co.IssueDate = &d
		}
		co.Stamps = s.funcStamps()
		keep.co, keep.st = co, co.Stamps
		out := []schema.Option{bill.WithOptions(co)}
		if s.DataKind != "no-data" {
			keep.data = s.stampData(o, m, false)
			out = append(out, bill.WithData(keep.data))
		}
		return out, keep
	}
	var out []schema.Option
	if s.DataKind == "no-data" {
		out = optionFuncs(o, m)
	} else {
		keep.data = s.stampData(o, m, true)
		out = []schema.Option{bill.WithData(keep.data)}
	}
	if s.FuncVia == "WithStamps" {
		keep.st = s.funcStamps()
		out = append(out, bill.WithStamps(keep.st))
	}
	return out, keep
}

// caseOptions: the option list of any library correction case.
func caseOptions(t tcase, m mergedDef) []schema.Option {
	if t.Stamps != nil {
		out, _ := stampOptions(t, m)
		return out
	}
	return optionFuncs(t.Opts, m)
}

// caseModelReq: the model request of any library correction case.
func caseModelReq(t tcase, s srcInfo, m mergedDef, hs [][2]string, today string) string {
	if t.Stamps == nil {
		return modelCorrectReq(s, t.Opts, m, hs, today)
	}
	_, explicit, hdr := t.Stamps.offered(hs)
	o := t.Opts
	o.StampsOpt = false
	return modelCorrectReqStamps(s, o, m, explicit, hdr, today)
}

// judgeStamps: the statement about stamps on the Go output.
func judgeStamps(c *core.Ctx, t tcase, out libOutcome, m mergedDef) {
	var header [][2]string
	if env, _, err := prepare(t); err == nil {
		for _, s := range env.Head.Stamps {
			header = append(header, [2]string{s.Provider.String(), s.Value})
		}
	}
	all, _, _ := t.Stamps.offered(header)
	var want [][2]string
	missing := ""
	for _, k := range m.stamps {
		found := false
		for _, p := range all {
			if p[0] == k {
				want = append(want, p)
				found = true
				break
			}
		}
		if !found && missing == "" {
			missing = k
		}
	}
	c.Count(fmt.Sprintf("stamps.header=%s explicit=%s:%s data=%s", headerLabel(header, m), orDash(t.Stamps.FuncVia), orDash(t.Stamps.FuncKind+labelOf(t.Stamps.FuncList, m)), t.Stamps.DataKind+labelOf(t.Stamps.DataList, m)), 1)
	desc := fmt.Sprintf("required %v; source header stamps %v; explicit stamps (%s, %s) %v; raw data stamps (%s) %v", m.stamps, header, orDash(t.Stamps.FuncVia), orDash(t.Stamps.FuncKind), t.Stamps.FuncList, t.Stamps.DataKind, t.Stamps.DataList)
	switch {
	case out.class == "missing-stamp" && missing == "":
		c.Count("stamps.verdict:refused-though-on-offer", 1)
		c.Fail("", "correction refused with `missing stamp` although every stamp the definition requires is on offer: "+desc, t)
	case out.class == "ok" && missing != "":
		c.Count("stamps.verdict:produced-though-missing", 1)
		c.Fail("", fmt.Sprintf("correction produced although no stamp of the required provider %s is on offer: %s", missing, desc), t)
	case out.class == "ok" && out.res != nil:
		c.Count("stamps.verdict:produced", 1)
		inv, ok := out.res.Extract().(*bill.Invoice)
		if !ok || len(inv.Preceding) == 0 || inv.Preceding[0] == nil {
			return // reported by the shape comparison
		}
		var got [][2]string
		for _, s := range inv.Preceding[0].Stamps {
			if s == nil {
				got = append(got, [2]string{"<nil>", ""})
				continue
			}
			got = append(got, [2]string{s.Provider.String(), s.Value})
		}
		if fmt.Sprint(got) != fmt.Sprint(want) {
			c.Fail("", fmt.Sprintf("preceding[0].stamps %v are not the first stamp on offer of every required provider %v: %s", got, want, desc), t)
		}
	case out.class == "missing-stamp":
		c.Count("stamps.verdict:refused-missing:"+missing, 1)
	default:
		c.Count("stamps.verdict:other-outcome:"+strings.SplitN(out.class, ":", 2)[0], 1)
	}
}

func labelOf(ps [][2]string, m mergedDef) string {
	if len(ps) == 0 {
		return ""
	}
	var sb strings.Builder
	sb.WriteString("[")
	for i, p := range ps {
		if i > 0 {
			sb.WriteString(",")
		}
		switch {
		case p[0] == "<nil>":
			sb.WriteString("nil")
		case p[0] == otherProvider:
			sb.WriteString("other")
		default:
			sb.WriteString("required")
		}
	}
	sb.WriteString("]")
	return sb.String()
}

func headerLabel(ps [][2]string, m mergedDef) string {
	if len(ps) == 0 {
		return "none"
	}
	return labelOf(ps, m)
}

// stampLists: the lists one place can hold, each value marked with the place.
func stampLists(m mergedDef, mark string) (lists map[string][][2]string, order []string) {
	lists = map[string][][2]string{}
	var req [][2]string
	for _, p := range m.stamps {
		req = append(req, [2]string{p, mark + "-" + stampVal})
	}
	other := [2]string{otherProvider, mark + "-OTHER"}
	add := func(name string, l [][2]string) {
		lists[name] = l
		order = append(order, name)
	}
	add("other", [][2]string{other})
	if len(req) > 0 {
		add("required", req)
		add("required+other", append(append([][2]string{}, req...), other))
		add("other+required", append([][2]string{other}, req...))
		if len(req) > 1 {
			add("first-required-only", req[:1])
		}
	}
	return
}

// stampCases: sources of every definition that requires stamps (a few that
// do not), each with the product of the three places.
func stampCases(c *core.Ctx, invoices []source) []tcase {
	var with, without []source
	for _, s := range invoices {
		env, err := parseEnv(s.data)
		if err != nil {
			continue
		}
		if inv, ok := env.Extract().(*bill.Invoice); !ok || inv.Code == "" {
			continue
		}
		if len(goDef(env).stamps) > 0 {
			with = append(with, s)
		} else {
			without = append(without, s)
		}
	}
	c.Rng.Shuffle(len(with), func(i, j int) { with[i], with[j] = with[j], with[i] })
	c.Rng.Shuffle(len(without), func(i, j int) { without[i], without[j] = without[j], without[i] })
	// one source per distinct required-provider list first, then more
	seen := map[string]bool{}
	var chosen []source
	var rest []source
	for _, s := range with {
		env, _ := parseEnv(s.data)
		k := fmt.Sprint(goDef(env).stamps)
		if !seen[k] {
			seen[k] = true
			chosen = append(chosen, s)
		} else {
			rest = append(rest, s)
		}
	}
	nMore, nWithout := c.Pick(3, 40), c.Pick(2, 10)
	for i := 0; i < len(rest) && i < nMore; i++ {
		chosen = append(chosen, rest[i])
	}
	for i := 0; i < len(without) && i < nWithout; i++ {
		chosen = append(chosen, without[i])
	}
	var out []tcase
	for _, s := range chosen {
		env, _ := parseEnv(s.data)
		m := goDef(env)
		ty := "credit-note"
		if len(m.types) > 0 {
			ty = m.types[c.Rng.Intn(len(m.types))]
		}
		hl, ho := stampLists(m, "H")
		fl, fo := stampLists(m, "E")
		dl, do := stampLists(m, "D")
		headers := [][][2]string{nil}
		for _, n := range ho {
			if n != "first-required-only" {
				headers = append(headers, hl[n])
			}
		}
		var funcs []stampShape
		funcs = append(funcs, stampShape{})
		for _, via := range []string{"WithStamps", "WithOptions"} {
			funcs = append(funcs, stampShape{FuncVia: via, FuncKind: "nil"}, stampShape{FuncVia: via, FuncKind: "empty"})
			for _, n := range fo {
				funcs = append(funcs, stampShape{FuncVia: via, FuncKind: "list", FuncList: fl[n]})
			}
			if l, ok := fl["required"]; ok {
				funcs = append(funcs, stampShape{FuncVia: via, FuncKind: "list", FuncList: append([][2]string{{"<nil>", ""}}, l...)})
			}
		}
		datas := []stampShape{{DataKind: "no-data"}, {DataKind: "absent"}, {DataKind: "null"}, {DataKind: "empty"}}
		for _, n := range do {
			if n == "required+other" || n == "first-required-only" {
				continue
			}
			datas = append(datas, stampShape{DataKind: "list", DataList: dl[n]})
		}
		for _, h := range headers {
			for _, f := range funcs {
				for _, d := range datas {
					sh := f
					sh.DataKind, sh.DataList = d.DataKind, d.DataList
					sh.Label = fmt.Sprintf("header=%s explicit=%s:%s%s data=%s%s", headerLabel(h, m), orDash(f.FuncVia), f.FuncKind, labelOf(f.FuncList, m), d.DataKind, labelOf(d.DataList, m))
					bits := c.Rng.Intn(8)
					o := optSet{Type: ty, Reason: true, Ext: true, Series: bits&1 != 0, Date: bits&2 != 0, CopyTax: bits&4 != 0}
					out = append(out, tcase{Op: "correct", Name: "stamps/" + s.name, Source: string(s.data), Opts: o, Via: "lib", HeadStamps: h, Stamps: &sh})
				}
			}
		}
	}
	c.Count("stamps.sources", int64(len(chosen)))
	return out
}

var _ = gobl.NewEnvelope
