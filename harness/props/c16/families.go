package c16

// Generic families added for the option-data path and the source shapes.
//
// (1) SOURCE SHAPES.  "whose first preceding reference carries the source's
//     identifier, type, series, code and issue date" is stated for all valid
//     invoices: the sweep adds sources whose series and code stand in every
//     relation two codes can have (code starting with the series and each
//     separator of the code syntax, code = series, series containing
//     separators, case variants, lengths at the limits of the syntax) and
//     identifiers in several uuid versions.  They go through the same model
//     comparison as every other source.
//
// (2) MEMBERS BEYOND THE DOCUMENTED OPTIONS.  The options arrive as a raw
//     JSON object from outside (bill.WithData, `gobl correct -d`, bulk).
//     "never changes the source envelope, document, header" holds whatever
//     that object contains, and the correction is a function of the source
//     and the documented options.  For every field of the Go options structs
//     (reflect, embedded structs flattened) in every spelling a JSON decoder
//     may accept (tag, Go name, lower case, snake case, upper case) and for
//     every member name of the source envelope, its header and its document,
//     the options get one more member whose value has the field's type, is
//     taken from the source itself and altered.  Oracle: source bytes and
//     deep structure identical before/after; the result equals (fresh
//     identifiers aside) the result of the call without that member — or,
//     when the name is a case variant of a documented option, of the call
//     with the documented spelling.

import (
	"bytes"
	"encoding/json"
	"fmt"
	"os"
	"path/filepath"
	"reflect"
	"regexp"
	"sort"
	"strings"
	"sync"
	"time"
	"unicode"

	"github.com/invopop/gobl"
	"github.com/invopop/gobl/bill"
	"github.com/invopop/gobl/cbc"
	"github.com/invopop/gobl/head"
	"github.com/invopop/gobl/uuid"

	"verifharness/internal/clibin"
	"verifharness/internal/core"
)

/* ---------- (1) source shapes ---------- */

var codeSeparators = []string{".", "-", "/", " ", "_", ":"} // cbc.CodePattern

type seriesCode struct{ label, series, code string }

func seriesCodeShapes() []seriesCode {
	var out []seriesCode
	for _, sep := range codeSeparators {
		out = append(out, seriesCode{"code=series+sep+number", "RE24", "RE24" + sep + "00017"})
		out = append(out, seriesCode{"series-with-sep,code=series+sep+number", "F" + sep + "1", "F" + sep + "1" + sep + "0042"})
		out = append(out, seriesCode{"code=number+sep+series", "RE24", "00017" + sep + "RE24"})
	}
	out = append(out,
		seriesCode{"code=series", "RE24", "RE24"},
		seriesCode{"code=series+number", "RE24", "RE2400017"},
		seriesCode{"code=lower(series)+sep+number", "RE24", "re24-00017"},
		seriesCode{"lower-series,code=upper(series)+sep+number", "re24", "RE24-00017"},
		seriesCode{"series=code+sep+x", "A-1", "A"},
		seriesCode{"one-character", "A", "A-1"},
		seriesCode{"one-character-both", "1", "1"},
		seriesCode{"no-series,code-with-seps", "", "X1.Y2-Z3/44 55_66:77"},
		seriesCode{"max-length", strings.Repeat("S", 32), strings.Repeat("S", 29) + "-01"},
		seriesCode{"max-length-code=series+sep", "ABCDEFGHIJ", "ABCDEFGHIJ-" + strings.Repeat("9", 21)},
		seriesCode{"to-be-normalised", " RE24 ", "RE24--00017"},
	)
	return out
}

// shapeSources derives sources from example invoices: series/code relations
// and uuid versions; the document is recalculated (so it is in the state
// Calculate leaves it in, like every example) and kept when that succeeds.
func shapeSources(c *core.Ctx, invoices []source) []source {
	var base []source
	seen := map[string]bool{}
	for _, i := range c.Rng.Perm(len(invoices)) {
		s := invoices[i]
		if strings.HasPrefix(s.name, "x/") {
			continue
		}
		env, err := parseEnv(s.data)
		if err != nil || env.Validate() != nil {
			continue
		}
		rc := string(env.Extract().(*bill.Invoice).GetRegime())
		if seen[rc] {
			continue
		}
		seen[rc] = true
		base = append(base, s)
		if len(base) >= c.Pick(6, 40) {
			break
		}
	}
	uuids := map[string]func() uuid.UUID{"v1": uuid.V1, "v4": uuid.V4, "v7": uuid.V7}
	var out []source
	shapes := seriesCodeShapes()
	for bi, s := range base {
		for si, sh := range shapes {
			if !c.Thorough() && (si+bi)%2 == 1 && bi > 1 {
				continue
			}
			env, _ := parseEnv(s.data)
			inv := env.Extract().(*bill.Invoice)
			inv.Series, inv.Code = cbc.Code(sh.series), cbc.Code(sh.code)
			ver := []string{"v1", "v4", "v7"}[(si+bi)%3]
			inv.UUID = uuids[ver]()
			ok := true
			if p := core.Protect(func() { ok = env.Calculate() == nil }); p != "" || !ok {
				c.Count("source.shape.calculation-failed(dropped)", 1)
				continue
			}
			if env.Validate() == nil {
				c.Count("source.shape.valid", 1)
			} else {
				c.Count("source.shape.invalid(kept: Correct does not require validity)", 1)
			}
			c.Count("source.shape:"+sh.label, 1)
			c.Count("source.shape.uuid:"+ver, 1)
			b, _ := json.Marshal(env)
			out = append(out, source{fmt.Sprintf("shape/%s[%s|%s]", s.name, sh.series, sh.code), b})
		}
	}
	return out
}

// shapeOptSets: complete requests (so that a correction is produced) and a few subsets.
func shapeOptSets(c *core.Ctx, m mergedDef) []optSet {
	ty := "credit-note"
	if len(m.types) > 0 {
		ty = m.types[c.Rng.Intn(len(m.types))]
	}
	return []optSet{
		{Type: ty, Reason: true, Ext: true, StampsOpt: true},
		{Type: ty, Reason: true, Ext: true, StampsHead: true, Series: true, Date: true, CopyTax: true, ViaData: true},
		{Type: ty, Reason: true, Ext: true, StampsOpt: true, Series: c.Rng.Intn(2) == 0, CopyTax: c.Rng.Intn(2) == 0, ViaData: c.Rng.Intn(2) == 0},
	}
}

/* ---------- (2) members beyond the documented options ---------- */

type extraIn struct {
	Name   string          `json:"name"`
	Value  json.RawMessage `json:"value"`
	Origin string          `json:"origin"`
}

type optField struct {
	goName string
	tag    string // JSON name a documented option has ("" = none)
	typ    reflect.Type
}

// optionFields flattens the exported fields of the options struct, embedded structs included.
func optionFields(t reflect.Type, out *[]optField) {
	for i := 0; i < t.NumField(); i++ {
		f := t.Field(i)
		if f.Anonymous && f.Type.Kind() == reflect.Struct {
			*out = append(*out, optField{goName: f.Name, typ: f.Type})
			optionFields(f.Type, out)
			continue
		}
		if !f.IsExported() {
			*out = append(*out, optField{goName: f.Name, typ: f.Type}) // the name may still be tried from outside
			continue
		}
		tag := strings.Split(f.Tag.Get("json"), ",")[0]
		if tag == "-" {
			tag = ""
		} else if tag == "" {
			tag = f.Name
		}
		*out = append(*out, optField{goName: f.Name, tag: tag, typ: f.Type})
	}
}

func documentedNames() []string {
	var fs []optField
	optionFields(reflect.TypeOf(bill.CorrectionOptions{}), &fs)
	var out []string
	for _, f := range fs {
		if f.tag != "" {
			out = append(out, f.tag)
		}
	}
	return out
}

func snake(s string) string {
	var sb strings.Builder
	for i, r := range s {
		if unicode.IsUpper(r) && i > 0 {
			sb.WriteByte('_')
		}
		sb.WriteRune(unicode.ToLower(r))
	}
	return sb.String()
}

func spellings(f optField) []string {
	set := map[string]bool{}
	for _, n := range []string{f.tag, f.goName, strings.ToLower(f.goName), snake(f.goName), strings.ToUpper(f.goName), strings.ToUpper(f.tag), strings.Title(f.tag)} { //nolint:staticcheck
		if n != "" {
			set[n] = true
		}
	}
	var out []string
	for n := range set {
		out = append(out, n)
	}
	sort.Strings(out)
	return out
}

// findByType: first non-zero value inside v whose type is t (pointer and element variants alike).
func findByType(v reflect.Value, t reflect.Type, depth int) (reflect.Value, bool) {
	if depth > 12 || !v.IsValid() {
		return reflect.Value{}, false
	}
	same := func(a, b reflect.Type) bool {
		for a.Kind() == reflect.Ptr {
			a = a.Elem()
		}
		for b.Kind() == reflect.Ptr {
			b = b.Elem()
		}
		return a == b
	}
	if same(v.Type(), t) && !v.IsZero() && v.CanInterface() {
		return v, true
	}
	switch v.Kind() {
	case reflect.Ptr, reflect.Interface:
		if v.IsNil() {
			return reflect.Value{}, false
		}
		return findByType(v.Elem(), t, depth+1)
	case reflect.Struct:
		for i := 0; i < v.NumField(); i++ {
			if !v.Type().Field(i).IsExported() {
				continue
			}
			if r, ok := findByType(v.Field(i), t, depth+1); ok {
				return r, true
			}
		}
	case reflect.Slice, reflect.Array:
		for i := 0; i < v.Len(); i++ {
			if r, ok := findByType(v.Index(i), t, depth+1); ok {
				return r, true
			}
		}
	case reflect.Map:
		keys := v.MapKeys()
		sort.Slice(keys, func(i, j int) bool { return fmt.Sprint(keys[i]) < fmt.Sprint(keys[j]) })
		for _, k := range keys {
			if r, ok := findByType(v.MapIndex(k), t, depth+1); ok {
				return r, true
			}
		}
	}
	return reflect.Value{}, false
}

var (
	uuidRe = regexp.MustCompile(`^[0-9a-fA-F]{8}-[0-9a-fA-F]{4}-[0-9a-fA-F]{4}-[0-9a-fA-F]{4}-[0-9a-fA-F]{12}$`)
	dateRe = regexp.MustCompile(`^\d{4}-\d{2}-\d{2}`)
	numRe  = regexp.MustCompile(`^-?[0-9.]+%?$`)
)

// alter changes every leaf it can while keeping the value's JSON type and format.
func alter(v any) any {
	switch x := v.(type) {
	case map[string]any:
		out := map[string]any{}
		for k, e := range x {
			out[k] = alter(e)
		}
		return out
	case []any:
		out := make([]any, len(x))
		for i, e := range x {
			out[i] = alter(e)
		}
		return out
	case string:
		switch {
		case uuidRe.MatchString(x):
			last := x[len(x)-1]
			if last == '0' {
				return x[:len(x)-1] + "1"
			}
			return x[:len(x)-1] + "0"
		case dateRe.MatchString(x), numRe.MatchString(x), strings.HasPrefix(x, "http"):
			return x
		}
		return x + "-x"
	case bool:
		return !x
	}
	return v
}

func zeroJSON(t reflect.Type) any {
	for t.Kind() == reflect.Ptr {
		t = t.Elem()
	}
	switch t.Kind() {
	case reflect.String:
		return "x"
	case reflect.Bool:
		return true
	case reflect.Slice, reflect.Array:
		return []any{}
	case reflect.Struct, reflect.Map:
		return map[string]any{}
	}
	return 1
}

// extraMembers lists the members to try on a prepared source.
func extraMembers(env *gobl.Envelope) []extraIn {
	var out []extraIn
	root := reflect.ValueOf(env)
	var fs []optField
	optionFields(reflect.TypeOf(bill.CorrectionOptions{}), &fs)
	for _, f := range fs {
		var val any = zeroJSON(f.typ)
		if v, ok := findByType(root, f.typ, 0); ok {
			if b, err := json.Marshal(v.Interface()); err == nil {
				var j any
				if json.Unmarshal(b, &j) == nil && j != nil {
					val = alter(j)
				}
			}
		}
		b, _ := json.Marshal(val)
		for _, n := range spellings(f) {
			out = append(out, extraIn{Name: n, Value: b, Origin: "options-field:" + f.goName})
		}
	}
	// member names of the envelope, its header and its document, with the source's own value altered
	b, _ := json.Marshal(env)
	var em map[string]any
	_ = json.Unmarshal(b, &em)
	add := func(origin string, m map[string]any) {
		keys := make([]string, 0, len(m))
		for k := range m {
			keys = append(keys, k)
		}
		sort.Strings(keys)
		for _, k := range keys {
			vb, _ := json.Marshal(alter(m[k]))
			out = append(out, extraIn{Name: k, Value: vb, Origin: origin})
		}
	}
	add("envelope", em)
	if h, ok := em["head"].(map[string]any); ok {
		add("header", h)
	}
	if d, ok := em["doc"].(map[string]any); ok {
		add("document", d)
	}
	return out
}

// extraOptions: the options with the extra member and the reference options.
func extraOptions(base []byte, x *extraIn) (with, ref []byte, ok bool) {
	var m map[string]json.RawMessage
	if json.Unmarshal(base, &m) != nil {
		return nil, nil, false
	}
	for k := range m {
		if strings.EqualFold(k, x.Name) {
			return nil, nil, false // the base already sets this option
		}
	}
	canonical := ""
	for _, d := range documentedNames() {
		if strings.EqualFold(d, x.Name) {
			canonical = d
		}
	}
	m[x.Name] = x.Value
	with, _ = json.Marshal(m)
	delete(m, x.Name)
	if canonical != "" {
		m[canonical] = x.Value
	}
	ref, _ = json.Marshal(m)
	return with, ref, true
}

// canonResult: the envelope without what is fresh in every call.
func canonResult(data []byte) string {
	var m map[string]any
	if json.Unmarshal(data, &m) != nil {
		return "unparsable: " + string(data)
	}
	if h, ok := m["head"].(map[string]any); ok {
		delete(h, "uuid")
		delete(h, "dig")
	}
	if d, ok := m["doc"].(map[string]any); ok {
		delete(d, "uuid")
	}
	b, _ := json.Marshal(m)
	return string(b)
}

func firstDiff(a, b string) string {
	i := 0
	for i < len(a) && i < len(b) && a[i] == b[i] {
		i++
	}
	lo := i - 60
	if lo < 0 {
		lo = 0
	}
	cut := func(s string) string {
		hi := i + 100
		if hi > len(s) {
			hi = len(s)
		}
		if lo > len(s) {
			return ""
		}
		return s[lo:hi]
	}
	return fmt.Sprintf("…%s… vs …%s…", cut(a), cut(b))
}

func runExtraLib(c *core.Ctx, t tcase) {
	env, m, err := prepare(t)
	if err != nil {
		c.Count("skipped.unparsable-source", 1)
		return
	}
	with, ref, ok := extraOptions(optionsJSON(t.Opts, m), t.Extra)
	if !ok {
		c.Count("extra.skipped(base sets the option)", 1)
		return
	}
	src := describe(env)
	c.Eval(fmt.Sprintf("extra|%s|%v|%s|%s|%d", src.regime, src.addons, t.Extra.Origin, t.Extra.Name, len(env.Head.Stamps)), true)
	c.Count("extra.lib.origin:"+strings.SplitN(t.Extra.Origin, ":", 2)[0], 1)
	c.Count(fmt.Sprintf("extra.lib.source-header-stamps:%d", len(env.Head.Stamps)), 1)
	g := guard(env)
	var res, res2 *gobl.Envelope
	var cerr, cerr2 error
	if site, msg, _ := core.ProtectSite(func() { res, cerr = env.Correct(bill.WithData(with)) }); site != "" {
		c.Fail("", fmt.Sprintf("correct with the options %s panicked at %s: %s", with, site, msg), t)
		return
	}
	if what, diff := g.changed(env); what != "" {
		c.Fail("", fmt.Sprintf("correct with the raw options %s changed the source envelope (%s): %s", with, what, strings.Join(diff, " ;; ")), t)
		return
	}
	env2, _, _ := prepare(t)
	if p := core.Protect(func() { res2, cerr2 = env2.Correct(bill.WithData(ref)) }); p != "" {
		return // the sweep reports panics
	}
	c.Count("extra.lib.outcome:"+strings.SplitN(errClass(cerr), ":", 2)[0], 1)
	if errClass(cerr) != errClass(cerr2) {
		c.Fail("", fmt.Sprintf("the member %q (not a documented option) in the raw options changes the outcome: %s with %s, %s with %s", t.Extra.Name, errClass(cerr), with, errClass(cerr2), ref), t)
		return
	}
	if cerr != nil {
		return
	}
	a, _ := json.Marshal(res)
	b, _ := json.Marshal(res2)
	if ca, cb := canonResult(a), canonResult(b); ca != cb {
		c.Fail("", fmt.Sprintf("the member %q (not a documented option) in the raw options changes the correction: with %s / with %s: %s", t.Extra.Name, with, ref, firstDiff(ca, cb)), t)
		return
	}
}

func runExtraExternal(c *core.Ctx, cases []tcase, goblBin string) {
	if len(cases) == 0 {
		return
	}
	home, err := os.MkdirTemp("", "c16-home-")
	if err != nil {
		c.TieBroken("cli", err.Error(), nil)
		return
	}
	defer os.RemoveAll(home) //nolint:errcheck
	if r := clibin.Run(goblBin, home, nil, 30*time.Second, "keygen", filepath.Join(home, "key.jwk")); r.Code != 0 {
		c.TieBroken("cli", "keygen: "+r.Err, nil)
		return
	}
	var srv *clibin.Server
	for _, t := range cases {
		if t.Via == "bulk" {
			srv, err = clibin.Serve(goblBin, home, 4)
			if err != nil {
				c.TieBroken("bulk", err.Error(), nil)
				return
			}
			defer srv.Stop()
			break
		}
	}
	call := func(t tcase, input, opts []byte) (string, int, bool) {
		if t.Via == "cli" {
			r := clibin.Run(goblBin, home, input, 60*time.Second, "correct", "-d", string(opts))
			if r.TimedOut {
				return "", 0, false
			}
			if r.Code != 0 {
				var ce cliError
				_ = json.Unmarshal([]byte(r.Err), &ce)
				return "refused: " + ce.Key + " " + ce.Message, r.Code, true
			}
			return canonResult([]byte(r.Out)), 0, true
		}
		req, _ := json.Marshal(map[string]any{"action": "correct", "req_id": "x", "payload": map[string]any{"data": input, "options": opts}})
		raw, err := srv.Bulk(req, 60*time.Second)
		if err != nil {
			return "", 0, false
		}
		var first struct {
			Payload json.RawMessage `json:"payload"`
			Error   json.RawMessage `json:"error"`
		}
		_ = json.NewDecoder(bytes.NewReader(raw)).Decode(&first)
		if len(first.Error) > 0 && string(first.Error) != "null" {
			var ce cliError
			_ = json.Unmarshal(first.Error, &ce)
			return "refused: " + ce.Key + " " + ce.Message, 1, true
		}
		return canonResult(first.Payload), 0, true
	}
	var wg sync.WaitGroup
	sem := make(chan struct{}, 8)
	var mu sync.Mutex
	for _, t := range cases {
		wg.Add(1)
		sem <- struct{}{}
		go func(t tcase) {
			defer wg.Done()
			defer func() { <-sem }()
			env, m, err := prepare(t)
			if err != nil {
				return
			}
			with, ref, ok := extraOptions(optionsJSON(t.Opts, m), t.Extra)
			if !ok {
				return
			}
			input, _ := json.Marshal(env)
			a, _, ok1 := call(t, input, with)
			b, _, ok2 := call(t, input, ref)
			mu.Lock()
			defer mu.Unlock()
			if !ok1 || !ok2 {
				c.Fail("", t.Via+" correct hung or failed to answer", t)
				return
			}
			c.Eval(fmt.Sprintf("extra|%s|%s|%s", t.Via, t.Name, t.Extra.Name), true)
			c.Count("extra."+t.Via, 1)
			if strings.HasPrefix(a, "refused") {
				c.Count("extra."+t.Via+".refused", 1)
			}
			if a != b {
				c.Fail("", fmt.Sprintf("%s correct: the member %q (not a documented option) in the options changes the result: with %s / with %s: %s", t.Via, t.Extra.Name, with, ref, firstDiff(a, b)), t)
			}
		}(t)
	}
	wg.Wait()
}

// extraCases: sources with and without header stamps x every member.
func extraCases(c *core.Ctx, invoices []source) []tcase {
	var out []tcase
	nSrc := c.Pick(10, 60)
	perm := c.Rng.Perm(len(invoices))
	if len(perm) > nSrc {
		perm = perm[:nSrc]
	}
	for k, i := range perm {
		s := invoices[i]
		t := tcase{Op: "correct-extra", Name: s.name, Source: string(s.data), Via: "lib"}
		env, err := parseEnv(s.data)
		if err != nil {
			continue
		}
		m := goDef(env)
		ty := "credit-note"
		if len(m.types) > 0 {
			ty = m.types[c.Rng.Intn(len(m.types))]
		}
		t.Opts = optSet{Type: ty, Reason: true, Ext: true, StampsHead: true, ViaData: true, CopyTax: k%3 == 0, Series: k%4 == 0}
		if k%4 != 3 {
			// any envelope may have been stamped, whatever its regime asks for
			t.HeadStamps = [][2]string{{"stamp-a", "A-0001"}}
			if k%2 == 0 {
				t.HeadStamps = append(t.HeadStamps, [2]string{"stamp-b", "B-0002"})
			}
		}
		penv, _, err := prepare(t)
		if err != nil {
			continue
		}
		members := extraMembers(penv)
		for j, x := range members {
			x := x
			tc := t
			tc.Extra = &x
			out = append(out, tc)
			// a sample through the command line and the bulk service
			if (j+k)%29 == 0 || (c.Thorough() && (j+k)%7 == 0) {
				te := tc
				te.Via = "cli"
				if (j/29+k)%2 == 0 {
					te.Via = "bulk"
				}
				out = append(out, te)
			}
		}
	}
	return out
}

// installHeadStamps adds the case's own header stamps.
func installHeadStamps(env *gobl.Envelope, hs [][2]string) {
	for _, p := range hs {
		env.Head.AddStamp(&head.Stamp{Provider: cbc.Key(p[0]), Value: p[1]})
	}
}
